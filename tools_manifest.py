#!/usr/bin/env python3
"""Regenerate MANIFEST.json from harness/manifest_data.py (keeps it valid)."""
import json, os, sys
HERE = os.path.dirname(os.path.abspath(__file__))
sys.path.insert(0, os.path.join(HERE, "harness"))
import manifest_data as md

props = [json.loads(l) for l in open(os.path.join(HERE, "properties.jsonl"))]
ids = [p["id"] for p in props]
checks, na = [], []
for pid in ids:
    c = md.CHECKS.get(pid)
    if c is None:
        na.append({"property_id": pid, "reason": md.NOT_APPLICABLE.get(
            pid, "no check registered yet: the Coq model and harness for this "
            "property are still being built (see DESIGN.md section 5)")})
        continue
    checks.append({
        "property_id": pid,
        "quick_cmd": f"./check {pid} --tier quick",
        "thorough_cmd": f"./check {pid} --tier thorough",
        "evidence_file": f"/verif/evidence/{pid}.json",
        "replay_cmd_template": f"./check {pid} --replay {{path}}",
        "engine": "coq-model+correspondence",
        "level_claimed": {"category": "proof", "text": c["text"],
                          "design_ref": c["design_ref"]},
        "level_note": c["note"],
        "technique": c["technique"],
    })
m = {
    "version": 1,
    "setup_cmd": "./check setup",
    "hooks": md.HOOKS,
    "engines": [{
        "name": "coq-model+correspondence", "path": "/verif/check",
        "serves_properties": [c["property_id"] for c in checks],
        "kind_free_text": "Coq 8.16 theorems over hand-written Gallina "
        "models and over fact files regenerated from /repo on every run; "
        "correspondence = model evaluated by vm_compute inside coqc on the "
        "inputs/outputs of the implementation; direct property search on the "
        "implementation for failing inputs"}],
    "checks": checks,
    "notes": md.NOTES,
    "not_applicable": na,
}
json.dump(m, open(os.path.join(HERE, "MANIFEST.json"), "w"), indent=1)
print(f"{len(checks)} checks, {len(na)} not claimed")
