(* C13 — data windows select exactly the requested samples; anomalies sum. *)
From Coq Require Import QArith List Bool Arith.
From PV.Base Require Import F32.
From PV.Model Require Import Window.
From PV.Proofs Require Import Window.
Import ListNotations.
Close Scope Q_scope. Close Scope Z_scope. Open Scope nat_scope.

Theorem C13_axis_window_exact lo hi vals k : k < length vals ->
  nth k (axis_mask lo hi vals) false = true <->
  (lo == hi)%Q \/ (lo <= nth k vals 0 <= hi)%Q.
Proof. exact (axis_mask_spec lo hi vals k). Qed.
Print Assumptions C13_axis_window_exact.

Theorem C13_shapes_agree tmask smask obs :
  length tmask = length obs -> (forall r, In r obs -> length r = length smask) ->
  length (window tmask smask obs) = length (filter (fun b => b) tmask) /\
  forall r, In r (window tmask smask obs) -> length r = length (filter (fun b => b) smask).
Proof. exact (window_shape tmask smask obs). Qed.
Print Assumptions C13_shapes_agree.

Theorem C13_global_window_restores obs times (lat lon : list Q) b :
  length times = length obs -> (forall r, In r obs -> length r = length lat) -> length lon = length lat ->
  window (axis_mask b b times) (space_mask false b b b b lat lon) obs = obs.
Proof. exact (global_window_restores obs times lat lon b). Qed.
Print Assumptions C13_global_window_restores.

Theorem C13_anomaly_zero_phase_mean x c i : c <> 0 -> phase_vals x c i <> [] ->
  (qsum (map (fun v => v - phase_mean x c i) (phase_vals x c i)) == 0)%Q.
Proof. exact (anomaly_zero_phase_sum x c i). Qed.
Print Assumptions C13_anomaly_zero_phase_mean.

Theorem C13_anomaly_plus_mean x c k : k < length x ->
  (nth k (anomaly x c) 0 + phase_mean x c (k mod c) == nth k x 0)%Q.
Proof. exact (anomaly_plus_mean x c k). Qed.
Print Assumptions C13_anomaly_plus_mean.

Theorem C13_anomaly_shape x c : length (anomaly x c) = length x.
Proof. exact (anomaly_length x c). Qed.
Print Assumptions C13_anomaly_shape.

Theorem C13_phase_indices n c i k : c <> 0 -> i < c -> In k (phase_indices n c i) ->
  k < n /\ k mod c = i.
Proof. exact (phase_indices_in_range n c i k). Qed.
Print Assumptions C13_phase_indices.

(* ---- the window conditions AS WRITTEN IN THE CURRENT core/data.py and the
        climatology statements of climate_data.py (regenerated on every run) ---- *)
From PV.Gen Require Import WindowK.
From PV.Proofs Require Import WindowGen.

Theorem C13_time_mask_is_model tmin tmax vals :
  map (fun v => gen_time_full tmin tmax || gen_time_in tmin tmax v) vals = axis_mask tmin tmax vals.
Proof. exact (gen_time_mask_is_model tmin tmax vals). Qed.
Print Assumptions C13_time_mask_is_model.

(* the source takes the full spatial extent as soon as EITHER pair of bounds
   coincides (the documented rule; the known finding of C13 is the strict
   per-axis reading of the property) *)
Theorem C13_space_mask_is_model latlo lathi lonlo lonhi lat lon : length lat = length lon ->
  map (fun p => gen_space_full latlo lathi lonlo lonhi
                || gen_space_in latlo lathi lonlo lonhi (fst p) (snd p)) (combine lat lon)
  = space_mask false latlo lathi lonlo lonhi lat lon.
Proof. exact (gen_space_mask_is_model latlo lathi lonlo lonhi lat lon). Qed.
Print Assumptions C13_space_mask_is_model.

Theorem C13_source_facts :
  gen_window_slicing = true /\ gen_phase_mean_by_stride = true /\
  gen_anomaly_is_minus_phase_mean = true.
Proof. exact gen_window_facts. Qed.
Print Assumptions C13_source_facts.
