(* C04 — measures do not depend on node numbering. *)
From Coq Require Import QArith Qcanon List Bool Arith Permutation.
From PV.Base Require Import Sums.
From PV.Model Require Import NsiLang Split Measures PairLoop.
From PV.Proofs Require Import NsiLang Split Measures PairLoop.
Import ListNotations.

(* -- renumbering (sp_A[idx][:, idx], node_weights[idx], attributes and groups
      renumbered with it) is a weighted pullback along idx -- *)
Theorem C04_permute_is_pullback r p :
  Permutation p (seq 0 (rn r)) ->
  pullback (to_graph (permute r p)) (to_graph r) (fun i => nth i p 0%nat).
Proof. exact (permute_is_pullback r p). Qed.
Print Assumptions C04_permute_is_pullback.

(* -- hence every term: global values equal (env = []), per-node values
      permuted (env = [i]), pairwise values permuted (env = [i; j]) -- *)
Theorem C04_relabel_invariance r p e env :
  Permutation p (seq 0 (rn r)) ->
  closed (length env) e -> Forall (fun i => (i < rn r)%nat) env ->
  eval (to_graph (permute r p)) env e =
  eval (to_graph r) (map (fun i => nth i p 0%nat) env) e.
Proof. exact (relabel_invariance r p e env). Qed.
Print Assumptions C04_relabel_invariance.

Theorem C04_catalogue_closed : forall tw B a directed,
  Forall (fun e => closedb 1 e = true) (node_measures tw B a directed) /\
  Forall (fun e => closedb 2 e = true) pair_measures /\
  Forall (fun e => closedb 0 e = true) (global_measures B).
Proof. exact catalogue_closed. Qed.
Print Assumptions C04_catalogue_closed.

(* -- split, then renumber: still a pullback (composition) -- *)
Theorem C04_pullbacks_compose G'' G' G psi phi :
  pullback G'' G' psi -> pullback G' G phi -> pullback G'' G (fun i => phi (psi i)).
Proof. exact (pullback_compose G'' G' G psi phi). Qed.
Print Assumptions C04_pullbacks_compose.

(* -- kernels that loop over unique pairs of a node list in index order
      (offset tables, triangular loops) do not depend on the order of the
      list when the summand is symmetric -- *)
Theorem C04_pair_loop_order_free f l l' :
  (forall a b, f a b = f b a) -> Permutation l l' -> pair_loop f l = pair_loop f l'.
Proof. exact (pair_loop_order_free f l l'). Qed.
Print Assumptions C04_pair_loop_order_free.

Theorem C04_pair_loop_rev f l :
  (forall a b, f a b = f b a) -> pair_loop f (rev l) = pair_loop f l.
Proof. exact (pair_loop_rev f l). Qed.
Print Assumptions C04_pair_loop_rev.
