(* C04 — measures do not depend on node numbering. *)
From Coq Require Import QArith Qcanon List Bool Arith Permutation.
From PV.Base Require Import Sums.
From PV.Model Require Import NsiLang Split Measures PairLoop MatAlg.
From PV.Proofs Require Import NsiLang Split Measures PairLoop MatAlgGen.
From PV.Gen Require Import NsiTerms.
Import ListNotations.

(* -- renumbering (sp_A[idx][:, idx], node_weights[idx], attributes and groups
      renumbered with it) is a weighted pullback along idx -- *)
Theorem C04_permute_is_pullback r p :
  Permutation p (seq 0 (rn r)) ->
  pullback (to_graph (permute r p)) (to_graph r) (fun i => nth i p 0%nat).
Proof. exact (permute_is_pullback r p). Qed.
Print Assumptions C04_permute_is_pullback.

(* -- hence every term: global values equal (env = []), per-node values
      permuted (env = [i]), pairwise values permuted (env = [i; j]) -- *)
Theorem C04_relabel_invariance r p e env :
  Permutation p (seq 0 (rn r)) ->
  closed (length env) e -> Forall (fun i => (i < rn r)%nat) env ->
  eval (to_graph (permute r p)) env e =
  eval (to_graph r) (map (fun i => nth i p 0%nat) env) e.
Proof. exact (relabel_invariance r p e env). Qed.
Print Assumptions C04_relabel_invariance.

Theorem C04_catalogue_closed : forall tw B a directed,
  Forall (fun e => closedb 1 e = true) (node_measures tw B a directed) /\
  Forall (fun e => closedb 2 e = true) pair_measures /\
  Forall (fun e => closedb 0 e = true) (global_measures B).
Proof. exact catalogue_closed. Qed.
Print Assumptions C04_catalogue_closed.

(* -- split, then renumber: still a pullback (composition) -- *)
Theorem C04_pullbacks_compose G'' G' G psi phi :
  pullback G'' G' psi -> pullback G' G phi -> pullback G'' G (fun i => phi (psi i)).
Proof. exact (pullback_compose G'' G' G psi phi). Qed.
Print Assumptions C04_pullbacks_compose.

(* -- kernels that loop over unique pairs of a node list in index order
      (offset tables, triangular loops) do not depend on the order of the
      list when the summand is symmetric -- *)
Theorem C04_pair_loop_order_free f l l' :
  (forall a b, f a b = f b a) -> Permutation l l' -> pair_loop f l = pair_loop f l'.
Proof. exact (pair_loop_order_free f l l'). Qed.
Print Assumptions C04_pair_loop_order_free.

Theorem C04_pair_loop_rev f l :
  (forall a b, f a b = f b a) -> pair_loop f (rev l) = pair_loop f l.
Proof. exact (pair_loop_rev f l). Qed.
Print Assumptions C04_pair_loop_rev.

(* ---- the tie to the source: the expressions core/network.py computes for
        its algebraic n.s.i. measures (regenerated on every run,
        Gen/NsiTerms.v) are permuted with the nodes ---- *)
Theorem C04_source_relabel_invariant tw a r p ve :
  In ve (source_plain tw a ++ source_motif tw a) ->
  Permutation p (seq 0 (rn r)) -> (forall u, rw r u <> Q2Qc 0) ->
  forall i, (i < rn r)%nat ->
  vden (to_graph (permute r p)) (fst ve) i = vden (to_graph r) (fst ve) (nth i p 0%nat).
Proof. exact (source_relabel_invariant tw a r p ve). Qed.
Print Assumptions C04_source_relabel_invariant.

Theorem C04_source_invariant P l : all_denote P l ->
  forall ve, In ve l -> forall G' G phi, pullback G' G phi ->
  forall i, (i < gn G')%nat -> P G' i -> P G (phi i) ->
  vden G' (fst ve) i = vden G (fst ve) (phi i).
Proof. exact (source_invariant P l). Qed.
Print Assumptions C04_source_invariant.

Theorem C04_source_pair_global_invariant r p : Permutation p (seq 0 (rn r)) ->
  sden (to_graph (permute r p)) gen_nsi_transitivity = sden (to_graph r) gen_nsi_transitivity /\
  forall i j, (i < rn r)%nat -> (j < rn r)%nat ->
    mden (to_graph (permute r p)) gen_nsi_twinness i j =
    mden (to_graph r) gen_nsi_twinness (nth i p 0%nat) (nth j p 0%nat).
Proof.
  intros Hp. pose proof (permute_is_pullback r p Hp) as PB. split.
  - exact (source_transitivity_invariant _ _ _ PB).
  - exact (source_twinness_invariant _ _ _ PB).
Qed.
Print Assumptions C04_source_pair_global_invariant.

Theorem C04_source_distance_invariant B r p : Permutation p (seq 0 (rn r)) ->
  (forall ve, In ve (source_distance B) -> forall i, (i < rn r)%nat ->
     vden (to_graph (permute r p)) (fst ve) i = vden (to_graph r) (fst ve) (nth i p 0%nat)) /\
  sden (to_graph (permute r p)) (gen_nsi_average_path_length B) =
  sden (to_graph r) (gen_nsi_average_path_length B) /\
  sden (to_graph (permute r p)) (gen_nsi_global_efficiency B) =
  sden (to_graph r) (gen_nsi_global_efficiency B).
Proof.
  intros Hp. pose proof (permute_is_pullback r p Hp) as PB. split.
  - intros ve Hin i Hi.
    exact (source_invariant Ptrue _ (source_distance_denote B) ve Hin _ _
             (fun i => nth i p 0%nat) PB i Hi I I).
  - exact (source_distance_global_invariant _ _ _ B PB).
Qed.
Print Assumptions C04_source_distance_invariant.
