(* C17 — random models and rewirings keep their documented invariants. *)
From Coq Require Import QArith List Bool Arith.
From PV.Model Require Import Rewire.
From PV.Proofs Require Import Rewire.
Import ListNotations.
Close Scope Q_scope. Open Scope nat_scope.

(* swapping the end points of two entries keeps every row and column sum,
   and touches nothing but the four cells *)
Theorem C17_swap_row_sums M a b c d : a <> c -> b <> d ->
  M a b = true -> M c d = true -> M a d = false -> M c b = false ->
  forall m i, b < m -> d < m -> row_sum m (swap M a b c d) i = row_sum m M i.
Proof. exact (swap_row_sums M a b c d). Qed.
Print Assumptions C17_swap_row_sums.

Theorem C17_swap_col_sums M a b c d : a <> c -> b <> d ->
  M a b = true -> M c d = true -> M a d = false -> M c b = false ->
  forall n j, a < n -> c < n -> col_sum n (swap M a b c d) j = col_sum n M j.
Proof. exact (swap_col_sums M a b c d). Qed.
Print Assumptions C17_swap_col_sums.

Theorem C17_swap_frame M a b c d : a <> c -> b <> d ->
  M a b = true -> M c d = true -> M c b = false ->
  forall i j, ~ (i = a \/ i = c) \/ ~ (j = b \/ j = d) -> swap M a b c d i j = M i j.
Proof. exact (swap_frame M a b c d). Qed.
Print Assumptions C17_swap_frame.

(* cross-link rewiring: for ALL picks, an attempt either retries (no change)
   or keeps the cross degree of every node of both groups *)
Theorem C17_cross_step st e1 e2 m n :
  let '(a, b) := nth e1 (cL st) (0, 0) in
  let '(c, d) := nth e2 (cL st) (0, 0) in
  cC st a b = true -> cC st c d = true -> a < n -> c < n -> b < m -> d < m ->
  let st' := fst (cross_step st e1 e2) in
  (forall i, row_sum m (cC st') i = row_sum m (cC st) i) /\
  (forall j, col_sum n (cC st') j = col_sum n (cC st) j).
Proof. exact (cross_step_sums st e1 e2 m n). Qed.
Print Assumptions C17_cross_step.

(* geographical models I, II, III: for ALL picks, distance matrices and
   tolerances, an attempt keeps the network undirected, loop-free and every
   node's degree (hence the link count) *)
Theorem C17_geo_step gm D eps deg st e1 e2 n :
  let '(s, t) := nth e1 (gE st) (0, 0) in
  let '(k, l) := nth e2 (gE st) (0, 0) in
  symmetric (gA st) -> loopfree (gA st) ->
  gA st s t = true -> gA st k l = true -> s < n -> t < n -> k < n -> l < n ->
  let st' := fst (geo_step gm D eps deg st e1 e2) in
  symmetric (gA st') /\ loopfree (gA st') /\
  (forall v, row_sum n (gA st') v = row_sum n (gA st) v).
Proof. exact (geo_step_invariants gm D eps deg st e1 e2 n). Qed.
Print Assumptions C17_geo_step.

Theorem C17_degrees_give_link_count n A A' :
  (forall v, row_sum n A' v = row_sum n A v) -> link_count n A' = link_count n A.
Proof. exact (degrees_give_link_count n A A'). Qed.
Print Assumptions C17_degrees_give_link_count.

(* ---- the cross-link rewiring kernel AS WRITTEN IN THE CURRENT numerics.pyx
        (regenerated on every run: draws, rejection condition, cleared and set
        cells, update of the link list) ---- *)
From PV.Gen Require Import RewireK.
From PV.Proofs Require Import RewireGen.

Theorem C17_cross_rejection_is_model st e1 e2 :
  let '(a, b) := nth e1 (cL st) (0, 0) in
  let '(c, d) := nth e2 (cL st) (0, 0) in
  snd (cross_step st e1 e2) = negb (gen_cross_reject (cC st) a b c d).
Proof. exact (gen_cross_reject_is_model st e1 e2). Qed.
Print Assumptions C17_cross_rejection_is_model.

Theorem C17_cross_kernel_statements : gen_cross_swap_is_model = true.
Proof. exact gen_cross_facts. Qed.
Print Assumptions C17_cross_kernel_statements.
