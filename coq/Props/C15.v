(* C15 — surrogates preserve exactly what each method promises. *)
From Coq Require Import ZArith QArith Qcanon List Bool Arith Permutation String.
From PV.Model Require Import Surrogate.
From PV.Gen Require Import TwinsK.
From PV.Proofs Require Import Surrogate SurrogateGen.
Import ListNotations.
Close Scope Q_scope. Close Scope Qc_scope. Close Scope string_scope. Open Scope nat_scope.

(* AAFT / refined AAFT 'true amplitudes': for ANY rank vector that is a
   permutation of 0..n-1 the output row is a permutation of the data row *)
Theorem C15_aaft_row_is_permutation (d : Q) sorted ranks :
  is_perm_of_seq ranks (List.length sorted) = true -> Permutation (remap d sorted ranks) sorted.
Proof. exact (aaft_row_is_permutation d sorted ranks). Qed.
Print Assumptions C15_aaft_row_is_permutation.

(* Fourier surrogates: multiplying the memoised spectrum by unit phases keeps
   every amplitude, after any number of calls on one object *)
Theorem C15_repeated_calls_keep_amplitudes us memo :
  Forall (fun u => List.length u = List.length memo /\ Forall (fun x => norm2 x = 1%Qc) u) us ->
  map norm2 (calls memo us) = map norm2 memo.
Proof. exact (calls_norm us memo). Qed.
Print Assumptions C15_repeated_calls_keep_amplitudes.

(* twins are exactly the sufficiently separated states with identical
   recurrence neighbourhoods (and more than one neighbour) *)
Theorem C15_twins_spec n md R m x : m < n ->
  In x (kernel_twins n md R m) <-> In x (spec_twins n md R m).
Proof. exact (kernel_twins_spec n md R m x). Qed.
Print Assumptions C15_twins_spec.

Theorem C15_twins_symmetric n md R m x : m < n -> x < n ->
  In x (spec_twins n md R m) <-> In m (spec_twins n md R x).
Proof. exact (twins_symmetric n md R m x). Qed.
Print Assumptions C15_twins_symmetric.

(* twin surrogates consist only of original states ... *)
Theorem C15_walk_states tw N steps k us : k < N -> unit_draws us ->
  Forall (fun x => x < N) (walk tw N steps k us).
Proof. exact (walk_states tw N steps k us). Qed.
Print Assumptions C15_walk_states.

(* ... each followed by its own successor or the successor of one of its
   twins (or a restart inside the series when that successor is past the end),
   for every stream of random numbers and every length *)
Theorem C15_walk_steps tw N steps k us : k < N -> unit_draws us ->
  adjacent (admissible tw N) (walk tw N steps k us).
Proof. exact (walk_steps tw N steps k us). Qed.
Print Assumptions C15_walk_steps.

(* the kernels and callers of the current source are the ones modelled *)
Theorem C15_source_facts :
  gen_twins_s_threshold_type = "float"%string /\ gen_twins_s_resets_R = true /\
  gen_twins_r_same_search = true /\ gen_walks_are_model = true /\
  gen_twin_surrogates_s_ndim = 2 /\ gen_twin_surrogates_r_ndim = 3 /\
  gen_caller_twins_s = true /\ gen_caller_walk_s = true /\
  gen_caller_twins_r = true /\ gen_caller_walk_r = true.
Proof. exact gen_twin_facts. Qed.
Print Assumptions C15_source_facts.

Theorem C15_fourier_facts : gen_phase_is_unit_multiplier = true /\ gen_fft_full_length = true.
Proof. exact gen_fourier_facts. Qed.
Print Assumptions C15_fourier_facts.
