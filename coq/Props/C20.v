(* C20 — compiled kernels never touch memory outside their arrays: what is
   decidable from the sources (directives, pointer widths, index ranges). *)
From Coq Require Import ZArith List Bool String.
From PV.Model Require Import KernelAccess.
From PV.Proofs Require Import KernelAccess.
From PV.Gen Require Import KernelAccess.
Import ListNotations.
Close Scope Z_scope. Close Scope string_scope.

(* every typed-buffer access of the four .pyx files is compiled with bounds
   checks and without wrap-around, and no file, function or block of the
   CURRENT source switches that off *)
Theorem C20_directives : gen_boundscheck = true /\ gen_wraparound = false /\ gen_overrides = [].
Proof. repeat split; reflexivity. Qed.
Print Assumptions C20_directives.

(* outside the extern declarations no .pyx file declares a pointer, takes an
   address or calls an allocator: every array access that is not one of the
   raw hand-overs below goes through a checked typed buffer or a Python object *)
Theorem C20_no_raw_pointers_in_pyx : gen_no_raw_pointers_in_pyx = true.
Proof. reflexivity. Qed.
Print Assumptions C20_no_raw_pointers_in_pyx.

(* what that buys: a checked access yields a value from inside the buffer or
   an IndexError, for every index *)
Theorem C20_checked_access_total (d : Z) buf i :
  (checked_get d buf i = IndexError /\ (i < 0 \/ Z.of_nat (List.length buf) <= i)%Z) \/
  (exists v, checked_get d buf i = Val v /\ (0 <= i < Z.of_nat (List.length buf))%Z).
Proof. exact (checked_get_total d buf i). Qed.
Print Assumptions C20_checked_access_total.

(* the while-loops that index before testing the bound end in a value or an
   IndexError for every bound *)
Theorem C20_index_before_bound_loops d buf x n fuel l :
  scan_eq d buf x n l fuel = IndexError \/ exists r, scan_eq d buf x n l fuel = Val r.
Proof. exact (scan_eq_safe d buf x n fuel l). Qed.
Print Assumptions C20_index_before_bound_loops.

(* raw pointers: buffer element, cast, extern declaration and C definition
   agree on the element width at every hand-over of the current source *)
Theorem C20_pointer_widths_agree : forallb widths_agree gen_pointers = true.
Proof. vm_compute. reflexivity. Qed.
Print Assumptions C20_pointer_widths_agree.

(* buffers handed over without a declared C layout: exactly the four
   current-flow arrays, which the Python wrapper converts with to_cy(order='c') *)
Theorem C20_undeclared_layout :
  not_declared_contiguous gen_pointers =
  [("core._vertex_current_flow_betweenness", "admittance");
   ("core._vertex_current_flow_betweenness", "R");
   ("core._edge_current_flow_betweenness", "admittance");
   ("core._edge_current_flow_betweenness", "R")]%string.
Proof. vm_compute. reflexivity. Qed.
Print Assumptions C20_undeclared_layout.

(* the index-addressed C routines (current-flow betweenness, Spearman): every
   access of the current source stays inside the extent the wrapper passes,
   for all sizes *)
Theorem C20_index_accesses_in_range : gen_all_accesses_in_range.
Proof. exact gen_all_accesses_in_range_proof. Qed.
Print Assumptions C20_index_accesses_in_range.

Theorem C20_accesses_covered : 30 <= gen_access_count.
Proof. vm_compute. repeat constructor. Qed.
Print Assumptions C20_accesses_covered.

(* the pointer-walking routines (surrogate test matrices, histogram mutual
   information): induction variables and pointer offsets resolved by the
   abstract interpreter of translate/c_pointer_walk.py; their accesses are
   part of gen_all_accesses_in_range above *)
Theorem C20_pointer_walks_covered : 20 <= gen_walk_access_count.
Proof. vm_compute. repeat constructor. Qed.
Print Assumptions C20_pointer_walks_covered.

(* the bin number written by the guarded assignment is a valid column for
   every sample: NaN, +inf or any non-negative number *)
Theorem C20_bin_number_in_range r n_bins undef : (1 <= n_bins)%Z -> rescaled_ok r ->
  (0 <= symbolise_guarded r n_bins undef < n_bins)%Z.
Proof. exact (symbolise_in_range r n_bins undef). Qed.
Print Assumptions C20_bin_number_in_range.

(* why the guard matters: without it a NaN sample selects an arbitrary column *)
Theorem C20_unguarded_bin_escapes n_bins : (1 <= n_bins)%Z ->
  exists undef, ~ (0 <= symbolise_unguarded FNaN n_bins undef < n_bins)%Z.
Proof. exact (symbolise_unguarded_escapes n_bins). Qed.
Print Assumptions C20_unguarded_bin_escapes.

(* in the CURRENT source: every write into a symbol array is the guarded
   assignment of rescaled = scaling * (sample - range_min); the wrappers
   allocate the extents assumed, take range_min / scaling from the data and
   reject n_bins < 1 *)
Theorem C20_histogram_wrappers :
  gen_walk_guarded = true /\ gen_walk_rescaled = true /\ gen_walk_shapes = true /\
  gen_walk_range = true /\ gen_walk_nbins = true.
Proof. repeat split; reflexivity. Qed.
Print Assumptions C20_histogram_wrappers.

(* index products computed in C `int` cannot overflow while the array has
   fewer than 2^31 elements (square arrays: up to N = 46340); beyond that the
   behaviour is undefined — a stated limit, not checked by the wrappers *)
Theorem C20_int_index_fits R C i j : (0 <= i < R -> 0 <= j < C -> R * C <= 2147483647 ->
  0 <= i * C + j <= 2147483647 /\ 0 <= i * C <= 2147483647)%Z.
Proof. exact (int_index_fits R C i j). Qed.
Print Assumptions C20_int_index_fits.
