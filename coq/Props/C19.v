(* C19 — distributed computation returns the serial result. *)
From Coq Require Import ZArith List Bool Arith String.
From PV.Model Require Import MpiMaster.
From PV.Gen Require Import MpiLoops.
From PV.Proofs Require Import MpiMaster MpiGen.
Import ListNotations.

(* -- for every N >= 1 and every max_parts >= 1 (whatever the float expression
      in the code evaluates to): the chunks the loops visit are non-empty (the
      `break` never fires), contiguous, start at 0 and end at N -- *)
Theorem C19_chunks_partition N mp : 1 <= N -> 1 <= mp ->
  let p := parts_of N mp in
  1 <= p /\
  (forall idx, idx < p -> start_of N mp idx < end_of N mp idx) /\
  (forall idx, idx + 1 < p -> end_of N mp idx = start_of N mp (idx + 1)) /\
  start_of N mp 0 = 0 /\ end_of N mp (p - 1) = N.
Proof. exact (chunks_partition N mp). Qed.
Print Assumptions C19_chunks_partition.

(* -- result[start_i:end_i] = chunk: the concatenation is the serial vector -- *)
Theorem C19_slice_reassembly A (f : nat -> A) N mp : 1 <= N -> 1 <= mp ->
  reassemble_slices A f (chunk_bounds N mp) = map f (seq 0 N).
Proof. exact (slice_reassembly A f N mp). Qed.
Print Assumptions C19_slice_reassembly.

(* -- result += chunk: the sum over chunks is the sum over all rows -- *)
Theorem C19_sum_reassembly g N mp k : 1 <= N -> 1 <= mp ->
  reassemble_sums g (chunk_bounds N mp) k = rows_sum g 0 N k.
Proof. exact (sum_reassembly g N mp k). Qed.
Print Assumptions C19_sum_reassembly.

(* -- submit ids 0..p-1 to ANY workers (any scheduler, any worker count),
      retrieve them in the same order: get_result never raises and returns
      each call's own result (results travel per-worker FIFO) -- *)
Theorem C19_protocol_fifo_ok R (sched : nat -> nat) (res : nat -> R) p :
  retrieve_all (submit_all empty_state sched res (seq 0 p)) (seq 0 p) = Some (map res (seq 0 p)).
Proof. exact (protocol_fifo_ok R sched res p). Qed.
Print Assumptions C19_protocol_fifo_ok.

Theorem C19_order_matters :
  retrieve_all (submit_all empty_state (fun _ => 1) (fun i => i) [0; 1]) [1; 0] = None.
Proof. exact out_of_order_fails. Qed.
Print Assumptions C19_order_matters.

(* -- the master loops of the current source have exactly this skeleton:
      canonical chunk arithmetic, submit_call on every iteration regardless of
      verbosity, id = loop index, both loops over range(parts) -- *)
Theorem C19_master_loops_ok :
  forallb loop_ok gen_master_loops = true /\
  map ml_name gen_master_loops =
    ["newman_betweenness"; "nsi_arenas_betweenness"; "nsi_newman_betweenness"]%string /\
  map ml_reassembly gen_master_loops = [Slice; Sum; Slice] /\
  gen_pool_split_is_array_split_sum = true.
Proof. exact master_loops_ok. Qed.
Print Assumptions C19_master_loops_ok.
