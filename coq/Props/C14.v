(* C14 — visibility graphs realise the geometric visibility criterion. *)
From Coq Require Import QArith List Bool Arith.
From PV.Base Require Import F32.
From PV.Model Require Import Visibility.
From PV.Proofs Require Import Visibility.
Import ListNotations.
Close Scope Q_scope. Close Scope Z_scope. Open Scope nat_scope.

(* -- the early-exit while loops compute a universal quantifier -- *)
Theorem C14_scan_spec cond j fuel k : k <= j -> j - k <= fuel ->
  (scan cond j fuel k = j <-> forall m, k <= m < j -> cond m = true).
Proof. exact (scan_spec cond j fuel k). Qed.
Print Assumptions C14_scan_spec.

Theorem C14_natural_spec lt x t i j : i < j ->
  (nat_link lt x t i j = true <-> forall k, i < k < j -> nat_cond lt x t i j k = true).
Proof. exact (nat_link_spec lt x t i j). Qed.
Print Assumptions C14_natural_spec.

Theorem C14_horizontal_spec lt x i j : i < j ->
  (hor_link lt x i j = true <-> forall k, i < k < j -> hor_cond lt x i j k = true).
Proof. exact (hor_link_spec lt x i j). Qed.
Print Assumptions C14_horizontal_spec.

Theorem C14_missing_spec lt x t mv i j : i < j ->
  (mv_link lt x t mv i j = true <-> forall k, i < k < j -> mv_cond lt x t mv i j k = true).
Proof. exact (mv_link_spec lt x t mv i j). Qed.
Print Assumptions C14_missing_spec.

(* -- in exact arithmetic the natural test is: strictly below the chord -- *)
Theorem C14_natural_geometric x t i j k : (t i < t k)%Q -> (t i < t j)%Q ->
  (nat_cond ltQ x t i j k = true <-> below x t i k j).
Proof. exact (nat_cond_geometric x t i j k). Qed.
Print Assumptions C14_natural_geometric.

(* -- missing samples block visibility and stay isolated -- *)
Theorem C14_missing_blocks lt x t mv i j k : i < k < j -> mv k = true ->
  mv_link lt x t mv i j = false.
Proof. exact (missing_blocks lt x t mv i j k). Qed.
Print Assumptions C14_missing_blocks.

Theorem C14_missing_isolated lt x t mv a b : mv a = true \/ mv b = true ->
  A_missing lt x t mv a b = false.
Proof. exact (missing_isolated lt x t mv a b). Qed.
Print Assumptions C14_missing_isolated.

Theorem C14_symmetric link trivial a b : adj link trivial a b = adj link trivial b a.
Proof. exact (adj_symmetric link trivial a b). Qed.
Print Assumptions C14_symmetric.

(* -- positive affine maps of values or times -- *)
Theorem C14_affine_invariant x t a b c d i k j : (0 < a)%Q -> (0 < c)%Q ->
  (below (fun n => a * x n + b)%Q (fun n => c * t n + d)%Q i k j <-> below x t i k j).
Proof. exact (below_affine x t a b c d i k j). Qed.
Print Assumptions C14_affine_invariant.

(* -- time reversal mirrors the graph: the test between i < k < j on the
      reversed series is the test between n-1-j < n-1-k < n-1-i on the
      original; and the chord can be read from either end -- *)
Theorem C14_time_reversal (x t : nat -> Q) (T : Q) n i k j : i < k < j -> j < n ->
  let x' := fun m : nat => x (n - 1 - m) in
  let t' := fun m : nat => (T - t (n - 1 - m)%nat)%Q in
  (t (n - 1 - j)%nat < t (n - 1 - k)%nat)%Q -> (t (n - 1 - k)%nat < t (n - 1 - i)%nat)%Q ->
  (below x' t' i k j <-> below x t (n - 1 - j) (n - 1 - k) (n - 1 - i)).
Proof. exact (below_reversed x t T n i k j). Qed.
Print Assumptions C14_time_reversal.

Theorem C14_chord x t i k j : (t i < t k)%Q -> (t k < t j)%Q ->
  (below x t i k j <-> ((x i - x j) * (t k - t j) < (x k - x j) * (t i - t j))%Q).
Proof. exact (below_mirror x t i k j). Qed.
Print Assumptions C14_chord.

(* -- retarded + advanced degree = degree (the node itself has no loop) -- *)
Theorem C14_degree_split A n i : i <= n ->
  retarded_degree A n i + advanced_degree A n i = degree A n i.
Proof. exact (degree_split A n i). Qed.
Print Assumptions C14_degree_split.

(* ---- the kernels AS WRITTEN IN THE CURRENT numerics.pyx (regenerated on every
        run: loop ranges, scan start, scan condition, link test, trivial links,
        element type of the slopes) are the model ---- *)
From PV.Gen Require Import VisibilityK.
From PV.Proofs Require Import VisibilityGen.
From Coq Require Import String.

Theorem C14_natural_kernel_is_model lt x t i j k :
  gen_no_missingvalues_cond lt x t i j k = nat_cond lt x t i j k.
Proof. exact (gen_natural_is_model lt x t i j k). Qed.
Print Assumptions C14_natural_kernel_is_model.

Theorem C14_missing_kernel_is_model lt x t mv i j k :
  negb (mv i) && negb (mv j) && gen_missingvalues_cond lt x t mv i j k = mv_cond lt x t mv i j k.
Proof. exact (gen_missing_is_model lt x t mv i j k). Qed.
Print Assumptions C14_missing_kernel_is_model.

Theorem C14_horizontal_kernel_is_model lt x i j k :
  gen_horizontal_cond lt x i j k = hor_cond lt x i j k.
Proof. exact (gen_horizontal_is_model lt x i j k). Qed.
Print Assumptions C14_horizontal_kernel_is_model.

Theorem C14_kernel_facts mv i :
  (gen_no_missingvalues_trivial i = true /\ gen_horizontal_trivial i = true /\
   gen_missingvalues_trivial mv i = (negb (mv i) && negb (mv (S i)))) /\
  (gen_no_missingvalues_type = "FIELD_t"%string /\ gen_missingvalues_type = "FIELD_t"%string /\
   gen_horizontal_type = "FIELD_t"%string).
Proof. split; [exact (gen_trivial_links mv i)|exact gen_slope_types]. Qed.
Print Assumptions C14_kernel_facts.
