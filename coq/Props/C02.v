(* C02 — node-splitting invariance of all n.s.i. measures. *)
From Coq Require Import QArith Qcanon List Bool Arith Permutation.
From PV.Base Require Import Sums.
From PV.Model Require Import NsiLang Split Measures.
From PV.Proofs Require Import NsiLang Split Measures.
Import ListNotations.

(* -- every term of the language has the same value on every weighted pullback
      of the graph (phi onto, A+/attributes/groups preserved, fibre weights add up) -- *)
Theorem C02_pullback_theorem G' G phi : pullback G' G phi ->
  forall e env, closed (length env) e -> Forall (fun i => (i < gn G')%nat) env ->
  eval G' env e = eval G (map phi env) e.
Proof. exact (eval_pullback G' G phi). Qed.
Print Assumptions C02_pullback_theorem.

(* -- splitted_copy, as the code builds it, is such a pullback along `orig` -- *)
Theorem C02_split_is_pullback r v p :
  (v < rn r)%nat -> (forall i, ra r i i = false) ->
  pullback (to_graph (split r v p)) (to_graph r) (orig (rn r) v).
Proof. exact (split_is_pullback r v p). Qed.
Print Assumptions C02_split_is_pullback.

(* -- the property in its own words: global values are equal (env = []),
      per-node values are equal on untouched nodes and both twins carry v's
      value (env = [i]), pairwise values likewise (env = [i; j]); any split
      proportion, any weights, directed or not, with attributes and groups -- *)
Theorem C02_nsi_invariance r v p e env :
  (v < rn r)%nat -> (forall i, ra r i i = false) ->
  closed (length env) e -> Forall (fun i => (i < S (rn r))%nat) env ->
  eval (to_graph (split r v p)) env e = eval (to_graph r) (map (orig (rn r) v) env) e.
Proof. exact (nsi_invariance r v p e env). Qed.
Print Assumptions C02_nsi_invariance.

Theorem C02_iterated_splits r v p v2 p2 e env :
  (v < rn r)%nat -> (v2 < S (rn r))%nat -> (forall i, ra r i i = false) ->
  closed (length env) e -> Forall (fun i => (i < S (S (rn r)))%nat) env ->
  eval (to_graph (split (split r v p) v2 p2)) env e =
  eval (to_graph r) (map (fun i => orig (rn r) v (orig (S (rn r)) v2 i)) env) e.
Proof. exact (iterated_splits r v p v2 p2 e env). Qed.
Print Assumptions C02_iterated_splits.

Theorem C02_pullbacks_compose G'' G' G psi phi :
  pullback G'' G' psi -> pullback G' G phi -> pullback G'' G (fun i => phi (psi i)).
Proof. exact (pullback_compose G'' G' G psi phi). Qed.
Print Assumptions C02_pullbacks_compose.

(* -- every measure of the catalogue is a closed term of the right arity, so
      the theorems above apply to each of them (and to the two-group ones) -- *)
Theorem C02_catalogue_closed : forall tw B a directed,
  Forall (fun e => closedb 1 e = true) (node_measures tw B a directed) /\
  Forall (fun e => closedb 2 e = true) pair_measures /\
  Forall (fun e => closedb 0 e = true) (global_measures B).
Proof. exact catalogue_closed. Qed.
Print Assumptions C02_catalogue_closed.

(* -- non-vacuity: a concrete network, split at node 1, one measure -- *)
Example C02_example :
  let r := raw_of [[false; true; false]; [true; false; true]; [false; true; false]]
                  [1; 1 # 2; 3 # 4]%Q [] [] in
  (1 < rn r)%nat /\ (forall i, ra r i i = false) /\
  eval (to_graph (split r 1 (Q2Qc (1 # 4)))) [3%nat] nsi_local_clustering =
  eval (to_graph r) [1%nat] nsi_local_clustering.
Proof. exact example_split. Qed.
Print Assumptions C02_example.
