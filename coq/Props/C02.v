(* C02 — node-splitting invariance of all n.s.i. measures. *)
From Coq Require Import QArith Qcanon List Bool Arith Permutation.
From PV.Base Require Import Sums.
From PV.Model Require Import NsiLang Split Measures MatAlg.
From PV.Proofs Require Import NsiLang Split Measures MatAlgGen DistFn.
From PV.Gen Require Import NsiTerms.
Import ListNotations.

(* -- every term of the language has the same value on every weighted pullback
      of the graph (phi onto, A+/attributes/groups preserved, fibre weights add up) -- *)
Theorem C02_pullback_theorem G' G phi : pullback G' G phi ->
  forall e env, closed (length env) e -> Forall (fun i => (i < gn G')%nat) env ->
  eval G' env e = eval G (map phi env) e.
Proof. exact (eval_pullback G' G phi). Qed.
Print Assumptions C02_pullback_theorem.

(* -- splitted_copy, as the code builds it, is such a pullback along `orig` -- *)
Theorem C02_split_is_pullback r v p :
  (v < rn r)%nat -> (forall i, ra r i i = false) ->
  pullback (to_graph (split r v p)) (to_graph r) (orig (rn r) v).
Proof. exact (split_is_pullback r v p). Qed.
Print Assumptions C02_split_is_pullback.

(* -- the property in its own words: global values are equal (env = []),
      per-node values are equal on untouched nodes and both twins carry v's
      value (env = [i]), pairwise values likewise (env = [i; j]); any split
      proportion, any weights, directed or not, with attributes and groups -- *)
Theorem C02_nsi_invariance r v p e env :
  (v < rn r)%nat -> (forall i, ra r i i = false) ->
  closed (length env) e -> Forall (fun i => (i < S (rn r))%nat) env ->
  eval (to_graph (split r v p)) env e = eval (to_graph r) (map (orig (rn r) v) env) e.
Proof. exact (nsi_invariance r v p e env). Qed.
Print Assumptions C02_nsi_invariance.

Theorem C02_iterated_splits r v p v2 p2 e env :
  (v < rn r)%nat -> (v2 < S (rn r))%nat -> (forall i, ra r i i = false) ->
  closed (length env) e -> Forall (fun i => (i < S (S (rn r)))%nat) env ->
  eval (to_graph (split (split r v p) v2 p2)) env e =
  eval (to_graph r) (map (fun i => orig (rn r) v (orig (S (rn r)) v2 i)) env) e.
Proof. exact (iterated_splits r v p v2 p2 e env). Qed.
Print Assumptions C02_iterated_splits.

Theorem C02_pullbacks_compose G'' G' G psi phi :
  pullback G'' G' psi -> pullback G' G phi -> pullback G'' G (fun i => phi (psi i)).
Proof. exact (pullback_compose G'' G' G psi phi). Qed.
Print Assumptions C02_pullbacks_compose.

(* -- every measure of the catalogue is a closed term of the right arity, so
      the theorems above apply to each of them (and to the two-group ones) -- *)
Theorem C02_catalogue_closed : forall tw B a directed,
  Forall (fun e => closedb 1 e = true) (node_measures tw B a directed) /\
  Forall (fun e => closedb 2 e = true) pair_measures /\
  Forall (fun e => closedb 0 e = true) (global_measures B).
Proof. exact catalogue_closed. Qed.
Print Assumptions C02_catalogue_closed.

(* -- non-vacuity: a concrete network, split at node 1, one measure -- *)
Example C02_example :
  let r := raw_of [[false; true; false]; [true; false; true]; [false; true; false]]
                  [1; 1 # 2; 3 # 4]%Q [] [] in
  (1 < rn r)%nat /\ (forall i, ra r i i = false) /\
  eval (to_graph (split r 1 (Q2Qc (1 # 4)))) [3%nat] nsi_local_clustering =
  eval (to_graph r) [1%nat] nsi_local_clustering.
Proof. exact example_split. Qed.
Print Assumptions C02_example.

(* ---- the tie to the source: the expression each algebraic n.s.i. measure of
        core/network.py computes is regenerated on every run as a term of the
        sparse-matrix algebra (Gen/NsiTerms.v <- translate/py_nsi_terms.py) and
        proved to denote the catalogue term the pullback theorem is about ---- *)
Theorem C02_source_plain_denote tw a : all_denote Ptrue (source_plain tw a).
Proof. exact (source_plain_denote tw a). Qed.
Print Assumptions C02_source_plain_denote.

(* the motif clusterings divide the node's own weight out: w_i <> 0 *)
Theorem C02_source_motif_denote tw a : all_denote Pweight (source_motif tw a).
Proof. exact (source_motif_denote tw a). Qed.
Print Assumptions C02_source_motif_denote.

(* nsi_local_clustering (uncorrected) is written for a symmetric loop-free A *)
Theorem C02_source_undirected_denote : all_denote Pundirected source_undirected.
Proof. exact source_undirected_denote. Qed.
Print Assumptions C02_source_undirected_denote.

Theorem C02_source_global_denote G :
  sden G gen_nsi_transitivity = eval G [] nsi_transitivity /\
  (Pundirected G 0%nat -> sden G gen_nsi_global_clustering = eval G [] nsi_global_clustering) /\
  (forall i j, (i < gn G)%nat -> (j < gn G)%nat ->
     mden G gen_nsi_twinness i j = eval G [i; j] nsi_twinness).
Proof.
  split; [exact (gen_nsi_transitivity_denotes G)|].
  split; [intros [S R]; exact (gen_nsi_global_clustering_denotes G S R)|].
  exact (gen_nsi_twinness_denotes G).
Qed.
Print Assumptions C02_source_global_denote.

(* -- hence: positive weights, any node, any proportion in (0,1): every
      per-node expression of the source has equal values on untouched nodes
      and v's value on both twins -- *)
Theorem C02_source_split_invariant tw a r v p ve :
  In ve (source_plain tw a ++ source_motif tw a) ->
  (v < rn r)%nat -> (forall i, ra r i i = false) ->
  (forall u, 0 < rw r u)%Qc -> (0 < p)%Qc -> (p < 1)%Qc ->
  forall i, (i < S (rn r))%nat ->
  vden (to_graph (split r v p)) (fst ve) i = vden (to_graph r) (fst ve) (orig (rn r) v i).
Proof. exact (source_split_invariant tw a r v p ve). Qed.
Print Assumptions C02_source_split_invariant.

Theorem C02_source_split_invariant_undirected r v p :
  (v < rn r)%nat -> (forall i, ra r i i = false) -> (forall i j, ra r i j = ra r j i) ->
  (forall i, (i < S (rn r))%nat ->
     vden (to_graph (split r v p)) gen_nsi_local_clustering i =
     vden (to_graph r) gen_nsi_local_clustering (orig (rn r) v i)) /\
  sden (to_graph (split r v p)) gen_nsi_global_clustering =
  sden (to_graph r) gen_nsi_global_clustering.
Proof. exact (source_split_invariant_undirected r v p). Qed.
Print Assumptions C02_source_split_invariant_undirected.

Theorem C02_source_pair_global_invariant G' G phi : pullback G' G phi ->
  sden G' gen_nsi_transitivity = sden G gen_nsi_transitivity /\
  forall i j, (i < gn G')%nat -> (j < gn G')%nat ->
    mden G' gen_nsi_twinness i j = mden G gen_nsi_twinness (phi i) (phi j).
Proof.
  intros PB. split; [exact (source_transitivity_invariant G' G phi PB)|].
  exact (source_twinness_invariant G' G phi PB).
Qed.
Print Assumptions C02_source_pair_global_invariant.

(* the distance based measures: the code's use of D = path_lengths() + Id
   (entries overwritten where inf, 1 / D, 2 ** (-D), x / (D.w)) as terms over
   the model's bounded reachability *)
Theorem C02_source_distance_denote B : all_denote Ptrue (source_distance B).
Proof. exact (source_distance_denote B). Qed.
Print Assumptions C02_source_distance_denote.

Theorem C02_source_distance_global G B :
  sden G (gen_nsi_average_path_length B) = eval G [] (nsi_average_path_length B) /\
  sden G (gen_nsi_global_efficiency B) = eval G [] (nsi_global_efficiency B).
Proof.
  split; [exact (gen_nsi_average_path_length_denotes G B)
         | exact (gen_nsi_global_efficiency_denotes G B)].
Qed.
Print Assumptions C02_source_distance_global.

Theorem C02_source_distance_global_invariant G' G phi B : pullback G' G phi ->
  sden G' (gen_nsi_average_path_length B) = sden G (gen_nsi_average_path_length B) /\
  sden G' (gen_nsi_global_efficiency B) = sden G (gen_nsi_global_efficiency B).
Proof. exact (source_distance_global_invariant G' G phi B). Qed.
Print Assumptions C02_source_distance_global_invariant.

(* the translator reads an entrywise function of D = path_lengths() + Id with
   value 0 at inf (D with its inf entries overwritten, 1 / D, 2 ** (-D)) as
   MDistFn f: sound on reflexive graphs, where the entry is f at the first
   step that reaches the pair, and 1 / Dist = InvDist entry by entry *)
Theorem C02_distance_function_reading G env a b f B k0 :
  (forall u, ap G u u = true) -> (var env b < gn G)%nat -> (k0 < B)%nat ->
  reach G k0 (var env a) (var env b) = true ->
  (forall k, (k < k0)%nat -> reach G k (var env a) (var env b) = false) ->
  eval G env (dsum f B a b) = f k0.
Proof. intros R Hb. exact (dsum_first G R env a b Hb f B k0). Qed.
Print Assumptions C02_distance_function_reading.

Theorem C02_inverse_distance G env a b B :
  (forall u, ap G u u = true) -> (var env b < gn G)%nat ->
  eval G env (InvDist B a b) = (1 / eval G env (Dist B a b))%Qc.
Proof. intros R Hb. exact (inv_dist G R env a b Hb B). Qed.
Print Assumptions C02_inverse_distance.

Example C02_source_example :
  let r := raw_of [[false; true; false]; [true; false; true]; [false; true; false]]
                  [1; 1 # 2; 3 # 4]%Q [] [] in
  vden (to_graph (split r 1 (Q2Qc (1 # 4)))) gen_nsi_local_clustering 3 =
  vden (to_graph r) gen_nsi_local_clustering 1 /\
  vden (to_graph r) gen_nsi_local_clustering 1 <> Q2Qc 0.
Proof. exact source_example. Qed.
Print Assumptions C02_source_example.
