(* C08 — RQA line statistics are exact run-length counts of the matrix.
   Only statements, each closed by `exact`, each followed by Print Assumptions. *)
From Coq Require Import List Bool Arith QArith.
From PV.Base Require Import F32.
From PV.Model Require Import LineDist.
From PV.Gen Require Import LineDistGen.
From PV.Proofs Require Import LineDist LineDistGen.
Import ListNotations.
Close Scope Q_scope.
Open Scope nat_scope.

(* -- the kernel's state machine emits, line by line and in order, exactly the
      lines of the cut-at-white specification; every geometry, colour, mask -- *)
Theorem C08_kernel_refines_spec N J I pt miss mv :
  rev (kernel N J I pt miss mv) =
  flat_map (fun i => runs3 (line_cells J I pt miss mv i)) (seq 0 N).
Proof. exact (kernel_spec N J I pt miss mv). Qed.
Print Assumptions C08_kernel_refines_spec.

(* -- what the specification counts (these equations determine runs3) -- *)
Theorem C08_spec_cut a b : runs3 (a ++ Wh :: b) = runs3 a ++ runs3 b.
Proof. exact (runs3_cut a b). Qed.
Print Assumptions C08_spec_cut.

Theorem C08_spec_black_piece c : 0 < c -> runs3 (repeat Bk c) = [c].
Proof. exact (runs3_all_black c). Qed.
Print Assumptions C08_spec_black_piece.

Theorem C08_spec_missing_piece l :
  forallb (fun c => negb (match c with Wh => true | _ => false end)) l = true ->
  existsb is_ms l = true -> runs3 l = [].
Proof. exact (runs3_missing_piece l). Qed.
Print Assumptions C08_spec_missing_piece.

(* -- the three public histograms -- *)
Theorem C08_vert_is_runs n R miss mv l : l < n ->
  nth l (vertline_dist n R miss mv) 0 =
  count_occ Nat.eq_dec (flat_map (fun i => runs3 (row_cells n R miss mv true i)) (seq 0 n)) (S l).
Proof. exact (vert_hist_spec n R miss mv l). Qed.
Print Assumptions C08_vert_is_runs.

Theorem C08_white_is_runs n R l : l < n ->
  nth l (white_vertline_dist n R) 0 =
  count_occ Nat.eq_dec (flat_map (fun i => runs3 (row_cells n R (fun _ => false) false false i)) (seq 0 n)) (S l).
Proof. exact (white_hist_spec n R l). Qed.
Print Assumptions C08_white_is_runs.

Theorem C08_diag_is_runs n R miss mv l : l < n ->
  nth l (diagline_dist n R miss mv) 0 =
  2 * count_occ Nat.eq_dec (flat_map (fun i => runs3 (subdiag_cells n R miss mv i)) (seq 0 (n - 1))) (S l).
Proof. exact (diag_hist_spec n R miss mv l). Qed.
Print Assumptions C08_diag_is_runs.

Theorem C08_subdiag_geometry n R miss mv i :
  subdiag_cells n R miss mv i =
  map (fun j => cell_of mv (Bool.eqb (R (n - 1 - i + j) j) true)
                        (miss (n - 1 - i + j) || miss j)) (seq 0 (S i)).
Proof. exact (subdiag_cells_points n R miss mv i). Qed.
Print Assumptions C08_subdiag_geometry.

(* -- accounting: every point is on exactly one black or one white line -- *)
Theorem C08_accounting n R miss :
  weighted_total (vertline_dist n R miss false) + weighted_total (white_vertline_dist n R) = n * n.
Proof. exact (accounting_hist n R miss). Qed.
Print Assumptions C08_accounting.

Theorem C08_accounting_black n R miss :
  weighted_total (vertline_dist n R miss false) =
  list_sum (map (fun i => length (filter (fun j => R i j) (seq 0 n))) (seq 0 n)).
Proof. exact (accounting_black n R miss). Qed.
Print Assumptions C08_accounting_black.

(* -- tie to the current source: loop body, epilogue, geometry, flag table -- *)
Theorem C08_source_step dim0 black mvs r d mI mJ k0 f o :
  gen_step dim0 black mvs r d mI mJ k0 f o =
  let s := step mvs (if dim0 then Bool.eqb r black else Bool.eqb d black)
                (mI || mJ) (mk k0 f o) in
  (k s, flag s, out s).
Proof. exact (gen_step_eq dim0 black mvs r d mI mJ k0 f o). Qed.
Print Assumptions C08_source_step.

Theorem C08_source_flush k0 f o :
  gen_flush k0 f o = let s := flush (mk k0 f o) in (k s, flag s, out s).
Proof. exact (gen_flush_eq k0 f o). Qed.
Print Assumptions C08_source_flush.

Theorem C08_source_geometry i j n :
  gen_i2J_vertline i n = J_vert n i /\ gen_ij2I_vertline i j n = I_vert n i j /\
  gen_i2J_diagline i n = J_diag n i /\ gen_ij2I_diagline i j n = I_diag n i j.
Proof. exact (gen_geometry_eq i j n). Qed.
Print Assumptions C08_source_geometry.

Theorem C08_source_wrappers :
  gen_wrappers = expected_wrappers /\ gen_metric_supremum_is_max_abs_diff = true.
Proof. exact gen_wrappers_eq. Qed.
Print Assumptions C08_source_wrappers.

(* -- sequential mode = matrix mode -- *)
Theorem C08_sequential_agree cmp E eps M mv :
  (forall a b, a < length E -> b < length E ->
      seq_pt cmp E eps a b = seq_pt ltQ E eps a b) ->
  seq_dists cmp E eps M mv = seq_dists ltQ E eps M mv.
Proof. exact (sequential_agree cmp E eps M mv). Qed.
Print Assumptions C08_sequential_agree.

(* full when the source compares in binary64, refuted (with a witness that
   replays on the implementation) when it holds d / eps in 32-bit variables *)
Theorem C08_sequential_mode :
  (gen_seq_rounds = false /\
   forall E eps M mv, seq_dists (seq_cmp gen_seq_rounds) E eps M mv = seq_dists ltQ E eps M mv)
  \/
  (gen_seq_rounds = true /\
   seq_dists (seq_cmp gen_seq_rounds) witness_E witness_eps [] false
   <> seq_dists ltQ witness_E witness_eps [] false).
Proof. exact sequential_mode. Qed.
Print Assumptions C08_sequential_mode.
