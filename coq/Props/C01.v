(* C01 — results always reflect the object's current state (cache coherence). *)
From Coq Require Import List Bool Arith String.
From PV.Model Require Import Cache.
From PV.Gen Require Import CacheFacts.
From PV.Proofs Require Import Cache CacheGen.
Import ListNotations.
Open Scope string_scope.

(* -- for ALL histories of queries (any argument pattern), mutations and
      evictions (any LRU / maxsize policy): every query of a method for which
      all mutators of the history are adequate returns the value computed from
      the CURRENT fields; `f` is any method body that depends on the store
      only through the fields it reads -- *)
Theorem C01_coherence (args value : Type) (args_eqb : args -> args -> bool)
  (args_eqb_spec : forall a b, args_eqb a b = true -> a = b)
  (f : cmethod -> store -> args -> value)
  (f_frame : forall m s s' a, (forall x, In x (m_reads m) -> s x = s' x) -> f m s a = f m s' a)
  (good : cmethod -> Prop) h :
  forall s c, inv args value f good s c -> legal args value good s h ->
  let (s1, c1) := run args value args_eqb f s c h in
  inv args value f good s1 c1 /\
  forall m a, good m -> fst (query args value args_eqb f s1 c1 m a) = f m s1 a.
Proof. exact (coherence args value args_eqb args_eqb_spec f f_frame good h). Qed.
Print Assumptions C01_coherence.

Theorem C01_repeat_equal (args value : Type) (args_eqb : args -> args -> bool)
  (args_eqb_spec : forall a b, args_eqb a b = true -> a = b)
  (f : cmethod -> store -> args -> value)
  (f_frame : forall m s s' a, (forall x, In x (m_reads m) -> s x = s' x) -> f m s a = f m s' a)
  (good : cmethod -> Prop) s c m a :
  inv args value f good s c -> good m ->
  fst (query args value args_eqb f s (snd (query args value args_eqb f s c m a)) m a)
  = fst (query args value args_eqb f s c m a).
Proof. exact (repeat_equal args value args_eqb args_eqb_spec f f_frame good s c m a). Qed.
Print Assumptions C01_repeat_equal.

(* -- the boolean check run on the generated tables implies the hypothesis of
      the coherence theorem -- *)
Theorem C01_decision_sound mu m : adequate_mm mu m = true -> adequate_for mu m.
Proof. exact (adequate_mm_sound mu m). Qed.
Print Assumptions C01_decision_sound.

(* -- the tables of the CURRENT source: every (class, cached method, mutator)
      is adequate, except the listed accepted ones -- *)
Theorem C01_tables_adequate :
  all_known known_inadequate (flat_map inadequate gen_tables) = true.
Proof. exact tables_adequate_except_known. Qed.
Print Assumptions C01_tables_adequate.

Theorem C01_tables_nontrivial :
  (Nat.leb 20 (List.length gen_tables)) = true /\
  match find_table "Network" with
  | Some t => (Nat.leb 40 (List.length (t_methods t))) && (Nat.leb 4 (List.length (t_mutators t)))
              && match method_of t "nsi_degree", mutator_of t "node_weights.setter",
                       mutator_of t "adjacency.setter", mutator_of t "set_link_attribute" with
                 | Some m, Some mu1, Some mu2, Some mu3 =>
                     mem "_mut_nw" (m_key m) && mem "_node_weights" (m_reads m)
                     && mem "_mut_nw" (mu_bumps mu1) && mem "_mut_A" (mu_bumps mu2)
                     && mem "_mut_la" (mu_bumps mu3)
                     && adequate_mm mu1 m && adequate_mm mu2 m && adequate_mm mu3 m
                 | _, _, _, _ => false
                 end
  | None => false
  end = true.
Proof. exact tables_nontrivial. Qed.
Print Assumptions C01_tables_nontrivial.

(* -- non-vacuity of the decision procedure: the two classic slips produce a
      stale value in the executable cache -- *)
Theorem C01_dropped_counter_is_stale :
  adequate_mm nw_setter broken_method = false /\ stale_after broken_method nw_setter = true.
Proof. exact dropped_counter_is_stale. Qed.
Print Assumptions C01_dropped_counter_is_stale.

Theorem C01_reinit_is_stale :
  adequate_mm reinit_setter degree_method = false /\ stale_after degree_method reinit_setter = true.
Proof. exact reinit_is_stale. Qed.
Print Assumptions C01_reinit_is_stale.
