(* C03 — network measures equal their published definitions (the parts that
   are logic: fixed-width arithmetic of the kernels, unit-weight relations). *)
From Coq Require Import ZArith QArith Qcanon List Bool Arith.
From PV.Base Require Import Sums.
From PV.Model Require Import NsiLang Split Measures Defs.
From PV.Gen Require Import Widths.
From PV.Proofs Require Import Defs.
Import ListNotations.
Close Scope Q_scope. Close Scope Qc_scope.

Theorem C03_wrap_id w x : (0 < w)%Z -> fits w x -> wrap w x = x.
Proof. exact (wrap_id w x). Qed.
Print Assumptions C03_wrap_id.

(* the cliquishness normalisation in the CURRENT source is exact for every
   degree (evaluated in double), or - if it is evaluated in NODE_t - wrong at
   degree 217 *)
Theorem C03_cliquishness_normalisation :
  (gen_cliq5_norm_in_double = true /\ gen_cliq4_norm_in_double = true /\
   forall d, cliq_norm gen_bits_NODE gen_cliq5_norm_in_double 4 d = falling d 4 /\
             cliq_norm gen_bits_NODE gen_cliq4_norm_in_double 3 d = falling d 3)
  \/ (gen_cliq5_norm_in_double = false /\
      cliq_norm gen_bits_NODE gen_cliq5_norm_in_double 4 217 <> falling 217 4).
Proof. exact cliq_norm_current. Qed.
Print Assumptions C03_cliquishness_normalisation.

Theorem C03_int32_norm_fits_below_217 :
  forallb (fun d => Z.eqb (wrap 32 (falling d 4)) (falling d 4)) (map Z.of_nat (seq 0 217)) = true.
Proof. exact cliq5_fits_below_217. Qed.
Print Assumptions C03_int32_norm_fits_below_217.

Theorem C03_int32_norm_wraps_at_217 :
  wrap 32 (falling 217 4) <> falling 217 4 /\ (wrap 32 (falling 221 4) < 0)%Z.
Proof. exact cliq5_wraps_at_217. Qed.
Print Assumptions C03_int32_norm_wraps_at_217.

(* degrees are handed to the kernels as int16, node indices as int32 *)
Theorem C03_degree_cast d : gen_bits_DEGREE = 16%Z /\ gen_bits_NODE = 32%Z /\ gen_bits_ADJ = 8%Z /\
  ((0 <= d < 32768)%Z -> wrap gen_bits_DEGREE d = d).
Proof. exact (degree_cast_fits d). Qed.
Print Assumptions C03_degree_cast.

(* with unit node weights the n.s.i. degree is the degree plus one *)
Theorem C03_unit_weight_nsi_degree r i : (i < rn r)%nat -> (forall j, ra r j j = false) ->
  (forall j, rw r j = 1%Qc) ->
  (eval (to_graph r) [i] (K 0) = sumn (rn r) (fun j => ind (ra r i j)) + 1)%Qc.
Proof. exact (unit_weight_nsi_degree r i). Qed.
Print Assumptions C03_unit_weight_nsi_degree.

(* ---- textbook definitions of the basic measures (Model/GraphDefs.v, compared
        with the library inside Coq on exhaustive small graphs) ---- *)
From PV.Model Require GraphDefs.
From PV.Proofs Require GraphDefs.

(* handshake lemma: the degrees of a simple undirected network add up to
   twice its number of links, for every size *)
Theorem C03_handshake n A : (forall i j, A i j = A j i) -> (forall i, A i i = false) ->
  list_sum (map (GraphDefs.degree n A) (seq 0 n)) = (2 * GraphDefs.links n A)%nat.
Proof. exact (PV.Proofs.GraphDefs.handshake n A). Qed.
Print Assumptions C03_handshake.

(* local clustering and transitivity are fractions *)
Theorem C03_local_clustering_range n A i : (forall a, A a a = false) ->
  (0 <= GraphDefs.local_clustering n A i /\ GraphDefs.local_clustering n A i <= 1)%Q.
Proof. exact (PV.Proofs.GraphDefs.local_clustering_range n A i). Qed.
Print Assumptions C03_local_clustering_range.

Theorem C03_transitivity_range n A : (forall a, A a a = false) ->
  (0 <= GraphDefs.transitivity n A /\ GraphDefs.transitivity n A <= 1)%Q.
Proof. exact (PV.Proofs.GraphDefs.transitivity_range n A). Qed.
Print Assumptions C03_transitivity_range.

(* shortest path lengths: the reported distance is attained and minimal, a
   node is at distance 0 from itself, paths concatenate *)
Theorem C03_distance_is_least n A i j d : GraphDefs.dist n A i j = Some d ->
  GraphDefs.within n A d i j = true /\ forall k, (k < d)%nat -> GraphDefs.within n A k i j = false.
Proof. exact (PV.Proofs.GraphDefs.dist_least n A i j d). Qed.
Print Assumptions C03_distance_is_least.

Theorem C03_paths_concatenate n A a b i j m : (m < n)%nat -> (j < n)%nat ->
  GraphDefs.within n A a i j = true -> GraphDefs.within n A b j m = true ->
  GraphDefs.within n A (a + b) i m = true.
Proof. exact (PV.Proofs.GraphDefs.within_trans n A b a i j m). Qed.
Print Assumptions C03_paths_concatenate.
