(* C09 — similarity networks link exactly the pairs above the threshold. *)
From Coq Require Import QArith List Bool Arith ZArith Permutation.
From PV.Base Require Import F32.
From PV.Model Require Import Recurrence Threshold.
From PV.Proofs Require Import Threshold.
Import ListNotations.
Close Scope Q_scope. Close Scope Z_scope. Open Scope nat_scope.

Theorem C09_adj_spec S thr i j : adj S thr i j = true <-> i <> j /\ (thr < S i j)%Q.
Proof. exact (adj_spec S thr i j). Qed.
Print Assumptions C09_adj_spec.

Theorem C09_raising_threshold_only_removes S t1 t2 i j :
  (t1 <= t2)%Q -> adj S t2 i j = true -> adj S t1 i j = true.
Proof. exact (adj_antitone S t1 t2 i j). Qed.
Print Assumptions C09_raising_threshold_only_removes.

Theorem C09_symmetric S thr i j : (forall a b, S a b = S b a) -> adj S thr i j = adj S thr j i.
Proof. exact (adj_symmetric S thr i j). Qed.
Print Assumptions C09_symmetric.

Theorem C09_no_loops S thr i : adj S thr i i = false.
Proof. exact (adj_no_loops S thr i). Qed.
Print Assumptions C09_no_loops.

Theorem C09_damping_only_removes S g thr i j :
  (0 <= thr)%Q -> (0 <= S i j)%Q -> (0 <= g i j <= 1)%Q ->
  adj (damped S g) thr i j = true -> adj S thr i j = true.
Proof. exact (damped_removes_only S g thr i j). Qed.
Print Assumptions C09_damping_only_removes.

(* prescribing a density: with n diagonal entries equal to the maximum M,
   at most n*n - 1 - rank - n off-diagonal entries exceed the threshold ... *)
Theorem C09_density_bound flat diags offs M rho n :
  Permutation flat (diags ++ offs) -> length diags = n -> length flat = n * n ->
  Forall (fun d => d = M) diags -> Forall (fun x => (x <= M)%Q) offs ->
  density_index rho n < length flat ->
  let thr := threshold_of_density flat rho n in
  count_gt thr offs + n + density_index rho n + 1 <= n * n \/ count_gt thr offs = 0.
Proof. exact (density_bound flat diags offs M rho n). Qed.
Print Assumptions C09_density_bound.

(* ... where rank + 1 > (1 - rho)(n*n - n): hence #links < rho * (n*n - n) + ties *)
Theorem C09_density_rank rho n : (0 <= rho <= 1)%Q ->
  ((1 - rho) * inject_Z (Z.of_nat (n * n - n)) < inject_Z (Z.of_nat (density_index rho n)) + 1)%Q.
Proof. exact (density_index_bound rho n). Qed.
Print Assumptions C09_density_rank.

(* after every sequence of set_threshold / set_non_local / set_link_density the
   adjacency is the thresholding of the current (damped) similarity at the
   current threshold *)
Theorem C09_consistent S g flat n st ops i j :
  let st' := cn_run flat n st ops in
  cn_adj S g st' i j = true <->
  i <> j /\ (cn_thr st' < (if cn_nonlocal st' then damped S g else S) i j)%Q.
Proof. exact (consistent S g flat n st ops i j). Qed.
Print Assumptions C09_consistent.

(* ---- facts read from the CURRENT climate_network.py (regenerated on every
        run): strict comparison and zeroed diagonal, the index into the sorted
        similarities, the setters ---- *)
From PV.Gen Require Import ThresholdK.
From PV.Proofs Require Import ThresholdGen.

Theorem C09_density_index_is_model rho n : gen_density_index rho n = density_index rho n.
Proof. exact (gen_density_index_is_model rho n). Qed.
Print Assumptions C09_density_index_is_model.

Theorem C09_source_facts :
  gen_adj_strict_and_loop_free = true /\ gen_nonlocal_is_damped_threshold = true /\
  gen_set_threshold_rebuilds = true /\ gen_set_density_via_threshold = true /\
  gen_similarity_is_abs_float32 = true.
Proof. exact gen_threshold_facts. Qed.
Print Assumptions C09_source_facts.
