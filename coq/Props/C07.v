(* C07 — recurrence matrices are exactly the thresholded distance matrices. *)
From Coq Require Import QArith List Bool Arith ZArith.
From PV.Base Require Import F32.
From PV.Model Require Import Recurrence.
From PV.Proofs Require Import Recurrence.
Import ListNotations.
Close Scope Q_scope. Close Scope Z_scope. Open Scope nat_scope.

Theorem C07_rp_spec m E eps mvf miss j k :
  rp_matrix m E eps mvf miss j k = true <->
  vlt (rp_dist m E j k) (scaled_eps m eps) = true /\ (mvf = true -> miss j = false /\ miss k = false).
Proof. exact (rp_matrix_spec m E eps mvf miss j k). Qed.
Print Assumptions C07_rp_spec.

Theorem C07_rp_symmetric m E eps mvf miss j k :
  rp_matrix m E eps mvf miss j k = rp_matrix m E eps mvf miss k j.
Proof. exact (rp_matrix_symmetric m E eps mvf miss j k). Qed.
Print Assumptions C07_rp_symmetric.

Theorem C07_nan_never_recurrent eps : recurrent None eps = false.
Proof. exact (nan_never_recurrent eps). Qed.
Print Assumptions C07_nan_never_recurrent.

Theorem C07_unit_diagonal m E eps miss j : (0 < eps)%Q ->
  rp_matrix m E eps false miss j j = true.
Proof. exact (rp_unit_diagonal m E eps miss j). Qed.
Print Assumptions C07_unit_diagonal.

Theorem C07_embed_spec x dim tau k j : k < length x - (dim - 1) * tau -> j < dim ->
  nth j (nth k (embed x dim tau) []) None = nth (k + j * tau) x None.
Proof. exact (embed_spec x dim tau k j). Qed.
Print Assumptions C07_embed_spec.

Theorem C07_embed_length x dim tau : length (embed x dim tau) = length x - (dim - 1) * tau.
Proof. exact (embed_length x dim tau). Qed.
Print Assumptions C07_embed_length.

(* fixed recurrence rate: the threshold is the stated order statistic, so at
   most `rank` distances are strictly below it *)
Theorem C07_rate_quantile dists rr : quantile_index rr (length dists) < length dists ->
  count_lt (threshold_of_rate dists rr) dists <= quantile_index rr (length dists).
Proof. exact (rate_quantile dists rr). Qed.
Print Assumptions C07_rate_quantile.

Theorem C07_sort_is_permutation l : Permutation.Permutation l (sortQ l).
Proof. exact (sortQ_perm l). Qed.
Print Assumptions C07_sort_is_permutation.

Theorem C07_joint_lag0 n Rx Ry i j : joint n 0 Rx Ry i j = Rx i j && Ry i j.
Proof. exact (joint_lag0 n Rx Ry i j). Qed.
Print Assumptions C07_joint_lag0.

Theorem C07_joint_symmetric n lag Rx Ry i j :
  (forall a b, Rx a b = Rx b a) -> (forall a b, Ry a b = Ry b a) ->
  joint n lag Rx Ry i j = joint n lag Rx Ry j i.
Proof. exact (joint_symmetric n lag Rx Ry i j). Qed.
Print Assumptions C07_joint_symmetric.

(* the lagged joint plot has n - |lag| states, and only reads inside both plots *)
Theorem C07_joint_in_range n lag i j : i < joint_size n lag -> j < joint_size n lag ->
  i + Z.abs_nat lag < n /\ j + Z.abs_nat lag < n.
Proof. exact (joint_in_range n lag i j). Qed.
Print Assumptions C07_joint_in_range.

Theorem C07_intersystem_blocks nx ny Rx Ry Cxy i j :
  (i < nx -> j < nx -> isrm nx ny Rx Ry Cxy i j = Rx i j) /\
  (i < nx -> nx <= j -> isrm nx ny Rx Ry Cxy i j = Cxy i (j - nx)) /\
  (nx <= i -> j < nx -> isrm nx ny Rx Ry Cxy i j = Cxy j (i - nx)) /\
  (nx <= i -> nx <= j -> isrm nx ny Rx Ry Cxy i j = Ry (i - nx) (j - nx)).
Proof. exact (isrm_blocks nx ny Rx Ry Cxy i j). Qed.
Print Assumptions C07_intersystem_blocks.

Theorem C07_intersystem_symmetric nx ny Rx Ry Cxy i j :
  (forall a b, Rx a b = Rx b a) -> (forall a b, Ry a b = Ry b a) ->
  isrm nx ny Rx Ry Cxy i j = isrm nx ny Rx Ry Cxy j i.
Proof. exact (isrm_symmetric nx ny Rx Ry Cxy i j). Qed.
Print Assumptions C07_intersystem_symmetric.

Theorem C07_network_is_R_minus_diag R i j :
  network_of R i i = false /\ (i <> j -> network_of R i j = R i j).
Proof. exact (network_is_R_minus_diag R i j). Qed.
Print Assumptions C07_network_is_R_minus_diag.

(* ---- the distance kernels AS WRITTEN IN THE CURRENT numerics.pyx (regenerated
        on every run: loop ranges, cells, per-dimension update over NaN-able
        samples, root) are the model's state distances ---- *)
From PV.Gen Require Import RecurrenceK.
From PV.Proofs Require Import RecurrenceGen.

Theorem C07_distance_kernels_are_model a b :
  gen_state_dist gen_manhattan_step a b = state_dist Manhattan a b /\
  gen_state_dist gen_euclidean_step a b = state_dist Euclidean a b /\
  gen_state_dist gen_supremum_step a b = state_dist Supremum a b.
Proof. exact (gen_kernels_are_state_dist a b). Qed.
Print Assumptions C07_distance_kernels_are_model.

Theorem C07_distance_kernel_facts :
  gen_manhattan_takes_root = false /\ gen_euclidean_takes_root = true /\
  gen_supremum_takes_root = false /\ gen_manhattan_crp_same = true /\
  gen_euclidean_crp_same = true /\ gen_supremum_crp_same = true.
Proof. exact gen_kernel_facts. Qed.
Print Assumptions C07_distance_kernel_facts.
