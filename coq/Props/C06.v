(* C06 — queries are pure: no interference, inputs are never modified. *)
From Coq Require Import ZArith List Bool String.
From PV.Model Require Import Purity.
From PV.Gen Require Import PurityFacts.
From PV.Proofs Require Import Purity.
Import ListNotations.

(* after ANY sequence of queries that leave the memoised cells as they found
   them, every query answers as on the untouched object *)
Theorem C06_noninterference qs q s : Forall pure qs -> extensional q ->
  snd (call (run s qs) q) = snd (call s q).
Proof. exact (noninterference qs q s). Qed.
Print Assumptions C06_noninterference.

Theorem C06_repeat_equal q s : pure q -> extensional q ->
  snd (call (fst (call s q)) q) = snd (call s q).
Proof. exact (repeat_equal q s). Qed.
Print Assumptions C06_repeat_equal.

(* the library's save / restore idiom is pure ... *)
Theorem C06_edit_restore_pure c tmp f : pure (edit_restore c tmp f).
Proof. exact (edit_restore_pure c tmp f). Qed.
Print Assumptions C06_edit_restore_pure.

(* ... an edit of a memoised value that is not undone is not: a later reader
   of the same cell sees it (why the table below must be empty) *)
Theorem C06_unrestored_edit_interferes c :
  exists s, snd (call (run s [edit_only c (fun z => z + 1)%Z]) (read_cell c))
            <> snd (call s (read_cell c)).
Proof. exact (edit_only_interferes c). Qed.
Print Assumptions C06_unrestored_edit_interferes.

(* in the CURRENT source no function leaves an in-place edit of a memoised
   value behind (alias analysis regenerated on every run) ... *)
Theorem C06_no_unrestored_edit_of_memoised_values : dirty_cached gen_inplace_edits = [].
Proof. vm_compute. reflexivity. Qed.
Print Assumptions C06_no_unrestored_edit_of_memoised_values.

(* ... and no public function edits an array of its caller without
   documenting it *)
Theorem C06_no_undocumented_edit_of_caller_arrays : dirty_params gen_inplace_edits = [].
Proof. vm_compute. reflexivity. Qed.
Print Assumptions C06_no_undocumented_edit_of_caller_arrays.

(* the conversion helper to_cy hands out a fresh array whatever the element
   type of its argument (so constructors never alias a caller's array) *)
Theorem C06_to_cy_copies : gen_to_cy_copies = true.
Proof. reflexivity. Qed.
Print Assumptions C06_to_cy_copies.
