(* C16 — event synchronisation / coincidence follow their counting rules. *)
From Coq Require Import ZArith List Bool Arith.
From PV.Model Require Import EventSync.
From PV.Proofs Require Import EventSync.
Import ListNotations.
Open Scope Z_scope.

(* exchanging the sequences exchanges the two directed strengths *)
Theorem C16_es_exchange tm ex ey :
  es tm 0 ey ex = let '(a, b, lx, ly) := es tm 0 ex ey in (b, a, ly, lx).
Proof. exact (es_exchange_series tm ex ey). Qed.
Print Assumptions C16_es_exchange.

Theorem C16_es_exchange_core tm X Y :
  es_core tm Y X = let '(a, b, lx, ly) := es_core tm X Y in (b, a, ly, lx).
Proof. exact (es_exchange tm X Y). Qed.
Print Assumptions C16_es_exchange_core.

(* shifting both sequences in time, any lag, any window *)
Theorem C16_es_shift tm lag c ex ey :
  es tm lag (map (fun t => t + c) ex) (map (fun t => t + c) ey) = es tm lag ex ey.
Proof. exact (es_shift tm lag c ex ey). Qed.
Print Assumptions C16_es_shift.

(* rescaling time with an unbounded coincidence window *)
Theorem C16_es_rescale k ex ey : 0 < k ->
  es None 0 (map (fun t => k * t) ex) (map (fun t => k * t) ey) = es None 0 ex ey.
Proof. exact (es_rescale k ex ey). Qed.
Print Assumptions C16_es_rescale.

(* the double-count correction never removes more than was counted: the
   strengths are non-negative *)
Theorem C16_es_nonneg tm X Y :
  (sum2 X Y (fun p q => b2n (Axy tm p q &&
       (existsb (Ayx tm p) Y || existsb (fun p' => Ayx tm p' q) X)))
   <= sum2 X Y (fun p q => b2n (Axy tm p q)))%nat.
Proof. exact (double_le_coincidences tm X Y). Qed.
Print Assumptions C16_es_nonneg.

(* coincidence rates: every count is at most its denominator, so each rate
   lies in [0,1] whenever the denominator is positive *)
Theorem C16_eca_range taumax lag e1 e2 :
  let '((p12, d1), (t12, d2), (p21, d3), (t21, d4)) := eca taumax lag e1 e2 in
  (p12 <= d1 /\ t12 <= d2 /\ p21 <= d3 /\ t21 <= d4)%nat.
Proof. exact (eca_range taumax lag e1 e2). Qed.
Print Assumptions C16_eca_range.

(* ---- the statements of event_synchronization AS WRITTEN IN THE CURRENT
        event_series.py (regenerated on every run: distance and delay arrays,
        the coincidence conditions, double-count loops, counts and norm) ---- *)
From PV.Gen Require Import EventSyncK.
From PV.Proofs Require Import EventSyncGen.

Theorem C16_coincidence_conditions_are_model taumax p q :
  gen_Axy (dst2 p q) (tau2 taumax p q) = Axy taumax p q /\
  gen_Ayx (dst2 p q) (tau2 taumax p q) = Ayx taumax p q.
Proof. exact (gen_conditions_are_model taumax p q). Qed.
Print Assumptions C16_coincidence_conditions_are_model.

Theorem C16_source_statements : gen_es_statements_are_model = true.
Proof. exact gen_es_facts. Qed.
Print Assumptions C16_source_statements.
