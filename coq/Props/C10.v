(* C10 — similarity / coupling estimates: the lag bookkeeping and the
   algebra of the estimators (the float tails are compared, not proved). *)
From Coq Require Import ZArith QArith Qabs Qcanon List Bool Arith.
From PV.Base Require Import Sums.
From PV.Model Require Import Coupling.
From PV.Gen Require Import CouplingK.
From PV.Proofs Require Import Coupling CouplingGen CauchySchwarz.
Import ListNotations.
Open Scope Q_scope.

(* the kernel of the current source IS the model's running maximum *)
Theorem C10_max_kernel_is_model a cr tau_max i j : gen_cc_max a cr tau_max i j = cc_max a cr tau_max i j.
Proof. exact (gen_cc_max_is_model a cr tau_max i j). Qed.
Print Assumptions C10_max_kernel_is_model.

Theorem C10_kernels_are_model :
  (forall a tau_max tau i j k, gen_cc_term a tau_max tau i j k = a tau i k * a tau_max j k) /\
  (forall c m, gen_cc_better c m = better c m) /\
  (forall m cr, gen_cc_value m cr = m / qnat cr) /\
  (forall tau_max am, gen_cc_lag tau_max am = (Z.of_nat tau_max - Z.of_nat am)%Z) /\
  (forall tau_max tau, gen_all_index tau_max tau = all_index tau_max tau) /\
  (forall c cr, gen_all_value c cr = c / qnat cr) /\
  (forall S i j, gen_sym_keep_upper S i j = keep_upper S i j).
Proof. exact gen_kernels_are_model. Qed.
Print Assumptions C10_kernels_are_model.

(* value / lag summary: in 'max' mode the reported lag is in range and the
   value is the 'all'-mode entry at that lag ... *)
Theorem C10_max_is_all_at_lag a cr tau_max i j :
  let r := cc_max a cr tau_max i j in
  (0 <= snd r <= Z.of_nat tau_max)%Z /\ fst r == cc_all a cr tau_max i j (Z.to_nat (snd r)).
Proof. exact (max_is_all_at_lag a cr tau_max i j). Qed.
Print Assumptions C10_max_is_all_at_lag.

(* ... and it is the absolute maximum of the lag function *)
Theorem C10_max_dominates a cr tau_max i j l : (l <= tau_max)%nat -> (0 < cr)%nat ->
  Qabs (cc_all a cr tau_max i j l) <= Qabs (fst (cc_max a cr tau_max i j)).
Proof. exact (max_dominates_all a cr tau_max i j l). Qed.
Print Assumptions C10_max_dominates.

Theorem C10_reorder_equivariant a cr tau_max (p : nat -> nat) i j :
  cc_max (fun t n k => a t (p n) k) cr tau_max i j = cc_max a cr tau_max (p i) (p j).
Proof. exact (cc_max_equivariant a cr tau_max p i j). Qed.
Print Assumptions C10_reorder_equivariant.

(* lags are stored exactly as long as tau_max fits the lag matrix' width *)
Theorem C10_lag_fits tau_max argmax : (argmax <= tau_max)%nat ->
  (Z.of_nat tau_max < 2 ^ (gen_lag_bits - 1))%Z ->
  wrap gen_lag_bits (gen_cc_lag tau_max argmax) = gen_cc_lag tau_max argmax.
Proof. exact (gen_lag_fits tau_max argmax). Qed.
Print Assumptions C10_lag_fits.

(* refuted beyond: an 8-bit lag matrix turns lag 200 into -56 (known finding
   while the source declares LAG = int8) *)
Theorem C10_lag_wraps_refuted : wrap 8 (Z.of_nat 200 - Z.of_nat 0) = (-56)%Z.
Proof. exact lag_wraps_int8. Qed.
Print Assumptions C10_lag_wraps_refuted.

Theorem C10_symmetrized_symmetric S i j : symS S i j = symS S j i.
Proof. exact (symS_symmetric S i j). Qed.
Print Assumptions C10_symmetrized_symmetric.

Theorem C10_symmetrized_lags_antisymmetric S L i j : i <> j -> symL S L i j = (- symL S L j i)%Z.
Proof. exact (symL_antisymmetric S L i j). Qed.
Print Assumptions C10_symmetrized_lags_antisymmetric.

Theorem C10_symmetrized_is_absmax S i j :
  Qabs (S i j) <= Qabs (symS S i j) /\ Qabs (S j i) <= Qabs (symS S i j) /\
  (symS S i j = S i j \/ symS S i j = S j i).
Proof. exact (symS_is_absmax S i j). Qed.
Print Assumptions C10_symmetrized_is_absmax.

Theorem C10_pearson_symmetric n x y : r2 n x y = r2 n y x.
Proof. exact (r2_symmetric n x y). Qed.
Print Assumptions C10_pearson_symmetric.

Theorem C10_pearson_affine n a b c d x y : (0 < n)%nat -> a <> 0%Qc -> c <> 0%Qc ->
  cov n x x <> 0%Qc -> cov n y y <> 0%Qc ->
  r2 n (fun k => a * x k + b)%Qc (fun k => c * y k + d)%Qc = r2 n x y.
Proof. exact (r2_affine n a b c d x y). Qed.
Print Assumptions C10_pearson_affine.

Theorem C10_covariance_sign n a b c d x y : (0 < n)%nat ->
  cov n (fun k => a * x k + b)%Qc (fun k => c * y k + d)%Qc = (a * c * cov n x y)%Qc.
Proof. exact (cov_affine_sign n a b c d x y). Qed.
Print Assumptions C10_covariance_sign.

(* bounded: the squared covariance never exceeds the product of the variances
   (|r| <= 1 in square-root-free form), for every pair of series of any length *)
Theorem C10_pearson_bounded n x y : (cov n x y * cov n x y <= cov n x x * cov n y y)%Qc.
Proof. exact (cov_sq_le n x y). Qed.
Print Assumptions C10_pearson_bounded.

Theorem C10_variance_nonneg n x : (0 <= cov n x x)%Qc.
Proof. exact (cov_self_nonneg n x). Qed.
Print Assumptions C10_variance_nonneg.
