(* C11 — cross/internal measures of interacting networks match sub-blocks. *)
From Coq Require Import QArith Qcanon List Bool Arith Permutation.
From PV.Model Require Import PairLoop Interacting.
From PV.Proofs Require Import PairLoop Interacting.
Import ListNotations.
Close Scope Q_scope. Open Scope nat_scope.

(* sub-blocks follow the ORDER of the node lists *)
Theorem C11_block_spec {V} (M : nat -> nat -> V) l1 l2 a b d d2 :
  a < length l1 -> b < length l2 ->
  nth b (nth a (block M l1 l2) d2) d = M (nth a l1 0) (nth b l2 0).
Proof. exact (block_spec M l1 l2 a b d d2). Qed.
Print Assumptions C11_block_spec.

(* unique-pairs loop = (full double sum - diagonal) / 2, for symmetric summands *)
Theorem C11_pair_loop_double f l : (forall a b, f a b = f b a) ->
  ((1 + 1) * pair_loop f l + sumq (map (fun a => f a a) l) = S2 f l l)%Qc.
Proof. exact (pair_loop_double f l). Qed.
Print Assumptions C11_pair_loop_double.

(* the norm k(k-1)/2 of the local cross clustering is the number of connected
   triples the transitivity kernel counts *)
Theorem C11_triples_are_neighbour_pairs A l2 n1 :
  ((1 + 1) * triples_of A l2 n1 = cross_degree A l2 n1 * (cross_degree A l2 n1 - 1))%Qc.
Proof. exact (triples_are_neighbour_pairs A l2 n1). Qed.
Print Assumptions C11_triples_are_neighbour_pairs.

(* on undirected networks neither kernel depends on the order of the lists *)
Theorem C11_cross_local_clustering_order_free A l2 l2' n1 : (forall a b, A a b = A b a) ->
  Permutation l2 l2' -> cross_local_clustering A l2 n1 = cross_local_clustering A l2' n1.
Proof. exact (cross_local_clustering_order_free A l2 l2' n1). Qed.
Print Assumptions C11_cross_local_clustering_order_free.

Theorem C11_cross_transitivity_order_free A l1 l1' l2 l2' : (forall a b, A a b = A b a) ->
  Permutation l1 l1' -> Permutation l2 l2' ->
  cross_transitivity A l1 l2 = cross_transitivity A l1' l2'.
Proof. exact (cross_transitivity_order_free A l1 l1' l2 l2'). Qed.
Print Assumptions C11_cross_transitivity_order_free.

Theorem C11_cross_degree_order_free A l2 l2' n1 :
  Permutation l2 l2' -> cross_degree A l2 n1 = cross_degree A l2' n1.
Proof. exact (cross_degree_order_free A l2 l2' n1). Qed.
Print Assumptions C11_cross_degree_order_free.

(* ---- both groups = the whole node set: the single-network measures
        (definitions of Model/GraphDefs.v, which the C03 check compares with
        the library inside Coq) ---- *)
From PV.Model Require GraphDefs.
From PV.Proofs Require Import WholeSet.

Theorem C11_whole_set_degree n A i : cross_degree A (seq 0 n) i = qcnat (GraphDefs.degree n A i).
Proof. exact (cross_degree_whole n A i). Qed.
Print Assumptions C11_whole_set_degree.

Theorem C11_whole_set_triangles n A i : (forall a b, A a b = A b a) -> (forall a, A a a = false) ->
  ((1 + 1) * triangles_of A (seq 0 n) i
   = qcnat (GraphDefs.linked_pairs A (GraphDefs.nbrs n A i)))%Qc.
Proof. exact (triangles_whole n A i). Qed.
Print Assumptions C11_whole_set_triangles.

Theorem C11_whole_set_local_clustering n A i :
  (forall a b, A a b = A b a) -> (forall a, A a a = false) ->
  let k := qcnat (GraphDefs.degree n A i) in
  let lp := qcnat (GraphDefs.linked_pairs A (GraphDefs.nbrs n A i)) in
  cross_local_clustering A (seq 0 n) i
  = if Qc_eq_dec (k * (k - 1))%Qc 0%Qc then 0%Qc else (lp / (k * (k - 1)))%Qc.
Proof. exact (cross_local_clustering_whole n A i). Qed.
Print Assumptions C11_whole_set_local_clustering.

(* ---- the two unweighted kernels AS WRITTEN IN THE CURRENT numerics.pyx
        (regenerated on every run: loop nest over unique pairs, counting
        conditions, quotient) count what the model counts ---- *)
From PV.Gen Require Import CrossK.
From PV.Proofs Require Import CrossGen.

Theorem C11_kernels_are_model A l2 n1 :
  triples_of A l2 n1 = pair_loop (fun n3 n2 => qb (gen_ct_triples A n1 n2 n3)) l2 /\
  triangles_of A l2 n1 = pair_loop (fun n3 n2 => qb (gen_ct_triangles A n1 n2 n3)) l2 /\
  triangles_of A l2 n1 = pair_loop (fun n3 n2 => qb (gen_clc_triangles A n1 n2 n3)) l2.
Proof. exact (gen_counts_are_model A l2 n1). Qed.
Print Assumptions C11_kernels_are_model.

(* ---- the two n.s.i. kernels (link test on A+, unique pairs q > p counted
        twice, the pair p = q once) and the A + Id their callers hand them are
        the text the terms nsi_cross_transitivity / nsi_cross_local_clustering
        of Model/Measures.v transcribe; regenerated on every run ---- *)
Theorem C11_nsi_kernels_are_model :
  gen_nsi_cross_kernels_are_model = true /\ gen_cross_kernels_skeleton = true.
Proof. exact (conj gen_nsi_kernels gen_skeleton). Qed.
Print Assumptions C11_nsi_kernels_are_model.

(* ---- ... and what those statements compute are the terms
        nsi_cross_transitivity / nsi_cross_local_clustering of
        Model/Measures.v, the terms C02 / C04 prove invariant: symmetric
        reflexive A+, duplicate-free node lists inside the node range ---- *)
From PV.Model Require NsiLang Measures NsiKernels.
From PV.Proofs Require NsiKernels.

Theorem C11_nsi_cross_transitivity_kernel (G : NsiLang.graph) l1 l2 :
  (forall a b, NsiLang.ap G a b = NsiLang.ap G b a) -> (forall a, NsiLang.ap G a a = true) ->
  NoDup l1 -> NoDup l2 ->
  (forall x, In x l1 -> (x < NsiLang.gn G)%nat) -> (forall x, In x l2 -> (x < NsiLang.gn G)%nat) ->
  (forall u, NsiLang.grp G 0 u = PV.Proofs.NsiKernels.mem l1 u) ->
  (forall u, NsiLang.grp G 1 u = PV.Proofs.NsiKernels.mem l2 u) ->
  PV.Model.NsiKernels.k_nsi_cross_transitivity (NsiLang.ap G) (NsiLang.gw G) l1 l2 =
  NsiLang.eval G [] Measures.nsi_cross_transitivity.
Proof. exact (PV.Proofs.NsiKernels.nsi_cross_transitivity_kernel_is_term G l1 l2). Qed.
Print Assumptions C11_nsi_cross_transitivity_kernel.

Theorem C11_nsi_cross_local_clustering_kernel (G : NsiLang.graph) l2 v :
  (forall a b, NsiLang.ap G a b = NsiLang.ap G b a) -> (forall a, NsiLang.ap G a a = true) ->
  NoDup l2 -> (forall x, In x l2 -> (x < NsiLang.gn G)%nat) ->
  (forall u, NsiLang.grp G 1 u = PV.Proofs.NsiKernels.mem l2 u) ->
  PV.Model.NsiKernels.k_nsi_cross_local_clustering (NsiLang.ap G) (NsiLang.gw G) l2 v =
  NsiLang.eval G [v] Measures.nsi_cross_local_clustering.
Proof.
  intros S R N I M.
  exact (PV.Proofs.NsiKernels.nsi_cross_local_clustering_kernel_is_term G l2 S R N I M v).
Qed.
Print Assumptions C11_nsi_cross_local_clustering_kernel.
