(* C05 — all representations of a network agree (the constructor logic). *)
From Coq Require Import String QArith List Bool Arith.
From PV.Model Require Import Reps Files.
From PV.Gen Require Import FileAttrs.
From PV.Proofs Require Import Reps Files FilesGen.
Import ListNotations.
Close Scope Q_scope. Close Scope string_scope. Open Scope nat_scope.

(* a network rebuilt from the edge list it reports is the same network, for
   every simple graph, directed or not, including edgeless ones *)
Theorem C05_edges_roundtrip n directed (A : mat) i j : i < n -> j < n ->
  (directed = false -> (forall a b, A a b = A b a) /\ (forall a, A a a = false)) ->
  of_edges directed (edges_of n directed A) i j = A i j.
Proof. exact (of_edges_of_dense n directed A i j). Qed.
Print Assumptions C05_edges_roundtrip.

Theorem C05_edge_list_duplicates directed E i j :
  of_edges directed (E ++ E) i j = of_edges directed E i j.
Proof. exact (of_edges_twice directed E i j). Qed.
Print Assumptions C05_edge_list_duplicates.

Theorem C05_undirected_symmetric E i j : of_edges false E i j = of_edges false E j i.
Proof. exact (of_edges_symmetric E i j). Qed.
Print Assumptions C05_undirected_symmetric.

Theorem C05_mean_weight w : (length w > 0)%nat ->
  (mean_weight w * inject_Z (Z.of_nat (length w)) == total_weight w)%Q.
Proof. exact (mean_times_n w). Qed.
Print Assumptions C05_mean_weight.

Theorem C05_density_consistent n A : (2 <= n)%nat ->
  (link_density n A * inject_Z (Z.of_nat (n * (n - 1))) == inject_Z (Z.of_nat (nnz n A)))%Q.
Proof. exact (density_consistent n A). Qed.
Print Assumptions C05_density_consistent.

Theorem C05_density_single_node A : (link_density 1 A == 0)%Q.
Proof. exact (density_single_node A). Qed.
Print Assumptions C05_density_single_node.

(* files: for the attribute names and loaders read from the CURRENT source,
   every loader finds the node weights save() wrote, in every format *)
Theorem C05_weights_found_in_every_format l f : In l gen_loaders ->
  finds gen_aliases gen_written f (snd l) = true.
Proof. exact (weights_found_everywhere l f). Qed.
Print Assumptions C05_weights_found_in_every_format.

Theorem C05_loaders_covered :
  map fst gen_loaders = ["Network"; "SpatialNetwork"; "GeoNetwork"; "ClimateNetwork"]%string.
Proof. exact gen_loaders_named. Qed.
Print Assumptions C05_loaders_covered.

(* link-attribute names of letters and digits are stored unchanged by all four formats *)
Theorem C05_clean_names_survive f s : clean s = true -> stored f s = s.
Proof. exact (stored_clean f s). Qed.
Print Assumptions C05_clean_names_survive.

Theorem C05_gml_key_idempotent s : gml_key (gml_key s) = gml_key s.
Proof. exact (gml_key_idempotent s). Qed.
Print Assumptions C05_gml_key_idempotent.
