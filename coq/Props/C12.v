(* C12 — grid distances equal closed-form geometry and are metrics: the logic
   of the kernels (which cell gets which value, clamp, symmetry, zero self
   distance), rectangular grids, lookup, area weights. *)
From Coq Require Import ZArith QArith Qcanon List Bool Arith String.
From PV.Base Require Import Sums.
From PV.Model Require Import Grid.
From PV.Gen Require Import GridK.
From PV.Base Require Import F32.
From PV.Proofs Require Import Grid GridGen F32Error CosError EucError.
Import ListNotations.
Close Scope Q_scope. Close Scope Qc_scope. Close Scope Z_scope. Close Scope string_scope.
Open Scope nat_scope.

(* the angular kernel AS WRITTEN IN THE CURRENT SOURCE leaves, in every cell
   (a,b) of an N x N matrix, the clamped binary32 expression of the pair
   (max a b, min a b) *)
Theorem C12_angular_kernel N cl sl cn sn init a b : a < N -> b < N ->
  read (writes (gen_ang_outer N) (gen_ang_inner N) gen_ang_cells
          (fun i j => gen_ang_clamp (gen_ang_expr cl sl cn sn i j))) init (a, b)
  = cos_ang 32 cl sl cn sn a b.
Proof. exact (ang_kernel_result N cl sl cn sn init a b). Qed.
Print Assumptions C12_angular_kernel.

Theorem C12_angular_caller :
  gen_ang_args = [("cos_lat", ("cos", 0)); ("sin_lat", ("sin", 0));
                  ("cos_lon", ("cos", 1)); ("sin_lon", ("sin", 1))]%string.
Proof. exact gen_ang_args_ok. Qed.
Print Assumptions C12_angular_caller.

Theorem C12_angular_symmetric cl sl cn sn a b :
  cos_ang 32 cl sl cn sn a b = cos_ang 32 cl sl cn sn b a.
Proof. exact (cos_ang_symmetric 32 cl sl cn sn a b). Qed.
Print Assumptions C12_angular_symmetric.

(* the cosine handed to arccos is inside [-1,1] whatever the rounding did *)
Theorem C12_cosine_range cl sl cn sn a b :
  (-1 <= cos_ang 32 cl sl cn sn a b /\ cos_ang 32 cl sl cn sn a b <= 1)%Q.
Proof. exact (cos_ang_range 32 cl sl cn sn a b). Qed.
Print Assumptions C12_cosine_range.

Theorem C12_clamp_identity_inside x : (-1 <= x -> x <= 1 -> clamp x = x)%Q.
Proof. exact (clamp_id x). Qed.
Print Assumptions C12_clamp_identity_inside.

Theorem C12_euclidean_kernel N_dim N_nodes (fsqrt : Q -> Q) x init a b : a < N_nodes -> b < N_nodes ->
  read (writes (gen_euc_outer N_dim N_nodes) (gen_euc_inner N_dim N_nodes) gen_euc_cells
          (fun i j => gen_euc_final fsqrt
             (fold_left (fun acc k => fadd gen_euc_bits acc (gen_euc_term x i j k))
                        (gen_euc_ks N_dim N_nodes) (0#1)%Q))) init (a, b)
  = fsqrt (euc_sq 32 x N_dim a b).
Proof. exact (euc_kernel_result N_dim N_nodes fsqrt x init a b). Qed.
Print Assumptions C12_euclidean_kernel.

Theorem C12_euclidean_caller : gen_euc_caller_ok = true.
Proof. exact (proj2 (proj2 (proj2 gen_euc_is_model))). Qed.
Print Assumptions C12_euclidean_caller.

Theorem C12_euclidean_symmetric x ndim a b : euc_sq 32 x ndim a b = euc_sq 32 x ndim b a.
Proof. exact (euc_symmetric 32 x ndim a b). Qed.
Print Assumptions C12_euclidean_symmetric.

(* in any dimension the squared self distance is exactly 0 (so the stored
   value is powf(0, 0.5)) *)
Theorem C12_euclidean_self_zero x ndim a : euc_sq 32 x ndim a a = (0#1)%Q.
Proof. exact (euc_self_zero 32 x ndim a). Qed.
Print Assumptions C12_euclidean_self_zero.

(* rectangular grids: exactly the Cartesian product, first axis slowest *)
Theorem C12_rect_grid_product (a0 a1 : list Q) x y : In (x, y) (rect2 a0 a1) <-> In x a0 /\ In y a1.
Proof. exact (rect2_product a0 a1 x y). Qed.
Print Assumptions C12_rect_grid_product.

Theorem C12_rect_grid_index (a0 a1 : list Q) i j d : i < List.length a0 -> j < List.length a1 ->
  nth (i * List.length a1 + j) (map fst (rect2 a0 a1)) d = nth i a0 d /\
  nth (i * List.length a1 + j) (map snd (rect2 a0 a1)) d = nth j a1 d.
Proof. exact (rect2_lat_lon a0 a1 i j d). Qed.
Print Assumptions C12_rect_grid_index.

Theorem C12_rect_grid_size (axes : list (list Q)) :
  List.length (rectn axes) = fold_right (fun a n => List.length a * n) 1 axes.
Proof. exact (rectn_length axes). Qed.
Print Assumptions C12_rect_grid_size.

(* node lookup: the first index of a minimal distance *)
Theorem C12_argmin_minimal l : l <> [] ->
  (argmin l < List.length l) /\ (forall x, In x l -> (nth (argmin l) l 0 <= x)%Q) /\
  (forall m', m' < argmin l -> (nth (argmin l) l 0 < nth m' l 0)%Q).
Proof. exact (argmin_minimal l). Qed.
Print Assumptions C12_argmin_minimal.

(* area weighted connectivity: every neighbour counts with ITS OWN weight *)
Theorem C12_awc_is_nsi_degree n A w i : i < n -> A i i = false -> sumn n w <> 0%Qc ->
  (outawc n A w i * sumn n w = nsi_degree_w n A w i - w i)%Qc.
Proof. exact (awc_is_nsi_degree n A w i). Qed.
Print Assumptions C12_awc_is_nsi_degree.

(* the rounding model: relative error of one binary32 operation at most 2^-24,
   for every rational (unbounded exponent range) *)
Theorem C12_rounding_error x : (Qabs.Qabs (round32 x - x) <= Qabs.Qabs x * qpow2 (-24))%Q.
Proof. exact (round32_error x). Qed.
Print Assumptions C12_rounding_error.

(* accuracy attainable in single precision, cosine domain: for trigonometric
   inputs in [-1,1] the cosine handed to arccos is within 16 * 2^-24 of the
   exact value of the great-circle expression on the same inputs *)
Theorem C12_cosine_error cl sl cn sn a b :
  let i := max a b in let j := min a b in
  unit_inputs cl i j -> unit_inputs sl i j -> unit_inputs cn i j -> unit_inputs sn i j ->
  (-1 <= exact_cos cl sl cn sn i j)%Q -> (exact_cos cl sl cn sn i j <= 1)%Q ->
  (Qabs.Qabs (cos_ang 32 cl sl cn sn a b - exact_cos cl sl cn sn i j) <= 16 * CosError.u)%Q.
Proof. exact (cos_ang_error cl sl cn sn a b). Qed.
Print Assumptions C12_cosine_error.

Theorem C12_clamp_nonexpansive x e : (-1 <= e -> e <= 1 ->
  Qabs.Qabs (clamp x - e) <= Qabs.Qabs (x - e))%Q.
Proof. exact (clamp_nonexpansive x e). Qed.
Print Assumptions C12_clamp_nonexpansive.

(* accuracy of the Euclidean kernel, squared domain: in d dimensions (with
   (d + 4) * 2^-23 <= 1) the accumulated binary32 sum of squares is within
   (d + 4) * 2^-23 relative of the exact sum of squared coordinate differences *)
Theorem C12_euclidean_error x d i j : ((EucError.qn d + 4) * (2 * CosError.u) <= 1)%Q ->
  let exact := exact_from x i j 0%Q (seq 0 d) in
  (Qabs.Qabs (euc_sum 32 x (seq 0 d) i j - exact) <= (EucError.qn d + 4) * (2 * CosError.u) * exact)%Q.
Proof. exact (euc_sum_error x d i j). Qed.
Print Assumptions C12_euclidean_error.
