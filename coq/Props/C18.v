(* C18 — resistive-network quantities obey circuit laws. *)
From Coq Require Import QArith Qcanon List Bool Arith String.
From PV.Base Require Import Sums.
From PV.Model Require Import Resistive.
From PV.Gen Require Import ResistiveK.
From PV.Proofs Require Import Resistive ResistiveGen Energy Positivity Triangle.
Import ListNotations.
Close Scope string_scope.
Open Scope Qc_scope.

Theorem C18_symmetric R a b : eff R a b = eff R b a.
Proof. exact (eff_symmetric R a b). Qed.
Print Assumptions C18_symmetric.

Theorem C18_self_zero R a : eff R a a = 0.
Proof. exact (eff_self_zero R a). Qed.
Print Assumptions C18_self_zero.

(* effective resistance = potential difference under a unit current, for
   every network, every pseudo-inverse of its Laplacian and every potential *)
Theorem C18_potential_drop n L R (v : nat -> Qc) a b :
  (a < n)%nat -> (b < n)%nat -> is_pinv n L R ->
  (forall i, (i < n)%nat -> sumn n (fun j => L i j * v j) = delta i a - delta i b) ->
  eff R a b = v a - v b.
Proof. exact (eff_is_potential_drop n L R v a b). Qed.
Print Assumptions C18_potential_drop.

Theorem C18_independent_of_pinv n L R R' a b : (a < n)%nat -> (b < n)%nat ->
  is_pinv n L R -> is_pinv n L R' -> eff R a b = eff R' a b.
Proof. exact (eff_unique n L R R' a b). Qed.
Print Assumptions C18_independent_of_pinv.

(* linear scaling: resistances * k  =>  Laplacian / k, pseudo-inverse * k, eff * k *)
Theorem C18_scaling n c R k : k <> 0 -> is_pinv n (lap n c) R ->
  is_pinv n (lap n (fun a b => c a b / k)) (fun i j => k * R i j) /\
  forall a b, eff (fun i j => k * R i j) a b = k * eff R a b.
Proof.
  intros Hk HP. split; [|intros a b; exact (eff_scale R k a b)].
  destruct (pinv_scale n (lap n c) R k Hk HP) as [H1 H2].
  split; intros i j Hi Hj.
  - rewrite <- (H1 i j Hi Hj). apply sumn_ext. intros x _. now rewrite lap_scale.
  - rewrite <- (H2 i j Hi Hj). apply sumn_ext. intros x _. now rewrite lap_scale.
Qed.
Print Assumptions C18_scaling.

Theorem C18_series_law r1 r2 R : r1 <> 0 -> r2 <> 0 ->
  is_pinv 3 (lap 3 (path3 (1 / r1) (1 / r2))) R -> eff R 0 2 = r1 + r2.
Proof. exact (series_law r1 r2 R). Qed.
Print Assumptions C18_series_law.

Theorem C18_parallel_law r r1 r2 R : r <> 0 -> r1 <> 0 -> r2 <> 0 -> r + r1 + r2 <> 0 ->
  is_pinv 3 (lap 3 (tri3 (1 / r1) (1 / r2) (1 / r))) R ->
  eff R 0 2 = r * (r1 + r2) / (r + r1 + r2).
Proof. exact (parallel_law r r1 r2 R). Qed.
Print Assumptions C18_parallel_law.

(* Foster: sum over ordered pairs of conductance * effective resistance = 2 (n - 1) *)
Theorem C18_foster n c R : (0 < n)%nat ->
  (forall i j, c i j = c j i) -> (forall i, c i i = 0) -> (forall i j, R i j = R j i) ->
  is_pinv n (lap n c) R ->
  sumn n (fun i => sumn n (fun j => c i j * eff R i j)) = (1 + 1) * (qn n - 1).
Proof. exact (foster n c R). Qed.
Print Assumptions C18_foster.

(* the C routines of the CURRENT source are the defining sums *)
Theorem C18_vertex_betweenness_is_definition N adm R i : (1 <= N)%nat ->
  gen_vcfb N 1 1 (flat N adm) (flat N R) i = vcfb N adm R i.
Proof. exact (gen_vcfb_is_model N adm R i). Qed.
Print Assumptions C18_vertex_betweenness_is_definition.

Theorem C18_edge_betweenness_is_definition N adm R i j : (1 <= N)%nat -> (j < N)%nat ->
  gen_ecfb N 1 1 (flat N adm) (flat N R) i j = ecfb N adm R i j.
Proof. exact (gen_ecfb_is_model N adm R i j). Qed.
Print Assumptions C18_edge_betweenness_is_definition.

Theorem C18_buffer_types : gen_vcfb_elem = "float*"%string /\ gen_wrapper_elem = "FIELD_t"%string.
Proof. exact gen_types. Qed.
Print Assumptions C18_buffer_types.

(* all answers follow a change of the resistances, after any history *)
Theorem C18_answers_follow_updates n pinv_of r os o :
  let s := run n pinv_of gen_update_R_resets (init pinv_of r) os in
  snd (step n pinv_of gen_update_R_resets s o) = spec n pinv_of (res s) o.
Proof. exact (gen_answers_follow_updates n pinv_of r os o). Qed.
Print Assumptions C18_answers_follow_updates.

Theorem C18_state_facts :
  gen_update_chain = ["update_admittance"; "update_R"]%string /\
  gen_update_R_resets = true /\ gen_update_R_recomputes = true /\
  gen_diameter_uses_store = true /\ gen_average_fills_store = true /\
  gen_eff_formula = true /\ gen_laplacian_formula = true.
Proof. exact gen_state_facts. Qed.
Print Assumptions C18_state_facts.

(* non-vacuity / necessity: without the reset the diameter is stale *)
Theorem C18_stale_without_reset :
  let s := run 2 (fun r => r) false (init (fun r => r) r_one) [Average; Update r_zero] in
  snd (step 2 (fun r => r) false s Diameter) <> spec 2 (fun r => r) (res s) Diameter.
Proof. exact stale_without_reset. Qed.
Print Assumptions C18_stale_without_reset.

(* effective resistances of a network with non-negative conductances are
   non-negative: eff = dissipated energy 1/2 sum c_ij (v_i - v_j)^2 of the
   unit current *)
Theorem C18_nonnegative n c R a b : (a < n)%nat -> (b < n)%nat ->
  (forall i j, c i j = c j i) -> (forall i j, 0 <= c i j) ->
  is_pinv n (lap n c) R -> 0 <= eff R a b.
Proof. exact (eff_nonneg n c R a b). Qed.
Print Assumptions C18_nonnegative.

Theorem C18_energy_form n c (v : nat -> Qc) : (forall i j, c i j = c j i) ->
  (1 + 1) * sumn n (fun i => v i * sumn n (fun j => lap n c i j * v j))
  = sumn n (fun i => sumn n (fun j => c i j * ((v i - v j) * (v i - v j)))).
Proof. exact (energy_form n c v). Qed.
Print Assumptions C18_energy_form.

(* ---- the metric and the path bound, on connected networks with symmetric
        non-negative conductances (connected = every node reachable from every
        node along links of non-zero conductance) ---- *)

(* vanishes only between identical nodes *)
Theorem C18_positive n c R a b : (a < n)%nat -> (b < n)%nat -> a <> b ->
  (forall i j, c i j = c j i) -> (forall i j, 0 <= c i j) -> connected n c ->
  is_pinv n (lap n c) R -> eff R a b <> 0.
Proof. exact (eff_positive n c R a b). Qed.
Print Assumptions C18_positive.

(* maximum principle: the potential of a unit current is highest at its source *)
Theorem C18_maximum_principle n c v a b :
  (forall i j, c i j = c j i) -> (forall i j, 0 <= c i j) -> connected n c ->
  (a < n)%nat -> (b < n)%nat ->
  (forall i, (i < n)%nat -> sumn n (fun j => lap n c i j * v j) = delta i a - delta i b) ->
  forall x, (x < n)%nat -> v x <= v a.
Proof. exact (max_at_source n c v a b). Qed.
Print Assumptions C18_maximum_principle.

(* triangle inequality *)
Theorem C18_triangle n c R a b d : (a < n)%nat -> (b < n)%nat -> (d < n)%nat ->
  (forall i j, c i j = c j i) -> (forall i j, 0 <= c i j) -> connected n c ->
  is_pinv n (lap n c) R -> eff R a d <= eff R a b + eff R b d.
Proof. exact (eff_triangle n c R a b d). Qed.
Print Assumptions C18_triangle.

(* Rayleigh: never more than the resistance of any connecting path *)
Theorem C18_path_bound n c R :
  (forall i j, c i j = c j i) -> (forall i j, 0 <= c i j) -> connected n c ->
  is_pinv n (lap n c) R ->
  forall p a b, is_path n c p -> hd 0%nat p = a -> last p 0%nat = b -> (b < n)%nat ->
  eff R a b <= path_resistance c p.
Proof. exact (eff_path_bound n c R). Qed.
Print Assumptions C18_path_bound.
