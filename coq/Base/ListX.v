From Coq Require Import List Lia Bool Arith.
Import ListNotations.

Lemma nth_map_seq {A} (f : nat -> A) n l d : l < n -> nth l (map f (seq 0 n)) d = f l.
Proof.
  intros H. rewrite (nth_indep _ d (f 0)) by (now rewrite map_length, seq_length).
  rewrite (map_nth f (seq 0 n) 0 l), seq_nth by assumption. reflexivity.
Qed.

Definition exn (n : nat) (f : nat -> bool) : bool := existsb f (seq 0 n).
Lemma exn_spec n f : exn n f = true <-> exists u, u < n /\ f u = true.
Proof.
  unfold exn. rewrite existsb_exists. split; intros [u [H1 H2]]; exists u.
  - apply in_seq in H1. split; [lia|auto].
  - split; [apply in_seq; lia|auto].
Qed.

Lemma nth_map' {A B} (f : A -> B) l : forall k d d', k < length l -> nth k (map f l) d = f (nth k l d').
Proof.
  induction l as [|a l IH]; intros [|k] d d' H; cbn in *; try lia; auto. apply IH. lia.
Qed.
