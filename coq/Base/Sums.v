From Coq Require Import QArith Qcanon List Lia Bool Arith.
Import ListNotations.
Open Scope Qc_scope.

(* finite sums over node ranges *)
Definition sumn (n:nat) (f:nat->Qc) : Qc := fold_right Qcplus 0 (map f (seq 0 n)).

Lemma sumn_S n f : sumn (S n) f = sumn n f + f n.
Proof.
  unfold sumn. rewrite seq_S, map_app, fold_right_app. simpl.
  generalize (map f (seq 0 n)) as l. induction l as [|a l IH]; simpl; [ring|]. rewrite IH. ring.
Qed.
Lemma sumn_ext n f g : (forall i, (i<n)%nat -> f i = g i) -> sumn n f = sumn n g.
Proof. induction n as [|n IH]; intros H; [reflexivity|]. rewrite !sumn_S, IH, H; auto. Qed.
Lemma sumn_add n f g : sumn n (fun i => f i + g i) = sumn n f + sumn n g.
Proof. induction n as [|n IH]; [unfold sumn; simpl; ring|]. rewrite !sumn_S, IH. ring. Qed.
Lemma sumn_scal n c f : sumn n (fun i => c * f i) = c * sumn n f.
Proof. induction n as [|n IH]; [unfold sumn; simpl; ring|]. rewrite !sumn_S, IH. ring. Qed.
Lemma sumn_0 n : sumn n (fun _ => 0) = 0.
Proof. induction n as [|n IH]; [reflexivity|]. rewrite sumn_S, IH. ring. Qed.
Lemma sumn_swap n m (f:nat->nat->Qc) :
  sumn n (fun i => sumn m (fun j => f i j)) = sumn m (fun j => sumn n (fun i => f i j)).
Proof.
  induction n as [|n IH]. { unfold sumn at 1 3; simpl. symmetry. apply sumn_0. }
  rewrite sumn_S, IH. rewrite <- sumn_add. apply sumn_ext. intros j _. now rewrite sumn_S.
Qed.
Definition ind (b:bool) : Qc := if b then 1 else 0.
Lemma sumn_ind n a f : (a < n)%nat -> sumn n (fun u => ind (Nat.eqb a u) * f u) = f a.
Proof.
  induction n as [|n IH]; intros Ha; [lia|]. rewrite sumn_S.
  destruct (Nat.eq_dec a n) as [->|Hne].
  - rewrite Nat.eqb_refl. replace (sumn n _) with 0. unfold ind; ring.
    symmetry. rewrite <- (sumn_0 n). apply sumn_ext. intros i Hi.
    replace (n =? i)%nat with false by (symmetry; apply Nat.eqb_neq; lia). unfold ind; ring.
  - rewrite IH by lia. replace (a =? n)%nat with false by (symmetry; apply Nat.eqb_neq; lia). unfold ind; ring.
Qed.

(* weighted pullback: phi : V' -> V, fibre weights add up *)
Section Pullback.
Variables (n n' : nat) (w w' : nat -> Qc) (phi : nat -> nat).
Hypothesis phi_lt : forall i, (i < n')%nat -> (phi i < n)%nat.
Hypothesis fibre : forall u, (u < n)%nat -> sumn n' (fun i => ind (Nat.eqb (phi i) u) * w' i) = w u.

Theorem wsum_pullback (g : nat -> Qc) :
  sumn n' (fun i => w' i * g (phi i)) = sumn n (fun u => w u * g u).
Proof.
  transitivity (sumn n' (fun i => sumn n (fun u => ind (Nat.eqb (phi i) u) * (w' i * g u)))).
  { apply sumn_ext. intros i Hi. now rewrite (sumn_ind n (phi i) (fun u => w' i * g u)) by auto. }
  rewrite sumn_swap. apply sumn_ext. intros u Hu. rewrite <- fibre by assumption.
  rewrite (Qcmult_comm _ (g u)). rewrite <- sumn_scal.
  apply sumn_ext. intros i _. ring.
Qed.
End Pullback.

(* ---- reindexing along a permutation given as a list ---------------------- *)
From Coq Require Import Permutation.
Definition sum_list (l : list Qc) : Qc := fold_right Qcplus 0 l.

Lemma sum_list_perm l l' : Permutation l l' -> sum_list l = sum_list l'.
Proof.
  unfold sum_list. induction 1 as [|x l l' _ IH|x y l|l l' l'' _ IH1 _ IH2]; cbn [fold_right].
  - reflexivity.
  - now rewrite IH.
  - ring.
  - now rewrite IH1.
Qed.

Lemma sumn_sum_list n f : sumn n f = sum_list (map f (seq 0 n)).
Proof. reflexivity. Qed.

Lemma map_nth_seq {A} (p : list A) d : map (fun i => nth i p d) (seq 0 (length p)) = p.
Proof.
  induction p as [|a p IH]; cbn [length seq map]; [reflexivity|].
  cbn [nth]. f_equal. rewrite <- seq_shift, map_map. cbn [nth]. exact IH.
Qed.

Lemma sumn_perm n (p : list nat) (g : nat -> Qc) :
  Permutation p (seq 0 n) ->
  sumn n (fun i => g (nth i p 0%nat)) = sumn n g.
Proof.
  intros P. assert (L : length p = n) by (rewrite (Permutation_length P); apply seq_length).
  rewrite !sumn_sum_list.
  replace (map (fun i => g (nth i p 0%nat)) (seq 0 n)) with (map g p).
  - apply sum_list_perm. now apply Permutation_map.
  - rewrite <- (map_nth_seq p 0%nat) at 1. rewrite map_map, L. reflexivity.
Qed.
