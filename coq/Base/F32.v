(* Round-to-nearest-even onto the binary32 grid, over exact rationals.
   Normal range only (2^-126 <= |x| < 2^128): subnormals, overflow, NaN are
   outside this model (the harness generates inside the normal range and the
   correspondence layer compares round32 bit-for-bit with numpy.float32). *)
From Coq Require Import ZArith QArith.
Open Scope Z_scope.

Definition qpow2 (z : Z) : Q :=
  if 0 <=? z then inject_Z (2 ^ z) else 1 # (Z.to_pos (2 ^ (- z))).

(* floor(log2 (n/d)) for positive n d *)
Definition ilog2_frac (n d : Z) : Z :=
  let e := Z.log2 n - Z.log2 d in
  (* 2^e <= n/d  <->  d*2^e <= n  (scaled to integers) *)
  if 0 <=? e then (if d * 2 ^ e <=? n then e else e - 1)
  else (if d <=? n * 2 ^ (- e) then e else e - 1).

Definition rne (y : Q) : Z :=            (* y >= 0 *)
  let n := Qnum y in let d := Zpos (Qden y) in
  let q := n / d in let r := n mod d in
  match (2 * r) ?= d with
  | Lt => q | Gt => q + 1
  | Eq => if Z.even q then q else q + 1
  end.

Definition round_prec (p : Z) (x : Q) : Q :=
  match Qnum x with
  | Z0 => 0%Q
  | Zpos n =>
      let e := ilog2_frac (Zpos n) (Zpos (Qden x)) in
      let sh := (p - 1) - e in
      (inject_Z (rne (x * qpow2 sh)) * qpow2 (- sh))%Q
  | Zneg n =>
      let e := ilog2_frac (Zpos n) (Zpos (Qden x)) in
      let sh := (p - 1) - e in
      (- (inject_Z (rne ((- x) * qpow2 sh)) * qpow2 (- sh)))%Q
  end.

Definition round32 (x : Q) : Q := Qred (round_prec 24 x).
Definition round64 (x : Q) : Q := Qred (round_prec 53 x).

(* comparison as performed by the sequential RQA kernel when it holds the
   distance and the threshold in binary32 *)
Definition lt32 (d eps : Q) : bool :=
  match (round32 d ?= round32 eps)%Q with Lt => true | _ => false end.
Definition ltQ (d eps : Q) : bool :=
  match (d ?= eps)%Q with Lt => true | _ => false end.
