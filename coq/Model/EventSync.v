(* Model of eventseries/event_series.py: event_synchronization (vectorised
   counting with dynamic delay and double-count correction) and the static
   event_coincidence_analysis, on integer time stamps.  Definitions only. *)
From Coq Require Import ZArith List Bool Arith.
Import ListNotations.
Open Scope Z_scope.

(* an interior event: its time and the smaller of its two adjacent gaps *)
Definition ev := (Z * Z)%type.
Fixpoint descr (l : list Z) : list ev :=
  match l with
  | a :: ((b :: (c :: _)) as l') => (b, Z.min (c - b) (b - a)) :: descr l'
  | _ => []
  end.

Definition b2n (b : bool) : nat := if b then 1%nat else 0%nat.
Definition sum2 {A B} (X : list A) (Y : list B) (f : A -> B -> nat) : nat :=
  list_sum (map (fun p => list_sum (map (f p) Y)) X).

Section ES.
Variable taumax : option Z.            (* None = infinity *)
Definition dst2 (p q : ev) : Z := 2 * (fst p - fst q).
Definition tau2 (p q : ev) : Z :=
  let t := Z.min (snd p) (snd q) in
  match taumax with None => t | Some m => Z.min t (2 * m) end.
Definition Axy (p q : ev) : bool := (0 <? dst2 p q) && (dst2 p q <=? tau2 p q).
Definition Ayx (p q : ev) : bool := (dst2 p q <? 0) && (- tau2 p q <=? dst2 p q).
Definition eqt (p q : ev) : bool := dst2 p q =? 0.

Definition es_core (X Y : list ev) : nat * nat * nat * nat :=
  let nxy := sum2 X Y (fun p q => b2n (Axy p q)) in
  let nyx := sum2 X Y (fun p q => b2n (Ayx p q)) in
  let eq := sum2 X Y (fun p q => b2n (eqt p q)) in
  let dxy := sum2 X Y (fun p q => b2n (Axy p q &&
               (existsb (Ayx p) Y || existsb (fun p' => Ayx p' q) X))) in
  let dyx := sum2 X Y (fun p q => b2n (Ayx p q &&
               (existsb (Axy p) Y || existsb (fun p' => Axy p' q) X))) in
  (* doubled counts: 2*sum + eqtime - double *)
  (2 * nxy + eq - dxy, 2 * nyx + eq - dyx, length X, length Y)%nat.
End ES.

(* event_synchronization on time-stamp lists; the lag is added to y *)
Definition es (taumax : option Z) (lag : Z) (ex ey : list Z) :=
  es_core taumax (descr ex) (descr (map (fun t => t + lag) ey)).

(* ---- static event coincidence analysis ---- *)
Definition cnt {A} (f : A -> bool) (l : list A) : nat := length (filter f l).
Definition eca (taumax lag : Z) (e1 e2 : list Z) :=
  let inst := (lag =? 0) && (taumax =? 0) in
  let h1 := hd 0 e1 in let t1 := last e1 0 in
  let h2 := hd 0 e2 in let t2 := last e2 0 in
  let n11 := if inst then 0%nat else cnt (fun t => t <=? h1 + lag + taumax) e1 in
  let n12 := if inst then 0%nat else cnt (fun t => t1 - lag - taumax <=? t) e1 in
  let n21 := if inst then 0%nat else cnt (fun t => t <=? h2 + lag + taumax) e2 in
  let n22 := if inst then 0%nat else cnt (fun t => t2 - lag - taumax <=? t) e2 in
  let c12 (a b : Z) := (0 <=? a - b - lag) && (a - b - lag <=? taumax) in
  let c21 (a b : Z) := (0 <=? b - a - lag) && (b - a - lag <=? taumax) in
  let prec12 := cnt (fun a => existsb (c12 a) e2) (skipn n11 e1) in
  let trig12 := cnt (fun b => existsb (fun a => c12 a b) e1) (firstn (length e2 - n22) e2) in
  let prec21 := cnt (fun b => existsb (fun a => c21 a b) e1) (skipn n21 e2) in
  let trig21 := cnt (fun a => existsb (c21 a) e2) (firstn (length e1 - n12) e1) in
  ((prec12, (length e1 - n11)%nat), (trig12, (length e2 - n22)%nat),
   (prec21, (length e2 - n21)%nat), (trig21, (length e1 - n12)%nat)).
