(* Model of core/resistive_network.py: admittance Laplacian, effective
   resistance from a pseudo-inverse R, the current-flow betweenness sums of
   core/_ext/src_numerics.c, admittive degree / clustering, and the object
   state under update_resistances with the hand-rolled store of all effective
   resistances.  Exact rationals.  Definitions only. *)
From Coq Require Import QArith Qabs Qcanon List Bool Arith.
From PV.Base Require Import Sums.
Import ListNotations.
Open Scope Qc_scope.

Definition mat := nat -> nat -> Qc.
Definition delta (i j : nat) : Qc := ind (Nat.eqb i j).
Definition qn (n : nat) : Qc := Q2Qc (inject_Z (Z.of_nat n)).

(* admittance = 1 / resistance on the links, 0 elsewhere *)
Definition adm_of (A : nat -> nat -> bool) (r : mat) : mat :=
  fun i j => if A i j then 1 / r i j else 0.
(* np.diag(sum(adm)) - adm : column sums on the diagonal *)
Definition lap (n : nat) (c : mat) : mat :=
  fun i j => delta i j * sumn n (fun k => c k j) - c i j.
Definition eff (R : mat) (a b : nat) : Qc :=
  if Nat.eqb a b then 0 else R a a - R a b - R b a + R b b.

(* what numpy's pinv delivers for the Laplacian of a connected network:
   R L = L R = I - J/n *)
Definition is_pinv (n : nat) (L R : mat) : Prop :=
  (forall i j, (i < n)%nat -> (j < n)%nat ->
     sumn n (fun k => R i k * L k j) = delta i j - 1 / qn n) /\
  (forall i j, (i < n)%nat -> (j < n)%nat ->
     sumn n (fun k => L i k * R k j) = delta i j - 1 / qn n).

(* average over all unordered pairs, as accumulated by the library *)
Definition pairs_lt (n : nat) : list (nat * nat) :=
  flat_map (fun i => map (fun j => (i, j)) (seq 0 i)) (seq 0 n).
Definition all_eff (n : nat) (R : mat) : list Qc := map (fun p => eff R (fst p) (snd p)) (pairs_lt n).
Definition sumq (l : list Qc) : Qc := fold_right Qcplus 0 l.
Definition avg_eff (n : nat) (R : mat) : Qc := (1 + 1) * sumq (all_eff n R) / (qn n * (qn n - 1)).
Definition qmax (a b : Qc) : Qc := if Qle_bool a b then b else a.
Definition maxq (l : list Qc) : Qc := match l with [] => 0 | x :: r => fold_left qmax r x end.
Definition closeness (n : nat) (R : mat) (a : nat) : Qc :=
  (qn n - 1) / sumn n (fun i => eff R a i).

(* ---- src_numerics.c ---- *)
Definition qabs (x : Qc) : Qc := if Qle_bool 0 x then x else - x.
Definition flow (adm R : mat) (i j s t : nat) : Qc :=
  adm i j * qabs ((R i s - R j s) + (R j t - R i t)).
(* for t: for s < t: if i in {s,t}: continue; J = sum_j flow/2; VCFB += 2 J / (N (N-1)) *)
Definition vcfb (n : nat) (adm R : mat) (i : nat) : Qc :=
  sumn n (fun t => sumn t (fun s =>
    if Nat.eqb i t || Nat.eqb i s then 0
    else (1 + 1) * sumn n (fun j => flow adm R i j s t / (1 + 1)) / (qn n * (qn n - 1)))).
Definition ecfb (n : nat) (adm R : mat) (i j : nat) : Qc :=
  (1 + 1) * sumn n (fun t => sumn t (fun s => flow adm R i j s t)) / (qn n * (qn n - 1)).

Definition admittive_degree (n : nat) (adm : mat) (j : nat) : Qc := sumn n (fun k => adm k j).
Definition admittive_clustering (n : nat) (adm : mat) (deg : nat -> nat) (i : nat) : Qc :=
  if Nat.eqb (deg i) 1 then 0
  else sumn n (fun j => sumn n (fun k => adm i j * adm i k * adm j k))
       / (admittive_degree n adm i * (qn (deg i) - 1)).

(* ---- the object: resistances, derived R, the store of all pairs ---- *)
Record state := { res : mat; Rinv : mat; store : option (list Qc) }.
Inductive op := Update (r : mat) | Average | Diameter | Eff (a b : nat).
Section Machine.
  Variables (n : nat) (pinv_of : mat -> mat).     (* resistances -> R *)
  Variable resets : bool.        (* does update_R drop the store? (from the source) *)
  Definition step (s : state) (o : op) : state * Qc :=
    match o with
    | Update r => ({| res := r; Rinv := pinv_of r;
                      store := if resets then None else store s |}, 0)
    | Average => ({| res := res s; Rinv := Rinv s; store := Some (all_eff n (Rinv s)) |},
                  avg_eff n (Rinv s))
    | Diameter => match store s with
                  | Some l => (s, maxq l)
                  | None => ({| res := res s; Rinv := Rinv s; store := Some (all_eff n (Rinv s)) |},
                             maxq (all_eff n (Rinv s)))
                  end
    | Eff a b => (s, eff (Rinv s) a b)
    end.
  Definition init (r : mat) : state := {| res := r; Rinv := pinv_of r; store := None |}.
  Fixpoint run (s : state) (os : list op) : state :=
    match os with [] => s | o :: r => run (fst (step s o)) r end.
  (* the specification: every answer is computed from the CURRENT resistances *)
  Definition spec (r : mat) (o : op) : Qc :=
    match o with
    | Update _ => 0
    | Average => avg_eff n (pinv_of r)
    | Diameter => maxq (all_eff n (pinv_of r))
    | Eff a b => eff (pinv_of r) a b
    end.
  Definition coherent (s : state) : Prop :=
    Rinv s = pinv_of (res s) /\
    match store s with Some l => l = all_eff n (Rinv s) | None => True end.
End Machine.

(* ---- matrices as lists for the correspondence layer ---- *)
Definition mfun (M : list (list Q)) : mat := fun i j => Q2Qc (nth j (nth i M []) 0%Q).
Definition qceqb (a b : Qc) : bool := Qeq_bool a b.
Definition close_to (tol : Q) (a : Qc) (b : Q) : bool :=
  Qle_bool (Qabs (a - b)%Q) (tol * (1 + Qabs b))%Q.
Definition allp (n : nat) (f : nat -> nat -> bool) : bool :=
  forallb (fun a => forallb (f a) (seq 0 n)) (seq 0 n).
(* case: n, conductances, exact pseudo-inverse (harness, Fractions): checks
   the pinv specification exactly, symmetry, and Foster's sum *)
Definition check_pinv (c : nat * list (list Q) * list (list Q)) : bool :=
  let '(n, C, R) := c in
  let L := lap n (mfun C) in let Rm := mfun R in
  allp n (fun i j => qceqb (sumn n (fun k => Rm i k * L k j)) (delta i j - 1 / qn n)
                  && qceqb (sumn n (fun k => L i k * Rm k j)) (delta i j - 1 / qn n)
                  && qceqb (Rm i j) (Rm j i)).
(* case: n, admittance and R as the kernel receives them (binary32 values),
   node, the kernel's result *)
Definition check_vcfb (c : nat * list (list Q) * list (list Q) * nat * Q) : bool :=
  let '(n, A, R, i, out) := c in close_to (1 # 100000000) (vcfb n (mfun A) (mfun R) i) out.
Definition check_ecfb (c : nat * list (list Q) * list (list Q) * list (list Q)) : bool :=
  let '(n, A, R, out) := c in
  allp n (fun i j => close_to (1 # 1000000) (ecfb n (mfun A) (mfun R) i j) (nth j (nth i out []) 0%Q)).
