(* Model of timeseries/surrogates.py and the twin kernels of
   timeseries/_ext/numerics.pyx: rank remapping (AAFT), phase randomisation of
   a memoised spectrum, twin search, twin walk driven by an oracle stream.
   Definitions only. *)
From Coq Require Import ZArith QArith Qabs Qround Qcanon List Bool Arith.
Import ListNotations.
Close Scope Q_scope. Open Scope nat_scope.

(* ---- AAFT: surrogate = sorted original read through the ranks ---- *)
Definition remap {V} (d : V) (sorted : list V) (ranks : list nat) : list V :=
  map (fun r => nth r sorted d) ranks.
Definition is_perm_of_seq (ranks : list nat) (n : nat) : bool :=
  Nat.eqb (length ranks) n && forallb (fun i => existsb (Nat.eqb i) ranks) (seq 0 n).

(* ---- phase randomisation of the memoised spectrum (complex = pair over Qc) ---- *)
Definition cx := (Qc * Qc)%type.
Definition cmul (z u : cx) : cx :=
  ((fst z * fst u - snd z * snd u)%Qc, (fst z * snd u + snd z * fst u)%Qc).
Definition norm2 (z : cx) : Qc := (fst z * fst z + snd z * snd z)%Qc.
(* one call: the memoised array is multiplied in place and handed out *)
Definition call (memo u : list cx) : list cx := map (fun p => cmul (fst p) (snd p)) (combine memo u).
Definition calls (memo : list cx) (us : list (list cx)) : list cx := fold_left call us memo.

(* ---- twins ---- *)
Definition Qlt_b (a b : Q) : bool := match (a ?= b)%Q with Lt => true | _ => false end.
Definition rmat := nat -> nat -> bool.
(* recurrence of the twin kernel: maximum norm, NOT (|diff| > threshold) in every dimension *)
Definition recur (thr : Q) (e : nat -> nat -> Q) (dim : nat) : rmat :=
  fun j k => forallb (fun l => negb (Qlt_b thr (Qabs (e j l - e k l)%Q))) (seq 0 dim).
Definition nR (n : nat) (R : rmat) (j : nat) : nat := length (filter (R j) (seq 0 n)).
Definition same_row (n : nat) (R : rmat) (j k : nat) : bool :=
  forallb (fun l => Bool.eqb (R j l) (R k l)) (seq 0 n).
(* the test the kernel performs for k in range(j - min_dist) *)
Definition twin_test (n : nat) (R : rmat) (j k : nat) : bool :=
  Nat.eqb (nR n R j) (nR n R k) && negb (Nat.eqb (nR n R j) 1) && same_row n R j k.
Definition scanned (n md : nat) : list (nat * nat) :=
  flat_map (fun j => map (fun k => (j, k)) (seq 0 (j - md))) (seq 0 n).
(* the list the kernel builds for sample m: twins_ij.append(k); twins_ik.append(j) *)
Definition kernel_twins (n md : nat) (R : rmat) (m : nat) : list nat :=
  flat_map (fun p => (if Nat.eqb (fst p) m then [snd p] else []) ++
                     (if Nat.eqb (snd p) m then [fst p] else []))
           (filter (fun p => twin_test n R (fst p) (snd p)) (scanned n md)).
(* the specification *)
Definition is_twin (n md : nat) (R : rmat) (m x : nat) : bool :=
  ((x + md <? m) || (m + md <? x)) && same_row n R m x && negb (Nat.eqb (nR n R m) 1).
Definition spec_twins (n md : nat) (R : rmat) (m : nat) : list nat :=
  filter (is_twin n md R m) (seq 0 n).

(* ---- twin walk ---- *)
Definition draw (u : Q) (M : nat) : nat := Z.to_nat (Qfloor (u * inject_Z (Z.of_nat M))%Q).
Definition move (tw : nat -> list nat) (k : nat) (us : list Q) : nat * list Q :=
  let t := tw k in
  if Nat.eqb (length t) 0 then (k + 1, us)
  else match us with
       | [] => (k + 1, [])
       | u :: r => let rand := draw u (length t + 1) in
                   ((if Nat.eqb rand (length t) then k else nth rand t 0) + 1, r)
       end.
(* past the end of the series: a new random starting point *)
Definition settle (N k1 : nat) (us : list Q) : nat * list Q :=
  if N <=? k1 then match us with [] => (0, []) | u :: r => (draw u N, r) end else (k1, us).
Fixpoint walk (tw : nat -> list nat) (N steps k : nat) (us : list Q) : list nat :=
  match steps with
  | 0 => []
  | S s => k :: (let m := move tw k us in let m2 := settle N (fst m) (snd m) in
                 walk tw N s (fst m2) (snd m2))
  end.
Definition walk_from (tw : nat -> list nat) (N : nat) (us : list Q) : list nat :=
  match us with [] => [] | u :: r => walk tw N N (draw u N) r end.
(* one admissible move of the surrogate trajectory *)
Definition admissible (tw : nat -> list nat) (N k k' : nat) : Prop :=
  k' = k + 1 \/ (exists t, In t (tw k) /\ k' = t + 1) \/
  (k' < N /\ (N <= k + 1 \/ exists t, In t (tw k) /\ N <= t + 1)).

(* ---- correspondence helpers ---- *)
Definition emat (l : list (list Q)) : nat -> nat -> Q := fun j d => nth d (nth j l []) 0%Q.
Definition tfun (l : list (list nat)) : nat -> list nat := fun k => nth k l [].
Fixpoint eqln (a b : list nat) : bool :=
  match a, b with [] , [] => true | x :: a', y :: b' => Nat.eqb x y && eqln a' b' | _, _ => false end.
(* embedded series (rows = time), dimension, threshold as the kernel holds it
   (binary32), min_dist, the twin lists returned *)
Definition check_twins (c : list (list Q) * nat * Q * nat * list (list nat)) : bool :=
  let '(E, dim, thr, md, T) := c in
  let n := length E in let R := recur thr (emat E) dim in
  forallb (fun m => eqln (kernel_twins n md R m) (nth m T [])) (seq 0 n).
(* recurrence matrix given directly (RecurrencePlot.twins) *)
Definition check_twins_r (c : list (list bool) * nat * list (list nat)) : bool :=
  let '(Rm, md, T) := c in
  let n := length Rm in let R := fun j k => nth k (nth j Rm []) false in
  forallb (fun m => eqln (kernel_twins n md R m) (nth m T [])) (seq 0 n).
(* twin lists, the stream of random numbers consumed, the indices visited *)
Definition check_walk (c : list (list nat) * list Q * list nat) : bool :=
  let '(T, us, visited) := c in eqln (walk_from (tfun T) (length T) us) visited.
