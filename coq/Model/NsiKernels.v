(* The two n.s.i. cross kernels of core/_ext/numerics.pyx, as the statements
   matched by translate/pyx_cross.py (Gen/CrossK.v,
   gen_nsi_cross_kernels_are_model) compute them.  A is the matrix the callers
   pass (A+ = A + Id), w the node weights, l1 / l2 the node lists.  The guard
   `if A[node_v, node_p]` of the p loop is folded into the summands; the q
   loop `for q in range(p + 1, n)` is the unique-pairs loop of
   Model/PairLoop.v. *)
From Coq Require Import QArith Qcanon List Bool Arith.
From PV.Model Require Import PairLoop Interacting.
Import ListNotations.
Open Scope Qc_scope.

Section NsiKernels.
  Variables (A : nat -> nat -> bool) (w : nat -> Qc).

  (* _nsi_cross_transitivity: ppv, and pqv where it enters T1 / T2 *)
  Definition t_diag (v p : nat) : Qc := qb (A v p) * (w p * w p * w v).
  Definition t1_pair (v p q : nat) : Qc :=
    qb (A v p && (A v q && A p q)) * ((1 + 1) * w p * w q * w v).
  Definition t2_pair (v p q : nat) : Qc :=
    qb (A v p && A v q) * ((1 + 1) * w p * w q * w v).
  Definition kT1 (l1 l2 : list nat) : Qc :=
    sumq (map (fun v => sumq (map (t_diag v) l2) + pair_loop (t1_pair v) l2) l1).
  Definition kT2 (l1 l2 : list nat) : Qc :=
    sumq (map (fun v => sumq (map (t_diag v) l2) + pair_loop (t2_pair v) l2) l1).
  Definition k_nsi_cross_transitivity (l1 l2 : list nat) : Qc := kT1 l1 l2 / kT2 l1 l2.

  (* _nsi_cross_local_clustering: nsi_cc[v] before the division by the norm *)
  Definition c_diag (v p : nat) : Qc := qb (A v p) * (w p * w p).
  Definition c_pair (v p q : nat) : Qc :=
    qb (A v p && (A p q && A q v)) * ((1 + 1) * w p * w q).
  Definition k_nsi_cc (l2 : list nat) (v : nat) : Qc :=
    sumq (map (c_diag v) l2) + pair_loop (c_pair v) l2.

  (* InteractingNetworks.nsi_cross_degree:
     (cross_A * node_weights[node_list2]).sum(axis=1), cross_A from A+ *)
  Definition k_nsi_cross_degree (l2 : list nat) (v : nat) : Qc :=
    sumq (map (fun p => qb (A v p) * w p) l2).
  (* nsi_cross_local_clustering: nsi_cc / norm, norm = cross degree squared
     (0 where the norm is 0: the convention of Qc division) *)
  Definition k_nsi_cross_local_clustering (l2 : list nat) (v : nat) : Qc :=
    k_nsi_cc l2 v / (k_nsi_cross_degree l2 v * k_nsi_cross_degree l2 v).
End NsiKernels.
