(* C03: textbook definitions of the basic measures over an adjacency
   function, exact arithmetic.  Definitions only. *)
From Coq Require Import ZArith QArith Qabs List Bool Arith.
Import ListNotations.
Close Scope Q_scope. Open Scope nat_scope.

Definition mat := nat -> nat -> bool.
Definition nbrs (n : nat) (A : mat) (i : nat) : list nat := filter (A i) (seq 0 n).
Definition degree (n : nat) (A : mat) (i : nat) : nat := length (nbrs n A i).
Definition links (n : nat) (A : mat) : nat :=
  length (filter (fun p => A (fst p) (snd p))
            (flat_map (fun i => map (fun j => (i, j)) (seq 0 i)) (seq 0 n))).
(* ordered pairs of distinct neighbours that are linked = 2 * triangles at i *)
Definition linked_pairs (A : mat) (nb : list nat) : nat :=
  list_sum (map (fun a => length (filter (fun b => A a b) nb)) nb).
Definition qnat (k : nat) : Q := inject_Z (Z.of_nat k).
Definition local_clustering (n : nat) (A : mat) (i : nat) : Q :=
  let nb := nbrs n A i in let k := length nb in
  if k <? 2 then 0%Q else (qnat (linked_pairs A nb) / qnat (k * (k - 1)))%Q.
Definition sumQ (l : list Q) : Q := fold_right Qplus 0%Q l.
Definition global_clustering (n : nat) (A : mat) : Q :=
  (sumQ (map (local_clustering n A) (seq 0 n)) / qnat n)%Q.
Definition transitivity (n : nat) (A : mat) : Q :=
  let tri := list_sum (map (fun i => linked_pairs A (nbrs n A i)) (seq 0 n)) in
  let trip := list_sum (map (fun i => degree n A i * (degree n A i - 1)) (seq 0 n)) in
  if trip =? 0 then 0%Q else (qnat tri / qnat trip)%Q.
Definition avg_nbr_degree (n : nat) (A : mat) (i : nat) : Q :=
  let nb := nbrs n A i in
  if length nb =? 0 then 0%Q
  else (qnat (list_sum (map (degree n A) nb)) / qnat (length nb))%Q.

(* shortest path lengths: within k i j = j reachable from i in at most k steps *)
Fixpoint within (n : nat) (A : mat) (k : nat) (i j : nat) : bool :=
  match k with
  | 0 => Nat.eqb i j
  | S k' => within n A k' i j || existsb (fun m => within n A k' i m && A m j) (seq 0 n)
  end.
(* None = no path *)
Definition dist (n : nat) (A : mat) (i j : nat) : option nat :=
  find (fun k => within n A k i j) (seq 0 n).
Definition mfun (M : list (list bool)) : mat := fun i j => nth j (nth i M []) false.

(* correspondence *)
Definition close (m x : Q) : bool := Qle_bool (Qabs (m - x)) (1 # 1000000000)%Q.
Fixpoint all2 {A B} (f : A -> B -> bool) (l : list A) (l' : list B) : bool :=
  match l, l' with [], [] => true | a :: l, b :: l' => f a b && all2 f l l' | _, _ => false end.
(* adjacency, degree, n_links, local clustering, global clustering,
   transitivity, average neighbours degree, path lengths (-1 = unconnected) *)
Definition check_basic (c : list (list bool) * list nat * nat * list Q * Q * Q * list Q
                            * list (list Z)) : bool :=
  let '(M, deg, nl, lc, gc, tr, and_, pl) := c in
  let n := length M in let A := mfun M in
  all2 Nat.eqb (map (degree n A) (seq 0 n)) deg && Nat.eqb (links n A) nl &&
  all2 close (map (local_clustering n A) (seq 0 n)) lc &&
  close (global_clustering n A) gc && close (transitivity n A) tr &&
  all2 close (map (avg_nbr_degree n A) (seq 0 n)) and_ &&
  all2 (fun i row => all2 (fun j d => Z.eqb (match dist n A i j with Some k => Z.of_nat k
                                                | None => (-1)%Z end) d) (seq 0 n) row)
       (seq 0 n) pl.
