(* Model of climate/climate_network.py: thresholding a similarity matrix,
   density -> threshold, the three setters.  Definitions only. *)
From Coq Require Import QArith Qround List Bool Arith ZArith.
From PV.Base Require Import F32.
From PV.Model Require Import Recurrence.
Import ListNotations.
Close Scope Q_scope. Close Scope Z_scope. Open Scope nat_scope.

(* A[S > threshold] = 1 ; A.flat[::N+1] = 0 *)
Definition adj (S : nat -> nat -> Q) (thr : Q) (i j : nat) : bool :=
  negb (Nat.eqb i j) && ltQ thr (S i j).

(* sorted(flat S)[int((1 - density) * (len - N))] *)
Definition density_index (rho : Q) (n : nat) : nat :=
  Z.to_nat (Qfloor ((1 - rho) * inject_Z (Z.of_nat (n * n - n)))).
Definition threshold_of_density (flat : list Q) (rho : Q) (n : nat) : Q :=
  nth (density_index rho n) (sortQ flat) 0%Q.

(* non-local networks damp the similarity by a distance weight g in [0,1] *)
Definition damped (S g : nat -> nat -> Q) (i j : nat) : Q := (S i j * g i j)%Q.

(* object state and setters *)
Record cn_state := { cn_thr : Q; cn_nonlocal : bool }.
Definition cn_adj (S g : nat -> nat -> Q) (st : cn_state) : nat -> nat -> bool :=
  adj (if cn_nonlocal st then damped S g else S) (cn_thr st).
Inductive cn_op := SetThreshold (t : Q) | SetNonLocal (b : bool) | SetDensity (rho : Q).
Definition cn_step (flat : list Q) (n : nat) (st : cn_state) (o : cn_op) : cn_state :=
  match o with
  | SetThreshold t => {| cn_thr := t; cn_nonlocal := cn_nonlocal st |}
  | SetNonLocal b => {| cn_thr := cn_thr st; cn_nonlocal := b |}
  | SetDensity rho => {| cn_thr := threshold_of_density flat rho n; cn_nonlocal := cn_nonlocal st |}
  end.

Definition count_links (n : nat) (A : nat -> nat -> bool) : nat :=
  list_sum (map (fun i => length (filter (A i) (seq 0 n))) (seq 0 n)).

(* list inputs *)
Definition qnth2 (M : list (list Q)) (i j : nat) : Q := nth j (nth i M []) 0%Q.
