(* Model of the degree-preserving rewiring kernels of core/_ext/numerics.pyx:
   _randomly_rewire_geomodel (conditions C1 / C2 / degree correlation) and
   _randomlyRewireCrossLinks, one step as a function of the random picks. *)
From Coq Require Import QArith Qabs List Bool Arith ZArith.
From PV.Base Require Import F32.
Import ListNotations.
Close Scope Q_scope. Close Scope Z_scope. Open Scope nat_scope.

Definition mat := nat -> nat -> bool.
Definition setm (M : mat) (a b : nat) (v : bool) : mat :=
  fun i j => if Nat.eqb i a && Nat.eqb j b then v else M i j.

(* swap the end points of two entries: (a,b),(c,d) -> (a,d),(c,b) *)
Definition swap (M : mat) (a b c d : nat) : mat :=
  setm (setm (setm (setm M a b false) c d false) a d true) c b true.

Definition row_sum (m : nat) (M : mat) (i : nat) : nat := length (filter (M i) (seq 0 m)).
Definition col_sum (n : nat) (M : mat) (j : nat) : nat := length (filter (fun i => M i j) (seq 0 n)).

(* ---- geographical models I-III ---- *)
Definition edge := (nat * nat)%type.
Record geo_state := { gA : mat; gE : list edge }.

Definition absdiff_lt (D : nat -> nat -> Q) (eps : Q) (a b c d : nat) : bool :=
  ltQ (Qabs (D a b - D c d)) eps.
Definition cond_c1 D eps s t k l : bool :=
  (absdiff_lt D eps s t k t && absdiff_lt D eps k l s l) ||
  (absdiff_lt D eps s t s l && absdiff_lt D eps k l k t).
Definition cond_c2 D eps s t k l : bool :=
  absdiff_lt D eps s t s l && absdiff_lt D eps t s t k &&
  absdiff_lt D eps k l k t && absdiff_lt D eps l k l s.
Definition cond_deg (deg : nat -> nat) s t k l : bool :=
  Nat.eqb (deg s) (deg k) && Nat.eqb (deg t) (deg l).

Inductive geomodel := GeoI | GeoII | GeoIII.
Definition geo_ok (gm : geomodel) D eps deg (A : mat) s t k l : bool :=
  negb (Nat.eqb s k) && negb (Nat.eqb s l) && negb (Nat.eqb t k) && negb (Nat.eqb t l)
  && negb (A s l) && negb (A t k)
  && match gm with
     | GeoI => cond_c1 D eps s t k l
     | GeoII => cond_c2 D eps s t k l
     | GeoIII => cond_deg deg s t k l && cond_c2 D eps s t k l
     end.

Fixpoint set_nth {A} (l : list A) (i : nat) (v : A) : list A :=
  match l, i with
  | [], _ => []
  | _ :: l', O => v :: l'
  | a :: l', S i' => a :: set_nth l' i' v
  end.

(* one attempt with picks (e1, e2); returns the new state and whether the
   attempt rewired (the kernel counts only successful attempts) *)
Definition geo_step gm D eps deg (st : geo_state) (e1 e2 : nat) : geo_state * bool :=
  let '(s, t) := nth e1 (gE st) (0, 0) in
  let '(k, l) := nth e2 (gE st) (0, 0) in
  if geo_ok gm D eps deg (gA st) s t k l then
    ({| gA := swap (swap (gA st) s t k l) t s l k;
        gE := set_nth (set_nth (gE st) e1 (s, l)) e2 (k, t) |}, true)
  else (st, false).

Fixpoint geo_run gm D eps deg (st : geo_state) (picks : list (nat * nat)) : geo_state * nat :=
  match picks with
  | [] => (st, 0)
  | (e1, e2) :: ps =>
      let '(st', ok) := geo_step gm D eps deg st e1 e2 in
      let '(st'', cnt) := geo_run gm D eps deg st' ps in
      (st'', (if ok then 1 else 0) + cnt)
  end.

(* ---- cross-link rewiring: cross block C (rows = group 1, columns = group 2) ---- *)
Record cross_state := { cC : mat; cL : list edge }.
Definition cross_step (st : cross_state) (e1 e2 : nat) : cross_state * bool :=
  let '(a, b) := nth e1 (cL st) (0, 0) in
  let '(c, d) := nth e2 (cL st) (0, 0) in
  if cC st a d || cC st c b then (st, false)       (* retry *)
  else ({| cC := swap (cC st) a b c d;
           cL := set_nth (set_nth (cL st) e1 (a, d)) e2 (c, b) |}, true).
Fixpoint cross_run (st : cross_state) (picks : list (nat * nat)) : cross_state * nat :=
  match picks with
  | [] => (st, 0)
  | (e1, e2) :: ps =>
      let '(st', ok) := cross_step st e1 e2 in
      let '(st'', cnt) := cross_run st' ps in
      (st'', (if ok then 1 else 0) + cnt)
  end.

(* list inputs *)
Definition mfun (M : list (list bool)) : mat := fun i j => nth j (nth i M []) false.
Definition qfun (M : list (list Q)) : nat -> nat -> Q := fun i j => nth j (nth i M []) 0%Q.
Definition mlist (n m : nat) (M : mat) : list (list bool) :=
  map (fun i => map (M i) (seq 0 m)) (seq 0 n).
