(* The n.s.i. measures of core/network.py and core/interacting_networks.py as
   terms of the expression language.  Conventions: a per-node measure is a term
   with one free variable (index 0 = the node), a pairwise measure has two
   (0 = row node, 1 = column node), a global measure is closed.  Inside a
   binder (Sum / Max) the bound node is index 0 and outer indices shift by 1.
   Each definition quotes the code it transcribes. *)
From Coq Require Import QArith Qcanon List Lia Bool Arith.
From PV.Base Require Import Sums ListX.
From PV.Model Require Import NsiLang.
Import ListNotations.
Open Scope Qc_scope.

Definition qnat (n : nat) : Qc := Q2Qc (inject_Z (Z.of_nat n)).
Definition c1 := Const 1.
Definition Mul3 a b c := Mul (Mul a b) c.
Definition Sq a := Mul a a.

(* total weight  W = sum_j w_j *)
Definition Wtot : expr := Sum c1.
(* n.s.i. degree of the node at index x:  sum_j A+_{xj} w_j   (sp_Aplus() * w) *)
Definition K (x : nat) : expr := Sum (Adj (S x) 0).
Definition Kin (x : nat) : expr := Sum (Adj 0 (S x)).     (* w * sp_Aplus() *)
Definition Kout (x : nat) : expr := Sum (Adj (S x) 0).
Definition correct (tw : Qc) (e : expr) : expr := Sub (Div e (Const tw)) c1.

(* ---- degrees ----------------------------------------------------------- *)
Definition nsi_degree (directed : bool) : expr :=
  if directed then Add (Kin 0) (Kout 0) else K 0.
Definition nsi_indegree : expr := Kin 0.
Definition nsi_outdegree : expr := Kout 0.
(* with a link attribute: node_weights @ W  /  W @ node_weights *)
Definition nsi_instrength (a : nat) : expr := Sum (Attr a 0 1).
Definition nsi_outstrength (a : nat) : expr := Sum (Attr a 1 0).
Definition nsi_strength (directed : bool) (a : nat) : expr :=
  if directed then Add (nsi_instrength a) (nsi_outstrength a) else nsi_instrength a.
(* (Ap * diag(w) * Ap).diagonal() *)
Definition nsi_bildegree : expr := Sum (Mul (Adj 1 0) (Adj 0 1)).

(* Ap * (Dw * k) / k *)
Definition nsi_average_neighbors_degree : expr :=
  Div (Sum (Mul (Adj 1 0) (K 0))) (K 0).
(* (Ap * diag(k)).max(axis=1) *)
Definition nsi_max_neighbors_degree : expr := Max (Mul (Adj 1 0) (K 0)).

(* ---- clustering -------------------------------------------------------- *)
(* T_i = sum_{j,l} A+_{ij} w_j A+_{jl} w_l A+_{li}
       = (A Dw A+ Dw A^T)_{ii} + 2 k_i w_i - w_i^2   for symmetric A *)
Definition tri (i : nat) : expr :=
  Sum (Sum (Mul3 (Adj (S (S i)) 1) (Adj 1 0) (Adj 0 (S (S i))))).
Definition nsi_local_clustering : expr := Div (tri 0) (Sq (K 0)).
(* (T/tw^2 - 3k' - 1) / (k'(k'-1)),  k' = k/tw - 1 *)
Definition nsi_local_clustering_corrected (tw : Qc) : expr :=
  let k' := correct tw (K 0) in
  Div (Sub (Sub (Div (tri 0) (Const (tw * tw))) (Mul (Const (qnat 3)) k')) c1)
      (Mul k' (Sub k' c1)).
Definition nsi_global_clustering : expr := Div (Sum nsi_local_clustering) Wtot.
(* diag((A+ Dw)^3).sum() / (Dw A+Dw A+Dw).sum() *)
Definition nsi_transitivity : expr :=
  Div (Sum (tri 0))
      (Sum (Sum (Sum (Mul (Adj 2 1) (Adj 1 0))))).
(* T_i / sum_j w_j min(k_i,k_j) A+_{ji} *)
Definition nsi_local_soffer_clustering : expr :=
  Div (tri 0) (Sum (Mul (Min2 (K 1) (K 0)) (Adj 0 1))).
(* A+_{ij} (A+ Dw A+)_{ij} / max(k_i,k_j) *)
Definition nsi_twinness : expr :=
  Div (Mul (Adj 0 1) (Sum (Mul (Adj 1 0) (Adj 0 2)))) (Max2 (K 1) (K 0)).   (* np.maximum(kk, kk.T), kk[i][j] = k[j] *)

(* directed motif clusterings; x = A+ Dw, xT = A+^T Dw, C = diag(.)/(w T) *)
Definition motif (e1 e2 e3 : expr) (den : expr) : expr :=
  Div (Sum (Sum (Mul3 e1 e2 e3))) den.
(* i = 2, j = 1, l = 0 *)
Definition nsi_local_cyclemotif_clustering : expr :=
  motif (Adj 2 1) (Adj 1 0) (Adj 0 2) (Mul (Kin 0) (Kout 0)).
Definition nsi_local_midmotif_clustering : expr :=
  motif (Adj 2 1) (Adj 0 1) (Adj 0 2) (Mul (Kin 0) (Kout 0)).
Definition nsi_local_inmotif_clustering : expr :=
  motif (Adj 1 2) (Adj 1 0) (Adj 0 2) (Sq (Kin 0)).
Definition nsi_local_outmotif_clustering : expr :=
  motif (Adj 2 1) (Adj 1 0) (Adj 2 0) (Sq (Kout 0)).
(* keyed variants: M = W^(1/3) replaces A+ (the harness passes M as attribute a) *)
Definition nsi_local_cyclemotif_clustering_key (a : nat) : expr :=
  motif (Attr a 2 1) (Attr a 1 0) (Attr a 0 2) (Mul (Kin 0) (Kout 0)).
Definition nsi_local_midmotif_clustering_key (a : nat) : expr :=
  motif (Attr a 2 1) (Attr a 0 1) (Attr a 0 2) (Mul (Kin 0) (Kout 0)).
Definition nsi_local_inmotif_clustering_key (a : nat) : expr :=
  motif (Attr a 1 2) (Attr a 1 0) (Attr a 0 2) (Sq (Kin 0)).
Definition nsi_local_outmotif_clustering_key (a : nat) : expr :=
  motif (Attr a 2 1) (Attr a 1 0) (Attr a 2 0) (Sq (Kout 0)).
(* corrected: (t/(w tw^2) - 3 bilk' - 1) / (T' - ksum'/tw - bilk' + 2) *)
Definition motif_corrected (tw : Qc) (e1 e2 e3 : expr) (T' ksum' : expr) : expr :=
  let bilk' := correct tw nsi_bildegree in
  Div (Sub (Sub (Div (Sum (Sum (Mul3 e1 e2 e3))) (Const (tw * tw))) (Mul (Const (qnat 3)) bilk')) c1)
      (Add (Sub (Sub T' (Div ksum' (Const tw))) bilk') (Const (qnat 2))).
Definition nsi_local_cyclemotif_clustering_corrected (tw : Qc) : expr :=
  let ki := correct tw (Kin 0) in let ko := correct tw (Kout 0) in
  motif_corrected tw (Adj 2 1) (Adj 1 0) (Adj 0 2) (Mul ki ko) (Add ki ko).
Definition nsi_local_midmotif_clustering_corrected (tw : Qc) : expr :=
  let ki := correct tw (Kin 0) in let ko := correct tw (Kout 0) in
  motif_corrected tw (Adj 2 1) (Adj 0 1) (Adj 0 2) (Mul ki ko) (Add ki ko).
Definition nsi_local_inmotif_clustering_corrected (tw : Qc) : expr :=
  let ki := correct tw (Kin 0) in
  motif_corrected tw (Adj 1 2) (Adj 1 0) (Adj 0 2) (Sq ki) (Mul ki (Const (qnat 2))).
Definition nsi_local_outmotif_clustering_corrected (tw : Qc) : expr :=
  let ko := correct tw (Kout 0) in
  motif_corrected tw (Adj 2 1) (Adj 1 0) (Adj 2 0) (Sq ko) (Mul ko (Const (qnat 2))).

(* ---- distance based (B = search bound; B >= N gives true distances) ----- *)
(* first k i j = 1 iff j is first reached from i after exactly k+1 steps of A+ *)
Definition first (k i j : nat) : expr :=
  match k with O => Reach O i j | S k' => Sub (Reach k i j) (Reach k' i j) end.
Fixpoint dsum (f : nat -> Qc) (B i j : nat) : expr :=
  match B with
  | O => Const 0
  | S b => Add (dsum f b i j) (Mul (Const (f b)) (first b i j))
  end.
Fixpoint qpow2inv (n : nat) : Qc := match n with O => 1 | S m => qpow2inv m / Q2Qc 2 end.
(* n.s.i. distance = path length + identity: d(i,i) = 1; 0 where unconnected *)
Definition Dist (B i j : nat) : expr := dsum (fun k => qnat (S k)) B i j.
Definition InvDist (B i j : nat) : expr := dsum (fun k => 1 / qnat (S k)) B i j.
Definition Pow2Dist (B i j : nat) : expr := dsum (fun k => qpow2inv (S k)) B i j.
Definition Conn (B i j : nat) : expr := Reach (B - 1) i j.
Definition AllConn (B i : nat) : expr := Sub c1 (Max (Sub c1 (Conn B (S i) 0))).

(* w.(D0.w) / sum of w_i w_j over connected pairs *)
Definition nsi_average_path_length (B : nat) : expr :=
  Div (Sum (Sum (Dist B 1 0))) (Sum (Sum (Conn B 1 0))).
(* W / (D.w)_i, 0 if some node is unreachable (inf in the code) *)
Definition nsi_closeness (B : nat) : expr :=
  Mul (AllConn B 0) (Div Wtot (Sum (Dist B 1 0))).
Definition nsi_harmonic_closeness (B : nat) : expr := Div (Sum (InvDist B 1 0)) Wtot.
Definition nsi_exponential_closeness (B : nat) : expr := Div (Sum (Pow2Dist B 1 0)) Wtot.
Definition nsi_global_efficiency (B : nat) : expr :=
  Div (Sum (Sum (InvDist B 1 0))) (Sq Wtot).

(* ---- InteractingNetworks: node_list1 = group 0, node_list2 = group 1 ----- *)
Definition G1 (x : nat) := InGroup 0 x.
Definition G2 (x : nat) := InGroup 1 x.
Definition Wgrp (g : nat) : expr := Sum (InGroup g 0).
(* (A+[l1,:][:,l2] * w[l2]).sum(axis=1) *)
Definition nsi_cross_degree : expr := Sum (Mul (G2 0) (Adj 1 0)).
Definition nsi_cross_mean_degree : expr :=
  Div (Sum (Mul (G1 0) nsi_cross_degree)) (Wgrp 0).
Definition nsi_cross_edge_density : expr := Div nsi_cross_mean_degree (Wgrp 1).
(* kernel _nsi_cross_local_clustering / cross_degree^2 ; 0 where the norm is 0 *)
Definition nsi_cross_local_clustering : expr :=
  Div (Sum (Sum (Mul (Mul (G2 1) (G2 0)) (Mul3 (Adj 2 1) (Adj 1 0) (Adj 0 2)))))
      (Sq nsi_cross_degree).
Definition nsi_cross_global_clustering : expr :=
  Div (Sum (Mul (G1 0) nsi_cross_local_clustering)) (Wgrp 0).
(* kernel _nsi_cross_transitivity: T1 / T2 *)
Definition nsi_cross_transitivity : expr :=
  Div (Sum (Mul (G1 0) (Sum (Sum (Mul (Mul (G2 1) (G2 0)) (Mul3 (Adj 2 1) (Adj 1 0) (Adj 0 2)))))))
      (Sum (Mul (G1 0) (Sum (Sum (Mul (Mul (G2 1) (G2 0)) (Mul (Adj 2 1) (Adj 2 0))))))).
(* W_2 / (D[l1,:][:,l2] . w[l2])   -- on connected networks only: the code
   substitutes N-1 for unconnected pairs, which is not a term of this language *)
Definition nsi_cross_closeness_centrality (B : nat) : expr :=
  Div (Wgrp 1) (Sum (Mul (G2 0) (Dist B 1 0))).
(* sum_{i in 1, j in 2} w_i w_j d_ij / (W_1 * W_1)  -- W_1 twice, as the code *)
Definition nsi_cross_average_path_length (B : nat) : expr :=
  Div (Sum (Mul (G1 0) (Sum (Mul (G2 0) (Dist B 1 0))))) (Sq (Wgrp 0)).

(* ---- running a measure on list inputs (correspondence layer) ------------- *)
Definition per_node (G : graph) (e : expr) : list Qc :=
  map (fun i => eval G [i] e) (seq 0 (gn G)).
Definition per_pair (G : graph) (e : expr) : list (list Qc) :=
  map (fun i => map (fun j => eval G [i; j] e) (seq 0 (gn G))) (seq 0 (gn G)).
Definition global (G : graph) (e : expr) : Qc := eval G [] e.
