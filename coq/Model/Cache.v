(* Model of core/cache.py: Cached.method = functools.lru_cache keyed on
   (self, __cache_state__ fields, attrs, call arguments).  A lookup hits iff
   the method, the arguments and the CURRENT values of the key fields equal
   the stored ones.  Fields are named by strings (attribute names found in the
   source by translate/py_cache_facts.py).  Definitions only. *)
From Coq Require Import List Bool Arith String.
Import ListNotations.
Open Scope string_scope.

Definition field := string.
Definition store := field -> nat.

(* ---- tables regenerated from the source (Gen/CacheFacts.v) ---- *)
Record cmethod := { m_name : string; m_key : list field; m_reads : list field }.
Record cmutator := { mu_name : string; mu_changed : list field;
                     mu_bumps : list field; mu_resets : list field }.
Record ctable := { t_class : string; t_methods : list cmethod; t_mutators : list cmutator }.

Definition mem (x : field) (l : list field) : bool := existsb (String.eqb x) l.
(* writing "graph" also changes "graph.es"; writing "graph.es" leaves a
   reader of the topology alone (readers of the attributes list "graph.es") *)
Definition prefix_dot (a b : string) : bool := String.eqb a b || String.prefix (a ++ ".") b.
Definition touches (changed : list field) (x : field) : bool :=
  existsb (fun c => prefix_dot c x) changed.
Definition is_counter (x : field) : bool := String.prefix "_mut_" x.

(* mutator mu is adequate for method m: every field m reads that mu may change
   is in m's key, or mu strictly increases a counter in m's key; mu resets no
   counter at all (a reset makes an old key value come back) *)
Definition adequate_mm (mu : cmutator) (m : cmethod) : bool :=
  let bumped := existsb (fun c => mem c (m_key m)) (mu_bumps mu) in
  forallb (fun x => negb (touches (mu_changed mu ++ mu_bumps mu) x) || mem x (m_key m) || bumped) (m_reads m)
  && match mu_resets mu with [] => true | _ => false end
  && forallb is_counter (mu_bumps mu).

Definition inadequate (t : ctable) : list (string * string * string) :=
  flat_map (fun mu => flat_map (fun m =>
     if adequate_mm mu m then [] else [(t_class t, m_name m, mu_name mu)]) (t_methods t))
   (t_mutators t).

Definition triple_eqb (a b : string * string * string) : bool :=
  let '(a1, a2, a3) := a in let '(b1, b2, b3) := b in
  String.eqb a1 b1 && String.eqb a2 b2 && String.eqb a3 b3.
Definition all_known (known found : list (string * string * string)) : bool :=
  forallb (fun x => existsb (triple_eqb x) known) found.

(* ---- executable cache ---- *)
Fixpoint lstr_eqb (a b : list string) : bool :=
  match a, b with
  | [], [] => true
  | x :: a, y :: b => String.eqb x y && lstr_eqb a b
  | _, _ => false
  end.
Definition cmethod_eqb (a b : cmethod) : bool :=
  String.eqb (m_name a) (m_name b) && lstr_eqb (m_key a) (m_key b) && lstr_eqb (m_reads a) (m_reads b).
Fixpoint lnat_eqb (l1 l2 : list nat) : bool :=
  match l1, l2 with
  | [], [] => true
  | a :: l1, b :: l2 => Nat.eqb a b && lnat_eqb l1 l2
  | _, _ => false
  end.

Section Exec.
Variables (args value : Type).
Variable args_eqb : args -> args -> bool.
Variable f : cmethod -> store -> args -> value.

Record entry := { e_m : cmethod; e_a : args; e_kv : list nat; e_v : value }.
Definition cache := list entry.
Definition hit (s : store) (m : cmethod) (a : args) (e : entry) : bool :=
  cmethod_eqb (e_m e) m && args_eqb (e_a e) a && lnat_eqb (e_kv e) (map s (m_key m)).
Definition query (s : store) (c : cache) (m : cmethod) (a : args) : value * cache :=
  match find (hit s m a) c with
  | Some e => (e_v e, c)
  | None => let v := f m s a in
            (v, {| e_m := m; e_a := a; e_kv := map s (m_key m); e_v := v |} :: c)
  end.

(* histories: queries, mutations (the new store is arbitrary, constrained in
   the theorem by `mutates`), and arbitrary eviction (covers LRU, maxsize) *)
Inductive op := Q (m : cmethod) (a : args) | M (mu : cmutator) (s' : store)
              | Evict (keep : entry -> bool).
Fixpoint run (s : store) (c : cache) (h : list op) : store * cache :=
  match h with
  | [] => (s, c)
  | Q m a :: h' => run s (snd (query s c m a)) h'
  | M mu s' :: h' => run s' c h'
  | Evict k :: h' => run s (filter k c) h'
  end.
End Exec.

(* the most discriminating method body: return everything that is read *)
Definition reads_of (m : cmethod) (s : store) (_ : unit) : list nat := map s (m_reads m).
Definition unit_eqb (_ _ : unit) := true.
(* query m, apply mu (changing every field it may change, counters as the
   code moves them: resets to 0, then bumps), query m again: stale? *)
Definition apply_mu (mu : cmutator) (s : store) : store :=
  fun x => if mem x (mu_bumps mu) then (if mem x (mu_resets mu) then 1 else S (s x))
           else if mem x (mu_resets mu) then 0
           else if is_counter x then s x
           else if touches (mu_changed mu) x then S (s x) else s x.
Definition stale_after (m : cmethod) (mu : cmutator) : bool :=
  let s0 : store := fun x => if is_counter x then 1 else 0 in
  let '(_, c1) := query unit (list nat) unit_eqb reads_of s0 [] m tt in
  let s1 := apply_mu mu s0 in
  let '(v2, _) := query unit (list nat) unit_eqb reads_of s1 c1 m tt in
  negb (lnat_eqb v2 (reads_of m s1 tt)).
