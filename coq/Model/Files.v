(* Model of how save() / Load() carry the node weights through a file: the
   vertex-attribute name written, what each format does to attribute names
   (igraph's GML writer keeps only ASCII letters and digits and prefixes
   "igraph" when the first character is not a letter), the alias repair of
   Network._read_graph and the name each loader looks up.  Definitions only. *)
From Coq Require Import String Ascii List Bool Arith.
Import ListNotations.
Open Scope string_scope.

Definition is_alpha (c : ascii) : bool :=
  let n := nat_of_ascii c in
  (((65 <=? n) && (n <=? 90)) || ((97 <=? n) && (n <=? 122)))%nat.
Definition is_digit (c : ascii) : bool :=
  let n := nat_of_ascii c in ((48 <=? n) && (n <=? 57))%nat.
Definition is_alnum c := is_alpha c || is_digit c.

Fixpoint keep_alnum (s : string) : string :=
  match s with
  | EmptyString => EmptyString
  | String c r => if is_alnum c then String c (keep_alnum r) else keep_alnum r
  end.
Definition gml_key (s : string) : string :=
  match s with
  | String c _ => if is_alpha c then keep_alnum s else "igraph" ++ keep_alnum s
  | EmptyString => "igraph"
  end.

Inductive fmt := Graphml | Graphmlz | Pickle | Gml.
Definition formats := [Graphml; Graphmlz; Pickle; Gml].
Definition stored (f : fmt) (name : string) : string :=
  match f with Gml => gml_key name | _ => name end.

Fixpoint all_alnum (s : string) : bool :=
  match s with EmptyString => true | String c r => is_alnum c && all_alnum r end.
Definition clean (s : string) : bool :=
  match s with String c _ => is_alpha c && all_alnum s | EmptyString => false end.

Definition mem (x : string) (l : list string) := existsb (String.eqb x) l.
(* one repair of _read_graph: rename alias -> name unless name is present *)
Definition repair1 (names : list string) (an : string * string) : list string :=
  let '(alias, name) := an in
  if mem alias names && negb (mem name names)
  then name :: filter (fun x => negb (String.eqb x alias)) names
  else names.
Definition repair (aliases : list (string * string)) (names : list string) :=
  fold_left repair1 aliases names.

(* does a loader (reads through _read_graph?, name looked up) find the weights
   that save wrote under [written] in a file of format f? *)
Definition finds (aliases : list (string * string)) (written : string)
           (f : fmt) (loader : bool * string) : bool :=
  let names := [stored f written] in
  mem (snd loader) (if fst loader then repair aliases names else names).
Definition all_find aliases written (loaders : list (string * (bool * string))) : bool :=
  forallb (fun l => forallb (fun f => finds aliases written f (snd l)) formats) loaders.
(* the (loader, format) pairs that lose the weights *)
Definition losing aliases written (loaders : list (string * (bool * string))) :=
  flat_map (fun l => map (fun f => (fst l, f))
     (filter (fun f => negb (finds aliases written f (snd l))) formats)) loaders.

(* correspondence: the names read back from a GML file *)
Definition check_gml (c : string * string) : bool := String.eqb (gml_key (fst c)) (snd c).
