(* Model of timeseries/_ext/numerics.pyx:_visibility_relations_* and of the
   time-directed degrees of timeseries/visibility_graph.py. Definitions only. *)
From Coq Require Import QArith List Bool Arith.
From PV.Base Require Import F32.
Import ListNotations.
Close Scope Q_scope.
Close Scope Z_scope.
Open Scope nat_scope.

(* `while cond(k) and k < j: k += 1` started at k0, with enough fuel *)
Fixpoint scan (cond : nat -> bool) (j : nat) (fuel k : nat) : nat :=
  match fuel with
  | O => k
  | S f => if cond k && (k <? j) then scan cond j f (S k) else k
  end.

Section Vis.
Variable lt : Q -> Q -> bool.       (* the comparison the kernel performs *)
Variables (x t : nat -> Q).
Variable mv : nat -> bool.          (* missing samples (NaN) *)

Definition slope (i k : nat) : Q := ((x k - x i) / (t k - t i))%Q.

(* natural visibility, no missing values *)
Definition nat_cond (i j k : nat) : bool := lt (slope i k) (slope i j).
Definition nat_link (i j : nat) : bool :=
  Nat.eqb (scan (nat_cond i j) j (j - i) (S i)) j.
(* with missing values: a NaN in x[i] or x[j] makes `test` NaN and every
   comparison false; a missing intermediate sample stops the scan *)
Definition mv_cond (i j k : nat) : bool :=
  negb (mv k) && negb (mv i) && negb (mv j) && lt (slope i k) (slope i j).
Definition mv_link (i j : nat) : bool :=
  Nat.eqb (scan (mv_cond i j) j (j - i) (S i)) j.
(* horizontal visibility *)
Definition qmin (a b : Q) : Q := if lt b a then b else a.
Definition hor_cond (i j k : nat) : bool := lt (x k) (qmin (x i) (x j)).
Definition hor_link (i j : nat) : bool :=
  Nat.eqb (scan (hor_cond i j) j (j - i) (S i)) j.

(* adjacency: the double loop over i < N-2, j >= i+2, then the trivial links *)
Definition adj (link : nat -> nat -> bool) (trivial : nat -> bool) (a b : nat) : bool :=
  let i := Nat.min a b in let j := Nat.max a b in
  if Nat.eqb a b then false
  else if Nat.eqb j (S i) then trivial i
  else link i j.
Definition A_natural := adj nat_link (fun _ => true).
Definition A_missing := adj mv_link (fun i => negb (mv i) && negb (mv (S i))).
Definition A_horizontal := adj hor_link (fun _ => true).
End Vis.

(* time-directed degrees: A[i, :i].sum() and A[i, i:].sum() *)
Definition retarded_degree (A : nat -> nat -> bool) (n i : nat) : nat :=
  length (filter (fun j => A i j) (seq 0 i)).
Definition advanced_degree (A : nat -> nat -> bool) (n i : nat) : nat :=
  length (filter (fun j => A i j) (seq i (n - i))).
Definition degree (A : nat -> nat -> bool) (n i : nat) : nat :=
  length (filter (fun j => A i j) (seq 0 n)).

(* list inputs for the correspondence layer; comparison in binary32 as the
   kernels hold x, t and `test` in FIELD_t variables *)
Definition lt32q (a b : Q) : bool := ltQ (round32 a) (round32 b).
Definition fnth (l : list Q) (i : nat) : Q := nth i l 0%Q.
Definition matrix_of (n : nat) (A : nat -> nat -> bool) : list (list bool) :=
  map (fun i => map (A i) (seq 0 n)) (seq 0 n).
Definition vis_natural (xs ts : list Q) :=
  matrix_of (length xs) (A_natural lt32q (fnth xs) (fnth ts)).
Definition vis_missing (xs ts : list Q) (m : list bool) :=
  matrix_of (length xs) (A_missing lt32q (fnth xs) (fnth ts) (fun i => nth i m false)).
Definition vis_horizontal (xs : list Q) :=
  matrix_of (length xs) (A_horizontal lt32q (fnth xs)).
