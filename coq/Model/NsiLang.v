(* A deep-embedded language of node-weighted expressions over a graph.  Every
   n.s.i. measure of Network / InteractingNetworks that the model covers is a
   term of this language (Model/Measures.v); Proofs/NsiLang.v proves once that
   every term is invariant under every weight-preserving pullback of the graph
   (node splitting, relabelling, and their compositions). *)
From Coq Require Import QArith Qcanon List Lia Bool Arith.
From PV.Base Require Import Sums ListX.
Import ListNotations.
Open Scope Qc_scope.

Record graph := {
  gn : nat;                          (* number of nodes *)
  ap : nat -> nat -> bool;           (* A+ = A + Id  (reflexive) *)
  gw : nat -> Qc;                    (* node weights *)
  attr : nat -> nat -> nat -> Qc;    (* link attributes, by attribute number *)
  grp : nat -> nat -> bool }.        (* membership in numbered node groups *)

(* variables are de Bruijn indices into the environment (0 = innermost) *)
Inductive expr :=
| Const (q : Qc)
| Adj (i j : nat)                    (* A+_{ij} as 0/1 *)
| Attr (a i j : nat)
| InGroup (g i : nat)
| Reach (k i j : nat)                (* j within k+1 steps of i along A+ *)
| Add (e1 e2 : expr) | Sub (e1 e2 : expr) | Mul (e1 e2 : expr) | Div (e1 e2 : expr)
| Min2 (e1 e2 : expr) | Max2 (e1 e2 : expr)
| Sum (e : expr)                     (* sum_u w_u * e[u] *)
| Max (e : expr).                    (* max_u e[u], bottom 0 *)

Definition qmax (a b : Qc) : Qc := if Qclt_le_dec a b then b else a.
Definition qmin (a b : Qc) : Qc := if Qclt_le_dec a b then a else b.
Definition maxn (n : nat) (f : nat -> Qc) : Qc := fold_right qmax 0 (map f (seq 0 n)).

(* rows of the k-th reachability matrix, breadth first *)
Fixpoint rrow (n : nat) (A : nat -> nat -> bool) (k : nat) (i : nat) : list bool :=
  match k with
  | O => map (A i) (seq 0 n)
  | S k' => let r := rrow n A k' i in
            map (fun j => exn n (fun u => nth u r false && A u j)) (seq 0 n)
  end.
Definition reach (G : graph) (k i j : nat) : bool := nth j (rrow (gn G) (ap G) k i) false.

Definition var (env : list nat) (i : nat) : nat := nth i env 0%nat.

Fixpoint eval (G : graph) (env : list nat) (e : expr) : Qc :=
  match e with
  | Const q => q
  | Adj i j => ind (ap G (var env i) (var env j))
  | Attr a i j => attr G a (var env i) (var env j)
  | InGroup g i => ind (grp G g (var env i))
  | Reach k i j => ind (reach G k (var env i) (var env j))
  | Add a b => eval G env a + eval G env b
  | Sub a b => eval G env a - eval G env b
  | Mul a b => eval G env a * eval G env b
  | Div a b => eval G env a / eval G env b
  | Min2 a b => qmin (eval G env a) (eval G env b)
  | Max2 a b => qmax (eval G env a) (eval G env b)
  | Sum b => sumn (gn G) (fun u => gw G u * eval G (u :: env) b)
  | Max b => maxn (gn G) (fun u => eval G (u :: env) b)
  end.

(* closedness: variables refer into env *)
Fixpoint closed (d : nat) (e : expr) : Prop :=
  match e with
  | Const _ => True
  | Adj i j | Attr _ i j | Reach _ i j => (i < d /\ j < d)%nat
  | InGroup _ i => (i < d)%nat
  | Add a b | Sub a b | Mul a b | Div a b | Min2 a b | Max2 a b => closed d a /\ closed d b
  | Sum b | Max b => closed (S d) b
  end.
Fixpoint closedb (d : nat) (e : expr) : bool :=
  match e with
  | Const _ => true
  | Adj i j | Attr _ i j | Reach _ i j => (i <? d)%nat && (j <? d)%nat
  | InGroup _ i => (i <? d)%nat
  | Add a b | Sub a b | Mul a b | Div a b | Min2 a b | Max2 a b => closedb d a && closedb d b
  | Sum b | Max b => closedb (S d) b
  end.

(* a weighted pullback: phi maps the nodes of G' onto those of G, preserving
   A+, attributes and groups, and the weights in each fibre add up *)
Record pullback (G' G : graph) (phi : nat -> nat) : Prop := {
  pb_lt : forall i, (i < gn G')%nat -> (phi i < gn G)%nat;
  pb_ap : forall i j, (i < gn G')%nat -> (j < gn G')%nat -> ap G' i j = ap G (phi i) (phi j);
  pb_attr : forall a i j, (i < gn G')%nat -> (j < gn G')%nat -> attr G' a i j = attr G a (phi i) (phi j);
  pb_grp : forall g i, (i < gn G')%nat -> grp G' g i = grp G g (phi i);
  pb_fibre : forall u, (u < gn G)%nat ->
      sumn (gn G') (fun i => ind (Nat.eqb (phi i) u) * gw G' i) = gw G u;
  pb_surj : forall u, (u < gn G)%nat -> exists i, (i < gn G')%nat /\ phi i = u }.
