(* Model of the distributed branches of Network.{newman, nsi_newman,
   nsi_arenas}_betweenness and of utils/mpi.py's submit_call/get_result. *)
From Coq Require Import ZArith List Bool Arith Lia String.
Import ListNotations.

(* ---- chunk arithmetic; `mp` (max_parts) is whatever
   max(1, int(ceil(min((size-1)*10.0, 0.1*N)))) evaluates to, any value >= 1:
     step  = int(ceil(N / max_parts));  parts = int(ceil(N / step))
     chunk idx = [idx*step, min((idx+1)*step, N))                        ---- *)
Definition cdiv (a b : nat) : nat := (a + b - 1) / b.
Definition step_of (N mp : nat) : nat := cdiv N mp.
Definition parts_of (N mp : nat) : nat := cdiv N (step_of N mp).
Definition start_of (N mp idx : nat) : nat := idx * step_of N mp.
Definition end_of (N mp idx : nat) : nat := Nat.min ((idx + 1) * step_of N mp) N.
Definition chunk_bounds (N mp : nat) : list (nat * nat) :=
  map (fun idx => (start_of N mp idx, end_of N mp idx)) (seq 0 (parts_of N mp)).

(* a chunk kernel returns the per-node values of its rows (Slice kind) or a
   full-length vector of contributions of its rows (Sum kind) *)
Section Reassembly.
Variable A : Type.
Variable f : nat -> A.                     (* value of node i *)
Definition slice_kernel (s e : nat) : list A := map f (seq s (e - s)).
Definition reassemble_slices (bounds : list (nat * nat)) : list A :=
  flat_map (fun b => slice_kernel (fst b) (snd b)) bounds.
End Reassembly.

(* Sum kind: every row i contributes a whole vector g i (here: a function of
   the position k); the kernel adds up the rows of its chunk and the master
   adds up the chunk results *)
Section SumReassembly.
Variable g : nat -> nat -> Z.
Definition rows_sum (s e : nat) (k : nat) : Z :=
  fold_right Z.add 0%Z (map (fun i => g i k) (seq s (e - s))).
Definition reassemble_sums (bounds : list (nat * nat)) (k : nat) : Z :=
  fold_right Z.add 0%Z (map (fun b => rows_sum (fst b) (snd b) k) bounds).
End SumReassembly.

(* ---- submit_call / get_result ------------------------------------------ *)
(* master state: per worker, the FIFO of ids assigned to it (slave_queue) and
   the FIFO of results it sends back in the order it received the calls *)
Record mpi_state (R : Type) := {
  squeue : nat -> list nat;        (* worker -> ids, oldest first *)
  channel : nat -> list R;         (* worker -> results, oldest first *)
  assigned : list (nat * nat) }.   (* id -> worker *)
Arguments squeue {R}. Arguments channel {R}. Arguments assigned {R}.

Definition upd {B} (h : nat -> B) (k : nat) (v : B) : nat -> B :=
  fun x => if Nat.eqb x k then v else h x.
Fixpoint lookup (id : nat) (l : list (nat * nat)) : option nat :=
  match l with [] => None | (k, w) :: l' => if Nat.eqb k id then Some w else lookup id l' end.

Definition submit {R} (st : mpi_state R) (id w : nat) (r : R) : mpi_state R :=
  {| squeue := upd (squeue st) w (squeue st w ++ [id]);
     channel := upd (channel st) w (channel st w ++ [r]);
     assigned := (id, w) :: assigned st |}.

(* None = MPIException("get_result(..) called before get_result(..)") or KeyError *)
Definition get_result {R} (st : mpi_state R) (id : nat) : option (R * mpi_state R) :=
  match lookup id (assigned st) with
  | None => None
  | Some w =>
      match squeue st w, channel st w with
      | h :: q, r :: c =>
          if Nat.eqb h id then
            Some (r, {| squeue := upd (squeue st) w q; channel := upd (channel st) w c;
                        assigned := assigned st |})
          else None
      | _, _ => None
      end
  end.

Definition empty_state {R} : mpi_state R :=
  {| squeue := fun _ => []; channel := fun _ => []; assigned := [] |}.

(* master loop: submit ids 0..p-1 (worker chosen by an arbitrary scheduler),
   then retrieve 0..p-1 in that order *)
Fixpoint submit_all {R} (st : mpi_state R) (sched : nat -> nat) (res : nat -> R) (ids : list nat) :=
  match ids with [] => st | id :: l => submit_all (submit st id (sched id) (res id)) sched res l end.
Fixpoint retrieve_all {R} (st : mpi_state R) (ids : list nat) : option (list R) :=
  match ids with
  | [] => Some []
  | id :: l => match get_result st id with
               | None => None
               | Some (r, st') => match retrieve_all st' l with
                                  | None => None | Some rs => Some (r :: rs) end
               end
  end.

(* ---- what the translator extracts from each master loop ------------------ *)
Inductive reasm := Slice | Sum.
Record master_loop := {
  ml_name : string;
  ml_arith_canonical : bool;     (* max_parts / step / parts / start_i / end_i as modelled *)
  ml_submit_unconditional : bool;(* submit_call not nested under any condition but the break *)
  ml_id_is_index : bool;         (* id = loop index in submit and get_result *)
  ml_same_range : bool;          (* both loops run over range(parts) *)
  ml_reassembly : reasm }.
Definition loop_ok (l : master_loop) : bool :=
  ml_arith_canonical l && ml_submit_unconditional l && ml_id_is_index l && ml_same_range l.
