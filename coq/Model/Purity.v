(* Model of memoised values handed out by reference (core/cache.py): a store
   of cells, queries that read the store, compute an answer, and may leave an
   edit behind.  Definitions only. *)
From Coq Require Import ZArith List Bool String.
Import ListNotations.

Definition store := nat -> Z.
Record query := { answer : store -> Z; effect : store -> store }.
Definition call (s : store) (q : query) : store * Z := (effect q s, answer q s).
Fixpoint run (s : store) (qs : list query) : store :=
  match qs with [] => s | q :: r => run (fst (call s q)) r end.
(* a query is pure when it leaves every cell as it found it *)
Definition pure (q : query) : Prop := forall s c, effect q s c = s c.
(* answers depend on the store only through its cells *)
Definition extensional (q : query) : Prop :=
  forall s s', (forall c, s c = s' c) -> answer q s = answer q s'.

(* a query that edits a memoised cell in place and restores it afterwards *)
Definition edit_restore (c : nat) (tmp : Z) (f : store -> Z) : query :=
  {| answer := fun s => f (fun k => if Nat.eqb k c then tmp else s k);
     effect := fun s => fun k =>
       let s1 := fun k' => if Nat.eqb k' c then tmp else s k' in
       if Nat.eqb k c then s c else s1 k |}.
(* ... and one that does not restore *)
Definition edit_only (c : nat) (g : Z -> Z) : query :=
  {| answer := fun s => g (s c);
     effect := fun s => fun k => if Nat.eqb k c then g (s c) else s k |}.
Definition read_cell (c : nat) : query := {| answer := fun s => s c; effect := fun s => s |}.

(* the table of in-place edits found in the source *)
Definition row := (string * (bool * (string * (bool * (bool * bool)))))%type.
Definition r_fun (r : row) := fst r.
Definition r_cached (r : row) := fst (snd r).
Definition r_restored (r : row) := fst (snd (snd (snd r))).
Definition r_documented (r : row) := fst (snd (snd (snd (snd r)))).
Definition r_public (r : row) := snd (snd (snd (snd (snd r)))).
(* edits of memoised values that are not undone: interference *)
Definition dirty_cached (t : list row) : list string :=
  map r_fun (filter (fun r => r_cached r && negb (r_restored r)) t).
(* public functions that edit a caller's array without saying so *)
Definition dirty_params (t : list row) : list string :=
  map r_fun (filter (fun r => negb (r_cached r) && negb (r_restored r)
                              && negb (r_documented r) && r_public r) t).
