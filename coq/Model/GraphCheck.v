(* Boolean comparison functions used by the correspondence layer. *)
From Coq Require Import QArith Qcanon Qabs List Bool Arith.
From PV.Base Require Import Sums.
From PV.Model Require Import NsiLang Split Measures.
Import ListNotations.

Definition tolQ : Q := (1 # 1000000000)%Q.
Definition closeQ (m : Qc) (x : Q) : bool :=
  Qle_bool (Qabs (this m - x)) (tolQ * (1 + Qabs (this m)))%Q.
Fixpoint all2 {A B} (f : A -> B -> bool) (l : list A) (l' : list B) : bool :=
  match l, l' with
  | [], [] => true
  | a :: l, b :: l' => f a b && all2 f l l'
  | _, _ => false
  end.
Definition check_node (c : raw * expr * list Q) : bool :=
  let '(r, e, xs) := c in closedb 1 e && all2 closeQ (per_node (to_graph r) e) xs.
Definition check_pair (c : raw * expr * list (list Q)) : bool :=
  let '(r, e, xs) := c in closedb 2 e && all2 (all2 closeQ) (per_pair (to_graph r) e) xs.
Definition check_global (c : raw * expr * Q) : bool :=
  let '(r, e, x) := c in closedb 0 e && closeQ (global (to_graph r) e) x.
(* restricted to the nodes of a list (InteractingNetworks per-node results) *)
Definition check_nodes_of (c : raw * expr * list nat * list Q) : bool :=
  let '(r, e, nodes, xs) := c in
  closedb 1 e && all2 closeQ (map (fun i => eval (to_graph r) [i] e) nodes) xs.

(* splitted_copy: adjacency, weights and attribute matrices of the result *)
Definition eqbl := all2 Bool.eqb.
Definition check_split (c : raw * nat * Q * list (list bool) * list Q * list (list (list Q))) : bool :=
  let '(r, v, p, A', w', attrs') := c in
  let s := split r v (Q2Qc p) in
  let n := rn s in
  Nat.eqb n (length A') &&
  all2 eqbl (map (fun i => map (ra s i) (seq 0 n)) (seq 0 n)) A' &&
  all2 closeQ (map (rw s) (seq 0 n)) w' &&
  all2 (fun a W => all2 (all2 closeQ) (map (fun i => map (rattr s a i) (seq 0 n)) (seq 0 n)) W)
       (seq 0 (length attrs')) attrs'.

(* permuted_copy: adjacency and weights of the result *)
Definition check_permute (c : raw * list nat * list (list bool) * list Q) : bool :=
  let '(r, p, A', w') := c in
  let s := permute r p in
  let n := rn s in
  Nat.eqb n (length A') &&
  all2 eqbl (map (fun i => map (ra s i) (seq 0 n)) (seq 0 n)) A' &&
  all2 closeQ (map (rw s) (seq 0 n)) w'.
