(* The "unique pairs" loops of the compiled kernels:
     for p in range(n): for q in range(p+1, n): acc += f(nodes[p], nodes[q])
   (_nsi_cross_transitivity, _nsi_cross_local_clustering) and, on the reversed
   list, for j in range(n): for k in range(j): ... (_cross_transitivity,
   _cross_local_clustering, _mpi_newman_betweenness' t in range(s)). *)
From Coq Require Import QArith Qcanon List.
Import ListNotations.
Open Scope Qc_scope.

Section PairLoop.
Variable f : nat -> nat -> Qc.
Definition row_sum (a : nat) (l : list nat) : Qc := fold_right (fun b acc => f a b + acc) 0 l.
Fixpoint pair_loop (l : list nat) : Qc :=
  match l with
  | [] => 0
  | a :: l' => row_sum a l' + pair_loop l'
  end.
End PairLoop.
