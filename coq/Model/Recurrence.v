(* Model of the recurrence-matrix constructions: distance kernels of
   timeseries/_ext/numerics.pyx (rp / crp, three metrics, NaN behaviour),
   embedding, thresholding, rate -> threshold quantile, joint plots with lag,
   inter-system block matrix, recurrence network.  Definitions only. *)
From Coq Require Import QArith Qabs Qround List Bool Arith ZArith.
From PV.Base Require Import F32.
Import ListNotations.
Close Scope Q_scope. Close Scope Z_scope. Open Scope nat_scope.

(* a sample is a rational or NaN *)
Definition val := option Q.
Definition vabs_diff (a b : val) : val :=
  match a, b with Some p, Some q => Some (Qabs (p - q)) | _, _ => None end.
Definition vadd (a b : val) : val :=
  match a, b with Some p, Some q => Some (p + q)%Q | _, _ => None end.
Definition vmul (a b : val) : val :=
  match a, b with Some p, Some q => Some (p * q)%Q | _, _ => None end.
(* `a < b` on doubles: false as soon as a NaN is involved *)
Definition vlt (a b : val) : bool :=
  match a, b with Some p, Some q => ltQ p q | _, _ => false end.

Inductive metric := Manhattan | Euclidean | Supremum.

(* distance between two state vectors; Euclidean is kept SQUARED (the kernel
   takes sqrt, which is monotone: comparisons are made between squares) *)
Definition state_dist (m : metric) (a b : list val) : val :=
  match m with
  | Manhattan => fold_left (fun acc p => vadd acc (vabs_diff (fst p) (snd p))) (combine a b) (Some 0%Q)
  | Euclidean => fold_left (fun acc p => let d := vabs_diff (fst p) (snd p) in vadd acc (vmul d d))
                           (combine a b) (Some 0%Q)
  | Supremum => fold_left (fun acc p => let d := vabs_diff (fst p) (snd p) in
                                        if vlt acc d then d else acc)   (* `if tmp > diff` skips NaN *)
                          (combine a b) (Some 0%Q)
  end.
(* threshold in the scale of state_dist *)
Definition scaled_eps (m : metric) (eps : Q) : val :=
  match m with
  | Euclidean => if ltQ eps 0 then Some (-1)%Q else Some (eps * eps)%Q
  | _ => Some eps
  end.

Definition row (E : list (list val)) (i : nat) : list val := nth i E [].

(* _*_distance_matrix_rp: only k < j is computed and written to both cells;
   the diagonal keeps the 0 of np.zeros *)
Definition rp_dist (m : metric) (E : list (list val)) (j k : nat) : val :=
  if Nat.eqb j k then Some 0%Q
  else if k <? j then state_dist m (row E j) (row E k) else state_dist m (row E k) (row E j).
(* _*_distance_matrix_crp: every cell computed *)
Definition crp_dist (m : metric) (X Y : list (list val)) (j k : nat) : val :=
  state_dist m (row X j) (row Y k).

Definition recurrent (d eps : val) : bool := vlt d eps.

Definition rp_matrix (m : metric) (E : list (list val)) (eps : Q)
           (missing_values : bool) (miss : nat -> bool) (j k : nat) : bool :=
  recurrent (rp_dist m E j k) (scaled_eps m eps)
  && negb (missing_values && (miss j || miss k)).
Definition crp_matrix (m : metric) (X Y : list (list val)) (eps : Q) (j k : nat) : bool :=
  recurrent (crp_dist m X Y j k) (scaled_eps m eps).

(* delay embedding: E[k][j] = x[k + j*tau], len = n - (dim-1)*tau *)
Definition embed (x : list val) (dim tau : nat) : list (list val) :=
  map (fun k => map (fun j => nth (k + j * tau) x None) (seq 0 dim))
      (seq 0 (length x - (dim - 1) * tau)).

(* fixed recurrence rate: threshold = sorted_flat[int(rr * (len - 1))] *)
Definition quantile_index (rr : Q) (len : nat) : nat :=
  Z.to_nat (Qfloor (rr * inject_Z (Z.of_nat (len - 1)))).
Fixpoint insert_sorted (a : Q) (l : list Q) : list Q :=
  match l with [] => [a] | b :: l' => if ltQ b a then b :: insert_sorted a l' else a :: l end.
Definition sortQ (l : list Q) : list Q := fold_right insert_sorted [] l.
Definition threshold_of_rate (dists : list Q) (rr : Q) : Q :=
  nth (quantile_index rr (length dists)) (sortQ dists) 0%Q.

(* joint recurrence plot with lag (y delayed by `lag`, either sign) *)
Definition joint (n : nat) (lag : Z) (Rx Ry : nat -> nat -> bool) (i j : nat) : bool :=
  let L := Z.abs_nat lag in
  if (0 <=? lag)%Z then Rx i j && Ry (i + L) (j + L)
  else Ry i j && Rx (i + L) (j + L).
Definition joint_size (n : nat) (lag : Z) : nat := n - Z.abs_nat lag.

(* inter-system recurrence matrix *)
Definition isrm (nx ny : nat) (Rx Ry Cxy : nat -> nat -> bool) (i j : nat) : bool :=
  if (i <? nx) && (j <? nx) then Rx i j
  else if (i <? nx) then Cxy i (j - nx)
  else if (j <? nx) then Cxy j (i - nx)
  else Ry (i - nx) (j - nx).

(* recurrence network: R without its diagonal *)
Definition network_of (R : nat -> nat -> bool) (i j : nat) : bool := negb (Nat.eqb i j) && R i j.

(* list helpers for the correspondence layer *)
Definition mat (n m : nat) (f : nat -> nat -> bool) : list (list bool) :=
  map (fun i => map (f i) (seq 0 m)) (seq 0 n).
