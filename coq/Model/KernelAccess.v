(* Model of a typed Cython buffer under boundscheck=True, wraparound=False,
   and of the byte-width bookkeeping of raw pointers handed to C.
   Definitions only. *)
From Coq Require Import ZArith QArith Qround List Bool String.
Import ListNotations.
Open Scope Z_scope.

Inductive outcome (V : Type) := Val (v : V) | IndexError.
Arguments Val {V} v. Arguments IndexError {V}.
(* buf[i] on a typed buffer: negative indices do not wrap, every index is checked *)
Definition checked_get {V} (d : V) (buf : list V) (i : Z) : outcome V :=
  if (i <? 0) || (Z.of_nat (List.length buf) <=? i) then IndexError
  else Val (nth (Z.to_nat i) buf d).
(* with boundscheck off the same access reads whatever lies there *)
Definition unchecked_touches (len : nat) (i : Z) : bool := (0 <=? i) && (i <? Z.of_nat len).

(* `while R[l] == x: l += 1; if l == n: break` — indexes before testing the bound *)
Fixpoint scan_eq (d : Z) (buf : list Z) (x : Z) (n : Z) (l : Z) (fuel : nat) : outcome Z :=
  match fuel with
  | O => Val l
  | S f => match checked_get d buf l with
           | IndexError => IndexError
           | Val v => if v =? x then (if l + 1 =? n then Val (l + 1) else scan_eq d buf x n (l + 1) f)
                      else Val l
           end
  end.

Definition prow := (string * (string * (nat * (nat * (nat * (nat * bool))))))%type.
Definition widths_agree (r : prow) : bool :=
  let '(_, (_, (a, (b, (c, (d, _))))) ) := r in Nat.eqb a b && Nat.eqb b c && Nat.eqb c d.
Definition not_declared_contiguous (t : list prow) : list (string * string) :=
  map (fun r => (fst r, fst (snd r)))
      (filter (fun r => negb (snd (snd (snd (snd (snd (snd r))))))) t).

(* ---- the bin number of the histogram routines ----
   rescaled = scaling * (x - range_min) is NaN, +inf or a non-negative number
   (x >= range_min, scaling = 1 / (max - min) >= 0 or inf); a cast of NaN to an
   integer type is undefined: it may produce any value *)
Inductive fval := FNaN | FPosInf | FNum (q : Q).
Definition rescaled_ok (r : fval) : Prop :=
  match r with FNum q => (0 <= q)%Q | _ => True end.
(* if (rescaled < 1.0) sym = (long)(rescaled * n_bins); else sym = n_bins - 1; *)
Definition symbolise_guarded (r : fval) (n_bins : Z) (undef : Z) : Z :=
  match r with
  | FNum q => if Qle_bool 1 q then n_bins - 1
              else Qfloor (q * inject_Z n_bins)
  | _ => n_bins - 1                      (* NaN < 1.0 and inf < 1.0 are false *)
  end.
(* bin = (int)(rescaled * n_bins); sym = bin < n_bins ? bin : n_bins - 1; *)
Definition symbolise_unguarded (r : fval) (n_bins : Z) (undef : Z) : Z :=
  let bin := match r with FNum q => Qfloor (q * inject_Z n_bins) | _ => undef end in
  if bin <? n_bins then bin else n_bins - 1.
