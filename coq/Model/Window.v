(* Model of core/data.py:set_window and climate/climate_data.py:
   phase_mean / anomaly / phase_indices.  Definitions only. *)
From Coq Require Import QArith List Bool Arith.
From PV.Base Require Import F32.
Import ListNotations.
Close Scope Q_scope. Close Scope Z_scope. Open Scope nat_scope.

Definition leQ (a b : Q) : bool := negb (ltQ b a).
Definition in_closed (lo hi v : Q) : bool := leQ lo v && leQ v hi.
Definition eqQ (a b : Q) : bool := Qeq_bool a b.

(* one axis: coincident bounds select the full range *)
Definition axis_mask (lo hi : Q) (vals : list Q) : list bool :=
  if eqQ lo hi then map (fun _ => true) vals else map (in_closed lo hi) vals.

(* the space mask.  `per_axis = false` is the rule the code documents and
   implements: the FULL spatial extent as soon as the lat bounds OR the lon
   bounds coincide; `per_axis = true` is the per-axis reading of C13 *)
Definition space_mask (per_axis : bool) (latlo lathi lonlo lonhi : Q) (lat lon : list Q) : list bool :=
  if per_axis then
    map (fun p => fst p && snd p) (combine (axis_mask latlo lathi lat) (axis_mask lonlo lonhi lon))
  else if eqQ latlo lathi || eqQ lonlo lonhi then map (fun _ => true) lat
  else map (fun p => in_closed latlo lathi (fst p) && in_closed lonlo lonhi (snd p)) (combine lat lon).

Fixpoint pick {A} (mask : list bool) (l : list A) : list A :=
  match mask, l with
  | b :: m, a :: l' => if b then a :: pick m l' else pick m l'
  | _, _ => []
  end.

(* observable[time_indices, :][:, space_indices] *)
Definition window (tmask smask : list bool) (obs : list (list Q)) : list (list Q) :=
  map (pick smask) (pick tmask obs).

(* ---- climatology of one node's series ---- *)
Definition qsum (l : list Q) : Q := fold_right Qplus 0%Q l.
Definition qmean (l : list Q) : Q := (qsum l / inject_Z (Z.of_nat (length l)))%Q.
(* observable[i::time_cycle] *)
Definition phase_idx (n c i : nat) : list nat := filter (fun k => Nat.eqb (k mod c) i) (seq 0 n).
Definition phase_vals (x : list Q) (c i : nat) : list Q :=
  map (fun k => nth k x 0%Q) (phase_idx (length x) c i).
Definition phase_mean (x : list Q) (c i : nat) : Q := qmean (phase_vals x c i).
Definition anomaly (x : list Q) (c : nat) : list Q :=
  map (fun k => (nth k x 0 - phase_mean x c (k mod c))%Q) (seq 0 (length x)).
(* phase_indices: only complete cycles *)
Definition phase_indices (n c i : nat) : list nat :=
  map (fun y => i + y * c) (seq 0 (n / c)).
