(* Model of the lag bookkeeping of funcnet/_ext/numerics.pyx (cross
   correlation in 'max' and 'all' mode, symmetrize_by_absmax) over exact
   rationals, of the fixed-width lag matrix, and of the Pearson statistic in
   its square-root-free form.  Definitions only. *)
From Coq Require Import ZArith QArith Qabs Qcanon List Bool Arith.
From PV.Base Require Import Sums.
Import ListNotations.
Open Scope Q_scope.

Definition Qlt_b (a b : Q) : bool := match a ?= b with Lt => true | _ => false end.
Definition arr3 := nat -> nat -> nat -> Q.            (* lag slice, node, time *)
Definition sumQ (l : list Q) : Q := fold_right Qplus 0 l.

(* crossij for one lag slice: slice tau of node i against slice tau_max of node j *)
Definition cross (a : arr3) (cr tau_max tau i j : nat) : Q :=
  sumQ (map (fun k => a tau i k * a tau_max j k) (seq 0 cr)).
Definition better (c m : Q) : bool := Qlt_b (Qabs m) (Qabs c).   (* abs(c) > abs(m) *)
Definition scan_step (f : nat -> Q) (acc : Q * nat) (tau : nat) : Q * nat :=
  if better (f tau) (fst acc) then (f tau, tau) else acc.
Definition scan (f : nat -> Q) (taus : list nat) : Q * nat := fold_left (scan_step f) taus (0, 0%nat).

Definition qnat (n : nat) : Q := inject_Z (Z.of_nat n).
(* 'max' mode, off the diagonal: value and lag *)
Definition cc_max (a : arr3) (cr tau_max i j : nat) : Q * Z :=
  let r := scan (fun tau => cross a cr tau_max tau i j) (seq 0 (tau_max + 1)) in
  (fst r / qnat cr, (Z.of_nat tau_max - Z.of_nat (snd r))%Z).
(* 'all' mode: entry l of the lag function *)
Definition all_index (tau_max tau : nat) : nat := (tau_max - tau)%nat.
Definition cc_all (a : arr3) (cr tau_max i j l : nat) : Q :=
  cross a cr tau_max (tau_max - l)%nat i j / qnat cr.

(* two's complement store into a lag matrix of the given width *)
Definition wrap (bits z : Z) : Z :=
  let m := (2 ^ bits)%Z in let r := (z mod m)%Z in if (r <? m / 2)%Z then r else (r - m)%Z.

(* symmetrize_by_absmax on one unordered pair *)
Definition keep_upper (S : nat -> nat -> Q) (i j : nat) : bool := better (S i j) (S j i).
Definition symS (S : nat -> nat -> Q) (i j : nat) : Q :=
  if (i <? j)%nat then (if keep_upper S i j then S i j else S j i)
  else if (j <? i)%nat then (if keep_upper S j i then S j i else S i j)
  else S i j.
Definition symL (S : nat -> nat -> Q) (L : nat -> nat -> Z) (i j : nat) : Z :=
  if (i <? j)%nat then (if keep_upper S i j then L i j else (- L j i)%Z)
  else if (j <? i)%nat then (if keep_upper S j i then (- L j i)%Z else L i j)
  else L i j.

(* ---- Pearson, square-root free (Qc) ---- *)
Open Scope Qc_scope.
Definition qcn (n : nat) : Qc := Q2Qc (inject_Z (Z.of_nat n)).
Definition mean (n : nat) (x : nat -> Qc) : Qc := sumn n x / qcn n.
Definition cov (n : nat) (x y : nat -> Qc) : Qc :=
  sumn n (fun k => (x k - mean n x) * (y k - mean n y)).
Definition r2 (n : nat) (x y : nat -> Qc) : Qc := cov n x y * cov n x y / (cov n x x * cov n y y).
Close Scope Qc_scope.

(* ---- correspondence helpers ---- *)
Definition a3 (l : list (list (list Q))) : arr3 := fun t i k => nth k (nth i (nth t l []) []) 0.
Definition m2 (l : list (list Q)) : nat -> nat -> Q := fun i j => nth j (nth i l []) 0.
Definition z2 (l : list (list Z)) : nat -> nat -> Z := fun i j => nth j (nth i l []) 0%Z.
Definition close (tol a b : Q) : bool := Qle_bool (Qabs (a - b)) tol.
Definition allp (n : nat) (f : nat -> nat -> bool) : bool :=
  forallb (fun a => forallb (f a) (seq 0 n)) (seq 0 n).
(* standardised binary32 array handed to the kernels, N, tau_max, corr_range,
   returned values and lags *)
(* The kernel accumulates in binary32, the model in exact rationals: when two
   lags are (nearly) tied for the absolute maximum the kernel may report the
   other one.  A reported lag is then accepted iff it is a lag of the window
   and attains the model's maximum up to the same tolerance as the value. *)
Definition near_tie (a : arr3) (cr tau_max i j : nat) (l : Z) (best : Q) : bool :=
  (0 <=? l)%Z && (l <=? Z.of_nat tau_max)%Z &&
  close (1 # 1000000) (Qabs (cc_all a cr tau_max i j (Z.to_nat l))) (Qabs best).
Definition check_max (c : list (list (list Q)) * nat * nat * nat * list (list Q) * list (list Z)) : bool :=
  let '(A, n, tau_max, cr, V, L) := c in
  allp n (fun i j => if Nat.eqb i j then close (0#1) (m2 V i j) 1 && Z.eqb (z2 L i j) 0
                     else let r := cc_max (a3 A) cr tau_max i j in
                          close (1 # 1000000) (fst r) (m2 V i j) &&
                          (Z.eqb (wrap 8 (snd r)) (z2 L i j) || near_tie (a3 A) cr tau_max i j (z2 L i j) (fst r))).
Definition check_all (c : list (list (list Q)) * nat * nat * nat * list (list (list Q))) : bool :=
  let '(A, n, tau_max, cr, F) := c in
  allp n (fun i j => forallb (fun l => close (1 # 1000000) (cc_all (a3 A) cr tau_max i j l)
                                             (nth l (nth j (nth i F []) []) 0)) (seq 0 (tau_max + 1))).
Definition check_sym (c : nat * list (list Q) * list (list Z) * list (list Q) * list (list Z)) : bool :=
  let '(n, Sm, Lm, Sm', Lm') := c in
  allp n (fun i j => Qeq_bool (symS (m2 Sm) i j) (m2 Sm' i j) && Z.eqb (symL (m2 Sm) (z2 Lm) i j) (z2 Lm' i j)).
