(* Network.splitted_copy and node renumbering, as the code builds them. *)
From Coq Require Import QArith Qcanon List Lia Bool Arith.
From PV.Base Require Import Sums.
From PV.Model Require Import NsiLang.
Import ListNotations.
Open Scope Qc_scope.

(* a network as the code stores it: irreflexive adjacency, weights, link
   attribute matrices, node groups (for InteractingNetworks) *)
Record raw := {
  rn : nat;
  ra : nat -> nat -> bool;
  rw : nat -> Qc;
  rattr : nat -> nat -> nat -> Qc;
  rgrp : nat -> nat -> bool }.

Definition aplus (A : nat -> nat -> bool) (i j : nat) : bool := Nat.eqb i j || A i j.
Definition to_graph (r : raw) : graph :=
  {| gn := rn r; ap := aplus (ra r); gw := rw r; attr := rattr r; grp := rgrp r |}.

Definition orig (N v i : nat) : nat := if Nat.eqb i N then v else i.

(* splitted_copy(node=v, proportion=p), block by block as network.py builds
   new_A / new_w / new_W; the twin (index N) joins every group v is in *)
Definition split (r : raw) (v : nat) (p : Qc) : raw :=
  let N := rn r in
  {| rn := S N;
     ra := fun i j =>
       if (i <? N)%nat && (j <? N)%nat then ra r i j
       else if (i <? N)%nat then (if Nat.eqb i v then true else ra r i v)
       else if (j <? N)%nat then (if Nat.eqb j v then true else ra r v j)
       else false;
     rw := fun i => if Nat.eqb i N then p * rw r v
                    else if Nat.eqb i v then (1 - p) * rw r v else rw r i;
     rattr := fun a i j =>
       if (i <? N)%nat && (j <? N)%nat then rattr r a i j
       else if (i <? N)%nat then (if Nat.eqb i v then rattr r a v v else rattr r a i v)
       else if (j <? N)%nat then (if Nat.eqb j v then rattr r a v v else rattr r a v j)
       else rattr r a v v;
     rgrp := fun g i => rgrp r g (orig N v i) |}.

(* renumbering: new node i is old node (nth i p) -- sp_A[idx][:, idx],
   node_weights[idx] *)
Definition permute (r : raw) (p : list nat) : raw :=
  let f i := nth i p 0%nat in
  {| rn := rn r;
     ra := fun i j => ra r (f i) (f j);
     rw := fun i => rw r (f i);
     rattr := fun a i j => rattr r a (f i) (f j);
     rgrp := fun g i => rgrp r g (f i) |}.

(* ---- list inputs (what the correspondence layer feeds) ------------------- *)
Definition raw_of (A : list (list bool)) (w : list Q) (attrs : list (list (list Q)))
           (grps : list (list bool)) : raw :=
  {| rn := length A;
     ra := fun i j => nth j (nth i A []) false;
     rw := fun i => Q2Qc (nth i w 0%Q);
     rattr := fun a i j => Q2Qc (nth j (nth i (nth a attrs []) []) 0%Q);
     rgrp := fun g i => nth i (nth g grps []) false |}.
