(* Model of the unweighted cross-clustering kernels of core/_ext/numerics.pyx
   (_cross_transitivity, _cross_local_clustering) and of sub-block extraction
   by node lists (core/interacting_networks.py).  Definitions only. *)
From Coq Require Import QArith Qcanon List Bool Arith.
From PV.Model Require Import PairLoop.
Import ListNotations.
Close Scope Q_scope. Open Scope nat_scope.

Definition mat := nat -> nat -> bool.
(* A[l1, :][:, l2] *)
Definition block {V} (M : nat -> nat -> V) (l1 l2 : list nat) : list (list V) :=
  map (fun a => map (fun b => M a b) l2) l1.

Definition qb (b : bool) : Qc := if b then 1%Qc else 0%Qc.
(* `for j in range(n): n2 = nodes2[j]; if A[n1,n2]: for k in range(j): n3 = nodes2[k] ...`
   = unique pairs (n2 later, n3 earlier) of the node list *)
Definition triples_of (A : mat) (l2 : list nat) (n1 : nat) : Qc :=
  pair_loop (fun n3 n2 => qb (A n1 n2 && A n1 n3)) l2.
Definition triangles_of (A : mat) (l2 : list nat) (n1 : nat) : Qc :=
  pair_loop (fun n3 n2 => qb (A n1 n2 && (A n2 n3 && A n3 n1))) l2.
Definition sumq (l : list Qc) : Qc := fold_right Qcplus 0%Qc l.

(* _cross_transitivity: triangles / triples, 0 if there is no triple *)
Definition cross_transitivity (A : mat) (l1 l2 : list nat) : Qc :=
  let tri := sumq (map (triangles_of A l2) l1) in
  let trp := sumq (map (triples_of A l2) l1) in
  if Qc_eq_dec trp 0%Qc then 0%Qc else (tri / trp)%Qc.

(* cross_degree and _cross_local_clustering: counter / (k (k-1) / 2), 0 if the norm is 0 *)
Definition cross_degree (A : mat) (l2 : list nat) (n1 : nat) : Qc :=
  sumq (map (fun n2 => qb (A n1 n2)) l2).
Definition cross_local_clustering (A : mat) (l2 : list nat) (n1 : nat) : Qc :=
  let k := cross_degree A l2 n1 in
  let norm := (k * (k - 1) / (1 + 1))%Qc in
  if Qc_eq_dec norm 0%Qc then 0%Qc else (triangles_of A l2 n1 / norm)%Qc.

Definition mfun (M : list (list bool)) : mat := fun i j => nth j (nth i M []) false.
