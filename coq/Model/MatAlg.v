(* The sparse-matrix / vector algebra in which core/network.py writes its
   algebraic n.s.i. measures (sp_Aplus(), sp_diag_w(), `*` between scipy
   sparse matrices = matrix product, `*` between a sparse matrix and a vector
   = matrix-vector product, `*` between ndarrays = entrywise, .diagonal(),
   .T, .sum(), .max(axis=1), .dot).  translate/py_nsi_terms.py regenerates
   the expression every such method computes (Gen/NsiTerms.v) as a term of
   this language; Proofs/MatAlgGen.v proves each one denotes the index-sum
   term of Model/Measures.v that the pullback theorem is about.

   Matrices and vectors are functions on node numbers; entries are exact
   rationals.  Division is Qc division (x / 0 = 0): the code produces nan or
   inf there and the harness treats those entries as not comparable. *)
From Coq Require Import QArith Qcanon List Bool Arith.
From PV.Base Require Import Sums.
From PV.Model Require Import NsiLang Measures.
Import ListNotations.
Open Scope Qc_scope.

Inductive mexp :=
| MAplus                         (* self.sp_Aplus() *)
| MA                             (* self.sp_A  (= A+ - Id, no self loops) *)
| MAttr (a : nat)                (* a link attribute matrix *)
| MDiag (v : vexp)               (* sp.diags([v]) / np.eye(N) * v *)
| MMul (a b : mexp)              (* matrix product *)
| MT (a : mexp)                  (* transpose *)
| MHad (a b : mexp)              (* entrywise product of dense arrays *)
| MDivE (a b : mexp)             (* entrywise quotient *)
| MMax2 (a b : mexp)             (* np.maximum *)
| MMin2 (a b : mexp)
| MRows (v : vexp)               (* np.repeat([v], N, axis=0): entry (i,j) = v j *)
(* D = path_lengths() + identity, inf where unconnected.  The code never uses
   D itself but f(D) with f(inf) = 0: D with the inf entries overwritten by 0,
   1 / D, 2 ** (-D).  f k is the value at a pair first reached after k + 1
   steps of A+; B is the search bound of the model (true distances for
   B >= N, Model/Measures.v) *)
| MDistFn (f : nat -> Qc) (B : nat)
| MConn (B : nat)                (* 1 where connected:  ~ np.isinf(D) *)
with vexp :=
| VW                             (* self.node_weights *)
| VConst (q : Qc)                (* a scalar broadcast over the nodes *)
| VMatVec (m : mexp) (v : vexp)  (* M * v *)
| VVecMat (v : vexp) (m : mexp)  (* v * M *)
| VDiagonal (m : mexp)
| VAdd (a b : vexp) | VSub (a b : vexp) | VMul (a b : vexp) | VDiv (a b : vexp)
| VRowMax (m : mexp)             (* M.toarray().max(axis=1), entries >= 0 *)
| VWtot                          (* self.total_node_weight, broadcast *)
| VAllConn (B : nat).            (* 1 iff every node is reachable: x / inf = 0 *)

Inductive sexp :=
| SConst (q : Qc)
| SVSum (v : vexp)               (* v.sum() *)
| SMSum (m : mexp)               (* M.sum() *)
| SDot (a b : vexp)              (* a.dot(b) *)
| SDiv (a b : sexp)
| SMul (a b : sexp).

Definition delta (i j : nat) : Qc := ind (Nat.eqb i j).

Fixpoint mden (G : graph) (m : mexp) (i j : nat) {struct m} : Qc :=
  match m with
  | MAplus => ind (ap G i j)
  | MA => ind (ap G i j) - delta i j
  | MAttr a => attr G a i j
  | MDiag v => delta i j * vden G v i
  | MMul a b => sumn (gn G) (fun k => mden G a i k * mden G b k j)
  | MT a => mden G a j i
  | MHad a b => mden G a i j * mden G b i j
  | MDivE a b => mden G a i j / mden G b i j
  | MMax2 a b => qmax (mden G a i j) (mden G b i j)
  | MMin2 a b => qmin (mden G a i j) (mden G b i j)
  | MRows v => vden G v j
  | MDistFn f B => eval G [j; i] (dsum f B 1 0)
  | MConn B => eval G [j; i] (Conn B 1 0)
  end
with vden (G : graph) (v : vexp) (i : nat) {struct v} : Qc :=
  match v with
  | VW => gw G i
  | VConst q => q
  | VMatVec m x => sumn (gn G) (fun k => mden G m i k * vden G x k)
  | VVecMat x m => sumn (gn G) (fun k => vden G x k * mden G m k i)
  | VDiagonal m => mden G m i i
  | VAdd a b => vden G a i + vden G b i
  | VSub a b => vden G a i - vden G b i
  | VMul a b => vden G a i * vden G b i
  | VDiv a b => vden G a i / vden G b i
  | VRowMax m => maxn (gn G) (fun k => mden G m i k)
  | VWtot => sumn (gn G) (gw G)
  | VAllConn B => eval G [i] (AllConn B 0)
  end.

Fixpoint sden (G : graph) (s : sexp) : Qc :=
  match s with
  | SConst q => q
  | SVSum v => sumn (gn G) (fun i => vden G v i)
  | SMSum m => sumn (gn G) (fun i => sumn (gn G) (fun j => mden G m i j))
  | SDot a b => sumn (gn G) (fun i => vden G a i * vden G b i)
  | SDiv a b => sden G a / sden G b
  | SMul a b => sden G a * sden G b
  end.
