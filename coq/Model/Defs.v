(* C03: fixed-width arithmetic of the kernels, the cliquishness kernels, and
   unit-weight relations.  Definitions only. *)
From Coq Require Import ZArith QArith Qcanon List Bool Arith.
From PV.Base Require Import Sums.
From PV.Model Require Import NsiLang Split Measures.
Import ListNotations.
Close Scope Q_scope. Close Scope Qc_scope. Open Scope nat_scope.

(* two's complement wrap-around to w bits *)
Definition wrap (w x : Z) : Z := ((x + 2 ^ (w - 1)) mod 2 ^ w - 2 ^ (w - 1))%Z.
Definition fits (w x : Z) : Prop := (- 2 ^ (w - 1) <= x < 2 ^ (w - 1))%Z.

(* the normalisation of the cliquishness kernels: falling factorial of the
   degree, evaluated in NODE_t unless the source casts to double *)
Definition falling (d : Z) (k : nat) : Z :=
  fold_left Z.mul (map (fun i => (d - Z.of_nat i)%Z) (seq 0 k)) 1%Z.
Definition cliq_norm (bits : Z) (in_double : bool) (k : nat) (d : Z) : Z :=
  if in_double then falling d k else wrap bits (falling d k).

(* the kernels: ordered tuples of neighbours that are pairwise linked *)
Definition mat := nat -> nat -> bool.
Definition cnt3 (A : mat) (nb : list nat) : nat :=
  list_sum (map (fun a => list_sum (map (fun b =>
    if A a b then list_sum (map (fun c => if A b c && A c a then 1 else 0) nb) else 0) nb)) nb).
Definition cnt4 (A : mat) (nb : list nat) : nat :=
  list_sum (map (fun a => list_sum (map (fun b =>
    if A a b then list_sum (map (fun c =>
      if A a c && A b c then list_sum (map (fun d =>
        if A a d && A b d && A c d then 1 else 0) nb) else 0) nb) else 0) nb)) nb).
Definition neighbours (n : nat) (A : mat) (i : nat) : list nat := filter (A i) (seq 0 n).
Definition cliquishness (n : nat) (A : mat) (order : nat) (i : nat) : Q :=
  let nb := neighbours n A i in
  let d := Z.of_nat (length nb) in
  if (length nb <? order - 1)%nat then 0%Q
  else (inject_Z (Z.of_nat (if Nat.eqb order 4 then cnt3 A nb else cnt4 A nb))
        / inject_Z (falling d (order - 1)))%Q.
Definition mfun (M : list (list bool)) : mat := fun i j => nth j (nth i M []) false.
