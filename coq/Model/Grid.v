(* Model of the grid kernels of core/_ext/numerics.pyx (angular / Euclidean
   distance), of the rectangular-grid enumeration and of the area weighted
   connectivity.  Arithmetic is exact rational arithmetic with a rounding to
   the element type after every operation (Base/F32).  Definitions only. *)
From Coq Require Import ZArith QArith List Bool Arith.
From PV.Base Require Import F32.
Import ListNotations.
Close Scope Q_scope. Close Scope Z_scope. Open Scope nat_scope.

Definition rnd (bits : Z) (x : Q) : Q := if (bits =? 32)%Z then round32 x else round64 x.
Definition fadd bits (a b : Q) : Q := rnd bits (a + b)%Q.
Definition fsub bits (a b : Q) : Q := rnd bits (a - b)%Q.
Definition fmul bits (a b : Q) : Q := rnd bits (a * b)%Q.
Definition fsq bits (a : Q) : Q := rnd bits (a * a)%Q.
Definition Qlt_b (a b : Q) : bool := match (a ?= b)%Q with Lt => true | _ => false end.

Definition clamp (x : Q) : Q :=
  if Qlt_b (1#1) x then (1#1)%Q else if Qlt_b x (-1#1) then (-1#1)%Q else x.

(* ---- a doubly nested loop that stores val i j into the cells (cells i j):
        the list of writes in program order, and the final content of a cell *)
Section Fill.
  Context {V : Type}.
  Definition cell := (nat * nat)%type.
  Definition cell_eqb (a b : cell) : bool := Nat.eqb (fst a) (fst b) && Nat.eqb (snd a) (snd b).
  Definition writes (outer : list nat) (inner : nat -> list nat)
             (cells : nat -> nat -> list cell) (val : nat -> nat -> V) : list (cell * V) :=
    flat_map (fun i => flat_map (fun j => map (fun c => (c, val i j)) (cells i j)) (inner i)) outer.
  Definition read (ws : list (cell * V)) (init : V) (c : cell) : V :=
    fold_left (fun acc w => if cell_eqb (fst w) c then snd w else acc) ws init.
  (* what a lower-triangular loop writing both (i,j) and (j,i) leaves behind *)
  Definition tri (val : nat -> nat -> V) (a b : nat) : V := val (max a b) (min a b).
End Fill.

(* ---- angular distance: cosine of the angle, before arccos *)
Definition ang_expr bits (cos_lat sin_lat cos_lon sin_lon : nat -> Q) (i j : nat) : Q :=
  fadd bits (fmul bits (sin_lat i) (sin_lat j))
       (fmul bits (fmul bits (cos_lat i) (cos_lat j))
             (fadd bits (fmul bits (sin_lon i) (sin_lon j)) (fmul bits (cos_lon i) (cos_lon j)))).
Definition cos_ang bits cl sl cn sn (a b : nat) : Q :=
  tri (fun i j => clamp (ang_expr bits cl sl cn sn i j)) a b.

(* ---- Euclidean distance: rounded sum of rounded squares, then the root *)
Definition euc_sum bits (x : nat -> nat -> Q) (ks : list nat) (i j : nat) : Q :=
  fold_left (fun acc k => fadd bits acc (fsq bits (fsub bits (x k i) (x k j)))) ks (0#1)%Q.
Definition euc_sq bits x ndim (a b : nat) : Q := tri (euc_sum bits x (seq 0 ndim)) a b.

(* matrices as lists, for the correspondence layer *)
Definition qeqb (a b : Q) : bool := Qeq_bool a b.
Definition vec (l : list Q) : nat -> Q := fun i => nth i l (0#1)%Q.
Definition mat2 (l : list (list Q)) : nat -> nat -> Q := fun k i => nth i (nth k l []) (0#1)%Q.
Definition all_pairs (n : nat) (f : nat -> nat -> bool) : bool :=
  forallb (fun a => forallb (f a) (seq 0 n)) (seq 0 n).
(* kernel output (list of rows) vs the model *)
Definition check_ang (c : list Q * list Q * list Q * list Q * list (list Q)) : bool :=
  let '(cl, sl, cn, sn, out) := c in
  let n := length cl in
  all_pairs n (fun a b => qeqb (cos_ang 32 (vec cl) (vec sl) (vec cn) (vec sn) a b) (mat2 out a b)).
(* Euclidean: the stored root r must bracket the model's sum of squares:
   lo^2 <= s <= hi^2 with lo, hi the binary32 neighbours of r *)
Definition check_euc (c : list (list Q) * list (list (Q * Q))) : bool :=
  let '(x, out) := c in
  let n := length (nth 0 x []) in
  all_pairs n (fun a b =>
    let s := euc_sq 32 (mat2 x) (length x) a b in
    let '(lo, hi) := nth b (nth a out []) ((0#1)%Q, (0#1)%Q) in
    Qle_bool (lo * lo) s && Qle_bool s (hi * hi) && Qle_bool (0#1) lo).

(* ---- rectangular grids: meshgrid + flatten('F') *)
Definition rect2 {V} (a0 a1 : list V) : list (V * V) := list_prod a0 a1.
Fixpoint slower {V} (base : list (list V)) (rest : list (list V)) : list (list V) :=
  match rest with
  | [] => base
  | a :: r => slower (flat_map (fun z => map (fun t => t ++ [z]) base) a) r
  end.
Definition rectn {V} (axes : list (list V)) : list (list V) :=
  match axes with
  | [] => [[]]
  | [a0] => map (fun x => [x]) a0
  | a0 :: a1 :: rest => slower (map (fun p => [fst p; snd p]) (list_prod a0 a1)) rest
  end.
(* the d coordinate sequences returned by the library = columns of rectn *)
Definition column {V} (d : V) (k : nat) (pts : list (list V)) : list V := map (fun t => nth k t d) pts.
Fixpoint eqlq (a b : list Q) : bool :=
  match a, b with [], [] => true | x :: a', y :: b' => qeqb x y && eqlq a' b' | _, _ => false end.
Definition check_rect (c : list (list Q) * list (list Q)) : bool :=
  let '(axes, seqs) := c in
  Nat.eqb (length seqs) (length axes) &&
  forallb (fun k => eqlq (column (0#1)%Q k (rectn axes)) (nth k seqs [])) (seq 0 (length axes)).

(* ---- first index of a minimum (numpy argmin) *)
Fixpoint argmin_aux (l : list Q) (k best : nat) (bv : Q) : nat :=
  match l with
  | [] => best
  | x :: r => if Qlt_b x bv then argmin_aux r (S k) k x else argmin_aux r (S k) best bv
  end.
Definition argmin (l : list Q) : nat := match l with [] => 0 | x :: r => argmin_aux r 1 0 x end.

(* ---- area weighted connectivity (geo_network.py): cos_lat . A / sum cos_lat *)
From Coq Require Import Qcanon.
From PV.Base Require Import Sums.
Definition inawc (n : nat) (A : nat -> nat -> bool) (w : nat -> Qc) (i : nat) : Qc :=
  (sumn n (fun j => ind (A j i) * w j) / sumn n w)%Qc.
Definition outawc (n : nat) (A : nat -> nat -> bool) (w : nat -> Qc) (i : nat) : Qc :=
  (sumn n (fun j => ind (A i j) * w j) / sumn n w)%Qc.
(* n.s.i. degree with the same weights (extended adjacency A+ = A or identity) *)
Definition nsi_degree_w (n : nat) (A : nat -> nat -> bool) (w : nat -> Qc) (i : nat) : Qc :=
  sumn n (fun j => ind (A i j || Nat.eqb i j) * w j)%Qc.
