(* Model of the constructor paths of core/network.py: adjacency setter
   (summary attributes), set_edge_list / FromIGraph (symmetrise, one link per
   listed pair), node_weights setter.  Definitions only. *)
From Coq Require Import QArith List Bool Arith.
Import ListNotations.
Close Scope Q_scope. Open Scope nat_scope.

Definition mat := nat -> nat -> bool.
Definition edge := (nat * nat)%type.
Definition edge_eqb (a b : edge) : bool := Nat.eqb (fst a) (fst b) && Nat.eqb (snd a) (snd b).

(* set_edge_list / FromIGraph: append the reversed pairs if undirected, then
   one link per pair that occurs *)
Definition symmetrise (directed : bool) (E : list edge) : list edge :=
  if directed then E else E ++ map (fun e => (snd e, fst e)) E.
Definition of_edges (directed : bool) (E : list edge) : mat :=
  fun i j => existsb (edge_eqb (i, j)) (symmetrise directed E).

(* the edge list a network reports (graph.get_edgelist(): each undirected link once) *)
Definition pairs (n : nat) : list edge :=
  flat_map (fun i => map (fun j => (i, j)) (seq 0 n)) (seq 0 n).
Definition edges_of (n : nat) (directed : bool) (A : mat) : list edge :=
  filter (fun e => A (fst e) (snd e) && (directed || (fst e <? snd e))) (pairs n).

(* adjacency setter: N, n_links, link_density *)
Definition nnz (n : nat) (A : mat) : nat :=
  length (filter (fun e => A (fst e) (snd e)) (pairs n)).
Definition n_links (n : nat) (directed : bool) (A : mat) : nat :=
  if directed then nnz n A else nnz n A / 2.
Definition link_density (n : nat) (A : mat) : Q :=
  if n <=? 1 then 0%Q
  else (inject_Z (Z.of_nat (nnz n A)) / inject_Z (Z.of_nat (n * (n - 1))))%Q.

(* node_weights setter *)
Definition total_weight (w : list Q) : Q := fold_right Qplus 0%Q w.
Definition mean_weight (w : list Q) : Q := (total_weight w / inject_Z (Z.of_nat (length w)))%Q.

Definition mfun (M : list (list bool)) : mat := fun i j => nth j (nth i M []) false.
Definition mlist (n : nat) (A : mat) : list (list bool) :=
  map (fun i => map (A i) (seq 0 n)) (seq 0 n).
