(* Model of timeseries/_ext/numerics.pyx:_line_dist and of the RQA formulas of
   timeseries/recurrence_plot.py that are functions of its histograms.
   Definitions only; proofs live in Proofs/LineDist.v. *)
From Coq Require Import List Lia Bool Arith QArith.
Import ListNotations.
Close Scope Q_scope.
Open Scope nat_scope.

(* ---- kernel, transcribed: state = (k, missing_flag, emitted run lengths).
   `hist[k-1] += 1` is modelled as emitting k; hist_of recovers the array. *)
Record st := mk { k : nat; flag : bool; out : list nat }.

Definition step (mv : bool) (line missing : bool) (s : st) : st :=
  let s1 := if mv then
              if missing then mk 0 true (out s)
              else if flag s && negb line then mk (k s) false (out s) else s
            else s in
  if mv && flag s1 then s1
  else if line then mk (S (k s1)) (flag s1) (out s1)
  else if Nat.eqb (k s1) 0 then s1 else mk 0 (flag s1) (k s1 :: out s1).

Definition flush (s : st) : st :=
  let s1 := if negb (Nat.eqb (k s) 0) && negb (flag s)
            then mk 0 (flag s) (k s :: out s) else s in
  mk (k s1) false (out s1).

(* one scan line = list of (line, missing) pairs *)
Definition scanline mv (l : list (bool*bool)) (s : st) : st :=
  flush (fold_left (fun s p => step mv (fst p) (snd p) s) l s).

(* generic kernel: lines i < N, points j < J i, at (I i j, j) *)
Section Kernel.
Variables (N : nat) (J : nat -> nat) (I : nat -> nat -> nat).
Variables (pt : nat -> nat -> bool) (miss : nat -> bool) (mv : bool).
Definition the_line i :=
  map (fun j => (pt (I i j) j, miss (I i j) || miss j)) (seq 0 (J i)).
Definition kernel : list nat :=
  out (fold_left (fun s i => scanline mv (the_line i) s) (seq 0 N)
                 (mk 0 false [])).
End Kernel.

Definition hist_of (n : nat) (outs : list nat) : list nat :=
  map (fun l => count_occ Nat.eq_dec outs (S l)) (seq 0 n).

(* line geometries, as the inline functions i2J_* / ij2I_* *)
Definition J_vert (n i : nat) := n.
Definition I_vert (n i j : nat) := i.
Definition J_diag (n i : nat) := S i.
Definition I_diag (n i j : nat) := n - i + j.    (* n = n_time - 1 here *)

(* the exported wrappers; `black` selects the colour *)
Definition vert_outs n (R : nat -> nat -> bool) miss mv black :=
  kernel n (J_vert n) (I_vert n) (fun a b => Bool.eqb (R a b) black) miss mv.
Definition diag_outs n (R : nat -> nat -> bool) miss mv :=
  kernel (n - 1) (J_diag (n - 1)) (I_diag (n - 1))
         (fun a b => Bool.eqb (R a b) true) miss mv.

Definition vertline_dist n R miss mv := hist_of n (vert_outs n R miss mv true).
Definition white_vertline_dist n R := hist_of n (vert_outs n R (fun _ => false) false false).
Definition diagline_dist n R miss mv :=
  map (fun c => 2 * c) (hist_of n (diag_outs n R miss mv)).

(* ---- specification, independent of the state machine -------------------
   Colour every point of a scan line black / white / missing, cut the line at
   the white points, and count one line of full length for every non-empty
   piece that holds no missing point (a piece holding a missing point holds
   only lines that contain or touch one). *)
Inductive cell := Bk | Wh | Ms.
Definition cell_of (mv line missing : bool) : cell :=
  if mv && missing then Ms else if line then Bk else Wh.

Fixpoint split_wh (l : list cell) (cur : list cell) : list (list cell) :=
  match l with
  | [] => [cur]
  | Wh :: l' => cur :: split_wh l' []
  | c :: l' => split_wh l' (c :: cur)
  end.
Definition is_ms c := match c with Ms => true | _ => false end.
Definition is_bk c := match c with Bk => true | _ => false end.
Definition seg_runs (seg : list cell) : list nat :=
  if existsb is_ms seg then []
  else match length seg with 0 => [] | n => [n] end.
Definition runs3 (l : list cell) : list nat :=
  flat_map seg_runs (split_wh l []).

Definition cells mv (l : list (bool*bool)) : list cell :=
  map (fun p => cell_of mv (fst p) (snd p)) l.

(* ---- scalar RQA measures as functions of a histogram (Q arithmetic);
   eps is RecurrencePlot._epsilon = 1e-8 --------------------------------- *)
Open Scope Q_scope.
Definition qn (n : nat) : Q := inject_Z (Z.of_nat n).
(* sum over l >= lmin of (l) * hist[l-1]  ==  np.arange(lmin, n+1) @ hist[lmin-1:] *)
Fixpoint wsum_from (l : nat) (h : list nat) : Q :=
  match h with [] => 0 | c :: h' => qn l * qn c + wsum_from (S l) h' end.
Fixpoint csum (h : list nat) : Q :=
  match h with [] => 0 | c :: h' => qn c + csum h' end.
Definition partial_sum (lmin : nat) (h : list nat) : Q :=
  wsum_from lmin (skipn (lmin - 1) h).
Definition full_sum (h : list nat) : Q := wsum_from 1 h.
Definition ratio_measure (eps : Q) lmin h : Q :=          (* DET, LAM *)
  partial_sum lmin h / (full_sum h + eps).
Definition avg_measure (eps : Q) lmin h : Q :=            (* L, TT, MRT *)
  partial_sum lmin h / (csum (skipn (lmin - 1) h) + eps).
Fixpoint max_len_from (l : nat) (h : list nat) (best : nat) : nat :=
  match h with [] => best
  | c :: h' => max_len_from (S l) h' (if Nat.eqb c 0 then best else l) end.
Definition max_len (h : list nat) : nat := max_len_from 1 h 0.
(* recurrence rate in sequential mode: (vert * arange(1,N+1)).sum() / N^2 *)
Definition rr_from_vert (n : nat) (h : list nat) : Q := full_sum h / (qn n * qn n).
Close Scope Q_scope.

(* ---- list-based inputs (what the correspondence layer feeds) ------------ *)
Definition Rfun (R : list (list bool)) (a b : nat) : bool := nth b (nth a R []) false.
Definition Mfun (M : list bool) (a : nat) : bool := nth a M false.

(* sequential mode: the recurrence bit is recomputed from the embedding.
   abs / max in binary64 as metric_supremum does; `cmp` is the comparison the
   kernel performs (binary32 when it holds d and eps in 32-bit variables). *)
From Coq Require Import Qabs.
From PV.Base Require Import F32.
Definition supdist (a b : list Q) : Q :=
  fold_left (fun acc p => let t := round64 (Qabs (fst p - snd p)) in
                          if ltQ acc t then t else acc) (combine a b) 0%Q.
Definition seq_pt (cmp : Q -> Q -> bool) (E : list (list Q)) (eps : Q) (a b : nat) : bool :=
  cmp (supdist (nth a E []) (nth b E [])) eps.

Definition all_dists (R : list (list bool)) (M : list bool) (mv : bool) :=
  let n := length R in
  (vertline_dist n (Rfun R) (Mfun M) mv,
   diagline_dist n (Rfun R) (Mfun M) mv,
   white_vertline_dist n (Rfun R)).
Definition seq_dists (cmp : Q -> Q -> bool) (E : list (list Q)) (eps : Q) (M : list bool) (mv : bool) :=
  let n := length E in
  (vertline_dist n (seq_pt cmp E eps) (Mfun M) mv,
   diagline_dist n (seq_pt cmp E eps) (Mfun M) mv).

(* the comparison the sequential kernel performs, decided by the C types the
   current source declares for `d` and `eps` (Gen.LineDistGen.gen_seq_rounds) *)
Definition seq_cmp (rounds : bool) : Q -> Q -> bool := if rounds then lt32 else ltQ.
