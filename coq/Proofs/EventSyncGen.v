(* The coincidence conditions of the CURRENT event_series.py (Gen/EventSyncK.v
   is regenerated on every run) are those of Model/EventSync.v. *)
From Coq Require Import ZArith Bool.
From PV.Model Require Import EventSync.
From PV.Gen Require Import EventSyncK.
Open Scope Z_scope.

Lemma gen_conditions_are_model taumax p q :
  gen_Axy (dst2 p q) (tau2 taumax p q) = Axy taumax p q /\
  gen_Ayx (dst2 p q) (tau2 taumax p q) = Ayx taumax p q.
Proof. split; reflexivity. Qed.
Lemma gen_es_facts : gen_es_statements_are_model = true.
Proof. reflexivity. Qed.
