(* The two n.s.i. cross kernels compute the terms nsi_cross_transitivity and
   nsi_cross_local_clustering of Model/Measures.v (the terms the pullback
   theorem makes invariant under node splitting and renumbering): for a
   symmetric reflexive A+, duplicate-free node lists inside the node range,
   group 0 = list 1 and group 1 = list 2. *)
From Coq Require Import QArith Qcanon List Bool Arith Lia Permutation.
From PV.Base Require Import Sums ListX.
From PV.Model Require Import PairLoop Interacting NsiLang Measures NsiKernels.
From PV.Proofs Require Import PairLoop Interacting.
Import ListNotations.
Open Scope Qc_scope.

Lemma qb_ind b : qb b = ind b.
Proof. reflexivity. Qed.

Lemma row_sum_scal c f a l : row_sum (fun x y => c * f x y) a l = c * row_sum f a l.
Proof. unfold row_sum. induction l as [|b l IH]; cbn [fold_right]; [ring|]. rewrite IH. ring. Qed.

Lemma pair_loop_scal c f l : pair_loop (fun x y => c * f x y) l = c * pair_loop f l.
Proof.
  induction l as [|a l IH]; cbn [pair_loop]; [ring|].
  rewrite IH, row_sum_scal. ring.
Qed.

Lemma row_sum_ext f g a l : (forall x y, f x y = g x y) -> row_sum f a l = row_sum g a l.
Proof. intros H. unfold row_sum. induction l as [|b l IH]; cbn [fold_right]; [reflexivity|]. now rewrite IH, H. Qed.

Lemma pair_loop_ext f g l : (forall x y, f x y = g x y) -> pair_loop f l = pair_loop g l.
Proof.
  intros H. induction l as [|a l IH]; cbn [pair_loop]; [reflexivity|].
  now rewrite IH, (row_sum_ext f g a l H).
Qed.

Lemma sumq_map_ext {X} (f g : X -> Qc) l : (forall x, In x l -> f x = g x) ->
  sumq (map f l) = sumq (map g l).
Proof.
  induction l as [|a l IH]; intros H; [reflexivity|].
  cbn [map]. rewrite !sumq_cons, IH, (H a) by (try (intros; apply H); now (left + right)).
  reflexivity.
Qed.

Lemma sumq_map_scal {X} c (f : X -> Qc) l : sumq (map (fun x => c * f x) l) = c * sumq (map f l).
Proof. induction l as [|a l IH]; [cbn; ring|]. cbn [map]. rewrite !sumq_cons, IH. ring. Qed.

Lemma sumq_map_add {X} (f g : X -> Qc) l :
  sumq (map (fun x => f x + g x) l) = sumq (map f l) + sumq (map g l).
Proof. induction l as [|a l IH]; [cbn; ring|]. cbn [map]. rewrite !sumq_cons, IH. ring. Qed.

(* a sum over a duplicate-free node list is an indicator sum over all nodes *)
Definition mem (l : list nat) (u : nat) : bool := existsb (Nat.eqb u) l.

Lemma mem_In l u : mem l u = true <-> In u l.
Proof.
  unfold mem. rewrite existsb_exists. split.
  - intros [x [Hx E]]. apply Nat.eqb_eq in E. now subst.
  - intros H. exists u. split; [assumption|apply Nat.eqb_refl].
Qed.

Lemma sumq_as_indicator n l f : NoDup l -> (forall x, In x l -> (x < n)%nat) ->
  sumq (map f l) = sumn n (fun u => ind (mem l u) * f u).
Proof.
  induction l as [|a l IH]; intros ND Hlt.
  - cbn. rewrite (sumn_ext _ _ (fun _ => 0)); [now rewrite sumn_0|intros; cbn; ring].
  - inversion ND as [|? ? Hnotin ND']; subst.
    cbn [map]. rewrite sumq_cons, IH by (auto; intros; apply Hlt; now right).
    rewrite <- (sumn_ind n a f) by (apply Hlt; now left).
    rewrite <- sumn_add. apply sumn_ext; intros u _.
    unfold mem. cbn [existsb]. rewrite (Nat.eqb_sym u a).
    destruct (Nat.eqb_spec a u) as [->|]; cbn [orb ind].
    + replace (existsb (Nat.eqb u) l) with false; [cbn [ind]; ring|].
      symmetry. apply not_true_is_false. intros H. apply Hnotin. now apply mem_In.
    + ring.
Qed.

Section Kernels.
  Variables (G : graph) (l1 l2 : list nat).
  Hypothesis sym : forall a b, ap G a b = ap G b a.
  Hypothesis refl : forall a, ap G a a = true.
  Hypothesis ND1 : NoDup l1.
  Hypothesis ND2 : NoDup l2.
  Hypothesis R1 : forall x, In x l1 -> (x < gn G)%nat.
  Hypothesis R2 : forall x, In x l2 -> (x < gn G)%nat.
  Hypothesis G1 : forall u, grp G 0 u = mem l1 u.
  Hypothesis G2 : forall u, grp G 1 u = mem l2 u.

  Let A := ap G.
  Let w := gw G.
  Let n := gn G.

  (* full double sums over list 2 *)
  Definition g1 (v p q : nat) : Qc := ind (A v p && (A v q && A p q)) * (w p * w q).
  Definition g2 (v p q : nat) : Qc := ind (A v p && A v q) * (w p * w q).

  Lemma g1_sym v p q : g1 v p q = g1 v q p.
  Proof.
    unfold g1, A. rewrite (sym p q).
    destruct (ap G v p), (ap G v q), (ap G q p); cbn [andb ind]; ring.
  Qed.
  Lemma g2_sym v p q : g2 v p q = g2 v q p.
  Proof. unfold g2. destruct (A v p), (A v q); cbn [andb ind]; ring. Qed.

  Lemma kT1_row v :
    sumq (map (t_diag A w v) l2) + pair_loop (t1_pair A w v) l2 = w v * S2 (g1 v) l2 l2.
  Proof.
    rewrite <- (pair_loop_double (g1 v) l2 (g1_sym v)).
    rewrite (pair_loop_ext (t1_pair A w v) (fun p q => ((1 + 1) * w v) * g1 v p q))
      by (intros p q; unfold t1_pair, g1; rewrite qb_ind; ring).
    rewrite pair_loop_scal.
    rewrite (sumq_map_ext (t_diag A w v) (fun p => w v * g1 v p p)).
    - rewrite sumq_map_scal. ring.
    - intros p _. unfold t_diag, g1, A. rewrite (refl p), qb_ind.
      destruct (ap G v p); cbn [andb ind]; ring.
  Qed.

  Lemma kT2_row v :
    sumq (map (t_diag A w v) l2) + pair_loop (t2_pair A w v) l2 = w v * S2 (g2 v) l2 l2.
  Proof.
    rewrite <- (pair_loop_double (g2 v) l2 (g2_sym v)).
    rewrite (pair_loop_ext (t2_pair A w v) (fun p q => ((1 + 1) * w v) * g2 v p q))
      by (intros p q; unfold t2_pair, g2; rewrite qb_ind; ring).
    rewrite pair_loop_scal.
    rewrite (sumq_map_ext (t_diag A w v) (fun p => w v * g2 v p p)).
    - rewrite sumq_map_scal. ring.
    - intros p _. unfold t_diag, g2. rewrite qb_ind.
      destruct (A v p); cbn [andb ind]; ring.
  Qed.

  (* a double sum over list 2 as the doubly bound term of the language *)
  Lemma S2_as_sums (h : nat -> nat -> Qc) :
    S2 h l2 l2 = sumn n (fun a => ind (mem l2 a) * sumn n (fun b => ind (mem l2 b) * h a b)).
  Proof.
    unfold S2. rewrite (sumq_as_indicator n l2 _ ND2 R2).
    apply sumn_ext; intros a _. f_equal. now apply sumq_as_indicator.
  Qed.

  Theorem kT1_is_term :
    kT1 A w l1 l2 = eval G [] (Sum (Mul (Measures.G1 0) (Sum (Sum
       (Mul (Mul (Measures.G2 1) (Measures.G2 0)) (Mul3 (Adj 2 1) (Adj 1 0) (Adj 0 2))))))).
  Proof.
    unfold kT1. rewrite (sumq_map_ext _ (fun v => w v * S2 (g1 v) l2 l2)) by (intros; apply kT1_row).
    rewrite (sumq_as_indicator n l1 _ ND1 R1).
    cbn [eval Measures.G1 Measures.G2 Mul3 var nth]. apply sumn_ext; intros v _.
    rewrite S2_as_sums, G1. fold w n.
    transitivity (w v * (ind (mem l1 v) * sumn n (fun a => ind (mem l2 a) *
                    sumn n (fun b => ind (mem l2 b) * g1 v a b)))); [ring|].
    f_equal. f_equal. apply sumn_ext; intros a _.
    rewrite <- sumn_scal. rewrite <- sumn_scal. apply sumn_ext; intros b _.
    rewrite !G2. unfold g1, A. rewrite (sym b v).
    destruct (ap G v a), (ap G v b), (ap G a b); cbn [andb ind]; ring.
  Qed.

  Theorem kT2_is_term :
    kT2 A w l1 l2 = eval G [] (Sum (Mul (Measures.G1 0) (Sum (Sum
       (Mul (Mul (Measures.G2 1) (Measures.G2 0)) (Mul (Adj 2 1) (Adj 2 0))))))).
  Proof.
    unfold kT2. rewrite (sumq_map_ext _ (fun v => w v * S2 (g2 v) l2 l2)) by (intros; apply kT2_row).
    rewrite (sumq_as_indicator n l1 _ ND1 R1).
    cbn [eval Measures.G1 Measures.G2 var nth]. apply sumn_ext; intros v _.
    rewrite S2_as_sums, G1. fold w n.
    transitivity (w v * (ind (mem l1 v) * sumn n (fun a => ind (mem l2 a) *
                    sumn n (fun b => ind (mem l2 b) * g2 v a b)))); [ring|].
    f_equal. f_equal. apply sumn_ext; intros a _.
    rewrite <- sumn_scal. rewrite <- sumn_scal. apply sumn_ext; intros b _.
    rewrite !G2. unfold g2, A.
    destruct (ap G v a), (ap G v b); cbn [andb ind]; ring.
  Qed.

  (* the kernel's return value is the catalogue term *)
  Theorem nsi_cross_transitivity_kernel_is_term :
    k_nsi_cross_transitivity A w l1 l2 = eval G [] nsi_cross_transitivity.
  Proof.
    unfold k_nsi_cross_transitivity, nsi_cross_transitivity.
    rewrite kT1_is_term, kT2_is_term. reflexivity.
  Qed.

  (* ---- _nsi_cross_local_clustering ---- *)
  Definition gc (v p q : nat) : Qc := ind (A v p && (A p q && A q v)) * (w p * w q).
  Lemma gc_sym v p q : gc v p q = gc v q p.
  Proof.
    unfold gc, A. rewrite (sym q p), (sym q v), (sym p v).
    destruct (ap G v p), (ap G v q), (ap G p q); cbn [andb ind]; ring.
  Qed.

  Lemma k_nsi_cc_S2 v : k_nsi_cc A w l2 v = S2 (gc v) l2 l2.
  Proof.
    unfold k_nsi_cc. rewrite <- (pair_loop_double (gc v) l2 (gc_sym v)).
    rewrite (pair_loop_ext (c_pair A w v) (fun p q => (1 + 1) * gc v p q))
      by (intros p q; unfold c_pair, gc; rewrite qb_ind; ring).
    rewrite pair_loop_scal.
    rewrite (sumq_map_ext (c_diag A w v) (fun p => gc v p p)); [ring|].
    intros p _. unfold c_diag, gc, A. rewrite (refl p), (sym p v), qb_ind.
    destruct (ap G v p); cbn [andb ind]; ring.
  Qed.

  Theorem nsi_cc_kernel_is_term v :
    k_nsi_cc A w l2 v = eval G [v] (Sum (Sum
       (Mul (Mul (Measures.G2 1) (Measures.G2 0)) (Mul3 (Adj 2 1) (Adj 1 0) (Adj 0 2))))).
  Proof.
    rewrite k_nsi_cc_S2, S2_as_sums.
    cbn [eval Measures.G2 Mul3 var nth]. fold w n.
    apply sumn_ext; intros a _.
    rewrite <- !sumn_scal. apply sumn_ext; intros b _.
    rewrite !G2. unfold gc, A.
    destruct (ap G v a), (ap G a b), (ap G b v); cbn [andb ind]; ring.
  Qed.

  Lemma nsi_cross_degree_is_term v :
    k_nsi_cross_degree A w l2 v = eval G [v] nsi_cross_degree.
  Proof.
    unfold k_nsi_cross_degree. rewrite (sumq_as_indicator n l2 _ ND2 R2).
    cbn [eval nsi_cross_degree Measures.G2 var nth]. apply sumn_ext; intros p _.
    rewrite G2. unfold qb, ind. fold w. unfold A. ring.
  Qed.

  Theorem nsi_cross_local_clustering_kernel_is_term v :
    k_nsi_cross_local_clustering A w l2 v = eval G [v] nsi_cross_local_clustering.
  Proof.
    unfold k_nsi_cross_local_clustering, nsi_cross_local_clustering, Sq.
    rewrite nsi_cc_kernel_is_term, nsi_cross_degree_is_term. reflexivity.
  Qed.
End Kernels.
