(* Obligations over the tables regenerated from the source (Gen/CacheFacts.v). *)
From Coq Require Import List Bool Arith String.
From PV.Model Require Import Cache.
From PV.Gen Require Import CacheFacts.
From PV.Proofs Require Import Cache.
Import ListNotations.
Open Scope string_scope.

(* (class, cached method, mutator) triples the decision procedure rejects and
   that are accepted with a stated reason; everything else must be adequate.
   - Surrogates.original_data_fft: keyed on the flag `_normalized`, which
     normalize_original_data() sets together with the in-place normalisation
     (the only change of original_data); a second normalisation is idempotent
     up to rounding.  The model knows counters only, so it cannot see this. *)
(* - "<attribute> (assigned)" are implicit mutators: configuration that the
     constructor stores under a public name straight from its arguments and
     that a cached method reads may be assigned by the user (RecurrencePlot
     keys its line distributions on threshold / metric / missing_values /
     sparse_rqa for exactly that reason, Network on directed).  Three
     classes' constructor arguments are not protected that way and are
     accepted here: they have no setter, the property's list of state changes
     does not name them, and re-assigning them is not a documented use
     (ClimateData.time_cycle / anomalies, Surrogates.original_data; the
     stale values are listed under "other observations" in DESIGN.md). *)
Definition known_inadequate : list (string * string * string) :=
  [("ClimateData", "anomaly", "anomalies (assigned)");
   ("ClimateData", "anomaly", "time_cycle (assigned)");
   ("ClimateData", "phase_mean", "time_cycle (assigned)");
   ("Surrogates", "original_data_fft", "original_data (assigned)");
   ("Surrogates", "original_data_fft", "normalize_original_data");
   ("Surrogates", "original_data_fft", "original_distribution");
   ("Surrogates", "original_data_fft", "test_threshold_significance")].

Lemma tables_adequate_except_known :
  all_known known_inadequate (flat_map inadequate gen_tables) = true.
Proof. vm_compute. reflexivity. Qed.

(* the generated tables are not trivial *)
Definition find_table (c : string) : option ctable :=
  find (fun t => String.eqb (t_class t) c) gen_tables.
Definition method_of (t : ctable) (n : string) : option cmethod :=
  find (fun m => String.eqb (m_name m) n) (t_methods t).
Definition mutator_of (t : ctable) (n : string) : option cmutator :=
  find (fun m => String.eqb (mu_name m) n) (t_mutators t).

Lemma tables_nontrivial :
  (Nat.leb 20 (List.length gen_tables)) = true /\
  match find_table "Network" with
  | Some t => (Nat.leb 40 (List.length (t_methods t))) && (Nat.leb 4 (List.length (t_mutators t)))
              && match method_of t "nsi_degree", mutator_of t "node_weights.setter",
                       mutator_of t "adjacency.setter", mutator_of t "set_link_attribute" with
                 | Some m, Some mu1, Some mu2, Some mu3 =>
                     mem "_mut_nw" (m_key m) && mem "_node_weights" (m_reads m)
                     && mem "_mut_nw" (mu_bumps mu1) && mem "_mut_A" (mu_bumps mu2)
                     && mem "_mut_la" (mu_bumps mu3)
                     && adequate_mm mu1 m && adequate_mm mu2 m && adequate_mm mu3 m
                 | _, _, _, _ => false
                 end
  | None => false
  end = true.
Proof. vm_compute. split; reflexivity. Qed.

(* the decision procedure is not vacuous either: dropping the counter from a
   key makes the executable cache return a stale value *)
Definition broken_method : cmethod :=
  {| m_name := "nsi_degree"; m_key := ["_mut_A"; "directed"]; m_reads := ["_node_weights"; "sp_A"] |}.
Definition nw_setter : cmutator :=
  {| mu_name := "node_weights.setter"; mu_changed := ["_node_weights"];
     mu_bumps := ["_mut_nw"]; mu_resets := [] |}.
Lemma dropped_counter_is_stale :
  adequate_mm nw_setter broken_method = false /\ stale_after broken_method nw_setter = true.
Proof. vm_compute. split; reflexivity. Qed.
(* ... and so does a mutator that re-initialises a counter *)
Definition reinit_setter : cmutator :=
  {| mu_name := "set_threshold"; mu_changed := ["sp_A"; "graph"];
     mu_bumps := ["_mut_A"]; mu_resets := ["_mut_A"] |}.
Definition degree_method : cmethod :=
  {| m_name := "degree"; m_key := ["_mut_A"; "directed"]; m_reads := ["sp_A"] |}.
Lemma reinit_is_stale :
  adequate_mm reinit_setter degree_method = false /\ stale_after degree_method reinit_setter = true.
Proof. vm_compute. split; reflexivity. Qed.
