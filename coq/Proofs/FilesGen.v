(* Facts about the CURRENT source (Gen/FileAttrs.v is regenerated each run). *)
From Coq Require Import String List Bool.
From PV.Model Require Import Files.
From PV.Gen Require Import FileAttrs.
From PV.Proofs Require Import Files.
Import ListNotations.

Lemma formats_complete f : In f formats.
Proof. destruct f; cbn; auto. Qed.

Lemma gen_all_find : all_find gen_aliases gen_written gen_loaders = true.
Proof. vm_compute. reflexivity. Qed.

Theorem weights_found_everywhere l f : In l gen_loaders ->
  finds gen_aliases gen_written f (snd l) = true.
Proof.
  intros Hl. pose proof gen_all_find as H. unfold all_find in H.
  rewrite forallb_forall in H. specialize (H l Hl). rewrite forallb_forall in H.
  apply H, formats_complete.
Qed.

(* the four classes that define Load are all covered *)
Lemma gen_loaders_named :
  map fst gen_loaders = ["Network"; "SpatialNetwork"; "GeoNetwork"; "ClimateNetwork"]%string.
Proof. reflexivity. Qed.
