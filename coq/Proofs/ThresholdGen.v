(* Facts read from the CURRENT climate/climate_network.py (Gen/ThresholdK.v is
   regenerated on every run) agree with Model/Threshold.v. *)
From Coq Require Import ZArith QArith Qround Lia.
From PV.Model Require Import Threshold.
From PV.Gen Require Import ThresholdK.

Lemma gen_density_index_is_model rho n : gen_density_index rho n = density_index rho n.
Proof.
  unfold gen_density_index, density_index. f_equal. apply Qfloor_comp.
  assert (H : (n <= n * n)%nat) by nia.
  rewrite (Nat2Z.inj_sub _ _ H). unfold Zminus. rewrite inject_Z_plus, inject_Z_opp. ring.
Qed.
Lemma gen_threshold_facts :
  gen_adj_strict_and_loop_free = true /\ gen_nonlocal_is_damped_threshold = true /\
  gen_set_threshold_rebuilds = true /\ gen_set_density_via_threshold = true /\
  gen_similarity_is_abs_float32 = true.
Proof. repeat split; reflexivity. Qed.
