(* The cross-clustering kernels of the CURRENT numerics.pyx (Gen/CrossK.v is
   regenerated on every run) count what Model/Interacting.v counts. *)
From Coq Require Import QArith Qcanon List Bool.
From PV.Model Require Import PairLoop Interacting.
From PV.Gen Require Import CrossK.

Lemma gen_counts_are_model A l2 n1 :
  triples_of A l2 n1 = pair_loop (fun n3 n2 => qb (gen_ct_triples A n1 n2 n3)) l2 /\
  triangles_of A l2 n1 = pair_loop (fun n3 n2 => qb (gen_ct_triangles A n1 n2 n3)) l2 /\
  triangles_of A l2 n1 = pair_loop (fun n3 n2 => qb (gen_clc_triangles A n1 n2 n3)) l2.
Proof. repeat split; reflexivity. Qed.
Lemma gen_skeleton : gen_cross_kernels_skeleton = true.
Proof. reflexivity. Qed.
(* the two n.s.i. kernels and their callers' A+ argument, statement by
   statement (translate/pyx_cross.py fails closed on any other text) *)
Lemma gen_nsi_kernels : gen_nsi_cross_kernels_are_model = true.
Proof. reflexivity. Qed.
