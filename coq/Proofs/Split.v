From Coq Require Import QArith Qcanon List Lia Bool Arith Permutation.
From PV.Base Require Import Sums.
From PV.Model Require Import NsiLang Split.
From PV.Proofs Require Import NsiLang.
Import ListNotations.
Open Scope Qc_scope.

Theorem split_is_pullback r v p :
  (v < rn r)%nat -> (forall i, ra r i i = false) ->
  pullback (to_graph (split r v p)) (to_graph r) (orig (rn r) v).
Proof.
  intros Hv Hirr. set (N := rn r). constructor; cbn [to_graph split gn ap gw attr grp rn ra rw rattr rgrp]; fold N.
  - intros i Hi. unfold orig. destruct (Nat.eqb_spec i N); lia.
  - intros i j Hi Hj. unfold aplus, orig.
    destruct (Nat.ltb_spec i N), (Nat.ltb_spec j N); cbn [andb];
      repeat match goal with |- context [Nat.eqb ?a ?b] => destruct (Nat.eqb_spec a b) end;
      subst; cbn [orb]; try lia; try congruence; try reflexivity; rewrite ?Hirr; auto.
  - intros a i j Hi Hj. unfold orig.
    destruct (Nat.ltb_spec i N), (Nat.ltb_spec j N); cbn [andb];
      repeat match goal with |- context [Nat.eqb ?a ?b] => destruct (Nat.eqb_spec a b) end;
      subst; try lia; try congruence; try reflexivity.
  - intros g i Hi. reflexivity.
  - intros u Hu. rewrite sumn_S. unfold orig at 2. rewrite Nat.eqb_refl.
    transitivity (sumn N (fun i => ind (Nat.eqb i u) * (if Nat.eqb i v then (1 - p) * rw r v else rw r i))
                  + ind (Nat.eqb v u) * (p * rw r v)).
    { f_equal. apply sumn_ext. intros i Hi. unfold orig. destruct (Nat.eqb_spec i N); [lia|]. reflexivity. }
    rewrite sumn_ind_r by assumption. destruct (Nat.eqb_spec u v); subst.
    + rewrite Nat.eqb_refl. unfold ind; ring.
    + destruct (Nat.eqb_spec v u); [congruence|]. unfold ind; ring.
  - intros u Hu. exists u. split; [lia|]. unfold orig. destruct (Nat.eqb_spec u N); [lia|reflexivity].
Qed.

Theorem permute_is_pullback r p :
  Permutation p (seq 0 (rn r)) ->
  pullback (to_graph (permute r p)) (to_graph r) (fun i => nth i p 0%nat).
Proof.
  intros P. assert (L : length p = rn r) by (rewrite (Permutation_length P); apply seq_length).
  assert (Hlt : forall i, (i < rn r)%nat -> (nth i p 0 < rn r)%nat).
  { intros i Hi. assert (In (nth i p 0%nat) (seq 0 (rn r))).
    { eapply Permutation_in; [exact P|]. apply nth_In. lia. }
    apply in_seq in H. lia. }
  assert (Hinj : forall i j, (i < rn r)%nat -> (j < rn r)%nat -> nth i p 0%nat = nth j p 0%nat -> i = j).
  { intros i j Hi Hj E. assert (ND : NoDup p).
    { eapply Permutation_NoDup; [symmetry; exact P|apply seq_NoDup]. }
    pose proof (proj1 (NoDup_nth p 0%nat) ND) as ND'. apply ND'; [rewrite L; exact Hi|rewrite L; exact Hj|exact E]. }
  constructor; cbn [to_graph permute gn ap gw attr grp rn ra rw rattr rgrp].
  - exact Hlt.
  - intros i j Hi Hj. unfold aplus. f_equal.
    destruct (Nat.eqb_spec i j) as [->|NE]; [now rewrite Nat.eqb_refl|].
    destruct (Nat.eqb_spec (nth i p 0%nat) (nth j p 0%nat)) as [E|]; [|reflexivity].
    exfalso. apply NE. now apply Hinj.
  - reflexivity.
  - reflexivity.
  - intros u Hu.
    rewrite (sumn_perm (rn r) p (fun x => ind (Nat.eqb x u) * rw r x) P).
    now apply sumn_ind_r.
  - intros u Hu. assert (In u p).
    { eapply Permutation_in; [symmetry; exact P|]. apply in_seq. lia. }
    destruct (In_nth p u 0%nat H) as [i [Hi E]]. exists i. split; [lia|exact E].
Qed.

(* the property in its own words: every closed term has the same value on the
   split network (twin and original both read v's value) *)
Corollary nsi_invariance r v p e env :
  (v < rn r)%nat -> (forall i, ra r i i = false) ->
  closed (length env) e -> Forall (fun i => (i < S (rn r))%nat) env ->
  eval (to_graph (split r v p)) env e = eval (to_graph r) (map (orig (rn r) v) env) e.
Proof. intros. apply eval_pullback; auto. now apply split_is_pullback. Qed.

Corollary relabel_invariance r p e env :
  Permutation p (seq 0 (rn r)) ->
  closed (length env) e -> Forall (fun i => (i < rn r)%nat) env ->
  eval (to_graph (permute r p)) env e = eval (to_graph r) (map (fun i => nth i p 0%nat) env) e.
Proof. intros. apply eval_pullback; auto. now apply permute_is_pullback. Qed.

(* two successive splits (and any longer chain, by pullback_compose) *)
Corollary iterated_splits r v p v2 p2 e env :
  (v < rn r)%nat -> (v2 < S (rn r))%nat -> (forall i, ra r i i = false) ->
  closed (length env) e -> Forall (fun i => (i < S (S (rn r)))%nat) env ->
  eval (to_graph (split (split r v p) v2 p2)) env e =
  eval (to_graph r) (map (fun i => orig (rn r) v (orig (S (rn r)) v2 i)) env) e.
Proof.
  intros Hv Hv2 Hirr Hc Henv.
  apply (eval_pullback _ _ (fun i => orig (rn r) v (orig (S (rn r)) v2 i))); auto.
  apply (pullback_compose _ (to_graph (split r v p))).
  - apply (split_is_pullback (split r v p) v2 p2); auto.
    intros i. cbn [split ra]. destruct (Nat.ltb_spec i (rn r)); cbn [andb]; auto.
  - now apply split_is_pullback.
Qed.
