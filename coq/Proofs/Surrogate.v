From Coq Require Import ZArith QArith Qabs Qround Qcanon List Bool Arith Lia Permutation.
From PV.Base Require Import Sums.
From PV.Model Require Import Surrogate.
Import ListNotations.
Close Scope Q_scope. Close Scope Qc_scope. Open Scope nat_scope.

(* ---------- AAFT rank remapping ---------- *)
Theorem remap_permutation {V} (d : V) sorted ranks :
  Permutation ranks (seq 0 (length sorted)) -> Permutation (remap d sorted ranks) sorted.
Proof.
  intros P. unfold remap.
  apply Permutation_trans with (map (fun r => nth r sorted d) (seq 0 (length sorted))).
  - now apply Permutation_map.
  - now rewrite (map_nth_seq sorted d).
Qed.
Theorem is_perm_of_seq_sound ranks n : is_perm_of_seq ranks n = true -> Permutation ranks (seq 0 n).
Proof.
  unfold is_perm_of_seq. intros H. apply andb_true_iff in H as [HL HA].
  apply Nat.eqb_eq in HL. symmetry. apply NoDup_Permutation_bis.
  - apply seq_NoDup.
  - rewrite seq_length. lia.
  - intros i Hi. rewrite forallb_forall in HA. specialize (HA i Hi).
    apply existsb_exists in HA. destruct HA as [x [Hx E]]. apply Nat.eqb_eq in E. now subst.
Qed.
(* hence: whatever the ranks of the phase-randomised series are, the 'true
   amplitudes' row is a permutation of the data row *)
Corollary aaft_row_is_permutation {V} (d : V) sorted ranks :
  is_perm_of_seq ranks (length sorted) = true -> Permutation (remap d sorted ranks) sorted.
Proof. intros H. apply remap_permutation, is_perm_of_seq_sound, H. Qed.

(* ---------- phase randomisation keeps the amplitudes, call after call ---------- *)
Open Scope Qc_scope.
Lemma cmul_norm z u : norm2 (cmul z u) = norm2 z * norm2 u.
Proof. unfold norm2, cmul. cbn [fst snd]. ring. Qed.
Lemma call_norm memo : forall u, length u = length memo ->
  Forall (fun x => norm2 x = 1) u -> map norm2 (call memo u) = map norm2 memo.
Proof.
  unfold call. induction memo as [|z memo IH]; intros [|x u] HL HU; try discriminate; [reflexivity|].
  cbn [combine map fst snd]. inversion HU as [|? ? H1 H2]; subst.
  rewrite cmul_norm, H1. f_equal; [ring|]. apply IH; [now injection HL|assumption].
Qed.
Lemma call_length memo u : length u = length memo -> length (call memo u) = length memo.
Proof. intros H. unfold call. rewrite map_length, combine_length. lia. Qed.
Theorem calls_norm us : forall memo,
  Forall (fun u => length u = length memo /\ Forall (fun x => norm2 x = 1) u) us ->
  map norm2 (calls memo us) = map norm2 memo.
Proof.
  unfold calls. induction us as [|u us IH]; intros memo H; [reflexivity|].
  inversion H as [|? ? [HL HU] HR]; subst. cbn [fold_left].
  rewrite IH.
  - now apply call_norm.
  - eapply Forall_impl; [|exact HR]. cbn beta. intros a [A1 A2]. split; [|assumption].
    now rewrite call_length.
Qed.
Close Scope Qc_scope.

(* ---------- twins ---------- *)
Lemma same_row_nR n R j k : same_row n R j k = true -> nR n R j = nR n R k.
Proof.
  unfold same_row, nR. intros H. f_equal. apply filter_ext_in. intros a Ha.
  rewrite forallb_forall in H. specialize (H a Ha). now apply eqb_prop in H.
Qed.
Lemma same_row_sym n R j k : same_row n R j k = same_row n R k j.
Proof.
  unfold same_row. induction (seq 0 n) as [|l ls IH]; [reflexivity|]. cbn [forallb].
  rewrite IH. now destruct (R j l), (R k l).
Qed.
Lemma twin_test_spec n R j k :
  twin_test n R j k = same_row n R j k && negb (Nat.eqb (nR n R j) 1).
Proof.
  unfold twin_test. destruct (same_row n R j k) eqn:E.
  - rewrite (same_row_nR n R j k E), Nat.eqb_refl. cbn. now rewrite andb_true_r.
  - now rewrite andb_false_r.
Qed.
Lemma in_scanned n md j k : In (j, k) (scanned n md) <-> j < n /\ k + md < j.
Proof.
  unfold scanned. rewrite in_flat_map. split.
  - intros [j' [Hj H]]. apply in_map_iff in H. destruct H as [k' [E Hk]].
    injection E as -> ->. apply in_seq in Hj, Hk. lia.
  - intros [Hj Hk]. exists j. split; [apply in_seq; lia|].
    apply in_map_iff. exists k. split; [reflexivity|apply in_seq; lia].
Qed.

(* the lists built by the kernel contain exactly the twins: sufficiently
   separated samples with identical recurrence neighbourhoods and more than
   one neighbour *)
Theorem kernel_twins_spec n md R m x : m < n ->
  In x (kernel_twins n md R m) <-> In x (spec_twins n md R m).
Proof.
  intros Hm. unfold kernel_twins, spec_twins. rewrite in_flat_map, filter_In, in_seq. split.
  - intros [[j k] [Hp Hx]]. apply filter_In in Hp. destruct Hp as [Hs Ht]. cbn [fst snd] in *.
    apply in_scanned in Hs. destruct Hs as [Hj Hk].
    rewrite twin_test_spec in Ht. apply andb_true_iff in Ht as [Hrow HnR].
    apply in_app_or in Hx. destruct Hx as [Hx|Hx].
    + destruct (Nat.eqb j m) eqn:E; [|destruct Hx]. apply Nat.eqb_eq in E. subst j.
      destruct Hx as [<-|[]]. split; [lia|]. unfold is_twin.
      replace (k + md <? m) with true by (symmetry; apply Nat.ltb_lt; lia).
      now rewrite Hrow, HnR.
    + destruct (Nat.eqb k m) eqn:E; [|destruct Hx]. apply Nat.eqb_eq in E. subst k.
      destruct Hx as [<-|[]]. split; [lia|]. unfold is_twin.
      replace (m + md <? j) with true by (symmetry; apply Nat.ltb_lt; lia).
      rewrite orb_true_r, same_row_sym, Hrow. cbn.
      now rewrite <- (same_row_nR n R j m Hrow).
  - intros [Hx Ht]. unfold is_twin in Ht.
    apply andb_true_iff in Ht as [Ht HnR]. apply andb_true_iff in Ht as [Hd Hrow].
    apply orb_true_iff in Hd. destruct Hd as [Hd|Hd]; apply Nat.ltb_lt in Hd.
    + exists (m, x). split.
      * apply filter_In. split; [apply in_scanned; lia|]. cbn [fst snd].
        now rewrite twin_test_spec, Hrow, HnR.
      * cbn [fst snd]. rewrite Nat.eqb_refl. now left.
    + exists (x, m). split.
      * apply filter_In. split; [apply in_scanned; lia|]. cbn [fst snd].
        rewrite twin_test_spec, same_row_sym, Hrow.
        now rewrite (same_row_nR n R x m) by (now rewrite same_row_sym).
      * cbn [fst snd]. apply in_or_app. right. rewrite Nat.eqb_refl. now left.
Qed.
(* twins come in pairs *)
Theorem twins_symmetric n md R m x : m < n -> x < n ->
  In x (spec_twins n md R m) <-> In m (spec_twins n md R x).
Proof.
  intros Hm Hx. unfold spec_twins. rewrite !filter_In, !in_seq. unfold is_twin.
  split; intros [_ H]; (split; [lia|]);
    apply andb_true_iff in H as [H HnR]; apply andb_true_iff in H as [Hd Hrow];
    rewrite (orb_comm _ _), Hd, same_row_sym, Hrow; cbn;
    [rewrite <- (same_row_nR n R m x Hrow)|rewrite <- (same_row_nR n R x m Hrow)]; assumption.
Qed.

(* ---------- twin walk ---------- *)
Open Scope Q_scope.
Lemma draw_lt u M : 0 <= u -> u < 1 -> (0 < M)%nat -> (draw u M < M)%nat.
Proof.
  intros H0 H1 HM. unfold draw.
  set (x := u * inject_Z (Z.of_nat M)).
  assert (X0 : 0 <= x).
  { unfold x. apply Qmult_le_0_compat; [assumption|]. change 0 with (inject_Z 0).
    rewrite <- Zle_Qle. lia. }
  assert (X1 : x < inject_Z (Z.of_nat M)).
  { unfold x. rewrite <- (Qmult_1_l (inject_Z (Z.of_nat M))) at 2.
    apply Qmult_lt_compat_r; [|assumption]. change 0 with (inject_Z 0). rewrite <- Zlt_Qlt. lia. }
  assert (F0 : (0 <= Qfloor x)%Z).
  { change 0%Z with (Qfloor (inject_Z 0)). apply Qfloor_resp_le. exact X0. }
  assert (F1 : (Qfloor x < Z.of_nat M)%Z).
  { rewrite Zlt_Qlt. apply Qle_lt_trans with x; [apply Qfloor_le|assumption]. }
  lia.
Qed.
Close Scope Q_scope.

Definition unit_draws (us : list Q) : Prop := Forall (fun u => (0 <= u)%Q /\ (u < 1)%Q) us.
Lemma move_draws tw k us : unit_draws us -> unit_draws (snd (move tw k us)).
Proof.
  intros H. unfold move. destruct (Nat.eqb (length (tw k)) 0); [assumption|].
  destruct us as [|u r]; [constructor|]. cbn [snd]. now inversion H.
Qed.
Lemma settle_draws N k us : unit_draws us -> unit_draws (snd (settle N k us)).
Proof.
  intros H. unfold settle. destruct (N <=? k); [|assumption].
  destruct us as [|u r]; [constructor|]. cbn [snd]. now inversion H.
Qed.
Lemma settle_lt N k us : 0 < N -> unit_draws us -> fst (settle N k us) < N.
Proof.
  intros HN H. unfold settle. destruct (N <=? k) eqn:E.
  - destruct us as [|u r]; cbn [fst]; [assumption|]. inversion H as [|? ? [H0 H1] _]; subst.
    now apply draw_lt.
  - cbn [fst]. apply Nat.leb_gt in E. assumption.
Qed.

(* every state of a twin surrogate is a state of the original series *)
Theorem walk_states tw N steps : forall k us, k < N -> unit_draws us ->
  Forall (fun x => x < N) (walk tw N steps k us).
Proof.
  induction steps as [|s IH]; intros k us Hk Hu; cbn [walk]; [constructor|].
  constructor; [assumption|]. apply IH.
  - apply settle_lt; [lia|]. now apply move_draws.
  - now apply settle_draws, move_draws.
Qed.

Fixpoint adjacent (P : nat -> nat -> Prop) (l : list nat) : Prop :=
  match l with
  | a :: (b :: _) as r => P a b /\ adjacent P r
  | _ => True
  end.
Lemma move_cases tw k us : unit_draws us ->
  fst (move tw k us) = k + 1 \/ exists t, In t (tw k) /\ fst (move tw k us) = t + 1.
Proof.
  intros Hu. unfold move. destruct (Nat.eqb (length (tw k)) 0) eqn:E0; [now left|].
  destruct us as [|u r]; [now left|]. cbn [fst].
  destruct (Nat.eqb (draw u (length (tw k) + 1)) (length (tw k))) eqn:E; [now left|].
  right. exists (nth (draw u (length (tw k) + 1)) (tw k) 0). split; [|reflexivity].
  apply nth_In. inversion Hu as [|? ? [H0 H1] _]; subst.
  pose proof (draw_lt u (length (tw k) + 1) H0 H1 ltac:(lia)). apply Nat.eqb_neq in E. lia.
Qed.
(* each step goes to the successor of the current state or of one of its
   twins; past the end of the series the trajectory restarts inside it *)
Theorem walk_steps tw N steps : forall k us, k < N -> unit_draws us ->
  adjacent (admissible tw N) (walk tw N steps k us).
Proof.
  induction steps as [|s IH]; intros k us Hk Hu; [exact I|].
  cbn [walk]. set (m := move tw k us). set (m2 := settle N (fst m) (snd m)).
  assert (Hm : unit_draws (snd m)) by (now apply move_draws).
  assert (H2 : fst m2 < N) by (apply settle_lt; [lia|assumption]).
  assert (Hu2 : unit_draws (snd m2)) by (now apply settle_draws).
  destruct s as [|s']; [exact I|].
  specialize (IH (fst m2) (snd m2) H2 Hu2). cbn [walk] in IH |- *. split; [|exact IH].
  unfold admissible. destruct (N <=? fst m) eqn:E.
  - right. right. apply Nat.leb_le in E. split; [exact H2|].
    destruct (move_cases tw k us Hu) as [C|[t [Ht C]]]; fold m in C; [left; lia|].
    right. exists t. split; [assumption|lia].
  - assert (E2 : fst m2 = fst m) by (unfold m2, settle; now rewrite E).
    rewrite E2. destruct (move_cases tw k us Hu) as [C|[t [Ht C]]]; fold m in C; [now left|].
    right. left. exists t. now split.
Qed.
