(* The kernels as they are written in the CURRENT numerics.pyx (Gen/GridK.v is
   regenerated on every run) are the model of Model/Grid.v. *)
From Coq Require Import ZArith QArith List Bool Arith String.
From PV.Model Require Import Grid.
From PV.Gen Require Import GridK.
From PV.Proofs Require Import Grid.
Import ListNotations.
Close Scope Q_scope. Close Scope Z_scope. Open Scope nat_scope.

Lemma gen_ang_is_model :
  gen_ang_bits = 32%Z /\
  (forall cl sl cn sn i j, gen_ang_expr cl sl cn sn i j = ang_expr 32 cl sl cn sn i j) /\
  (forall x, gen_ang_clamp x = clamp x).
Proof. repeat split; reflexivity. Qed.

(* what the angular kernel leaves in cosangdist, for every N and every cell *)
Theorem ang_kernel_result N cl sl cn sn init a b : a < N -> b < N ->
  read (writes (gen_ang_outer N) (gen_ang_inner N) gen_ang_cells
          (fun i j => gen_ang_clamp (gen_ang_expr cl sl cn sn i j))) init (a, b)
  = cos_ang 32 cl sl cn sn a b.
Proof. intros Ha Hb. exact (fill_tri N _ init a b Ha Hb). Qed.

(* the caller passes cos/sin of sequence 0 (lat) and sequence 1 (lon) in the
   kernel's parameter order, and takes arccos of the result *)
Lemma gen_ang_args_ok :
  gen_ang_args = [("cos_lat", ("cos", 0)); ("sin_lat", ("sin", 0));
                  ("cos_lon", ("cos", 1)); ("sin_lon", ("sin", 1))]%string.
Proof. reflexivity. Qed.

Lemma gen_euc_is_model :
  gen_euc_bits = 32%Z /\
  (forall x i j k, gen_euc_term x i j k = fsq 32 (fsub 32 (x k i) (x k j))) /\
  (forall f e, gen_euc_final f e = f e) /\ gen_euc_caller_ok = true.
Proof. repeat split; reflexivity. Qed.

Theorem euc_kernel_result N_dim N_nodes (fsqrt : Q -> Q) x init a b : a < N_nodes -> b < N_nodes ->
  read (writes (gen_euc_outer N_dim N_nodes) (gen_euc_inner N_dim N_nodes) gen_euc_cells
          (fun i j => gen_euc_final fsqrt
             (fold_left (fun acc k => fadd gen_euc_bits acc (gen_euc_term x i j k))
                        (gen_euc_ks N_dim N_nodes) (0#1)%Q))) init (a, b)
  = fsqrt (euc_sq 32 x N_dim a b).
Proof. intros Ha Hb. exact (fill_tri N_nodes _ init a b Ha Hb). Qed.

Corollary euc_kernel_symmetric N_dim x a b : euc_sq 32 x N_dim a b = euc_sq 32 x N_dim b a.
Proof. apply euc_symmetric. Qed.
