From Coq Require Import List Bool Arith String.
From PV.Model Require Import MpiMaster.
From PV.Gen Require Import MpiLoops.
Import ListNotations.
Open Scope string_scope.

(* every distributing method of the CURRENT source has the modelled skeleton *)
Lemma master_loops_ok :
  forallb loop_ok gen_master_loops = true /\
  map ml_name gen_master_loops =
    ["newman_betweenness"; "nsi_arenas_betweenness"; "nsi_newman_betweenness"] /\
  map ml_reassembly gen_master_loops = [Slice; Sum; Slice] /\
  gen_pool_split_is_array_split_sum = true.
Proof. vm_compute. repeat split; reflexivity. Qed.
