(* The distance kernels of the CURRENT numerics.pyx (Gen/RecurrenceK.v is
   regenerated on every run) are the state distances of Model/Recurrence.v. *)
From Coq Require Import QArith List Bool.
From PV.Model Require Import Recurrence.
From PV.Gen Require Import RecurrenceK.
Close Scope Q_scope.

Definition gen_state_dist (step : val -> val -> val -> val) (a b : list val) : val :=
  fold_left (fun acc p => step acc (fst p) (snd p)) (combine a b) (Some 0%Q).

Lemma gen_kernels_are_state_dist a b :
  gen_state_dist gen_manhattan_step a b = state_dist Manhattan a b /\
  gen_state_dist gen_euclidean_step a b = state_dist Euclidean a b /\
  gen_state_dist gen_supremum_step a b = state_dist Supremum a b.
Proof. repeat split; reflexivity. Qed.
(* only the Euclidean kernel takes a root (the model keeps it squared and
   squares the threshold); the cross-recurrence kernels use the same updates *)
Lemma gen_kernel_facts :
  gen_manhattan_takes_root = false /\ gen_euclidean_takes_root = true /\
  gen_supremum_takes_root = false /\ gen_manhattan_crp_same = true /\
  gen_euclidean_crp_same = true /\ gen_supremum_crp_same = true.
Proof. repeat split; reflexivity. Qed.
