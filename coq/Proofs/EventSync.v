From Coq Require Import ZArith List Bool Arith Lia.
From PV.Model Require Import EventSync.
Import ListNotations.
Open Scope Z_scope.

(* ---- double sums ---- *)
Lemma ls_cons a l : list_sum (a :: l) = (a + list_sum l)%nat.
Proof. reflexivity. Qed.
Lemma existsb_ext' {A} (f g : A -> bool) l : (forall x, f x = g x) -> existsb f l = existsb g l.
Proof. intros H. induction l as [|a l IH]; cbn; [reflexivity|]. now rewrite H, IH. Qed.
Lemma list_sum_map_add {A} (f g : A -> nat) l :
  list_sum (map (fun x => (f x + g x)%nat) l) = (list_sum (map f l) + list_sum (map g l))%nat.
Proof. induction l as [|a l IH]; cbn [map]; [reflexivity|]. rewrite !ls_cons, IH. lia. Qed.

Lemma sum2_swap {A B} (X : list A) (Y : list B) f :
  sum2 X Y f = sum2 Y X (fun q p => f p q).
Proof.
  unfold sum2. induction X as [|p X IH]; cbn [map].
  - induction Y as [|q Y IHY]; cbn [map]; [reflexivity|]. rewrite ls_cons, <- IHY. reflexivity.
  - rewrite ls_cons, IH. rewrite <- list_sum_map_add. f_equal.
Qed.

Lemma sum2_ext {A B} (X : list A) (Y : list B) f g :
  (forall p q, In p X -> In q Y -> f p q = g p q) -> sum2 X Y f = sum2 X Y g.
Proof.
  intros H. unfold sum2. f_equal. apply map_ext_in. intros p Hp. f_equal.
  apply map_ext_in. intros q Hq. now apply H.
Qed.

Lemma row_le {A B} (p : A) (Y : list B) (f g : A -> B -> nat) :
  (forall p q, (f p q <= g p q)%nat) -> (list_sum (map (f p) Y) <= list_sum (map (g p) Y))%nat.
Proof.
  intros H. induction Y as [|q Y IHY]; cbn [map]; [cbn; lia|]. rewrite !ls_cons.
  specialize (H p q). lia.
Qed.
Lemma sum2_le {A B} (X : list A) (Y : list B) f g :
  (forall p q, (f p q <= g p q)%nat) -> (sum2 X Y f <= sum2 X Y g)%nat.
Proof.
  intros H. unfold sum2. induction X as [|p X IH]; cbn [map]; [cbn; lia|]. rewrite !ls_cons.
  pose proof (row_le p Y f g H). lia.
Qed.

(* ---- exchange of the two series ---- *)
Lemma dst2_anti p q : dst2 q p = - dst2 p q.
Proof. unfold dst2. lia. Qed.
Lemma tau2_sym tm p q : tau2 tm q p = tau2 tm p q.
Proof. unfold tau2. rewrite (Z.min_comm (snd q)). reflexivity. Qed.
Lemma Axy_swap tm p q : Axy tm q p = Ayx tm p q.
Proof.
  unfold Axy, Ayx. rewrite dst2_anti, tau2_sym.
  destruct (Z.ltb_spec 0 (- dst2 p q)), (Z.ltb_spec (dst2 p q) 0),
           (Z.leb_spec (- dst2 p q) (tau2 tm p q)), (Z.leb_spec (- tau2 tm p q) (dst2 p q));
    cbn; try reflexivity; lia.
Qed.
Lemma Ayx_swap tm p q : Ayx tm q p = Axy tm p q.
Proof. now rewrite <- Axy_swap. Qed.
Lemma eqt_swap p q : eqt q p = eqt p q.
Proof.
  unfold eqt. rewrite dst2_anti.
  destruct (Z.eqb_spec (- dst2 p q) 0), (Z.eqb_spec (dst2 p q) 0); try reflexivity; lia.
Qed.

(* exchanging the sequences exchanges the two strengths *)
Theorem es_exchange tm X Y :
  es_core tm Y X = let '(a, b, lx, ly) := es_core tm X Y in (b, a, ly, lx).
Proof.
  unfold es_core.
  rewrite (sum2_swap Y X (fun p q => b2n (Axy tm p q))).
  rewrite (sum2_swap Y X (fun p q => b2n (Ayx tm p q))).
  rewrite (sum2_swap Y X (fun p q => b2n (eqt p q))).
  rewrite (sum2_swap Y X (fun p q => b2n (Axy tm p q && _))).
  rewrite (sum2_swap Y X (fun p q => b2n (Ayx tm p q && _))).
  rewrite (sum2_ext X Y _ (fun p q => b2n (Ayx tm p q))) by (intros; now rewrite Axy_swap).
  rewrite (sum2_ext X Y (fun q p => b2n (Ayx tm p q)) (fun p q => b2n (Axy tm p q)))
    by (intros; now rewrite Ayx_swap).
  rewrite (sum2_ext X Y (fun q p => b2n (eqt p q)) (fun p q => b2n (eqt p q)))
    by (intros; now rewrite eqt_swap).
  rewrite (sum2_ext X Y (fun q p => b2n (Axy tm p q && _))
            (fun p q => b2n (Ayx tm p q && (existsb (Axy tm p) Y || existsb (fun p' => Axy tm p' q) X)))).
  2:{ intros p q _ _. rewrite Axy_swap. f_equal. f_equal. rewrite orb_comm. f_equal.
      - apply existsb_ext'. intros; now rewrite Ayx_swap.
      - apply existsb_ext'. intros; now rewrite Ayx_swap. }
  rewrite (sum2_ext X Y (fun q p => b2n (Ayx tm p q && _))
            (fun p q => b2n (Axy tm p q && (existsb (Ayx tm p) Y || existsb (fun p' => Ayx tm p' q) X)))).
  2:{ intros p q _ _. rewrite Ayx_swap. f_equal. f_equal. rewrite orb_comm. f_equal.
      - apply existsb_ext'. intros; now rewrite Axy_swap.
      - apply existsb_ext'. intros; now rewrite Axy_swap. }
  reflexivity.
Qed.

(* ---- counts are honest: double counts never exceed the coincidences ---- *)
Theorem double_le_coincidences tm X Y :
  (sum2 X Y (fun p q => b2n (Axy tm p q &&
       (existsb (Ayx tm p) Y || existsb (fun p' => Ayx tm p' q) X)))
   <= sum2 X Y (fun p q => b2n (Axy tm p q)))%nat.
Proof. apply sum2_le. intros p q. destruct (Axy tm p q), (_ || _); cbn; lia. Qed.

(* ---- transformations of the time axis ---- *)
Lemma sum2_map {A B} (s : A -> A) (t : B -> B) X Y f :
  sum2 (map s X) (map t Y) f = sum2 X Y (fun p q => f (s p) (t q)).
Proof. unfold sum2. rewrite map_map. f_equal. apply map_ext. intros p. now rewrite map_map. Qed.
Lemma existsb_map' {A} (s : A -> A) f l : existsb f (map s l) = existsb (fun x => f (s x)) l.
Proof. induction l as [|a l IH]; cbn; [reflexivity|]. now rewrite IH. Qed.

Theorem es_core_equivariant tm tm' (s : ev -> ev) X Y :
  (forall p q, Axy tm' (s p) (s q) = Axy tm p q) ->
  (forall p q, Ayx tm' (s p) (s q) = Ayx tm p q) ->
  (forall p q, eqt (s p) (s q) = eqt p q) ->
  es_core tm' (map s X) (map s Y) = es_core tm X Y.
Proof.
  intros HA HB HE. unfold es_core. rewrite !sum2_map, !map_length.
  rewrite (sum2_ext X Y (fun p q => b2n (Axy tm' (s p) (s q))) (fun p q => b2n (Axy tm p q)))
    by (intros; now rewrite HA).
  rewrite (sum2_ext X Y (fun p q => b2n (Ayx tm' (s p) (s q))) (fun p q => b2n (Ayx tm p q)))
    by (intros; now rewrite HB).
  rewrite (sum2_ext X Y (fun p q => b2n (eqt (s p) (s q))) (fun p q => b2n (eqt p q)))
    by (intros; now rewrite HE).
  rewrite (sum2_ext X Y (fun p q => b2n (Axy tm' (s p) (s q) && _))
     (fun p q => b2n (Axy tm p q && (existsb (Ayx tm p) Y || existsb (fun p' => Ayx tm p' q) X)))).
  2:{ intros p q _ _. rewrite HA, !existsb_map'. f_equal. f_equal. f_equal;
      apply existsb_ext'; intros; apply HB. }
  rewrite (sum2_ext X Y (fun p q => b2n (Ayx tm' (s p) (s q) && _))
     (fun p q => b2n (Ayx tm p q && (existsb (Axy tm p) Y || existsb (fun p' => Axy tm p' q) X)))).
  2:{ intros p q _ _. rewrite HB, !existsb_map'. f_equal. f_equal. f_equal;
      apply existsb_ext'; intros; apply HA. }
  reflexivity.
Qed.

Definition shift_ev (c : Z) (p : ev) : ev := (fst p + c, snd p).
Definition scale_ev (k : Z) (p : ev) : ev := (k * fst p, k * snd p).

(* shifting both sequences in time changes nothing *)
Theorem es_shift_invariant tm c X Y :
  es_core tm (map (shift_ev c) X) (map (shift_ev c) Y) = es_core tm X Y.
Proof.
  apply es_core_equivariant; intros p q; unfold Axy, Ayx, eqt, dst2, tau2, shift_ev; cbn [fst snd];
    replace (fst p + c - (fst q + c)) with (fst p - fst q) by lia; reflexivity.
Qed.

(* with an unbounded coincidence window, rescaling time changes nothing *)
Theorem es_rescale_invariant k X Y : 0 < k ->
  es_core None (map (scale_ev k) X) (map (scale_ev k) Y) = es_core None X Y.
Proof.
  intros Hk. apply es_core_equivariant; intros p q;
    unfold Axy, Ayx, eqt, dst2, tau2, scale_ev; cbn [fst snd].
  - rewrite Z.mul_min_distr_nonneg_l by lia.
    replace (2 * (k * fst p - k * fst q)) with (k * (2 * (fst p - fst q))) by lia.
    set (d := 2 * (fst p - fst q)). set (t := Z.min (snd p) (snd q)).
    destruct (Z.ltb_spec 0 (k * d)), (Z.ltb_spec 0 d), (Z.leb_spec (k * d) (k * t)), (Z.leb_spec d t);
      cbn; try reflexivity; nia.
  - rewrite Z.mul_min_distr_nonneg_l by lia.
    replace (2 * (k * fst p - k * fst q)) with (k * (2 * (fst p - fst q))) by lia.
    set (d := 2 * (fst p - fst q)). set (t := Z.min (snd p) (snd q)).
    destruct (Z.ltb_spec (k * d) 0), (Z.ltb_spec d 0), (Z.leb_spec (- (k * t)) (k * d)), (Z.leb_spec (- t) d);
      cbn; try reflexivity; nia.
  - replace (2 * (k * fst p - k * fst q)) with (k * (2 * (fst p - fst q))) by lia.
    set (d := 2 * (fst p - fst q)).
    destruct (Z.eqb_spec (k * d) 0), (Z.eqb_spec d 0); try reflexivity; nia.
Qed.

(* the descriptors of a shifted / rescaled time-stamp list *)
Lemma descr_shift c l : descr (map (fun t => t + c) l) = map (shift_ev c) (descr l).
Proof.
  induction l as [|a l IH]; [reflexivity|]. destruct l as [|b l]; [reflexivity|].
  destruct l as [|d l]; [reflexivity|].
  change (descr (map (fun t => t + c) (a :: b :: d :: l)))
    with ((b + c, Z.min (d + c - (b + c)) (b + c - (a + c))) :: descr (map (fun t => t + c) (b :: d :: l))).
  rewrite IH. change (descr (a :: b :: d :: l)) with ((b, Z.min (d - b) (b - a)) :: descr (b :: d :: l)).
  cbn [map]. unfold shift_ev at 1. cbn [fst snd].
  assert (E : Z.min (d + c - (b + c)) (b + c - (a + c)) = Z.min (d - b) (b - a)) by lia.
  now rewrite E.
Qed.

Lemma descr_scale k l : 0 <= k -> descr (map (fun t => k * t) l) = map (scale_ev k) (descr l).
Proof.
  intros Hk. induction l as [|a l IH]; [reflexivity|]. destruct l as [|b l]; [reflexivity|].
  destruct l as [|d l]; [reflexivity|].
  change (descr (map (fun t => k * t) (a :: b :: d :: l)))
    with ((k * b, Z.min (k * d - k * b) (k * b - k * a)) :: descr (map (fun t => k * t) (b :: d :: l))).
  rewrite IH. change (descr (a :: b :: d :: l)) with ((b, Z.min (d - b) (b - a)) :: descr (b :: d :: l)).
  cbn [map]. unfold scale_ev at 1. cbn [fst snd].
  assert (E : Z.min (k * d - k * b) (k * b - k * a) = k * Z.min (d - b) (b - a)).
  { rewrite <- Z.mul_min_distr_nonneg_l by lia. f_equal; lia. }
  now rewrite E.
Qed.

Theorem es_shift tm lag c ex ey :
  es tm lag (map (fun t => t + c) ex) (map (fun t => t + c) ey) = es tm lag ex ey.
Proof.
  unfold es. rewrite map_map.
  rewrite (map_ext (fun x => x + c + lag) (fun x => (x + lag) + c)) by (intros; lia).
  rewrite <- (map_map (fun t => t + lag) (fun t => t + c)), !descr_shift.
  apply es_shift_invariant.
Qed.

Theorem es_rescale k ex ey : 0 < k ->
  es None 0 (map (fun t => k * t) ex) (map (fun t => k * t) ey) = es None 0 ex ey.
Proof.
  intros Hk. unfold es.
  rewrite !(map_ext (fun t => t + 0) (fun t => t)) by (intros; lia). rewrite !map_id.
  rewrite !descr_scale by lia. now apply es_rescale_invariant.
Qed.

Theorem es_exchange_series tm ex ey :
  es tm 0 ey ex = let '(a, b, lx, ly) := es tm 0 ex ey in (b, a, ly, lx).
Proof.
  unfold es. rewrite !(map_ext (fun t => t + 0) (fun t => t)) by (intros; lia). rewrite !map_id.
  apply es_exchange.
Qed.

(* ---- coincidence rates lie in [0,1]: each count is at most its denominator ---- *)
Lemma cnt_le {A} (f : A -> bool) l : (cnt f l <= length l)%nat.
Proof. unfold cnt. induction l as [|a l IH]; cbn; [lia|]. destruct (f a); cbn; lia. Qed.

Theorem eca_range taumax lag e1 e2 :
  let '((p12, d1), (t12, d2), (p21, d3), (t21, d4)) := eca taumax lag e1 e2 in
  (p12 <= d1 /\ t12 <= d2 /\ p21 <= d3 /\ t21 <= d4)%nat.
Proof.
  unfold eca. cbv zeta. repeat split.
  - etransitivity; [apply cnt_le|]. rewrite skipn_length. lia.
  - etransitivity; [apply cnt_le|]. rewrite firstn_length. lia.
  - etransitivity; [apply cnt_le|]. rewrite skipn_length. lia.
  - etransitivity; [apply cnt_le|]. rewrite firstn_length. lia.
Qed.
