From Coq Require Import ZArith QArith Qabs List Bool Arith Lia.
From PV.Base Require Import F32.
From PV.Model Require Import Grid.
Import ListNotations.
Close Scope Q_scope. Close Scope Z_scope. Open Scope nat_scope.

(* ---------- the triangular fill ---------- *)
Section Fill.
  Context {V : Type}.
  Implicit Types (ws : list (cell * V)) (c : cell).

  Lemma cell_eqb_eq a b : cell_eqb a b = true <-> a = b.
  Proof.
    destruct a as [a1 a2], b as [b1 b2]. unfold cell_eqb. cbn [fst snd].
    rewrite andb_true_iff, !Nat.eqb_eq. split; [intros [-> ->]; reflexivity|].
    intros E; injection E; auto.
  Qed.

  Lemma read_keep ws c (v : V) :
    (forall w, In w ws -> cell_eqb (fst w) c = true -> snd w = v) -> read ws v c = v.
  Proof.
    unfold read. induction ws as [|w ws IH]; cbn [fold_left]; intros H; [reflexivity|].
    destruct (cell_eqb (fst w) c) eqn:E.
    - rewrite (H w (or_introl eq_refl) E). apply IH. intros; apply H; [now right|assumption].
    - apply IH. intros; apply H; [now right|assumption].
  Qed.

  (* if every write to c carries v and c is written at least once, c holds v *)
  Lemma read_all ws c (v init : V) :
    (forall w, In w ws -> cell_eqb (fst w) c = true -> snd w = v) ->
    (exists w, In w ws /\ cell_eqb (fst w) c = true) -> read ws init c = v.
  Proof.
    revert init. induction ws as [|w ws IH]; intros init H [w0 [Hin Hm]]; [destruct Hin|].
    change (read (w :: ws) init c) with (read ws (if cell_eqb (fst w) c then snd w else init) c).
    destruct (cell_eqb (fst w) c) eqn:E.
    - rewrite (H w (or_introl eq_refl) E). apply read_keep. intros; apply H; [now right|assumption].
    - apply IH; [intros; apply H; [now right|assumption]|].
      destruct Hin as [<-|Hin]; [congruence|]. now exists w0.
  Qed.

  Lemma in_writes outer inner cells (val : nat -> nat -> V) c v :
    In (c, v) (writes outer inner cells val) <->
    exists i j, In i outer /\ In j (inner i) /\ In c (cells i j) /\ v = val i j.
  Proof.
    unfold writes. rewrite in_flat_map. split.
    - intros [i [Hi H]]. rewrite in_flat_map in H. destruct H as [j [Hj H]].
      rewrite in_map_iff in H. destruct H as [c' [E Hc]]. injection E as E1 E2. subst c' v.
      exists i, j. auto.
    - intros [i [j [Hi [Hj [Hc ->]]]]]. exists i. split; [assumption|].
      rewrite in_flat_map. exists j. split; [assumption|].
      rewrite in_map_iff. exists c. auto.
  Qed.

  (* for j in range(i+1): M[i,j] = M[j,i] = val i j   leaves   M[a,b] = val (max a b) (min a b) *)
  Theorem fill_tri N (val : nat -> nat -> V) init a b : a < N -> b < N ->
    read (writes (seq 0 N) (fun i => seq 0 (i + 1)) (fun i j => [(i, j); (j, i)]) val) init (a, b)
    = tri val a b.
  Proof.
    intros Ha Hb. apply read_all.
    - intros [c v] Hin Hm. cbn [fst snd] in *. apply cell_eqb_eq in Hm. subst c.
      apply in_writes in Hin. destruct Hin as [i [j [Hi [Hj [Hc ->]]]]].
      apply in_seq in Hi, Hj. unfold tri.
      destruct Hc as [E|[E|[]]]; injection E as <- <-.
      + rewrite Nat.max_l, Nat.min_r by lia. reflexivity.
      + rewrite Nat.max_r, Nat.min_l by lia. reflexivity.
    - exists ((a, b), val (max a b) (min a b)). split.
      + apply in_writes. exists (max a b), (min a b).
        split; [apply in_seq; lia|]. split; [apply in_seq; lia|]. split; [|reflexivity].
        destruct (le_ge_dec b a) as [H|H].
        * rewrite Nat.max_l, Nat.min_r by lia. now left.
        * rewrite Nat.max_r, Nat.min_l by lia. right; now left.
      + apply cell_eqb_eq. reflexivity.
  Qed.

  Theorem tri_symmetric (val : nat -> nat -> V) a b : tri val a b = tri val b a.
  Proof. unfold tri. now rewrite Nat.max_comm, Nat.min_comm. Qed.

  (* a loop that stops one short (range(i)) never writes the diagonal *)
  Theorem short_loop_misses_diagonal N (val : nat -> nat -> V) init a :
    read (writes (seq 0 N) (fun i => seq 0 i) (fun i j => [(i, j); (j, i)]) val) init (a, a) = init.
  Proof.
    unfold read.
    assert (G : forall ws, (forall w, In w ws -> cell_eqb (fst w) (a, a) = false) ->
              fold_left (fun acc w => if cell_eqb (fst w) (a, a) then snd w else acc) ws init = init).
    { induction ws as [|w ws IH]; cbn [fold_left]; intros H; [reflexivity|].
      rewrite (H w (or_introl eq_refl)). apply IH. intros; apply H; now right. }
    apply G. intros [c v] Hin. cbn [fst].
    apply in_writes in Hin. destruct Hin as [i [j [Hi [Hj [Hc _]]]]].
    apply in_seq in Hj. destruct (cell_eqb c (a, a)) eqn:E; [|reflexivity].
    apply cell_eqb_eq in E. subst c.
    destruct Hc as [E|[E|[]]]; injection E; lia.
  Qed.
End Fill.

(* ---------- clamp ---------- *)
Open Scope Q_scope.
Lemma Qlt_b_true a b : Qlt_b a b = true <-> a < b.
Proof. unfold Qlt_b, Qlt. destruct (a ?= b) eqn:E; rewrite <- ?Qlt_alt, <- ?Qgt_alt, <- ?Qeq_alt in E;
  unfold Qcompare in *; split; intros H; try discriminate; try congruence; try assumption.
  all: unfold Qlt, Qeq in *; try lia. Qed.
Lemma Qlt_b_false a b : Qlt_b a b = false <-> b <= a.
Proof.
  split.
  - intros H. destruct (Qlt_le_dec a b) as [L|L]; [|assumption].
    apply Qlt_b_true in L. congruence.
  - intros H. destruct (Qlt_b a b) eqn:E; [|reflexivity].
    apply Qlt_b_true in E. exfalso. exact (Qlt_not_le _ _ E H).
Qed.

Theorem clamp_range x : -1 <= clamp x /\ clamp x <= 1.
Proof.
  unfold clamp. destruct (Qlt_b 1 x) eqn:E1.
  - split; [discriminate|apply Qle_refl].
  - destruct (Qlt_b x (-1 # 1)) eqn:E2.
    + split; [apply Qle_refl|discriminate].
    + apply Qlt_b_false in E1, E2. split; assumption.
Qed.
Theorem clamp_id x : -1 <= x -> x <= 1 -> clamp x = x.
Proof.
  intros L U. unfold clamp.
  assert (E1 : Qlt_b 1 x = false) by now apply Qlt_b_false.
  assert (E2 : Qlt_b x (-1#1) = false) by now apply Qlt_b_false.
  now rewrite E1, E2.
Qed.
(* a one-sided "clamp" (abs(x) > 1 -> 1) maps values below -1 to +1 *)
Theorem abs_clamp_flips x : x < -1 ->
  (if Qlt_b 1 (Qabs x) then 1 else x) = 1.
Proof.
  intros H. assert (E : Qlt_b 1 (Qabs x) = true).
  { apply Qlt_b_true. rewrite Qabs_neg by (apply Qlt_le_weak; apply Qlt_trans with (-1); [assumption|reflexivity]).
    apply Qlt_minus_iff. apply Qlt_minus_iff in H. ring_simplify in H. ring_simplify. assumption. }
  now rewrite E.
Qed.

Theorem cos_ang_symmetric bits cl sl cn sn a b : cos_ang bits cl sl cn sn a b = cos_ang bits cl sl cn sn b a.
Proof. apply tri_symmetric. Qed.
Theorem cos_ang_range bits cl sl cn sn a b :
  -1 <= cos_ang bits cl sl cn sn a b /\ cos_ang bits cl sl cn sn a b <= 1.
Proof. apply clamp_range. Qed.

(* ---------- Euclidean self distance ---------- *)
Lemma rnd_num0 bits x : Qnum x = 0%Z -> rnd bits x = 0.
Proof.
  intros H. unfold rnd, round32, round64, round_prec. rewrite H. now destruct (bits =? 32)%Z.
Qed.
Lemma sub_self_num x : Qnum (x - x) = 0%Z.
Proof. destruct x as [n d]. cbn. lia. Qed.

Theorem euc_sum_self bits x ks a : euc_sum bits x ks a a = 0.
Proof.
  unfold euc_sum. induction ks as [|k ks IH] using rev_ind; [reflexivity|].
  rewrite fold_left_app. cbn [fold_left]. rewrite IH.
  unfold fsub. rewrite (rnd_num0 bits _ (sub_self_num (x k a))).
  unfold fsq. rewrite (rnd_num0 bits (0 * 0)) by reflexivity.
  unfold fadd. now rewrite (rnd_num0 bits (0 + 0)) by reflexivity.
Qed.
Theorem euc_self_zero bits x ndim a : euc_sq bits x ndim a a = 0.
Proof. unfold euc_sq, tri. rewrite Nat.max_id, Nat.min_id. apply euc_sum_self. Qed.
Theorem euc_symmetric bits x ndim a b : euc_sq bits x ndim a b = euc_sq bits x ndim b a.
Proof. apply tri_symmetric. Qed.
Close Scope Q_scope.

(* ---------- rectangular grids ---------- *)
Theorem rect2_product {V} (a0 a1 : list V) x y : In (x, y) (rect2 a0 a1) <-> In x a0 /\ In y a1.
Proof. apply in_prod_iff. Qed.
Theorem rect2_length {V} (a0 a1 : list V) : length (rect2 a0 a1) = length a0 * length a1.
Proof. apply prod_length. Qed.
Theorem rect2_index {V} (a0 a1 : list V) i j d0 d1 : i < length a0 -> j < length a1 ->
  nth (i * length a1 + j) (rect2 a0 a1) (d0, d1) = (nth i a0 d0, nth j a1 d1).
Proof.
  unfold rect2. revert i. induction a0 as [|x a0 IH]; intros i Hi Hj; [cbn in Hi; lia|].
  cbn [list_prod]. destruct i as [|i].
  - cbn [Nat.mul Nat.add nth]. rewrite app_nth1 by (now rewrite map_length).
    rewrite (nth_indep _ (d0, d1) ((fun y => (x, y)) d1)) by (now rewrite map_length).
    now rewrite map_nth.
  - rewrite app_nth2; rewrite map_length; [|lia].
    replace (S i * length a1 + j - length a1) with (i * length a1 + j) by lia.
    cbn [nth]. apply IH; [cbn in Hi; lia|assumption].
Qed.
(* latitude varies slowest, longitude fastest *)
Corollary rect2_lat_lon {V} (a0 a1 : list V) i j d : i < length a0 -> j < length a1 ->
  nth (i * length a1 + j) (map fst (rect2 a0 a1)) d = nth i a0 d /\
  nth (i * length a1 + j) (map snd (rect2 a0 a1)) d = nth j a1 d.
Proof.
  intros Hi Hj. split.
  - rewrite (nth_indep _ d (fst (d, d))) by (rewrite map_length, rect2_length; nia).
    rewrite map_nth, (rect2_index a0 a1 i j d d Hi Hj). reflexivity.
  - rewrite (nth_indep _ d (snd (d, d))) by (rewrite map_length, rect2_length; nia).
    rewrite map_nth, (rect2_index a0 a1 i j d d Hi Hj). reflexivity.
Qed.

Lemma slower_length {V} (rest : list (list V)) : forall base,
  length (slower base rest) = length base * fold_right (fun a n => length a * n) 1 rest.
Proof.
  induction rest as [|a r IH]; intros base; cbn [slower fold_right]; [lia|].
  rewrite IH.
  assert (E : length (flat_map (fun z => map (fun t => t ++ [z]) base) a) = length a * length base).
  { induction a as [|z a IHa]; cbn [flat_map]; [reflexivity|].
    rewrite app_length, map_length, IHa. cbn. lia. }
  rewrite E. ring.
Qed.
Theorem rectn_length {V} (axes : list (list V)) :
  length (rectn axes) = fold_right (fun a n => length a * n) 1 axes.
Proof.
  destruct axes as [|a0 [|a1 rest]]; cbn [rectn fold_right]; [reflexivity|rewrite map_length; lia|].
  rewrite slower_length, map_length, prod_length. lia.
Qed.

(* ---------- argmin ---------- *)
Open Scope Q_scope.
Lemma argmin_aux_spec l : forall k best bv,
  let r := argmin_aux l k best bv in
  (r = best /\ (forall x, In x l -> bv <= x)) \/
  (exists m, r = (k + m)%nat /\ (m < length l)%nat /\ nth m l 0 < bv /\
     (forall x, In x l -> nth m l 0 <= x) /\ (forall m', (m' < m)%nat -> nth m l 0 < nth m' l 0)).
Proof.
  induction l as [|x l IH]; intros k best bv; cbn [argmin_aux].
  - left. split; [reflexivity|intros ? []].
  - destruct (Qlt_b x bv) eqn:E.
    + apply Qlt_b_true in E. right.
      destruct (IH (S k) k x) as [[Hr Hall]|[m [Hr [Hm [Hlt [Hall Hfirst]]]]]].
      * exists 0%nat. cbn [nth length]. rewrite Hr. split; [lia|]. split; [lia|]. split; [assumption|].
        split; [|intros m' Hm'; lia].
        intros y [<-|Hy]; [apply Qle_refl|now apply Hall].
      * exists (S m). cbn [nth length]. rewrite Hr. split; [lia|]. split; [lia|].
        split; [now apply Qlt_trans with x|]. split.
        -- intros y [<-|Hy]; [now apply Qlt_le_weak|now apply Hall].
        -- intros [|m'] Hm'; cbn [nth]; [assumption|apply Hfirst; lia].
    + apply Qlt_b_false in E.
      destruct (IH (S k) best bv) as [[Hr Hall]|[m [Hr [Hm [Hlt [Hall Hfirst]]]]]].
      * left. split; [assumption|]. intros y [<-|Hy]; [assumption|now apply Hall].
      * right. exists (S m). cbn [nth length]. rewrite Hr. split; [lia|]. split; [lia|].
        split; [assumption|]. split.
        -- intros y [<-|Hy]; [apply Qlt_le_weak; now apply Qlt_le_trans with bv|now apply Hall].
        -- intros [|m'] Hm'; cbn [nth]; [now apply Qlt_le_trans with bv|apply Hfirst; lia].
Qed.

(* argmin returns an index of a minimal element, and the first such index *)
Theorem argmin_minimal l : l <> [] ->
  (argmin l < length l)%nat /\ (forall x, In x l -> nth (argmin l) l 0 <= x) /\
  (forall m', (m' < argmin l)%nat -> nth (argmin l) l 0 < nth m' l 0).
Proof.
  destruct l as [|x l]; [congruence|]. intros _. unfold argmin.
  destruct (argmin_aux_spec l 1 0%nat x) as [[Hr Hall]|[m [Hr [Hm [Hlt [Hall Hfirst]]]]]].
  - rewrite Hr. cbn [nth length]. split; [lia|]. split; [|intros; lia].
    intros y [<-|Hy]; [apply Qle_refl|now apply Hall].
  - rewrite Hr. cbn [length]. replace (1 + m)%nat with (S m) by lia. cbn [nth].
    split; [lia|]. split.
    + intros y [<-|Hy]; [now apply Qlt_le_weak|now apply Hall].
    + intros [|m'] Hm'; cbn [nth]; [assumption|apply Hfirst; lia].
Qed.

(* ---------- area weighted connectivity ---------- *)
From Coq Require Import Qcanon.
From PV.Base Require Import Sums.
Open Scope Qc_scope.
(* AWC is the n.s.i. degree without the node's own weight, over the total:
   every neighbour enters with the cosine of ITS OWN latitude *)
Theorem awc_is_nsi_degree n A w i : (i < n)%nat -> A i i = false -> sumn n w <> 0 ->
  outawc n A w i * sumn n w = nsi_degree_w n A w i - w i.
Proof.
  intros Hi Hd HW. unfold outawc, nsi_degree_w.
  assert (E : sumn n (fun j => ind (A i j || Nat.eqb i j) * w j)
            = sumn n (fun j => ind (A i j) * w j) + sumn n (fun j => ind (Nat.eqb i j) * w j)).
  { rewrite <- sumn_add. apply sumn_ext. intros j Hj.
    destruct (Nat.eqb i j) eqn:E.
    - apply Nat.eqb_eq in E. subst j. rewrite Hd. cbn. ring.
    - rewrite orb_false_r. cbn [ind]. ring. }
  rewrite E, (sumn_ind n i w Hi).
  set (S := sumn n (fun j => ind (A i j) * w j)). set (W := sumn n w) in *.
  field. assumption.
Qed.
Theorem awc_undirected n A w i : (forall a b, A a b = A b a) -> inawc n A w i = outawc n A w i.
Proof.
  intros Hs. unfold inawc, outawc. f_equal. apply sumn_ext. intros j _. now rewrite Hs.
Qed.
Close Scope Qc_scope.
