(* Ties between the hand-written model and the facts regenerated from
   timeseries/_ext/numerics.pyx on every run (coq/Gen/LineDistGen.v). *)
From Coq Require Import List Lia Bool Arith String QArith.
From PV.Base Require Import F32.
From PV.Model Require Import LineDist.
From PV.Gen Require Import LineDistGen.
Import ListNotations.
Close Scope Q_scope.
Open Scope nat_scope.

(* the loop body of the current _line_dist is the model's step function *)
Lemma gen_step_eq dim0 black mvs r d mI mJ k0 f o :
  gen_step dim0 black mvs r d mI mJ k0 f o =
  let s := step mvs (if dim0 then Bool.eqb r black else Bool.eqb d black)
                (mI || mJ) (mk k0 f o) in
  (k s, flag s, out s).
Proof.
  unfold gen_step, step.
  destruct dim0, black, mvs, r, d, mI, mJ, f; cbn; rewrite ?Nat.add_1_r;
    destruct k0; reflexivity.
Qed.

(* the epilogue of the outer loop is the model's flush *)
Lemma gen_flush_eq k0 f o :
  gen_flush k0 f o = let s := flush (mk k0 f o) in (k s, flag s, out s).
Proof. unfold gen_flush, flush. destruct f, k0; reflexivity. Qed.

Lemma gen_geometry_eq i j n :
  gen_i2J_vertline i n = J_vert n i /\ gen_ij2I_vertline i j n = I_vert n i j /\
  gen_i2J_diagline i n = J_diag n i /\ gen_ij2I_diagline i j n = I_diag n i j.
Proof.
  unfold gen_i2J_vertline, gen_ij2I_vertline, gen_i2J_diagline, gen_ij2I_diagline,
    J_vert, I_vert, J_diag, I_diag. repeat split. lia.
Qed.

(* colour / missing-value flag / geometry / skip_main / sequential per wrapper,
   as the model's vertline_dist, diagline_dist, white_vertline_dist assume *)
Open Scope string_scope.
Definition expected_wrappers : list (string * (bool * bool * string * string * bool * bool)) :=
  [("_diagline_dist", (true, false, "i2J_diagline", "ij2I_diagline", true, false));
   ("_diagline_dist_missingvalues", (true, true, "i2J_diagline", "ij2I_diagline", true, false));
   ("_diagline_dist_sequential", (true, false, "i2J_diagline", "ij2I_diagline", true, true));
   ("_diagline_dist_sequential_missingvalues", (true, true, "i2J_diagline", "ij2I_diagline", true, true));
   ("_vertline_dist", (true, false, "i2J_vertline", "ij2I_vertline", false, false));
   ("_vertline_dist_missingvalues", (true, true, "i2J_vertline", "ij2I_vertline", false, false));
   ("_vertline_dist_sequential", (true, false, "i2J_vertline", "ij2I_vertline", false, true));
   ("_vertline_dist_sequential_missingvalues", (true, true, "i2J_vertline", "ij2I_vertline", false, true));
   ("_white_vertline_dist", (false, false, "i2J_vertline", "ij2I_vertline", false, false))].
Close Scope string_scope.

Lemma gen_wrappers_eq : gen_wrappers = expected_wrappers /\ gen_metric_supremum_is_max_abs_diff = true.
Proof. split; vm_compute; reflexivity. Qed.

(* ---- sequential mode ---------------------------------------------------- *)

(* the comparison the sequential kernel performs, decided by the C types the
   current source declares for `d` and `eps` *)

Lemma fold_left_ext_in {A B} (f g : A -> B -> A) l : forall a,
  (forall a b, In b l -> f a b = g a b) -> fold_left f l a = fold_left g l a.
Proof.
  induction l as [|b l IH]; intros a H; cbn; [reflexivity|].
  rewrite H by (now left). apply IH. intros; apply H; now right.
Qed.

Lemma kernel_ext N J I pt pt' miss mv :
  (forall i j, i < N -> j < J i -> pt (I i j) j = pt' (I i j) j) ->
  kernel N J I pt miss mv = kernel N J I pt' miss mv.
Proof.
  intros H. unfold kernel. f_equal. apply fold_left_ext_in. intros s i Hi.
  apply in_seq in Hi. f_equal. unfold the_line. apply map_ext_in. intros j Hj.
  apply in_seq in Hj. rewrite H by lia. reflexivity.
Qed.

(* if the kernel's comparison agrees with exact `<` on every pair of states,
   the sequential histograms are the matrix-mode histograms *)
Lemma sequential_agree cmp E eps M mv :
  (forall a b, a < List.length E -> b < List.length E ->
      seq_pt cmp E eps a b = seq_pt ltQ E eps a b) ->
  seq_dists cmp E eps M mv = seq_dists ltQ E eps M mv.
Proof.
  intros H. unfold seq_dists, vertline_dist, diagline_dist, vert_outs, diag_outs.
  set (n := List.length E) in *.
  f_equal; [f_equal|f_equal; f_equal]; apply kernel_ext; intros i j Hi Hj.
  - unfold I_vert, J_vert in *. rewrite H by lia. reflexivity.
  - unfold I_diag, J_diag in *. rewrite H by lia. reflexivity.
Qed.

Definition witness_E : list (list Q) := [[1%Q]; [(1 # 134217728)%Q]].
Definition witness_eps : Q := 1%Q.

Lemma sequential_mode :
  (gen_seq_rounds = false /\
   forall E eps M mv, seq_dists (seq_cmp gen_seq_rounds) E eps M mv = seq_dists ltQ E eps M mv)
  \/
  (gen_seq_rounds = true /\
   seq_dists (seq_cmp gen_seq_rounds) witness_E witness_eps [] false
   <> seq_dists ltQ witness_E witness_eps [] false).
Proof.
  first [ left; split; [reflexivity | intros; reflexivity]
        | right; split; [reflexivity | vm_compute; discriminate] ].
Qed.
