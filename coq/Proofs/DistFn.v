(* translate/py_nsi_terms.py reads `1.0 / D`, `2.0 ** (-D)` and
   `D[np.isinf(D)] = 0` (D = path_lengths() + identity) as the matrices
   MDistFn f B whose entry is f k at a pair first reached after k + 1 steps of
   A+ and 0 at an unconnected pair.  That reading is sound: on a reflexive
   graph at most one "first reached after k + 1 steps" indicator fires, so an
   entrywise function of the distance matrix with value 0 at inf is dsum of
   that function.  In particular InvDist = 1 / Dist entry by entry (with
   1 / 0 = 0 standing for 1 / inf = 0). *)
From Coq Require Import QArith Qcanon List Lia Bool Arith.
From PV.Base Require Import Sums ListX.
From PV.Model Require Import NsiLang Measures.
From PV.Proofs Require Import NsiLang.
Import ListNotations.
Open Scope Qc_scope.

Lemma qnat_S_ne0 k : qnat (S k) <> 0.
Proof.
  unfold qnat. intros H. apply Q2Qc_eq_iff in H.
  unfold Qeq, inject_Z in H. cbn [Qnum Qden] in H. lia.
Qed.

Section Dist.
  Variable G : graph.
  Hypothesis refl : forall u, ap G u u = true.
  Variables (env : list nat) (a b : nat).
  Hypothesis Hb : (var env b < gn G)%nat.

  Let R (k : nat) : bool := reach G k (var env a) (var env b).

  Lemma reach_mono k : R k = true -> R (S k) = true.
  Proof.
    unfold R, reach. intros H. rewrite rrow_S by exact Hb.
    apply exn_spec. exists (var env b). split; [exact Hb|]. now rewrite H, refl.
  Qed.

  Lemma reach_mono_le k l : (k <= l)%nat -> R k = true -> R l = true.
  Proof. induction 1 as [|l _ IH]; [auto|]. intros H. apply reach_mono. auto. Qed.

  Definition F (k : nat) : Qc := eval G env (first k a b).

  Lemma F_0 : F 0 = ind (R 0).
  Proof. reflexivity. Qed.
  Lemma F_S k : F (S k) = ind (R (S k)) - ind (R k).
  Proof. reflexivity. Qed.

  Lemma eval_dsum_S f B :
    eval G env (dsum f (S B) a b) = eval G env (dsum f B a b) + f B * F B.
  Proof. reflexivity. Qed.

  (* nothing is reached within B steps: every term vanishes *)
  Lemma dsum_unreached f B :
    (forall k, (k < B)%nat -> R k = false) -> eval G env (dsum f B a b) = 0.
  Proof.
    induction B as [|B IH]; intros H; [reflexivity|].
    rewrite eval_dsum_S, IH by (intros k Hk; apply H; lia).
    assert (HF : F B = 0).
    { destruct B as [|B'].
      - rewrite F_0, (H 0%nat) by lia. reflexivity.
      - rewrite F_S, (H (S B')), (H B') by lia. cbn [ind]. ring. }
    rewrite HF. ring.
  Qed.

  (* a first-reach indicator is 0 or 1, and 1 only if nothing was reached before *)
  Lemma F_cases B : (F B = 0) \/ (F B = 1 /\ forall k, (k < B)%nat -> R k = false).
  Proof.
    destruct B as [|B'].
    - rewrite F_0. destruct (R 0); [right|left]; cbn [ind]; [split; [reflexivity|intros; lia]|reflexivity].
    - rewrite F_S. destruct (R B') eqn:E1.
      + left. rewrite (reach_mono _ E1). cbn [ind]. ring.
      + destruct (R (S B')) eqn:E2; cbn [ind].
        * right. split; [ring|]. intros k Hk. destruct (R k) eqn:Ek; [|reflexivity].
          rewrite (reach_mono_le k B') in E1 by (auto; lia). discriminate.
        * left. ring.
  Qed.

  (* the entry is f at the first step that reaches the pair *)
  Theorem dsum_first f B k0 : (k0 < B)%nat -> R k0 = true ->
    (forall k, (k < k0)%nat -> R k = false) ->
    eval G env (dsum f B a b) = f k0.
  Proof.
    intros Hk0 Hr Hbefore. induction B as [|B IH]; [lia|].
    rewrite eval_dsum_S.
    destruct (Nat.eq_dec k0 B) as [->|Hne].
    - rewrite (dsum_unreached _ B Hbefore).
      assert (HF : F B = 1).
      { destruct B as [|B']; [now rewrite F_0, Hr|].
        rewrite F_S, Hr, (Hbefore B') by lia. cbn [ind]. ring. }
      rewrite HF. ring.
    - rewrite IH by lia.
      assert (HF : F B = 0).
      { destruct B as [|B']; [lia|].
        rewrite F_S, (reach_mono_le k0 (S B')), (reach_mono_le k0 B') by (auto; lia).
        cbn [ind]. ring. }
      rewrite HF. ring.
  Qed.

  (* entrywise product of two functions of the distance *)
  Theorem dsum_mul f g B :
    eval G env (dsum f B a b) * eval G env (dsum g B a b) =
    eval G env (dsum (fun k => f k * g k) B a b).
  Proof.
    induction B as [|B IH]; [cbn; ring|].
    rewrite !eval_dsum_S, <- IH.
    destruct (F_cases B) as [H0 | [H1 Hun]].
    - rewrite H0. ring.
    - rewrite H1, !(dsum_unreached _ B Hun). ring.
  Qed.

  (* the sum of all indicators: connected within B steps *)
  Lemma dsum_one B : eval G env (dsum (fun _ => 1) (S B) a b) = ind (R B).
  Proof.
    induction B as [|B IH].
    - rewrite eval_dsum_S, F_0. cbn [dsum eval]. ring.
    - rewrite eval_dsum_S, IH, F_S. ring.
  Qed.

  (* hence 1 / Dist = InvDist, entry by entry (1 / inf = 0 as 1 / 0 = 0) *)
  Theorem inv_dist B :
    eval G env (InvDist B a b) = 1 / eval G env (Dist B a b).
  Proof.
    destruct B as [|B]; [cbn; now compute|].
    unfold InvDist, Dist.
    assert (P := dsum_mul (fun k => qnat (S k)) (fun k => 1 / qnat (S k)) (S B)).
    assert (E : eval G env (dsum (fun k => qnat (S k) * (1 / qnat (S k))) (S B) a b) =
                eval G env (dsum (fun _ => 1) (S B) a b)).
    { clear P. generalize (S B). intros n. induction n as [|n IH]; [reflexivity|].
      rewrite !eval_dsum_S, IH. f_equal. f_equal.
      unfold Qcdiv. rewrite Qcmult_1_l, Qcmult_inv_r; [reflexivity|].
      apply qnat_S_ne0. }
    cbv beta in P. rewrite E, dsum_one in P.
    destruct (R B) eqn:EB; cbn [ind] in P.
    - (* connected: D * I = 1 *)
      set (D := eval G env (dsum (fun k => qnat (S k)) (S B) a b)) in *.
      set (I := eval G env (dsum (fun k => 1 / qnat (S k)) (S B) a b)) in *.
      assert (HD : D <> 0) by (intros H0; rewrite H0 in P; ring_simplify in P; discriminate).
      unfold Qcdiv. rewrite Qcmult_1_l.
      transitivity (I * (D * / D)); [rewrite Qcmult_inv_r by exact HD; ring|].
      transitivity ((D * I) * / D); [ring|]. rewrite P. ring.
    - (* unconnected: both are 0 *)
      assert (Hun : forall k, (k < S B)%nat -> R k = false).
      { intros k Hk. destruct (R k) eqn:Ek; [|reflexivity].
        rewrite (reach_mono_le k B) in EB by (auto; lia). discriminate. }
      rewrite !(dsum_unreached _ (S B) Hun). now compute.
  Qed.
End Dist.
