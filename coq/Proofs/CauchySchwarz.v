From Coq Require Import QArith Qcanon List Bool Arith Lia.
From PV.Base Require Import Sums.
From PV.Model Require Import Coupling.
Open Scope Qc_scope.

Lemma Q_sq_nonneg (q : Q) : (0 <= q * q)%Q.
Proof. unfold Qle, Qmult. cbn. rewrite Z.mul_1_r. apply Z.square_nonneg. Qed.
Lemma Qc_sq_nonneg (x : Qc) : 0 <= x * x.
Proof.
  change (0 <= Qred (this x * this x))%Q. rewrite Qred_correct. apply Q_sq_nonneg.
Qed.
Lemma Qc_nonneg_add (x y : Qc) : 0 <= x -> 0 <= y -> 0 <= x + y.
Proof. intros Hx Hy. replace 0 with (0 + 0) by ring. now apply Qcplus_le_compat. Qed.
Lemma sumn_nonneg n f : (forall i, (i < n)%nat -> 0 <= f i) -> 0 <= sumn n f.
Proof.
  induction n as [|n IH]; intros H; [unfold sumn; cbn; apply Qcle_refl|].
  rewrite sumn_S. apply Qc_nonneg_add; [apply IH; intros; apply H; lia|apply H; lia].
Qed.
Lemma sumn_prod n m f g :
  sumn n f * sumn m g = sumn n (fun i => sumn m (fun j => f i * g j)).
Proof.
  transitivity (sumn n (fun i => sumn m g * f i)).
  - rewrite (sumn_scal n (sumn m g) f). ring.
  - apply sumn_ext. intros i _. rewrite Qcmult_comm, <- sumn_scal. reflexivity.
Qed.

(* Lagrange's identity *)
Lemma lagrange n (a b : nat -> Qc) :
  (1 + 1) * (sumn n (fun i => a i * a i) * sumn n (fun j => b j * b j)
             - sumn n (fun i => a i * b i) * sumn n (fun i => a i * b i))
  = sumn n (fun i => sumn n (fun j => (a i * b j - a j * b i) * (a i * b j - a j * b i))).
Proof.
  rewrite !sumn_prod.
  transitivity (sumn n (fun i => sumn n (fun j => a i * a i * (b j * b j)))
                + sumn n (fun i => sumn n (fun j => a j * a j * (b i * b i)))
                - (1 + 1) * sumn n (fun i => sumn n (fun j => a i * b i * (a j * b j)))).
  - rewrite (sumn_swap n n (fun i j => a j * a j * (b i * b i))). ring.
  - replace (sumn n (fun i => sumn n (fun j => a i * a i * (b j * b j)))
             + sumn n (fun i => sumn n (fun j => a j * a j * (b i * b i)))
             - (1 + 1) * sumn n (fun i => sumn n (fun j => a i * b i * (a j * b j))))
      with (sumn n (fun i => sumn n (fun j => a i * a i * (b j * b j)))
            + sumn n (fun i => sumn n (fun j => a j * a j * (b i * b i)))
            + (-(1 + 1)) * sumn n (fun i => sumn n (fun j => a i * b i * (a j * b j)))) by ring.
    rewrite <- sumn_scal, <- !sumn_add. apply sumn_ext. intros i _.
    rewrite <- sumn_scal, <- !sumn_add. apply sumn_ext. intros j _. ring.
Qed.

Theorem cauchy_schwarz n (a b : nat -> Qc) :
  sumn n (fun i => a i * b i) * sumn n (fun i => a i * b i)
  <= sumn n (fun i => a i * a i) * sumn n (fun j => b j * b j).
Proof.
  apply Qcle_minus_iff.
  assert (H : 0 <= (1 + 1) * (sumn n (fun i => a i * a i) * sumn n (fun j => b j * b j)
                 + - (sumn n (fun i => a i * b i) * sumn n (fun i => a i * b i)))).
  { replace (sumn n (fun i => a i * a i) * sumn n (fun j => b j * b j)
             + - (sumn n (fun i => a i * b i) * sumn n (fun i => a i * b i)))
      with (sumn n (fun i => a i * a i) * sumn n (fun j => b j * b j)
            - sumn n (fun i => a i * b i) * sumn n (fun i => a i * b i)) by ring.
    rewrite lagrange. apply sumn_nonneg. intros i _. apply sumn_nonneg. intros j _.
    apply Qc_sq_nonneg. }
  set (D := sumn n (fun i => a i * a i) * sumn n (fun j => b j * b j)
            + - (sumn n (fun i => a i * b i) * sumn n (fun i => a i * b i))) in *.
  (* 0 <= 2 D  ->  0 <= D *)
  destruct (Qclt_le_dec D 0) as [Hn|Hp]; [|assumption].
  exfalso. assert (H2 : (1 + 1) * D < 0).
  { replace 0 with ((1 + 1) * 0) by ring. rewrite !(Qcmult_comm (1 + 1)).
    apply Qcmult_lt_compat_r; [reflexivity|assumption]. }
  exact (Qclt_not_le _ _ H2 H).
Qed.

(* the squared Pearson correlation lies in [0, 1] *)
Theorem cov_sq_le n x y : cov n x y * cov n x y <= cov n x x * cov n y y.
Proof. unfold cov. apply (cauchy_schwarz n (fun k => x k - mean n x) (fun k => y k - mean n y)). Qed.
Theorem cov_self_nonneg n x : 0 <= cov n x x.
Proof. unfold cov. apply sumn_nonneg. intros; apply Qc_sq_nonneg. Qed.
