From Coq Require Import List Bool Arith ZArith Lia.
From PV.Model Require Import Rewire.
Import ListNotations.
Close Scope Z_scope. Open Scope nat_scope.

(* counting through integer sums *)
Definition zb (b : bool) : Z := if b then 1%Z else 0%Z.
Definition zsum (l : list Z) : Z := fold_right Z.add 0%Z l.
Lemma count_zsum (f : nat -> bool) l : Z.of_nat (length (filter f l)) = zsum (map (fun j => zb (f j)) l).
Proof.
  induction l as [|a l IH]; [reflexivity|]. cbn [filter map zsum fold_right].
  fold (zsum (map (fun j => zb (f j)) l)). destruct (f a); cbn [length zb]; lia.
Qed.
Lemma zsum_add (f g : nat -> Z) l :
  zsum (map (fun j => (f j + g j)%Z) l) = (zsum (map f l) + zsum (map g l))%Z.
Proof.
  induction l as [|a l IH]; [reflexivity|]. cbn [map zsum fold_right].
  fold (zsum (map (fun j => (f j + g j)%Z) l)) (zsum (map f l)) (zsum (map g l)). lia.
Qed.
Lemma zsum_ext (f g : nat -> Z) l : (forall j, In j l -> f j = g j) -> zsum (map f l) = zsum (map g l).
Proof. intros H. f_equal. now apply map_ext_in. Qed.
Lemma zsum_ind m d : d < m -> zsum (map (fun j => zb (Nat.eqb j d)) (seq 0 m)) = 1%Z.
Proof.
  intros H. induction m as [|m IH]; [lia|]. rewrite seq_S, map_app. cbn [map Nat.add].
  unfold zsum in *. rewrite fold_right_app. cbn [fold_right].
  destruct (Nat.eq_dec d m) as [->|NE].
  - rewrite Nat.eqb_refl. cbn [zb].
    assert (G : forall l, (forall j, In j l -> j < m) ->
       forall z, fold_right Z.add z (map (fun j => zb (Nat.eqb j m)) l) = z).
    { induction l as [|a l IHl]; intros Hl z; [reflexivity|]. cbn [map fold_right].
      rewrite IHl by (intros; apply Hl; now right).
      assert (a < m) by (apply Hl; now left).
      destruct (Nat.eqb_spec a m); [lia|]. cbn [zb]. lia. }
    rewrite G; [lia|]. intros j Hj. apply in_seq in Hj. lia.
  - destruct (Nat.eqb_spec m d); [lia|]. cbn [zb]. rewrite Z.add_0_r. apply IH. lia.
Qed.

(* changing a 0/1 sequence at two distinct positions, one 1 -> 0 and one
   0 -> 1, keeps the number of ones *)
Lemma count_two_changes (f g : nat -> bool) m b d :
  b <> d -> b < m -> d < m -> f b = true -> f d = false -> g b = false -> g d = true ->
  (forall j, j <> b -> j <> d -> g j = f j) ->
  length (filter g (seq 0 m)) = length (filter f (seq 0 m)).
Proof.
  intros Hbd Hb Hd Fb Fd Gb Gd Hext. apply Nat2Z.inj. rewrite !count_zsum.
  rewrite (zsum_ext (fun j => zb (g j))
            (fun j => (zb (f j) + (zb (Nat.eqb j d) + - zb (Nat.eqb j b)))%Z)).
  - rewrite zsum_add, zsum_add.
    rewrite (zsum_ext (fun j => (- zb (Nat.eqb j b))%Z) (fun j => (-1 * zb (Nat.eqb j b))%Z)) by (intros; lia).
    assert (S : forall c l, zsum (map (fun j => (c * zb (Nat.eqb j b))%Z) l) = (c * zsum (map (fun j => zb (Nat.eqb j b)) l))%Z).
    { intros c l. induction l as [|a l IH]; [cbn; lia|]. cbn [map zsum fold_right].
      fold (zsum (map (fun j => (c * zb (Nat.eqb j b))%Z) l)) (zsum (map (fun j => zb (Nat.eqb j b)) l)). lia. }
    rewrite S, !zsum_ind by assumption. lia.
  - intros j _. destruct (Nat.eqb_spec j d) as [Ed|Nd]; destruct (Nat.eqb_spec j b) as [Eb|Nb];
      cbn [zb].
    + exfalso. apply Hbd. congruence.
    + subst j. rewrite Gd, Fd. reflexivity.
    + subst j. rewrite Gb, Fb. reflexivity.
    + rewrite Hext by assumption. lia.
Qed.

(* ---- the swap keeps every row sum and every column sum ---- *)
Section Swap.
Variables (M : mat) (a b c d : nat).
Hypotheses (Hac : a <> c) (Hbd : b <> d).
Hypotheses (Mab : M a b = true) (Mcd : M c d = true) (Mad : M a d = false) (Mcb : M c b = false).

Lemma swap_val i j : swap M a b c d i j =
  if Nat.eqb i c && Nat.eqb j b then true
  else if Nat.eqb i a && Nat.eqb j d then true
  else if Nat.eqb i c && Nat.eqb j d then false
  else if Nat.eqb i a && Nat.eqb j b then false else M i j.
Proof. reflexivity. Qed.

Theorem swap_row_sums m i : b < m -> d < m ->
  row_sum m (swap M a b c d) i = row_sum m M i.
Proof.
  intros Hb Hd. unfold row_sum.
  destruct (Nat.eq_dec i a) as [->|Na]; [|destruct (Nat.eq_dec i c) as [->|Nc]].
  - apply (count_two_changes _ _ m b d); auto.
    + rewrite swap_val. destruct (Nat.eqb_spec a c); [contradiction|]. cbn [andb].
      rewrite Nat.eqb_refl. destruct (Nat.eqb_spec b d); [contradiction|]. cbn [andb].
      now rewrite Nat.eqb_refl.
    + rewrite swap_val. destruct (Nat.eqb_spec a c); [contradiction|]. cbn [andb].
      now rewrite !Nat.eqb_refl.
    + intros j Hjb Hjd. rewrite swap_val. destruct (Nat.eqb_spec a c); [contradiction|]. cbn [andb].
      rewrite Nat.eqb_refl. destruct (Nat.eqb_spec j d); [contradiction|].
      destruct (Nat.eqb_spec j b); [contradiction|]. reflexivity.
  - apply (count_two_changes _ _ m d b); auto.
    + rewrite swap_val. rewrite Nat.eqb_refl. destruct (Nat.eqb_spec d b); [congruence|]. cbn [andb].
      destruct (Nat.eqb_spec c a); [congruence|]. cbn [andb]. now rewrite Nat.eqb_refl.
    + rewrite swap_val. now rewrite !Nat.eqb_refl.
    + intros j Hjd Hjb. rewrite swap_val. rewrite Nat.eqb_refl.
      destruct (Nat.eqb_spec j b); [contradiction|]. destruct (Nat.eqb_spec j d); [contradiction|].
      destruct (Nat.eqb_spec c a); [congruence|]. reflexivity.
  - f_equal. apply filter_ext. intros j. rewrite swap_val.
    destruct (Nat.eqb_spec i c); [contradiction|]. destruct (Nat.eqb_spec i a); [contradiction|]. reflexivity.
Qed.

Theorem swap_col_sums n j : a < n -> c < n ->
  col_sum n (swap M a b c d) j = col_sum n M j.
Proof.
  intros Ha Hc. unfold col_sum.
  destruct (Nat.eq_dec j b) as [->|Nb]; [|destruct (Nat.eq_dec j d) as [->|Nd]].
  - apply (count_two_changes _ _ n a c); auto.
    + rewrite swap_val. destruct (Nat.eqb_spec a c); [contradiction|]. cbn [andb].
      rewrite !Nat.eqb_refl. destruct (Nat.eqb_spec b d); [contradiction|]. reflexivity.
    + rewrite swap_val. now rewrite !Nat.eqb_refl.
    + intros i Hia Hic. rewrite swap_val. destruct (Nat.eqb_spec i c); [contradiction|].
      destruct (Nat.eqb_spec i a); [contradiction|]. reflexivity.
  - apply (count_two_changes _ _ n c a); auto.
    + rewrite swap_val. rewrite !Nat.eqb_refl. destruct (Nat.eqb_spec d b); [congruence|]. cbn [andb].
      destruct (Nat.eqb_spec c a); [congruence|]. reflexivity.
    + rewrite swap_val. destruct (Nat.eqb_spec a c); [contradiction|]. cbn [andb].
      now rewrite !Nat.eqb_refl.
    + intros i Hic Hia. rewrite swap_val. destruct (Nat.eqb_spec i c); [contradiction|].
      destruct (Nat.eqb_spec i a); [contradiction|]. reflexivity.
  - f_equal. apply filter_ext. intros i. rewrite swap_val.
    destruct (Nat.eqb_spec j b); [contradiction|]. destruct (Nat.eqb_spec j d); [contradiction|].
    rewrite !andb_false_r. reflexivity.
Qed.

(* entries outside the four touched cells are untouched *)
Theorem swap_frame i j : ~ (i = a \/ i = c) \/ ~ (j = b \/ j = d) -> swap M a b c d i j = M i j.
Proof.
  intros H. rewrite swap_val.
  destruct (Nat.eqb_spec i c), (Nat.eqb_spec i a), (Nat.eqb_spec j b), (Nat.eqb_spec j d);
    cbn [andb]; try reflexivity; subst; exfalso; tauto.
Qed.
End Swap.

(* ---- one cross-link swap: cross degrees of both groups are kept ---- *)
Theorem cross_step_sums st e1 e2 m n :
  let '(a, b) := nth e1 (cL st) (0, 0) in
  let '(c, d) := nth e2 (cL st) (0, 0) in
  cC st a b = true -> cC st c d = true -> a < n -> c < n -> b < m -> d < m ->
  let st' := fst (cross_step st e1 e2) in
  (forall i, row_sum m (cC st') i = row_sum m (cC st) i) /\
  (forall j, col_sum n (cC st') j = col_sum n (cC st) j).
Proof.
  unfold cross_step. destruct (nth e1 (cL st) (0, 0)) as [a b]. destruct (nth e2 (cL st) (0, 0)) as [c d].
  intros Hab Hcd Ha Hc Hb Hd.
  destruct (cC st a d || cC st c b) eqn:E; cbn [fst]; [split; reflexivity|].
  apply orb_false_elim in E as [Had Hcb]. cbn [cC].
  assert (Hac : a <> c) by (intros ->; congruence).
  assert (Hbd : b <> d) by (intros ->; congruence).
  split; intros x; [apply swap_row_sums|apply swap_col_sums]; auto.
Qed.

(* ---- one geographical rewiring step ---- *)
Definition symmetric (A : mat) := forall i j, A i j = A j i.
Definition loopfree (A : mat) := forall i, A i i = false.

Lemma swap_sym_pair A s t k l : symmetric A ->
  symmetric (swap (swap A s t k l) t s l k).
Proof.
  intros H i j. rewrite !swap_val, (H i j).
  destruct (Nat.eqb_spec i s), (Nat.eqb_spec i t), (Nat.eqb_spec i k), (Nat.eqb_spec i l),
           (Nat.eqb_spec j s), (Nat.eqb_spec j t), (Nat.eqb_spec j k), (Nat.eqb_spec j l);
    subst; cbn [andb]; try reflexivity; try congruence.
Qed.

Theorem geo_step_invariants gm D eps deg st e1 e2 n :
  let '(s, t) := nth e1 (gE st) (0, 0) in
  let '(k, l) := nth e2 (gE st) (0, 0) in
  symmetric (gA st) -> loopfree (gA st) ->
  gA st s t = true -> gA st k l = true -> s < n -> t < n -> k < n -> l < n ->
  let st' := fst (geo_step gm D eps deg st e1 e2) in
  symmetric (gA st') /\ loopfree (gA st') /\
  (forall v, row_sum n (gA st') v = row_sum n (gA st) v).
Proof.
  unfold geo_step. destruct (nth e1 (gE st) (0, 0)) as [s t]. destruct (nth e2 (gE st) (0, 0)) as [k l].
  intros Hsym Hloop Hst Hkl Hs Ht Hk Hl.
  destruct (geo_ok gm D eps deg (gA st) s t k l) eqn:E; cbn [fst]; [|auto].
  unfold geo_ok in E. repeat (apply andb_prop in E; destruct E as [E ?]).
  repeat match goal with
  | H : negb (Nat.eqb _ _) = true |- _ => apply negb_true_iff, Nat.eqb_neq in H
  | H : negb _ = true |- _ => apply negb_true_iff in H
  end.
  cbn [gA]. set (A := gA st) in *.
  assert (Hst' : s <> t) by (intros ->; rewrite Hloop in Hst; discriminate).
  assert (Hkl' : k <> l) by (intros ->; rewrite Hloop in Hkl; discriminate).
  split; [now apply swap_sym_pair|]. split.
  - intros i. rewrite !swap_val.
    destruct (Nat.eqb_spec i s), (Nat.eqb_spec i t), (Nat.eqb_spec i k), (Nat.eqb_spec i l);
      subst; cbn [andb]; try congruence; apply Hloop.
  - intros v.
    assert (F : forall i j, (i, j) <> (s, t) -> (i, j) <> (k, l) -> (i, j) <> (s, l) -> (i, j) <> (k, t) ->
                swap A s t k l i j = A i j).
    { intros i j Q1 Q2 Q3 Q4. rewrite swap_val.
      destruct (Nat.eqb_spec i k), (Nat.eqb_spec i s), (Nat.eqb_spec j t), (Nat.eqb_spec j l);
        subst; cbn [andb]; try reflexivity; congruence. }
    rewrite (swap_row_sums (swap A s t k l) t s l k).
    + apply swap_row_sums; auto. rewrite (Hsym k t). assumption.
    + congruence.
    + congruence.
    + rewrite F; try (intros Q; inversion Q; congruence). now rewrite Hsym.
    + rewrite F; try (intros Q; inversion Q; congruence). now rewrite Hsym.
    + rewrite F; try (intros Q; inversion Q; congruence). assumption.
    + rewrite F; try (intros Q; inversion Q; congruence). now rewrite Hsym.
    + assumption.
    + assumption.
Qed.

(* the link count is the sum of the degrees, so it is kept as well *)
Definition link_count (n : nat) (A : mat) : nat := list_sum (map (row_sum n A) (seq 0 n)).
Corollary degrees_give_link_count n A A' :
  (forall v, row_sum n A' v = row_sum n A v) -> link_count n A' = link_count n A.
Proof. intros H. unfold link_count. f_equal. apply map_ext. exact H. Qed.
