From Coq Require Import ZArith List Bool Lia.
From PV.Model Require Import Purity.
Import ListNotations.

Lemma run_pure qs : Forall pure qs -> forall s c, run s qs c = s c.
Proof.
  induction 1 as [|q qs Hq _ IH]; intros s c; cbn [run call fst]; [reflexivity|].
  rewrite IH. apply Hq.
Qed.

(* noninterference: after ANY sequence of pure queries every query answers
   as on the untouched object *)
Theorem noninterference qs q s : Forall pure qs -> extensional q ->
  snd (call (run s qs) q) = snd (call s q).
Proof.
  intros Hp He. cbn [call snd]. apply He. intros c. now apply run_pure.
Qed.
(* repeating a query returns an equal value *)
Theorem repeat_equal q s : pure q -> extensional q ->
  snd (call (fst (call s q)) q) = snd (call s q).
Proof. intros Hp He. cbn [call fst snd]. apply He. intros c. apply Hp. Qed.

(* the save / restore idiom is pure *)
Theorem edit_restore_pure c tmp f : pure (edit_restore c tmp f).
Proof.
  intros s k. cbn [effect edit_restore]. destruct (Nat.eqb k c) eqn:E; [|reflexivity].
  apply Nat.eqb_eq in E. now subst.
Qed.
(* an edit that is not undone is seen by a later reader of the same cell *)
Theorem edit_only_interferes c :
  exists s, snd (call (run s [edit_only c (fun z => z + 1)%Z]) (read_cell c))
            <> snd (call s (read_cell c)).
Proof.
  exists (fun _ => 0%Z). cbn. rewrite Nat.eqb_refl. discriminate.
Qed.
