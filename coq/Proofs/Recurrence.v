From Coq Require Import QArith Qabs Qround Lqa List Bool Arith ZArith Lia Sorting Permutation.
From PV.Base Require Import F32 ListX.
From PV.Model Require Import Recurrence.
From PV.Proofs Require Import Visibility.
Import ListNotations.
Close Scope Q_scope. Close Scope Z_scope. Open Scope nat_scope.

(* ---- recurrence plots ---- *)
Theorem rp_dist_symmetric m E j k : rp_dist m E j k = rp_dist m E k j.
Proof.
  unfold rp_dist. rewrite (Nat.eqb_sym k j).
  destruct (Nat.eqb_spec j k) as [->|NE]; [reflexivity|].
  destruct (Nat.ltb_spec k j), (Nat.ltb_spec j k); try reflexivity; lia.
Qed.

Theorem rp_matrix_symmetric m E eps mvf miss j k :
  rp_matrix m E eps mvf miss j k = rp_matrix m E eps mvf miss k j.
Proof. unfold rp_matrix. now rewrite rp_dist_symmetric, (orb_comm (miss j)). Qed.

(* two states are recurrent exactly when their distance is below the
   threshold (and, with missing-value handling, neither is missing) *)
Theorem rp_matrix_spec m E eps mvf miss j k :
  rp_matrix m E eps mvf miss j k = true <->
  vlt (rp_dist m E j k) (scaled_eps m eps) = true /\ (mvf = true -> miss j = false /\ miss k = false).
Proof.
  unfold rp_matrix, recurrent. rewrite andb_true_iff, negb_true_iff. split; intros [H1 H2]; split; auto.
  - intros ->. cbn in H2. now apply orb_false_elim in H2.
  - destruct mvf; [|reflexivity]. destruct (H2 eq_refl) as [-> ->]. reflexivity.
Qed.

(* a NaN distance is never below any threshold *)
Theorem nan_never_recurrent eps : recurrent None eps = false.
Proof. reflexivity. Qed.

Theorem rp_unit_diagonal m E eps miss j : (0 < eps)%Q ->
  rp_matrix m E eps false miss j j = true.
Proof.
  intros H. unfold rp_matrix, rp_dist, recurrent. rewrite Nat.eqb_refl. cbn [andb negb].
  rewrite andb_true_r. destruct m; cbn [scaled_eps vlt].
  - now apply ltQ_spec.
  - assert (E0 : ltQ eps 0 = false).
    { destruct (ltQ eps 0) eqn:E1; [|reflexivity]. apply ltQ_spec in E1. lra. }
    rewrite E0. cbn [vlt]. apply ltQ_spec. nra.
  - now apply ltQ_spec.
Qed.

(* ---- delay embedding ---- *)
Theorem embed_length x dim tau : length (embed x dim tau) = length x - (dim - 1) * tau.
Proof. unfold embed. now rewrite map_length, seq_length. Qed.

Theorem embed_spec x dim tau k j : k < length x - (dim - 1) * tau -> j < dim ->
  nth j (nth k (embed x dim tau) []) None = nth (k + j * tau) x None.
Proof.
  intros Hk Hj. unfold embed. rewrite (nth_map_seq _ _ k []) by assumption.
  now rewrite nth_map_seq.
Qed.

(* ---- rate -> threshold: an order statistic ---- *)
Definition qle (a b : Q) : Prop := ~ (b < a)%Q.

Lemma ltQ_false a b : ltQ a b = false <-> qle b a.
Proof.
  unfold qle. rewrite <- ltQ_spec. destruct (ltQ a b); split; intros H; try discriminate; auto.
  exfalso. now apply H.
Qed.

Lemma insert_perm a l : Permutation (a :: l) (insert_sorted a l).
Proof.
  induction l as [|b l IH]; cbn; [reflexivity|].
  destruct (ltQ b a); [|reflexivity].
  eapply perm_trans; [apply perm_swap|]. now constructor.
Qed.
Theorem sortQ_perm l : Permutation l (sortQ l).
Proof.
  induction l as [|a l IH]; cbn; [constructor|].
  eapply perm_trans; [|apply insert_perm]. now constructor.
Qed.

Lemma insert_sorted_sorted a l : StronglySorted qle l -> StronglySorted qle (insert_sorted a l).
Proof.
  induction 1 as [|b l Hs IH Hb]; cbn.
  - constructor; constructor.
  - destruct (ltQ b a) eqn:E.
    + constructor; [assumption|].
      apply (Permutation_Forall (insert_perm a l)). constructor.
      * apply ltQ_spec in E. unfold qle. lra.
      * assumption.
    + apply ltQ_false in E. constructor; [now constructor|]. constructor; [assumption|].
      eapply Forall_impl; [|exact Hb]. unfold qle in *. intros c Hc. lra.
Qed.
Theorem sortQ_sorted l : StronglySorted qle (sortQ l).
Proof. induction l; cbn; [constructor|now apply insert_sorted_sorted]. Qed.

Definition count_lt (thr : Q) (l : list Q) : nat := length (filter (fun d => ltQ d thr) l).

Lemma count_lt_perm thr l l' : Permutation l l' -> count_lt thr l = count_lt thr l'.
Proof.
  unfold count_lt. induction 1; cbn; auto.
  - destruct (ltQ x thr); cbn; auto.
  - destruct (ltQ x thr), (ltQ y thr); reflexivity.
  - congruence.
Qed.

Lemma count_lt_sorted l : StronglySorted qle l -> forall i, i < length l ->
  count_lt (nth i l 0%Q) l <= i.
Proof.
  induction 1 as [|a l Hs IH Ha]; intros i Hi; [cbn in Hi; lia|].
  destruct i as [|i]; cbn [nth].
  - (* nothing is strictly below the minimum *)
    unfold count_lt. cbn [filter].
    assert (E : ltQ a a = false) by (apply ltQ_false; unfold qle; lra). rewrite E.
    assert (G : filter (fun d => ltQ d a) l = []).
    { clear -Ha. induction Ha as [|b l Hb _ IHl]; cbn; [reflexivity|].
      assert (E : ltQ b a = false) by (now apply ltQ_false). now rewrite E. }
    rewrite G. cbn. lia.
  - cbn in Hi. unfold count_lt in *. cbn [filter]. specialize (IH i ltac:(lia)).
    destruct (ltQ a (nth i l 0%Q)); cbn [length]; lia.
Qed.

(* the number of distances strictly below the selected threshold never exceeds
   the selected rank: the realised rate is at most the requested one (up to
   the floor), and falls short only by ties at the selected value *)
Theorem rate_quantile dists rr : quantile_index rr (length dists) < length dists ->
  count_lt (threshold_of_rate dists rr) dists <= quantile_index rr (length dists).
Proof.
  intros H. unfold threshold_of_rate.
  rewrite (count_lt_perm _ _ _ (sortQ_perm dists)).
  apply count_lt_sorted; [apply sortQ_sorted|].
  now rewrite <- (Permutation_length (sortQ_perm dists)).
Qed.

(* ---- compositions ---- *)
Theorem joint_lag0 n Rx Ry i j : joint n 0 Rx Ry i j = Rx i j && Ry i j.
Proof. unfold joint. cbn. now rewrite !Nat.add_0_r. Qed.

Theorem joint_symmetric n lag Rx Ry i j :
  (forall a b, Rx a b = Rx b a) -> (forall a b, Ry a b = Ry b a) ->
  joint n lag Rx Ry i j = joint n lag Rx Ry j i.
Proof. intros Hx Hy. unfold joint. destruct (0 <=? lag)%Z; now rewrite Hx, Hy. Qed.

Theorem joint_in_range n lag i j : i < joint_size n lag -> j < joint_size n lag ->
  i + Z.abs_nat lag < n /\ j + Z.abs_nat lag < n.
Proof. unfold joint_size. lia. Qed.

Theorem isrm_blocks nx ny Rx Ry Cxy i j :
  (i < nx -> j < nx -> isrm nx ny Rx Ry Cxy i j = Rx i j) /\
  (i < nx -> nx <= j -> isrm nx ny Rx Ry Cxy i j = Cxy i (j - nx)) /\
  (nx <= i -> j < nx -> isrm nx ny Rx Ry Cxy i j = Cxy j (i - nx)) /\
  (nx <= i -> nx <= j -> isrm nx ny Rx Ry Cxy i j = Ry (i - nx) (j - nx)).
Proof.
  unfold isrm. repeat split; intros Hi Hj;
    destruct (Nat.ltb_spec i nx), (Nat.ltb_spec j nx); cbn; try reflexivity; lia.
Qed.

Theorem isrm_symmetric nx ny Rx Ry Cxy i j :
  (forall a b, Rx a b = Rx b a) -> (forall a b, Ry a b = Ry b a) ->
  isrm nx ny Rx Ry Cxy i j = isrm nx ny Rx Ry Cxy j i.
Proof.
  intros Hx Hy. unfold isrm.
  destruct (Nat.ltb_spec i nx), (Nat.ltb_spec j nx); cbn; auto.
Qed.

Theorem network_is_R_minus_diag R i j :
  network_of R i i = false /\ (i <> j -> network_of R i j = R i j).
Proof.
  unfold network_of. split; [now rewrite Nat.eqb_refl|].
  intros H. destruct (Nat.eqb_spec i j); [contradiction|reflexivity].
Qed.
