(* C12: the cosine computed by the angular kernel (one binary32 rounding per
   operation) deviates from the exact value of the same expression by at most
   16 * 2^-24 when the four trigonometric inputs lie in [-1, 1]. *)
From Coq Require Import ZArith QArith Qabs Lia Lqa.
From PV.Base Require Import F32.
From PV.Model Require Import Grid.
From PV.Proofs Require Import F32Error.
Open Scope Q_scope.

Definition u : Q := qpow2 (-24).
Lemma u_val : u == 1 # 16777216.
Proof. reflexivity. Qed.

Lemma rnd32_err x : Qabs (rnd 32 x - x) <= Qabs x * u.
Proof. unfold rnd. cbn. apply round32_error. Qed.

(* |x| <= b  <->  -b <= x <= b *)
Lemma abs_le x b : Qabs x <= b <-> - b <= x /\ x <= b.
Proof. apply Qabs_Qle_condition. Qed.

(* one rounded operation: result within |exact| * u of the exact result *)
Lemma op_err r t B : Qabs (r - t) <= Qabs t * u -> Qabs t <= B ->
  Qabs (r - t) <= B * u.
Proof.
  intros H HB. apply Qle_trans with (Qabs t * u); [assumption|].
  apply Qmult_le_compat_r; [assumption|]. rewrite u_val. discriminate.
Qed.

Lemma mul_le_l c a b : 0 <= c -> a <= b -> c * a <= c * b.
Proof. intros Hc H. rewrite !(Qmult_comm c). now apply Qmult_le_compat_r. Qed.

(* product of approximations *)
Lemma mul_err x a y b ea eb A B :
  Qabs (x - a) <= ea -> Qabs (y - b) <= eb -> Qabs a <= A -> Qabs b <= B -> 0 <= ea -> 0 <= eb ->
  Qabs (x * y - a * b) <= ea * (B + eb) + A * eb.
Proof.
  intros Hx Hy Ha Hb Pea Peb.
  assert (E : x * y - a * b == (x - a) * y + a * (y - b)) by ring.
  rewrite E. eapply Qle_trans; [apply Qabs_triangle|].
  rewrite !Qabs_Qmult.
  assert (Yb : Qabs y <= B + eb).
  { assert (E2 : y == b + (y - b)) by ring. rewrite E2. eapply Qle_trans; [apply Qabs_triangle|].
    apply Qplus_le_compat; assumption. }
  apply Qplus_le_compat.
  - apply Qle_trans with (ea * Qabs y).
    + apply Qmult_le_compat_r; [assumption|apply Qabs_nonneg].
    + apply mul_le_l; assumption.
  - apply Qle_trans with (A * Qabs (y - b)).
    + apply Qmult_le_compat_r; [assumption|apply Qabs_nonneg].
    + apply mul_le_l; [apply Qle_trans with (Qabs a); [apply Qabs_nonneg|assumption]|assumption].
Qed.

Lemma add_err x a y b ea eb : Qabs (x - a) <= ea -> Qabs (y - b) <= eb ->
  Qabs (x + y - (a + b)) <= ea + eb.
Proof.
  intros Hx Hy. assert (E : x + y - (a + b) == (x - a) + (y - b)) by ring.
  rewrite E. eapply Qle_trans; [apply Qabs_triangle|]. now apply Qplus_le_compat.
Qed.
Lemma prod_bound a b : Qabs a <= 1 -> Qabs b <= 1 -> Qabs (a * b) <= 1.
Proof.
  intros Ha Hb. rewrite Qabs_Qmult. apply Qle_trans with (1 * Qabs b).
  - apply Qmult_le_compat_r; [assumption|apply Qabs_nonneg].
  - now rewrite Qmult_1_l.
Qed.
(* a rounded value stays within B*u of its argument, and within e + B*u of the
   exact value v the argument approximates *)
Lemma rnd_step t v e B : Qabs (t - v) <= e -> Qabs v + e <= B ->
  Qabs (rnd 32 t - v) <= e + B * u.
Proof.
  intros Hv HB.
  assert (Ht : Qabs t <= B).
  { assert (E : t == v + (t - v)) by ring. rewrite E. eapply Qle_trans; [apply Qabs_triangle|].
    apply Qle_trans with (Qabs v + e); [now apply Qplus_le_compat; [apply Qle_refl|]|assumption]. }
  assert (E : rnd 32 t - v == (rnd 32 t - t) + (t - v)) by ring.
  rewrite E. eapply Qle_trans; [apply Qabs_triangle|]. rewrite (Qplus_comm e).
  apply Qplus_le_compat; [|assumption].
  apply op_err; [apply rnd32_err|assumption].
Qed.

Section Cosine.
  Variables s1 s2 c1 c2 t1 t2 d1 d2 : Q.
  Hypotheses (Hs1 : Qabs s1 <= 1) (Hs2 : Qabs s2 <= 1) (Hc1 : Qabs c1 <= 1) (Hc2 : Qabs c2 <= 1)
             (Ht1 : Qabs t1 <= 1) (Ht2 : Qabs t2 <= 1) (Hd1 : Qabs d1 <= 1) (Hd2 : Qabs d2 <= 1).
  Definition exact : Q := s1 * s2 + (c1 * c2) * (t1 * t2 + d1 * d2).
  Definition approx : Q :=
    fadd 32 (fmul 32 s1 s2) (fmul 32 (fmul 32 c1 c2) (fadd 32 (fmul 32 t1 t2) (fmul 32 d1 d2))).

  Lemma u_small : 0 <= u /\ u <= 1 # 1000.
  Proof. rewrite u_val. split; discriminate. Qed.

  Theorem cosine_error : Qabs (approx - exact) <= 16 * u.
  Proof.
    destruct u_small as [U0 U1].
    unfold approx, exact, fadd, fmul.
    (* the four products *)
    assert (P1 : Qabs (rnd 32 (s1 * s2) - s1 * s2) <= 1 * u)
      by (apply op_err; [apply rnd32_err|now apply prod_bound]).
    assert (P2 : Qabs (rnd 32 (c1 * c2) - c1 * c2) <= 1 * u)
      by (apply op_err; [apply rnd32_err|now apply prod_bound]).
    assert (P3 : Qabs (rnd 32 (t1 * t2) - t1 * t2) <= 1 * u)
      by (apply op_err; [apply rnd32_err|now apply prod_bound]).
    assert (P4 : Qabs (rnd 32 (d1 * d2) - d1 * d2) <= 1 * u)
      by (apply op_err; [apply rnd32_err|now apply prod_bound]).
    pose proof (prod_bound s1 s2 Hs1 Hs2) as B1. pose proof (prod_bound c1 c2 Hc1 Hc2) as B2.
    pose proof (prod_bound t1 t2 Ht1 Ht2) as B3. pose proof (prod_bound d1 d2 Hd1 Hd2) as B4.
    set (p1 := rnd 32 (s1 * s2)) in *. set (p2 := rnd 32 (c1 * c2)) in *.
    set (p3 := rnd 32 (t1 * t2)) in *. set (p4 := rnd 32 (d1 * d2)) in *.
    set (a1 := s1 * s2) in *. set (a2 := c1 * c2) in *. set (a3 := t1 * t2) in *. set (a4 := d1 * d2) in *.
    (* inner sum *)
    pose proof (add_err p3 a3 p4 a4 _ _ P3 P4) as W.
    assert (B34 : Qabs (a3 + a4) <= 2).
    { eapply Qle_trans; [apply Qabs_triangle|]. lra. }
    assert (S : Qabs (rnd 32 (p3 + p4) - (a3 + a4)) <= (1 * u + 1 * u) + 3 * u).
    { apply rnd_step; [assumption|lra]. }
    set (s := rnd 32 (p3 + p4)) in *.
    (* product with p2 *)
    assert (M : Qabs (p2 * s - a2 * (a3 + a4)) <= 1 * u * (2 + (1 * u + 1 * u + 3 * u)) + 1 * (1 * u + 1 * u + 3 * u)).
    { apply mul_err; try assumption; lra. }
    assert (B234 : Qabs (a2 * (a3 + a4)) <= 2).
    { rewrite Qabs_Qmult. apply Qle_trans with (1 * Qabs (a3 + a4)).
      - apply Qmult_le_compat_r; [assumption|apply Qabs_nonneg].
      - lra. }
    assert (M' : Qabs (p2 * s - a2 * (a3 + a4)) <= 8 * u).
    { eapply Qle_trans; [exact M|]. 
      assert (Uu : u * u <= (1 # 1000) * u) by (apply Qmult_le_compat_r; assumption).
      lra. }
    assert (Q : Qabs (rnd 32 (p2 * s) - a2 * (a3 + a4)) <= 8 * u + 3 * u).
    { apply rnd_step; [assumption|lra]. }
    set (q := rnd 32 (p2 * s)) in *.
    (* outer sum *)
    pose proof (add_err p1 a1 q (a2 * (a3 + a4)) _ _ P1 Q) as Z.
    assert (BZ : Qabs (a1 + a2 * (a3 + a4)) <= 3).
    { eapply Qle_trans; [apply Qabs_triangle|]. lra. }
    assert (F : Qabs (rnd 32 (p1 + q) - (a1 + a2 * (a3 + a4))) <= (1 * u + (8 * u + 3 * u)) + 4 * u).
    { apply rnd_step; [assumption|lra]. }
    eapply Qle_trans; [exact F|]. lra.
  Qed.
End Cosine.

(* ---------- the kernel's cosine ---------- *)
Definition exact_cos (cl sl cn sn : nat -> Q) (i j : nat) : Q :=
  sl i * sl j + (cl i * cl j) * (sn i * sn j + cn i * cn j).
Definition unit_inputs (f : nat -> Q) (i j : nat) : Prop := Qabs (f i) <= 1 /\ Qabs (f j) <= 1.

Theorem ang_expr_error cl sl cn sn i j :
  unit_inputs cl i j -> unit_inputs sl i j -> unit_inputs cn i j -> unit_inputs sn i j ->
  Qabs (ang_expr 32 cl sl cn sn i j - exact_cos cl sl cn sn i j) <= 16 * u.
Proof.
  intros [C1 C2] [S1 S2] [N1 N2] [T1 T2].
  exact (cosine_error (sl i) (sl j) (cl i) (cl j) (sn i) (sn j) (cn i) (cn j)
                      S1 S2 C1 C2 T1 T2 N1 N2).
Qed.

(* clamping to [-1,1] never moves the value away from a number in [-1,1] *)
Lemma Qlt_b_true' a b : Grid.Qlt_b a b = true -> a < b.
Proof. unfold Grid.Qlt_b. rewrite Qlt_alt. destruct (a ?= b); congruence. Qed.
Lemma Qlt_b_false' a b : Grid.Qlt_b a b = false -> b <= a.
Proof.
  intros H. destruct (Qlt_le_dec a b) as [L|L]; [|assumption].
  unfold Grid.Qlt_b in H. rewrite Qlt_alt in L. rewrite L in H. discriminate.
Qed.
Theorem clamp_nonexpansive x e : -1 <= e -> e <= 1 -> Qabs (clamp x - e) <= Qabs (x - e).
Proof.
  intros L U. unfold clamp. destruct (Grid.Qlt_b 1 x) eqn:E1.
  - apply Qlt_b_true' in E1. rewrite (Qabs_pos (1 - e)), (Qabs_pos (x - e)) by lra. lra.
  - destruct (Grid.Qlt_b x (-1 # 1)) eqn:E2.
    + apply Qlt_b_true' in E2. 
      assert (E2' : x < -1) by exact E2.
      rewrite (Qabs_neg ((-1 # 1) - e)), (Qabs_neg (x - e)) by lra. lra.
    + apply Qle_refl.
Qed.

(* the cosine handed to arccos is within 16 * 2^-24 of the exact cosine of the
   same (binary32) trigonometric inputs whenever that exact value is a cosine *)
Theorem cos_ang_error cl sl cn sn a b :
  let i := max a b in let j := min a b in
  unit_inputs cl i j -> unit_inputs sl i j -> unit_inputs cn i j -> unit_inputs sn i j ->
  -1 <= exact_cos cl sl cn sn i j -> exact_cos cl sl cn sn i j <= 1 ->
  Qabs (cos_ang 32 cl sl cn sn a b - exact_cos cl sl cn sn i j) <= 16 * u.
Proof.
  cbv zeta. intros Hc Hs Hn Ht L U. unfold cos_ang, tri.
  eapply Qle_trans; [apply clamp_nonexpansive; assumption|].
  now apply ang_expr_error.
Qed.
