From Coq Require Import QArith Qcanon List Lia Bool Arith.
From PV.Base Require Import Sums ListX.
From PV.Model Require Import NsiLang.
Import ListNotations.
Open Scope Qc_scope.

(* ---- max lemmas ---- *)
Lemma qmax_ge_l a b : a <= qmax a b.
Proof. unfold qmax. destruct (Qclt_le_dec a b). now apply Qclt_le_weak. apply Qcle_refl. Qed.
Lemma qmax_ge_r a b : b <= qmax a b.
Proof. unfold qmax. destruct (Qclt_le_dec a b). apply Qcle_refl. assumption. Qed.
Lemma qmax_lub a b c : a <= c -> b <= c -> qmax a b <= c.
Proof. unfold qmax. destruct (Qclt_le_dec a b); auto. Qed.

Lemma maxl_ub l x : In x l -> x <= fold_right qmax 0 l.
Proof.
  induction l as [|a l IH]; simpl; [tauto|]. intros [->|H]. apply qmax_ge_l.
  eapply Qcle_trans; [apply IH, H|apply qmax_ge_r].
Qed.
Lemma maxl_lub l c : 0 <= c -> (forall x, In x l -> x <= c) -> fold_right qmax 0 l <= c.
Proof.
  induction l as [|a l IH]; simpl; intros H0 H; [assumption|].
  apply qmax_lub. apply H; auto. apply IH; auto.
Qed.
Lemma maxl_ge0 l : 0 <= fold_right qmax 0 l.
Proof. induction l; simpl. apply Qcle_refl. eapply Qcle_trans; [apply IHl|apply qmax_ge_r]. Qed.

Lemma maxn_pullback n n' phi (g : nat -> Qc) :
  (forall i, (i < n')%nat -> (phi i < n)%nat) ->
  (forall u, (u < n)%nat -> exists i, (i < n')%nat /\ phi i = u) ->
  maxn n' (fun i => g (phi i)) = maxn n g.
Proof.
  intros Hlt Hsurj. unfold maxn. apply Qcle_antisym.
  - apply maxl_lub. apply maxl_ge0. intros x Hx. apply in_map_iff in Hx as [i [<- Hi]].
    apply in_seq in Hi. apply maxl_ub. apply in_map_iff. exists (phi i). split; auto.
    apply in_seq. specialize (Hlt i). lia.
  - apply maxl_lub. apply maxl_ge0. intros x Hx. apply in_map_iff in Hx as [u [<- Hu]].
    apply in_seq in Hu. destruct (Hsurj u) as [i [Hi Hphi]]; [lia|]. subst u.
    apply maxl_ub. apply in_map_iff. exists i. split; auto. apply in_seq. lia.
Qed.

(* ---- reachability pulls back ---- *)
Lemma rrow_length n A k i : length (rrow n A k i) = n.
Proof. destruct k; cbn; now rewrite map_length, seq_length. Qed.

Lemma rrow_S n A k i j : (j < n)%nat ->
  nth j (rrow n A (S k) i) false = exn n (fun u => nth u (rrow n A k i) false && A u j).
Proof. intros H. cbn [rrow]. now rewrite nth_map_seq. Qed.

Lemma reach_pullback G' G phi : pullback G' G phi ->
  forall k i j, (i < gn G')%nat -> (j < gn G')%nat ->
  reach G' k i j = reach G k (phi i) (phi j).
Proof.
  intros PB. unfold reach. induction k as [|k IH]; intros i j Hi Hj.
  - cbn [rrow]. rewrite !nth_map_seq by (auto; apply (pb_lt _ _ _ PB); auto).
    now apply (pb_ap _ _ _ PB).
  - rewrite !rrow_S by (auto; apply (pb_lt _ _ _ PB); auto).
    apply eq_true_iff_eq. rewrite !exn_spec. split.
    + intros [u [Hu H]]. apply andb_prop in H as [H1 H2]. exists (phi u).
      split; [apply (pb_lt _ _ _ PB); auto|].
      rewrite <- IH, <- (pb_ap _ _ _ PB) by assumption. now rewrite H1, H2.
    + intros [u [Hu H]]. apply andb_prop in H as [H1 H2].
      destruct (pb_surj _ _ _ PB u Hu) as [u' [Hu' <-]].
      exists u'. split; [auto|]. rewrite IH, (pb_ap _ _ _ PB) by assumption. now rewrite H1, H2.
Qed.

(* ---- the pullback theorem ---- *)
Lemma var_map phi env i : (i < length env)%nat -> var (map phi env) i = phi (var env i).
Proof.
  intros H. unfold var. rewrite (nth_indep _ 0%nat (phi 0%nat)) by (now rewrite map_length).
  apply map_nth.
Qed.
Lemma var_lt (P : nat -> Prop) env i : Forall P env -> (i < length env)%nat -> P (var env i).
Proof. intros H Hi. rewrite Forall_forall in H. apply H. unfold var. now apply nth_In. Qed.

Theorem eval_pullback G' G phi : pullback G' G phi ->
  forall e env, closed (length env) e -> Forall (fun i => (i < gn G')%nat) env ->
  eval G' env e = eval G (map phi env) e.
Proof.
  intros PB.
  induction e as [q|i j|a i j|g i|k i j|a IHa b IHb|a IHa b IHb|a IHa b IHb|a IHa b IHb
                 |a IHa b IHb|a IHa b IHb|b IHb|b IHb];
    intros env Hc Henv; cbn [eval closed] in *.
  - reflexivity.
  - destruct Hc as [Hi Hj]. rewrite !var_map by assumption.
    rewrite (pb_ap _ _ _ PB); auto; apply (var_lt _ _ _ Henv); assumption.
  - destruct Hc as [Hi Hj]. rewrite !var_map by assumption.
    rewrite (pb_attr _ _ _ PB); auto; apply (var_lt _ _ _ Henv); assumption.
  - rewrite !var_map by assumption.
    rewrite (pb_grp _ _ _ PB); auto; apply (var_lt _ _ _ Henv); assumption.
  - destruct Hc as [Hi Hj]. rewrite !var_map by assumption.
    rewrite (reach_pullback _ _ _ PB); auto; apply (var_lt _ _ _ Henv); assumption.
  - destruct Hc. now rewrite IHa, IHb.
  - destruct Hc. now rewrite IHa, IHb.
  - destruct Hc. now rewrite IHa, IHb.
  - destruct Hc. now rewrite IHa, IHb.
  - destruct Hc. now rewrite IHa, IHb.
  - destruct Hc. now rewrite IHa, IHb.
  - transitivity (sumn (gn G') (fun i => gw G' i * eval G (phi i :: map phi env) b)).
    { apply sumn_ext. intros i Hi. f_equal. apply (IHb (i :: env)); cbn; auto. }
    apply (wsum_pullback (gn G) (gn G') (gw G) (gw G') phi (pb_lt _ _ _ PB) (pb_fibre _ _ _ PB)
             (fun u => eval G (u :: map phi env) b)).
  - transitivity (maxn (gn G') (fun i => eval G (phi i :: map phi env) b)).
    { unfold maxn. f_equal. apply map_ext_in. intros i Hi. apply in_seq in Hi.
      apply (IHb (i :: env)); cbn; auto. constructor; auto. lia. }
    apply (maxn_pullback (gn G) (gn G') phi (fun u => eval G (u :: map phi env) b)
             (pb_lt _ _ _ PB) (pb_surj _ _ _ PB)).
Qed.

Lemma closedb_closed d e : closedb d e = true -> closed d e.
Proof.
  revert d. induction e; intros d H; cbn [closedb closed] in *; auto;
    repeat match goal with
    | H : _ && _ = true |- _ => apply andb_prop in H; destruct H
    | H : (_ <? _)%nat = true |- _ => apply Nat.ltb_lt in H
    | |- _ /\ _ => split
    end; auto.
Qed.

(* pullbacks compose: iterated splits, split-then-relabel, ... *)
Lemma sumn_ind_r n a f : (a < n)%nat -> sumn n (fun u => ind (Nat.eqb u a) * f u) = f a.
Proof.
  intros H. rewrite <- (sumn_ind n a f H). apply sumn_ext. intros i _. now rewrite Nat.eqb_sym.
Qed.

Theorem pullback_compose G'' G' G psi phi :
  pullback G'' G' psi -> pullback G' G phi -> pullback G'' G (fun i => phi (psi i)).
Proof.
  intros P1 P2. constructor.
  - intros i Hi. apply (pb_lt _ _ _ P2), (pb_lt _ _ _ P1), Hi.
  - intros i j Hi Hj. rewrite (pb_ap _ _ _ P1), (pb_ap _ _ _ P2); auto; apply (pb_lt _ _ _ P1); auto.
  - intros a i j Hi Hj. rewrite (pb_attr _ _ _ P1), (pb_attr _ _ _ P2); auto; apply (pb_lt _ _ _ P1); auto.
  - intros g i Hi. rewrite (pb_grp _ _ _ P1), (pb_grp _ _ _ P2); auto; apply (pb_lt _ _ _ P1); auto.
  - intros u Hu. rewrite <- (pb_fibre _ _ _ P2 u Hu).
    (* sum over G'' = sum over G' of (indicator * fibre weight) *)
    transitivity (sumn (gn G'') (fun i => gw G'' i * (ind (Nat.eqb (phi (psi i)) u)))).
    { apply sumn_ext. intros; ring. }
    rewrite (wsum_pullback (gn G') (gn G'') (gw G') (gw G'') psi (pb_lt _ _ _ P1) (pb_fibre _ _ _ P1)
               (fun v => ind (Nat.eqb (phi v) u))).
    apply sumn_ext. intros; ring.
  - intros u Hu. destruct (pb_surj _ _ _ P2 u Hu) as [v [Hv <-]].
    destruct (pb_surj _ _ _ P1 v Hv) as [i [Hi <-]]. exists i. auto.
Qed.
