(* The C routines and the Python state handling AS THEY ARE IN THE CURRENT
   SOURCE (Gen/ResistiveK.v, regenerated each run) are the model. *)
From Coq Require Import QArith Qcanon List Bool Arith Lia String.
From PV.Base Require Import Sums.
From PV.Model Require Import Resistive.
From PV.Gen Require Import ResistiveK.
From PV.Proofs Require Import Resistive.
Import ListNotations.
Open Scope Qc_scope.

(* row-major view of an N x N matrix, as the C code indexes it *)
Definition flat (N : nat) (M : mat) : nat -> Qc := fun k => M (k / N)%nat (k mod N)%nat.
Lemma flat_ij N M i j : (j < N)%nat -> flat N M (i * N + j) = M i j.
Proof.
  intros H. unfold flat. assert (N <> 0)%nat by lia.
  rewrite Nat.div_add_l, Nat.div_small, Nat.add_0_r by assumption.
  rewrite Nat.add_comm, Nat.mod_add, Nat.mod_small by assumption. reflexivity.
Qed.

Lemma qn_mult a b : qn (a * b) = qn a * qn b.
Proof.
  unfold qn. apply Qc_is_canon. unfold Qcmult, Q2Qc. cbn [this]. rewrite !Qred_correct.
  rewrite Nat2Z.inj_mul, inject_Z_mult. reflexivity.
Qed.
Lemma qn_pred N : (1 <= N)%nat -> qn (N - 1) = qn N - 1.
Proof. intros H. destruct N as [|N]; [lia|]. rewrite qn_S. replace (S N - 1)%nat with N by lia. ring. Qed.
Lemma qn_2 : qn 2 = 1 + 1.
Proof. rewrite !qn_S, qn_0. ring. Qed.
Lemma norm_eq N : (1 <= N)%nat -> qn (N * (N - 1)) = qn N * (qn N - 1).
Proof. intros H. now rewrite qn_mult, qn_pred. Qed.

Lemma gen_flow N adm R i j s t : (j < N)%nat -> (s < N)%nat -> (t < N)%nat ->
  flat N adm (i * N + j) *
  qabs (1 * (flat N R (i * N + s) - flat N R (j * N + s)) + 1 * (flat N R (j * N + t) - flat N R (i * N + t)))
  = flow adm R i j s t.
Proof.
  intros Hj Hs Ht. rewrite !flat_ij by assumption. unfold flow. f_equal. f_equal. ring.
Qed.

(* the vertex routine = the defining sum, for every N and every matrix *)
Theorem gen_vcfb_is_model N adm R i : (1 <= N)%nat ->
  gen_vcfb N 1 1 (flat N adm) (flat N R) i = vcfb N adm R i.
Proof.
  intros HN. unfold gen_vcfb, vcfb.
  apply sumn_ext. intros t Ht. apply sumn_ext. intros s Hs.
  destruct (Nat.eqb i t || Nat.eqb i s)%bool; [reflexivity|]. cbv zeta.
  rewrite (norm_eq N HN), qn_2.
  replace (sumn N (fun j => flat N adm (i * N + j) *
              qabs (1 * (flat N R (i * N + s) - flat N R (j * N + s)) +
                    1 * (flat N R (j * N + t) - flat N R (i * N + t))) / (1 + 1)))
    with (sumn N (fun j => flow adm R i j s t / (1 + 1))); [reflexivity|].
  apply sumn_ext. intros j Hj. rewrite gen_flow by lia. reflexivity.
Qed.

Theorem gen_ecfb_is_model N adm R i j : (1 <= N)%nat -> (j < N)%nat ->
  gen_ecfb N 1 1 (flat N adm) (flat N R) i j = ecfb N adm R i j.
Proof.
  intros HN Hj. unfold gen_ecfb, ecfb. cbv zeta. rewrite (norm_eq N HN), qn_2.
  replace (sumn N (fun t => sumn t (fun s => flat N adm (i * N + j) *
              qabs (1 * (flat N R (i * N + s) - flat N R (j * N + s)) +
                    1 * (flat N R (j * N + t) - flat N R (i * N + t))))))
    with (sumn N (fun t => sumn t (fun s => flow adm R i j s t))); [reflexivity|].
  apply sumn_ext. intros t Ht. apply sumn_ext. intros s Hs. rewrite gen_flow by lia. reflexivity.
Qed.

Lemma gen_types : gen_vcfb_elem = "float*"%string /\ gen_wrapper_elem = "FIELD_t"%string.
Proof. split; reflexivity. Qed.

(* state handling: the facts the machine model relies on *)
Lemma gen_state_facts :
  gen_update_chain = ["update_admittance"; "update_R"]%string /\
  gen_update_R_resets = true /\ gen_update_R_recomputes = true /\
  gen_diameter_uses_store = true /\ gen_average_fills_store = true /\
  gen_eff_formula = true /\ gen_laplacian_formula = true.
Proof. repeat split; reflexivity. Qed.

(* with the reset flag read from the source, every answer after any history of
   updates and queries is the one for the current resistances *)
Theorem gen_answers_follow_updates n pinv_of r os o :
  let s := run n pinv_of gen_update_R_resets (init pinv_of r) os in
  snd (step n pinv_of gen_update_R_resets s o) = spec n pinv_of (res s) o.
Proof. exact (answers_follow_updates n pinv_of r os o). Qed.
