(* Error bound of the rounding model of Base/F32.v: for every non-zero
   rational x, |round_prec p x - x| <= |x| * 2^-p  (round to nearest, p bits,
   unbounded exponent). *)
From Coq Require Import ZArith QArith Qabs Lia.
From PV.Base Require Import F32.
Open Scope Z_scope.

Lemma qpow2_pos z : (0 < qpow2 z)%Q.
Proof.
  unfold qpow2. destruct (0 <=? z) eqn:E.
  - change 0%Q with (inject_Z 0). rewrite <- Zlt_Qlt. apply Z.pow_pos_nonneg; lia.
  - reflexivity.
Qed.
Lemma qpow2_nonneg_val z : 0 <= z -> qpow2 z = inject_Z (2 ^ z).
Proof. intros H. unfold qpow2. now replace (0 <=? z) with true by (symmetry; apply Z.leb_le; lia). Qed.
Lemma qpow2_neg_val z : z < 0 -> qpow2 z = (1 # Z.to_pos (2 ^ (- z)))%Q.
Proof. intros H. unfold qpow2. now replace (0 <=? z) with false by (symmetry; apply Z.leb_gt; lia). Qed.
Lemma pos_pow z : 0 <= z -> Zpos (Z.to_pos (2 ^ z)) = 2 ^ z.
Proof. intros H. apply Z2Pos.id. apply Z.pow_pos_nonneg; lia. Qed.

Lemma qpow2_succ z : (qpow2 (z + 1) == qpow2 z * inject_Z 2)%Q.
Proof.
  destruct (Z_lt_le_dec z 0) as [N|N].
  - destruct (Z.eq_dec z (-1)) as [->|Hne].
    + reflexivity.
    + rewrite (qpow2_neg_val z N), (qpow2_neg_val (z + 1)) by lia.
      unfold Qeq, Qmult. cbn [Qnum Qden inject_Z]. rewrite Pos.mul_1_r, !pos_pow by lia.
      replace (- z) with (1 + - (z + 1)) by lia. rewrite Z.pow_add_r by lia.
      change (2 ^ 1) with 2. lia.
  - rewrite !qpow2_nonneg_val by lia. rewrite Z.pow_add_r by lia. change (2 ^ 1) with 2.
    rewrite inject_Z_mult. reflexivity.
Qed.
Lemma qpow2_add a b : (qpow2 (a + b) == qpow2 a * qpow2 b)%Q.
Proof.
  revert a. 
  assert (P : forall n : nat, forall a, (qpow2 (a + Z.of_nat n) == qpow2 a * qpow2 (Z.of_nat n))%Q).
  { induction n as [|n IH]; intros a.
    - rewrite Z.add_0_r. change (qpow2 (Z.of_nat 0)) with 1%Q. now rewrite Qmult_1_r.
    - rewrite Nat2Z.inj_succ, <- Z.add_1_r, Z.add_assoc, !qpow2_succ, IH. ring. }
  intros a. destruct (Z_le_dec 0 b) as [Hb|Hb].
  - rewrite <- (Z2Nat.id b Hb). apply P.
  - (* b < 0: use a = (a + b) + (-b) *)
    assert (E := P (Z.to_nat (- b)) (a + b)). rewrite Z2Nat.id in E by lia.
    replace (a + b + - b) with a in E by lia.
    assert (E2 := P (Z.to_nat (- b)) b). rewrite Z2Nat.id in E2 by lia.
    replace (b + - b) with 0 in E2 by lia. change (qpow2 0) with 1%Q in E2.
    (* qpow2 a = qpow2 (a+b) * q(-b),  1 = q b * q(-b) *)
    assert (Pb := qpow2_pos (- b)).
    apply (Qmult_inj_r _ _ (qpow2 (- b))); [intros C; rewrite C in Pb; discriminate|].
    rewrite <- E. rewrite <- Qmult_assoc, <- E2. ring.
Qed.

(* ---------- floor(log2 (n/d)) ---------- *)
Lemma log2_bounds n : 0 < n -> 2 ^ Z.log2 n <= n < 2 ^ (Z.log2 n + 1).
Proof. intros H. pose proof (Z.log2_spec n H). replace (Z.log2 n + 1) with (Z.succ (Z.log2 n)) by lia. lia. Qed.

Lemma le_qpow2_iff n d e : 0 < n -> 0 < d ->
  (qpow2 e <= inject_Z n / inject_Z d)%Q <->
  (if 0 <=? e then d * 2 ^ e <= n else d <= n * 2 ^ (- e)).
Proof.
  intros Hn Hd.
  assert (Dq : (0 < inject_Z d)%Q) by (change 0%Q with (inject_Z 0); rewrite <- Zlt_Qlt; lia).
  split.
  - intros H. apply (Qmult_le_compat_r _ _ (inject_Z d)) in H; [|now apply Qlt_le_weak].
    unfold Qdiv in H. rewrite <- Qmult_assoc, (Qmult_comm (/ _)), Qmult_inv_r, Qmult_1_r in H
      by (intros C; rewrite C in Dq; discriminate).
    destruct (0 <=? e) eqn:E.
    + apply Z.leb_le in E. rewrite qpow2_nonneg_val in H by lia.
      rewrite <- inject_Z_mult, <- Zle_Qle in H. lia.
    + apply Z.leb_gt in E. rewrite qpow2_neg_val in H by lia.
      unfold Qle, Qmult in H. cbn [Qnum Qden inject_Z] in H. rewrite Pos.mul_1_r, pos_pow in H by lia. lia.
  - intros H. apply Qle_shift_div_l; [assumption|].
    destruct (0 <=? e) eqn:E.
    + apply Z.leb_le in E. rewrite qpow2_nonneg_val by lia.
      rewrite <- inject_Z_mult, <- Zle_Qle. lia.
    + apply Z.leb_gt in E. rewrite qpow2_neg_val by lia.
      unfold Qle, Qmult. cbn [Qnum Qden inject_Z]. rewrite Pos.mul_1_r, pos_pow by lia. lia.
Qed.

Lemma frac_as_div n d : 0 < d -> (inject_Z n / inject_Z d == n # Z.to_pos d)%Q.
Proof.
  intros Hd. unfold Qeq, Qdiv, Qmult, Qinv, inject_Z. cbn [Qnum Qden].
  destruct d as [|p|p]; try lia. cbn. lia.
Qed.

(* 2^e <= n/d < 2^(e+1) for e = ilog2_frac n d *)
Theorem ilog2_frac_spec n d : 0 < n -> 0 < d ->
  let e := ilog2_frac n d in
  (qpow2 e <= inject_Z n / inject_Z d)%Q /\ (inject_Z n / inject_Z d < qpow2 (e + 1))%Q.
Proof.
  intros Hn Hd. cbv zeta.
  pose proof (log2_bounds n Hn) as [Ln Un]. pose proof (log2_bounds d Hd) as [Ld Ud].
  set (ln := Z.log2 n) in *. set (ld := Z.log2 d) in *.
  assert (Hln : 0 <= ln) by apply Z.log2_nonneg. assert (Hld : 0 <= ld) by apply Z.log2_nonneg.
  assert (Dq : (0 < inject_Z d)%Q) by (change 0%Q with (inject_Z 0); rewrite <- Zlt_Qlt; lia).
  set (x := (inject_Z n / inject_Z d)%Q).
  (* 2^(e0-1) < x < 2^(e0+1) with e0 = ln - ld *)
  assert (Up : (x < qpow2 (ln - ld + 1))%Q).
  { unfold x. apply Qlt_shift_div_r; [assumption|].
    apply Qlt_le_trans with (inject_Z (2 ^ (ln + 1))); [rewrite <- Zlt_Qlt; lia|].
    rewrite <- (qpow2_nonneg_val (ln + 1)) by lia.
    replace (ln + 1) with ((ln - ld + 1) + ld) by lia. rewrite qpow2_add.
    apply Qmult_le_l; [apply qpow2_pos|]. rewrite qpow2_nonneg_val by lia. rewrite <- Zle_Qle. lia. }
  assert (Lo : (qpow2 (ln - ld - 1) <= x)%Q).
  { unfold x. apply Qle_shift_div_l; [assumption|].
    apply Qle_trans with (inject_Z (2 ^ ln)); [|rewrite <- Zle_Qle; lia].
    rewrite <- (qpow2_nonneg_val ln) by lia.
    replace ln with ((ln - ld - 1) + (ld + 1)) at 2 by lia. rewrite qpow2_add.
    apply Qmult_le_l; [apply qpow2_pos|]. rewrite qpow2_nonneg_val by lia. rewrite <- Zle_Qle. lia. }
  unfold ilog2_frac. fold ln ld.
  pose proof (le_qpow2_iff n d (ln - ld) Hn Hd) as Iff. fold x in Iff.
  destruct (0 <=? ln - ld) eqn:E.
  - destruct (d * 2 ^ (ln - ld) <=? n) eqn:T.
    + apply Z.leb_le in T. split; [now apply Iff|assumption].
    + apply Z.leb_gt in T. split; [assumption|].
      replace (ln - ld - 1 + 1) with (ln - ld) by lia.
      apply Qnot_le_lt. intros C. apply Iff in C. lia.
  - destruct (d <=? n * 2 ^ (- (ln - ld))) eqn:T.
    + apply Z.leb_le in T. split; [now apply Iff|assumption].
    + apply Z.leb_gt in T. split; [assumption|].
      replace (ln - ld - 1 + 1) with (ln - ld) by lia.
      apply Qnot_le_lt. intros C. apply Iff in C. lia.
Qed.

(* ---------- round to nearest integer ---------- *)
Theorem rne_spec (y : Q) : (0 <= y)%Q -> (Qabs (inject_Z (rne y) - y) <= 1 # 2)%Q.
Proof.
  intros Hy. destruct y as [n dp]. unfold rne. cbn [Qnum Qden].
  set (d := Z.pos dp). assert (Hd : 0 < d) by (unfold d; lia).
  assert (Hn : 0 <= n) by (unfold Qle in Hy; cbn in Hy; lia).
  pose proof (Z.div_mod n d ltac:(lia)) as E. pose proof (Z.mod_pos_bound n d Hd) as B.
  set (q := n / d) in *. set (r := n mod d) in *.
  assert (G : forall z, 2 * Z.abs (z * d - n) <= d -> (Qabs (inject_Z z - (n # dp)) <= 1 # 2)%Q).
  { intros z Hz. apply Qabs_Qle_condition. unfold Qle, Qminus, Qplus, Qopp, inject_Z.
    cbn [Qnum Qden]. rewrite Pos.mul_1_l. fold d. split; lia. }
  assert (A0 : q * d - n = - r) by (rewrite E; ring).
  assert (A1 : (q + 1) * d - n = d - r) by (rewrite E; ring).
  clearbody q r d.
  destruct (2 * r ?= d) eqn:C.
  - apply Z.compare_eq in C. destruct (Z.even q); apply G; [rewrite A0|rewrite A1]; lia.
  - rewrite Z.compare_lt_iff in C. apply G. rewrite A0. lia.
  - rewrite Z.compare_gt_iff in C. apply G. rewrite A1. lia.
Qed.

(* ---------- the rounding error ---------- *)
Lemma round_prec_pos_error p n dp :
  let x := (Z.pos n # dp)%Q in
  (Qabs (round_prec p x - x) <= x * qpow2 (- p))%Q.
Proof.
  cbv zeta. unfold round_prec. cbn [Qnum Qden].
  set (x := (Z.pos n # dp)%Q).
  pose proof (ilog2_frac_spec (Z.pos n) (Z.pos dp) ltac:(lia) ltac:(lia)) as [Lo Up].
  set (e := ilog2_frac (Z.pos n) (Z.pos dp)) in *.
  assert (Ex : (inject_Z (Z.pos n) / inject_Z (Z.pos dp) == x)%Q).
  { rewrite frac_as_div by lia. reflexivity. }
  rewrite Ex in Lo, Up.
  set (sh := p - 1 - e).
  set (y := (x * qpow2 sh)%Q).
  assert (Py : (0 <= y)%Q).
  { unfold y. apply Qmult_le_0_compat; [discriminate|apply Qlt_le_weak, qpow2_pos]. }
  pose proof (rne_spec y Py) as R.
  (* round - x = (rne y - y) * 2^-sh *)
  assert (D : (inject_Z (rne y) * qpow2 (- sh) - x == (inject_Z (rne y) - y) * qpow2 (- sh))%Q).
  { assert (I : (qpow2 sh * qpow2 (- sh) == 1)%Q).
    { rewrite <- qpow2_add. replace (sh + - sh) with 0 by lia. reflexivity. }
    assert (X1 : (y * qpow2 (- sh) == x)%Q).
    { unfold y. rewrite <- Qmult_assoc, I. apply Qmult_1_r. }
    generalize dependent (rne y). intros z _.
    transitivity (inject_Z z * qpow2 (- sh) - y * qpow2 (- sh))%Q.
    - now rewrite X1.
    - ring. }
  rewrite D, Qabs_Qmult, (Qabs_pos (qpow2 (- sh))) by (apply Qlt_le_weak, qpow2_pos).
  apply Qle_trans with ((1 # 2) * qpow2 (- sh))%Q.
  - apply Qmult_le_compat_r; [assumption|apply Qlt_le_weak, qpow2_pos].
  - (* 1/2 * 2^-sh = 2^(e-p) <= x * 2^-p *)
    assert (H2 : ((1 # 2) * qpow2 (- sh) == qpow2 e * qpow2 (- p))%Q).
    { unfold sh. replace (- (p - 1 - e)) with ((e + - p) + 1) by lia.
      rewrite qpow2_succ, qpow2_add. unfold inject_Z. 
      unfold Qeq, Qmult. cbn [Qnum Qden]. lia. }
    rewrite H2. apply Qmult_le_compat_r; [assumption|apply Qlt_le_weak, qpow2_pos].
Qed.

Theorem round_prec_error p (x : Q) :
  (Qabs (round_prec p x - x) <= Qabs x * qpow2 (- p))%Q.
Proof.
  destruct x as [[|n|n] dp].
  - unfold round_prec. cbn [Qnum]. 
    assert (Z0 : ((0 # dp) == 0)%Q) by reflexivity.
    rewrite Z0, Qmult_0_l. unfold Qle. cbn. lia.
  - rewrite (Qabs_pos (Z.pos n # dp)) by discriminate. apply round_prec_pos_error.
  - (* negative: symmetric *)
    pose proof (round_prec_pos_error p n dp) as H. cbv zeta in H.
    assert (Ab : (Qabs (Z.neg n # dp) == (Z.pos n # dp))%Q) by reflexivity.
    rewrite Ab.
    assert (E : (round_prec p (Z.neg n # dp) == - round_prec p (Z.pos n # dp))%Q).
    { reflexivity. }
    rewrite E.
    assert (S : (- round_prec p (Z.pos n # dp) - (Z.neg n # dp)
                 == - (round_prec p (Z.pos n # dp) - (Z.pos n # dp)))%Q).
    { assert (O : ((Z.neg n # dp) == - (Z.pos n # dp))%Q) by reflexivity. rewrite O. ring. }
    rewrite S, Qabs_opp. exact H.
Qed.

(* binary32 / binary64 instances: relative error at most 2^-24 / 2^-53 *)
Corollary round32_error x : (Qabs (round32 x - x) <= Qabs x * qpow2 (-24))%Q.
Proof. unfold round32. rewrite Qred_correct. apply round_prec_error. Qed.
Corollary round64_error x : (Qabs (round64 x - x) <= Qabs x * qpow2 (-53))%Q.
Proof. unfold round64. rewrite Qred_correct. apply round_prec_error. Qed.
