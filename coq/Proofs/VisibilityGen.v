(* The visibility kernels of the CURRENT numerics.pyx (Gen/VisibilityK.v is
   regenerated on every run) are the model of Model/Visibility.v. *)
From Coq Require Import QArith List Bool Arith String.
From PV.Model Require Import Visibility.
From PV.Gen Require Import VisibilityK.
Close Scope Q_scope.

Lemma gen_natural_is_model lt x t i j k :
  gen_no_missingvalues_cond lt x t i j k = nat_cond lt x t i j k.
Proof. reflexivity. Qed.
(* a NaN in x[i] or x[j] makes every comparison of the scan false: the model
   carries that as the two extra mask tests *)
Lemma gen_missing_is_model lt x t mv i j k :
  negb (mv i) && negb (mv j) && gen_missingvalues_cond lt x t mv i j k = mv_cond lt x t mv i j k.
Proof.
  unfold gen_missingvalues_cond, mv_cond, slope.
  destruct (mv i), (mv j), (mv k); cbn [negb andb]; reflexivity.
Qed.
Lemma gen_horizontal_is_model lt x i j k :
  gen_horizontal_cond lt x i j k = hor_cond lt x i j k.
Proof. reflexivity. Qed.
Lemma gen_trivial_links mv i :
  gen_no_missingvalues_trivial i = true /\ gen_horizontal_trivial i = true /\
  gen_missingvalues_trivial mv i = (negb (mv i) && negb (mv (S i))).
Proof. repeat split. Qed.
Lemma gen_slope_types :
  gen_no_missingvalues_type = "FIELD_t"%string /\ gen_missingvalues_type = "FIELD_t"%string /\
  gen_horizontal_type = "FIELD_t"%string.
Proof. repeat split. Qed.
