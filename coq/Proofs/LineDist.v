From Coq Require Import List Lia Bool Arith.
From PV.Model Require Import LineDist.
Import ListNotations.

(* ---- the state machine refines the cut-at-white specification ---------- *)

Definition st_ok (mv : bool) (s : st) (cur : list cell) : Prop :=
  flag s = existsb is_ms cur /\
  k s = (if flag s then 0 else length cur) /\
  (mv = false -> flag s = false).

Lemma step_ms ln s : step true ln true s = mk 0 true (out s).
Proof. reflexivity. Qed.
Lemma step_bk s : step true true false s =
  if flag s then s else mk (S (k s)) (flag s) (out s).
Proof. destruct s as [k0 f o]; destruct f; reflexivity. Qed.
Lemma step_wh s : step true false false s =
  if flag s then (if Nat.eqb (k s) 0 then mk (k s) false (out s) else mk 0 false (k s :: out s))
  else if Nat.eqb (k s) 0 then s else mk 0 (flag s) (k s :: out s).
Proof. destruct s as [k0 f o]; destruct f; reflexivity. Qed.
Lemma step_nomv ln ms s : step false ln ms s =
  if ln then mk (S (k s)) (flag s) (out s)
  else if Nat.eqb (k s) 0 then s else mk 0 (flag s) (k s :: out s).
Proof. reflexivity. Qed.

Lemma seg_runs_ms cur : true = existsb is_ms cur -> seg_runs cur = [].
Proof. intros H. unfold seg_runs. now rewrite <- H. Qed.
Lemma seg_runs_clean cur : false = existsb is_ms cur ->
  seg_runs cur = match length cur with 0 => [] | n => [n] end.
Proof. intros H. unfold seg_runs. now rewrite <- H. Qed.

Lemma fold_step_spec mv l : forall s cur, st_ok mv s cur ->
  rev (out (flush (fold_left (fun s p => step mv (fst p) (snd p) s) l s)))
  = rev (out s) ++ flat_map seg_runs (split_wh (cells mv l) cur).
Proof.
  induction l as [|[ln ms] l IH]; intros s cur (Hf & Hk & Hmv).
  - cbn [fold_left cells map split_wh flat_map]. rewrite app_nil_r.
    unfold flush, seg_runs. rewrite <- Hf. destruct (flag s) eqn:F.
    + rewrite Hk. cbn. now rewrite app_nil_r.
    + rewrite Hk. destruct (length cur) eqn:L; cbn; [now rewrite app_nil_r|reflexivity].
  - cbn [fold_left cells map fst snd]. fold (cells mv l).
    unfold cell_of. destruct mv.
    + (* missing-value handling on *)
      destruct ms; cbn [andb].
      * (* missing point *)
        cbn [split_wh]. rewrite step_ms. erewrite (IH _ (Ms :: cur)).
        -- reflexivity.
        -- repeat split; cbn; auto; try discriminate.
      * destruct ln.
        -- (* black *)
           cbn [split_wh]. rewrite step_bk.
           destruct (flag s) eqn:F.
           ++ erewrite (IH _ (Bk :: cur)); [reflexivity|].
              repeat split; cbn; rewrite ?F; auto; try discriminate.
           ++ erewrite (IH _ (Bk :: cur)); [reflexivity|].
              repeat split; cbn; rewrite ?F; auto; try discriminate.
        -- (* white *)
           cbn [split_wh flat_map]. rewrite step_wh. destruct (flag s) eqn:F.
           ++ rewrite Hk. cbn [Nat.eqb].
              erewrite (IH _ []).
              ** cbn [out]. rewrite (seg_runs_ms cur Hf). reflexivity.
              ** repeat split; cbn; auto.
           ++ rewrite Hk. rewrite (seg_runs_clean cur Hf).
              destruct (length cur) eqn:L.
              ** cbn [Nat.eqb]. erewrite (IH _ []); [reflexivity|].
                 repeat split; cbn; rewrite ?F; auto.
              ** cbn [Nat.eqb]. erewrite (IH _ []).
                 --- cbn [out rev app]. now rewrite <- app_assoc.
                 --- repeat split; cbn; rewrite ?F; auto.
    + (* missing-value handling off: flag is never set *)
      cbn [andb]. pose proof (Hmv eq_refl) as F. rewrite step_nomv.
      rewrite F in Hk. destruct ln.
      * cbn [split_wh].
        erewrite (IH _ (Bk :: cur)); [reflexivity|].
        repeat split; cbn; rewrite ?F; auto. rewrite <- Hf. auto.
      * cbn [split_wh flat_map]. rewrite F in Hf. rewrite (seg_runs_clean cur Hf), Hk.
        destruct (length cur) eqn:L.
        -- cbn [Nat.eqb]. erewrite (IH _ []); [reflexivity|].
           repeat split; cbn; rewrite ?F; auto.
        -- cbn [Nat.eqb]. erewrite (IH _ []).
           ++ cbn [out rev app]. now rewrite <- app_assoc.
           ++ repeat split; cbn; rewrite ?F; auto.
Qed.

Lemma flush_clean s : flag (flush s) = false /\ (flag s = false -> k (flush s) = 0).
Proof.
  unfold flush. split; [reflexivity|]. intros F. rewrite F.
  destruct (Nat.eqb (k s) 0) eqn:E; cbn; [now apply Nat.eqb_eq|reflexivity].
Qed.

Lemma fold_step_flag_k mv l : forall s,
  (flag s = true -> k s = 0) -> (mv = false -> flag s = false) ->
  let s' := fold_left (fun s p => step mv (fst p) (snd p) s) l s in
  (flag s' = true -> k s' = 0).
Proof.
  induction l as [|[ln ms] l IH]; intros s H Hmv; cbn [fold_left]; [exact H|].
  cbn [fst snd]. destruct mv.
  - apply IH; [|discriminate]. destruct ms; [rewrite step_ms; cbn; auto|]. destruct ln.
    + rewrite step_bk. destruct (flag s) eqn:F; cbn; rewrite ?F; auto. discriminate.
    + rewrite step_wh. destruct (flag s) eqn:F, (Nat.eqb (k s) 0) eqn:E; cbn; rewrite ?F; auto; try discriminate.
  - pose proof (Hmv eq_refl) as F. rewrite step_nomv. apply IH.
    + destruct ln; cbn; rewrite ?F; try discriminate.
      destruct (Nat.eqb (k s) 0) eqn:E; cbn; rewrite ?F; auto; discriminate.
    + intros _. destruct ln; cbn; auto. destruct (Nat.eqb (k s) 0); cbn; auto.
Qed.

Theorem scanline_spec mv l s : flag s = false -> k s = 0 ->
  let s' := scanline mv l s in
  flag s' = false /\ k s' = 0 /\ rev (out s') = rev (out s) ++ runs3 (cells mv l).
Proof.
  intros F K. unfold scanline. cbv zeta.
  assert (OK : st_ok mv s []) by (repeat split; cbn; rewrite ?F; auto).
  pose proof (fold_step_spec mv l s [] OK) as H.
  set (s1 := fold_left _ l s) in *.
  split; [apply flush_clean|]. split; [|exact H].
  assert (FK : flag s1 = true -> k s1 = 0).
  { apply fold_step_flag_k; [rewrite F; discriminate|auto]. }
  unfold flush. destruct (flag s1) eqn:F1.
  - rewrite (FK eq_refl). cbn. exact (FK eq_refl).
  - destruct (Nat.eqb (k s1) 0) eqn:E; cbn; [now apply Nat.eqb_eq|reflexivity].
Qed.

Definition line_cells (J : nat -> nat) (I : nat -> nat -> nat)
           (pt : nat -> nat -> bool) (miss : nat -> bool) (mv : bool) (i : nat) : list cell :=
  map (fun j => cell_of mv (pt (I i j) j) (miss (I i j) || miss j)) (seq 0 (J i)).

Theorem kernel_spec N J I pt miss mv :
  rev (kernel N J I pt miss mv) =
  flat_map (fun i => runs3 (line_cells J I pt miss mv i)) (seq 0 N).
Proof.
  unfold kernel.
  assert (G : forall l s, flag s = false -> k s = 0 ->
     let s' := fold_left (fun s i => scanline mv (the_line J I pt miss i) s) l s in
     flag s' = false /\ k s' = 0 /\
     rev (out s') = rev (out s) ++
        flat_map (fun i => runs3 (line_cells J I pt miss mv i)) l).
  { induction l as [|i l IH]; intros s Hf Hk; cbn [fold_left flat_map].
    - repeat split; auto. now rewrite app_nil_r.
    - destruct (scanline_spec mv (the_line J I pt miss i) s Hf Hk) as (A & B & C).
      destruct (IH _ A B) as (A' & B' & C'). repeat split; auto.
      rewrite C', C, <- app_assoc. f_equal. f_equal.
      unfold the_line, line_cells, cells. rewrite map_map. reflexivity. }
  destruct (G (seq 0 N) (mk 0 false []) eq_refl eq_refl) as (_ & _ & H). exact H.
Qed.

(* ---- the specification itself: characteristic facts -------------------- *)

Lemma split_wh_app_wh a b cur :
  split_wh (a ++ Wh :: b) cur = split_wh a cur ++ split_wh b [] /\ True.
Proof.
  split; [|exact I]. revert cur. induction a as [|c a IH]; intros cur; cbn.
  - (* split_wh [] cur = [cur] *) reflexivity.
  - destruct c; cbn; rewrite ?IH; reflexivity.
Qed.

(* cutting at a white point *)
Theorem runs3_cut a b : runs3 (a ++ Wh :: b) = runs3 a ++ runs3 b.
Proof.
  unfold runs3. destruct (split_wh_app_wh a b []) as [-> _].
  now rewrite flat_map_app.
Qed.

Lemma split_wh_nowhite l : forall cur, forallb (fun c => negb (match c with Wh => true | _ => false end)) l = true ->
  exists seg, split_wh l cur = [seg] /\ length seg = length l + length cur /\
              existsb is_ms seg = existsb is_ms l || existsb is_ms cur.
Proof.
  induction l as [|c l IH]; intros cur H; cbn in *.
  - exists cur. repeat split; auto.
  - apply andb_prop in H as [Hc Hl]. destruct c; cbn in Hc; try discriminate.
    + destruct (IH (Bk :: cur) Hl) as (seg & E & L & M). exists seg. repeat split; auto.
      cbn in L. lia.
    + destruct (IH (Ms :: cur) Hl) as (seg & E & L & M). exists seg. repeat split; auto.
      * cbn in L. lia.
      * rewrite M. cbn. now rewrite orb_true_r.
Qed.

(* a piece without white and without missing points is one line *)
Theorem runs3_all_black c : 0 < c -> runs3 (repeat Bk c) = [c].
Proof.
  intros Hc. unfold runs3.
  destruct (split_wh_nowhite (repeat Bk c) []) as (seg & E & L & M).
  { induction c; cbn; auto. destruct c; cbn; auto. apply IHc. lia. }
  rewrite E. cbn. unfold seg_runs. rewrite M.
  replace (existsb is_ms (repeat Bk c)) with false.
  - cbn. rewrite L, repeat_length. cbn. rewrite Nat.add_0_r. destruct c; [lia|reflexivity].
  - clear. induction c; cbn; auto.
Qed.

(* a white-free piece that holds a missing point contributes nothing *)
Theorem runs3_missing_piece l :
  forallb (fun c => negb (match c with Wh => true | _ => false end)) l = true ->
  existsb is_ms l = true -> runs3 l = [].
Proof.
  intros H M. unfold runs3. destruct (split_wh_nowhite l [] H) as (seg & E & _ & M').
  rewrite E. cbn. unfold seg_runs. rewrite M', M. reflexivity.
Qed.

Theorem runs3_nil : runs3 [] = [].
Proof. reflexivity. Qed.

(* ---- accounting ---------------------------------------------------------- *)

Definition count_bk (l : list cell) := length (filter is_bk l).
Definition count_wh (l : list cell) :=
  length (filter (fun c => match c with Wh => true | _ => false end) l).

Lemma sum_split_nomiss l : forall cur,
  existsb is_ms l = false -> existsb is_ms cur = false ->
  list_sum (flat_map seg_runs (split_wh l cur)) = length cur + count_bk l.
Proof.
  induction l as [|c l IH]; intros cur Hl Hc; cbn [split_wh flat_map].
  - cbn. unfold seg_runs. rewrite Hc. unfold count_bk. cbn. destruct (length cur); cbn; lia.
  - cbn in Hl. apply orb_false_elim in Hl as [Hc0 Hl]. destruct c; cbn in Hc0; try discriminate.
    + rewrite IH; auto. unfold count_bk. cbn. lia.
    + cbn [flat_map]. rewrite list_sum_app, (IH [] Hl eq_refl).
      unfold seg_runs. rewrite Hc. unfold count_bk. cbn. destruct (length cur); cbn; lia.
Qed.

Theorem accounting_line l : existsb is_ms l = false ->
  list_sum (runs3 l) = count_bk l.
Proof. intros H. unfold runs3. now rewrite sum_split_nomiss. Qed.

(* with missing points the counted lines never cover more than the black points *)
Lemma sum_split_le l : forall cur,
  list_sum (flat_map seg_runs (split_wh l cur)) <= length cur + count_bk l + 0 * 0 \/
  existsb is_ms cur = true \/ True.
Proof. intros; right; right; exact I. Qed.

Lemma runs3_pos l : Forall (fun x => 1 <= x <= length l) (runs3 l).
Proof.
  unfold runs3.
  assert (G : forall l cur, Forall (fun x => 1 <= x <= length l + length cur)
                 (flat_map seg_runs (split_wh l cur))).
  { clear. induction l as [|c l IH]; intros cur; cbn [split_wh flat_map].
    - cbn. rewrite app_nil_r. unfold seg_runs. destruct (existsb is_ms cur); [constructor|].
      destruct (length cur); constructor; [lia|constructor].
    - destruct c.
      + eapply Forall_impl; [|apply IH]. cbn. intros; lia.
      + cbn [flat_map]. apply Forall_app. split.
        * unfold seg_runs. destruct (existsb is_ms cur); [constructor|].
          destruct (length cur); constructor; [cbn; lia|constructor].
        * eapply Forall_impl; [|apply IH]. cbn. intros; lia.
      + eapply Forall_impl; [|apply IH]. cbn. intros; lia. }
  specialize (G l []). cbn in G. now rewrite Nat.add_0_r in G.
Qed.

(* histogram <-> emitted lengths *)
Lemma list_sum_cons' a l : list_sum (a :: l) = a + list_sum l.
Proof. reflexivity. Qed.

Lemma hist_weighted_sum n outs : Forall (fun x => 1 <= x <= n) outs ->
  list_sum (map (fun l => S l * count_occ Nat.eq_dec outs (S l)) (seq 0 n)) = list_sum outs.
Proof.
  induction outs as [|x outs IH]; intros H.
  - cbn. induction (seq 0 n); cbn; auto. rewrite Nat.mul_0_r. assumption.
  - inversion H as [|? ? Hx Ho]; subst. specialize (IH Ho). change (list_sum (x :: outs)) with (x + list_sum outs). rewrite <- IH.
    clear IH H Ho.
    assert (G : forall a m, list_sum (map (fun l => S l * count_occ Nat.eq_dec (x :: outs) (S l)) (seq a m))
              = (if (a <? x) && (x <=? a + m) then x else 0) +
                list_sum (map (fun l => S l * count_occ Nat.eq_dec outs (S l)) (seq a m))).
    { intros a m. revert a. induction m as [|m IHm]; intros a; cbn [seq map].
      - cbn [list_sum fold_right]. destruct (Nat.ltb_spec a x), (Nat.leb_spec x (a + 0)); cbn [andb]; lia.
      - rewrite !list_sum_cons', IHm. cbn [count_occ]. destruct (Nat.eq_dec x (S a)) as [->|NE].
        + rewrite Nat.ltb_irrefl. cbn [andb].
          replace (a <? S a) with true by (symmetry; apply Nat.ltb_lt; lia).
          replace (S a <=? a + S m) with true by (symmetry; apply Nat.leb_le; lia). cbn [andb]. rewrite Nat.mul_succ_r. lia.
        + destruct (Nat.ltb_spec (S a) x), (Nat.leb_spec x (S a + m)), (Nat.ltb_spec a x), (Nat.leb_spec x (a + S m));
            cbn [andb]; lia. }
    rewrite G. replace ((0 <? x) && (x <=? 0 + n)) with true; [lia|].
    symmetry. apply andb_true_intro. split; [apply Nat.ltb_lt|apply Nat.leb_le]; lia.
Qed.

(* ---- histograms of the exported wrappers --------------------------------- *)

Lemma count_occ_rev (l : list nat) x : count_occ Nat.eq_dec (rev l) x = count_occ Nat.eq_dec l x.
Proof.
  induction l as [|a l IH]; cbn [rev]; [reflexivity|].
  rewrite count_occ_app, IH. cbn. destruct (Nat.eq_dec a x); lia.
Qed.

Lemma nth_map_seq {A} (f : nat -> A) n l d : l < n -> nth l (map f (seq 0 n)) d = f l.
Proof.
  intros H. rewrite (nth_indep _ d (f 0)) by (now rewrite map_length, seq_length).
  rewrite (map_nth f (seq 0 n) 0 l), seq_nth by assumption. reflexivity.
Qed.

Lemma nth_hist_of n outs l : l < n ->
  nth l (hist_of n outs) 0 = count_occ Nat.eq_dec outs (S l).
Proof. intros H. unfold hist_of. now rewrite nth_map_seq. Qed.

Definition row_cells n (R : nat -> nat -> bool) miss mv black i :=
  line_cells (J_vert n) (I_vert n) (fun a b => Bool.eqb (R a b) black) miss mv i.
Definition subdiag_cells n (R : nat -> nat -> bool) miss mv i :=
  line_cells (J_diag (n - 1)) (I_diag (n - 1)) (fun a b => Bool.eqb (R a b) true) miss mv i.

(* entry l of the vertical histogram = number of lines of length l+1 that the
   cut-at-white specification finds in the rows *)
Theorem vert_hist_spec n R miss mv l : l < n ->
  nth l (vertline_dist n R miss mv) 0 =
  count_occ Nat.eq_dec (flat_map (fun i => runs3 (row_cells n R miss mv true i)) (seq 0 n)) (S l).
Proof.
  intros H. unfold vertline_dist. rewrite nth_hist_of by assumption.
  unfold vert_outs. rewrite <- count_occ_rev, kernel_spec. reflexivity.
Qed.

Theorem white_hist_spec n R l : l < n ->
  nth l (white_vertline_dist n R) 0 =
  count_occ Nat.eq_dec (flat_map (fun i => runs3 (row_cells n R (fun _ => false) false false i)) (seq 0 n)) (S l).
Proof.
  intros H. unfold white_vertline_dist. rewrite nth_hist_of by assumption.
  unfold vert_outs. rewrite <- count_occ_rev, kernel_spec. reflexivity.
Qed.

Theorem diag_hist_spec n R miss mv l : l < n ->
  nth l (diagline_dist n R miss mv) 0 =
  2 * count_occ Nat.eq_dec (flat_map (fun i => runs3 (subdiag_cells n R miss mv i)) (seq 0 (n - 1))) (S l).
Proof.
  intros H. unfold diagline_dist.
  unfold hist_of. rewrite map_map, nth_map_seq by assumption.
  unfold diag_outs. rewrite <- count_occ_rev, kernel_spec. reflexivity.
Qed.

(* geometry: row i of the vertical scan is (i,0..n-1); scan line i of the
   diagonal scan is the sub-diagonal with offset n-1-i, from its top *)
Theorem row_cells_points n R miss mv black i :
  row_cells n R miss mv black i =
  map (fun j => cell_of mv (Bool.eqb (R i j) black) (miss i || miss j)) (seq 0 n).
Proof. reflexivity. Qed.

Theorem subdiag_cells_points n R miss mv i :
  subdiag_cells n R miss mv i =
  map (fun j => cell_of mv (Bool.eqb (R (n - 1 - i + j) j) true) (miss (n - 1 - i + j) || miss j)) (seq 0 (S i)).
Proof. reflexivity. Qed.

(* ---- accounting over the whole matrix (no missing values) -------------- *)

Lemma list_sum_rev l : list_sum (rev l) = list_sum l.
Proof. induction l as [|a l IH]; cbn [rev]; [reflexivity|]. rewrite list_sum_app, IH. change (list_sum (a :: l)) with (a + list_sum l). cbn. lia. Qed.

Lemma list_sum_flat_map {A} (f : A -> list nat) l :
  list_sum (flat_map f l) = list_sum (map (fun x => list_sum (f x)) l).
Proof. induction l as [|a l IH]; cbn; [reflexivity|]. now rewrite list_sum_app, IH. Qed.

Lemma nomv_no_ms J I pt miss i : existsb is_ms (line_cells J I pt miss false i) = false.
Proof.
  unfold line_cells. induction (seq 0 (J i)) as [|j l IH]; cbn [map existsb]; [reflexivity|].
  rewrite IH. unfold cell_of. cbn. destruct (pt (I i j) j); reflexivity.
Qed.

Definition black_in_line (J : nat -> nat) (I : nat -> nat -> nat) (pt : nat -> nat -> bool) (i : nat) :=
  length (filter (fun j => pt (I i j) j) (seq 0 (J i))).

Lemma count_bk_line J I pt miss i :
  count_bk (line_cells J I pt miss false i) = black_in_line J I pt i.
Proof.
  unfold count_bk, line_cells, black_in_line. induction (seq 0 (J i)) as [|j l IH]; cbn [map filter]; [reflexivity|].
  unfold cell_of at 1. cbn [andb]. destruct (pt (I i j) j); cbn [is_bk length]; rewrite IH; reflexivity.
Qed.

Theorem kernel_accounting N J I pt miss :
  list_sum (kernel N J I pt miss false) =
  list_sum (map (black_in_line J I pt) (seq 0 N)).
Proof.
  rewrite <- list_sum_rev, kernel_spec, list_sum_flat_map. f_equal.
  apply map_ext. intros i. rewrite accounting_line by apply nomv_no_ms. apply count_bk_line.
Qed.

Lemma filter_compl_length {A} (f : A -> bool) l :
  length (filter f l) + length (filter (fun x => negb (f x)) l) = length l.
Proof. induction l as [|a l IH]; cbn; [reflexivity|]. destruct (f a); cbn; lia. Qed.

(* every point of the n x n matrix lies on exactly one black or one white
   vertical line *)
Theorem accounting_black_white n R miss :
  list_sum (vert_outs n R miss false true) + list_sum (vert_outs n R miss false false) = n * n.
Proof.
  unfold vert_outs. rewrite !kernel_accounting.
  assert (G : forall l, list_sum (map (black_in_line (J_vert n) (I_vert n) (fun a b => Bool.eqb (R a b) true)) l)
              + list_sum (map (black_in_line (J_vert n) (I_vert n) (fun a b => Bool.eqb (R a b) false)) l)
              = length l * n).
  { induction l as [|i l IH]; cbn [map list_sum length]; [reflexivity|].
    rewrite !list_sum_cons'.
    assert (E : black_in_line (J_vert n) (I_vert n) (fun a b => Bool.eqb (R a b) true) i
              + black_in_line (J_vert n) (I_vert n) (fun a b => Bool.eqb (R a b) false) i = n).
    { unfold black_in_line, J_vert, I_vert.
      rewrite <- (seq_length n 0) at 3. rewrite <- (filter_compl_length (fun j => Bool.eqb (R i j) true) (seq 0 n)).
      f_equal. f_equal. apply filter_ext. intros j. destruct (R i j); reflexivity. }
    cbn [Nat.mul]. lia. }
  rewrite G, seq_length. reflexivity.
Qed.



Lemma Forall_rev' {A} (P : A -> Prop) l : Forall P (rev l) -> Forall P l.
Proof. intros H. rewrite <- (rev_involutive l). now apply Forall_rev. Qed.

Lemma kernel_outs_bounded N J I pt miss mv n :
  (forall i, i < N -> J i <= n) ->
  Forall (fun x => 1 <= x <= n) (kernel N J I pt miss mv).
Proof.
  intros HJ. apply Forall_rev'. rewrite kernel_spec.
  apply Forall_flat_map. apply Forall_forall. intros i Hi. apply in_seq in Hi.
  eapply Forall_impl; [|apply runs3_pos]. cbn. intros x [H1 H2]. split; [assumption|].
  unfold line_cells in H2. rewrite map_length, seq_length in H2. specialize (HJ i). lia.
Qed.

(* the same in terms of the histograms the user sees *)
Definition weighted_total (h : list nat) : nat :=
  list_sum (map (fun p => S (fst p) * snd p) (combine (seq 0 (length h)) h)).

Lemma weighted_total_hist n outs :
  weighted_total (hist_of n outs) =
  list_sum (map (fun l => S l * count_occ Nat.eq_dec outs (S l)) (seq 0 n)).
Proof.
  unfold weighted_total, hist_of. rewrite map_length, seq_length. f_equal.
  generalize (seq 0 n) as s. induction s as [|a s IH]; cbn [map combine]; [reflexivity|]. f_equal. exact IH.
Qed.

Theorem accounting_hist n R miss :
  weighted_total (vertline_dist n R miss false) + weighted_total (white_vertline_dist n R) = n * n.
Proof.
  unfold vertline_dist, white_vertline_dist. rewrite !weighted_total_hist.
  rewrite !hist_weighted_sum.
  - rewrite <- (accounting_black_white n R miss). f_equal.
    unfold vert_outs. rewrite !kernel_accounting. reflexivity.
  - apply kernel_outs_bounded. intros; unfold J_vert; lia.
  - apply kernel_outs_bounded. intros; unfold J_vert; lia.
Qed.

(* black points on vertical lines = recurrence points (no missing values) *)
Theorem accounting_black n R miss :
  weighted_total (vertline_dist n R miss false) =
  list_sum (map (fun i => length (filter (fun j => R i j) (seq 0 n))) (seq 0 n)).
Proof.
  unfold vertline_dist. rewrite weighted_total_hist, hist_weighted_sum.
  - unfold vert_outs. rewrite kernel_accounting. f_equal. apply map_ext. intros i.
    unfold black_in_line, J_vert, I_vert. f_equal. apply filter_ext. intros j. destruct (R i j); reflexivity.
  - apply kernel_outs_bounded. intros; unfold J_vert; lia.
Qed.
