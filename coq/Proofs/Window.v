From Coq Require Import QArith Lqa List Bool Arith Lia.
From PV.Base Require Import F32 ListX.
From PV.Model Require Import Window.
From PV.Proofs Require Import Visibility.
Import ListNotations.
Close Scope Q_scope. Close Scope Z_scope. Open Scope nat_scope.

Lemma leQ_spec a b : leQ a b = true <-> (a <= b)%Q.
Proof.
  unfold leQ. rewrite negb_true_iff. destruct (ltQ b a) eqn:E.
  - apply ltQ_spec in E. split; [discriminate|lra].
  - split; [intros _|reflexivity]. destruct (Qlt_le_dec b a) as [H|H]; [|exact H].
    apply ltQ_spec in H. congruence.
Qed.

(* a sample is exposed iff its coordinate lies in the closed window, the full
   range when the two bounds coincide *)
Theorem axis_mask_spec lo hi vals k : k < length vals ->
  nth k (axis_mask lo hi vals) false = true <->
  (lo == hi)%Q \/ (lo <= nth k vals 0 <= hi)%Q.
Proof.
  intros Hk. unfold axis_mask, eqQ. destruct (Qeq_bool lo hi) eqn:E.
  - apply Qeq_bool_iff in E. rewrite (nth_map' _ _ k false 0%Q) by assumption. tauto.
  - rewrite (nth_map' _ _ k false 0%Q) by assumption. unfold in_closed. rewrite andb_true_iff, !leQ_spec.
    split; [tauto|]. intros [H|H]; [|exact H]. apply Qeq_bool_iff in H. congruence.
Qed.

Theorem axis_mask_length lo hi vals : length (axis_mask lo hi vals) = length vals.
Proof. unfold axis_mask. destruct (eqQ lo hi); now rewrite map_length. Qed.

(* the global window (all bounds equal) exposes everything *)
Lemma pick_all {A} (l : list A) : pick (map (fun _ => true) l) l = l.
Proof. induction l; cbn; congruence. Qed.
Theorem global_window_restores obs times (lat lon : list Q) b :
  length times = length obs -> (forall r, In r obs -> length r = length lat) -> length lon = length lat ->
  window (axis_mask b b times) (space_mask false b b b b lat lon) obs = obs.
Proof.
  intros Ht Hr Hl. unfold window, axis_mask, space_mask, eqQ.
  assert (E : Qeq_bool b b = true) by (apply Qeq_bool_iff; reflexivity). rewrite E. cbn [orb].
  replace (map (fun _ : Q => true) times) with (map (fun _ : list Q => true) obs).
  - rewrite pick_all. rewrite <- (map_id obs) at 2. apply map_ext_in. intros r Hin.
    specialize (Hr r Hin). replace (map (fun _ : Q => true) lat) with (map (fun _ : Q => true) r); [apply pick_all|].
    clear -Hr. revert lat Hr. induction r as [|a r IH]; intros [|b lat] H; cbn in *; try lia; auto.
    f_equal. apply IH. lia.
  - clear -Ht. revert obs Ht. induction times as [|a t IH]; intros [|o obs] H; cbn in *; try lia; auto.
    f_equal. apply IH. lia.
Qed.

(* shapes agree: every exposed row has as many entries as the space mask keeps *)
Lemma pick_length {A} (m : list bool) (l : list A) : length m = length l ->
  length (pick m l) = length (filter (fun b => b) m).
Proof.
  revert l. induction m as [|b m IH]; intros [|a l] H; cbn in *; try lia.
  destruct b; cbn; rewrite IH; lia.
Qed.
Theorem window_shape tmask smask obs :
  length tmask = length obs -> (forall r, In r obs -> length r = length smask) ->
  length (window tmask smask obs) = length (filter (fun b => b) tmask) /\
  forall r, In r (window tmask smask obs) -> length r = length (filter (fun b => b) smask).
Proof.
  intros Ht Hr. unfold window. split.
  - rewrite map_length. now apply pick_length.
  - intros r Hin. apply in_map_iff in Hin as (r0 & <- & Hin).
    apply pick_length. symmetry. apply Hr.
    clear -Hin. revert obs Hin. induction tmask as [|b m IH]; intros [|o obs] H; cbn in *; try tauto.
    destruct b; [destruct H as [->|H]; [now left|right; eauto]|right; eauto].
Qed.

(* ---- anomalies ---- *)
Open Scope Q_scope.
Lemma qsum_sub l m : qsum (map (fun v => v - m) l) == qsum l - inject_Z (Z.of_nat (length l)) * m.
Proof.
  induction l as [|a l IH]; [cbn; ring|].
  cbn [map qsum fold_right length]. fold (qsum (map (fun v => v - m) l)). fold (qsum l). rewrite IH.
  rewrite Nat2Z.inj_succ, <- Z.add_1_r, inject_Z_plus. ring.
Qed.

(* the anomalies of every phase sum to zero (zero mean), whatever the cycle
   length, also when it does not divide the record *)
Theorem anomaly_zero_phase_sum x c i : c <> 0%nat -> phase_vals x c i <> [] ->
  qsum (map (fun v => v - phase_mean x c i) (phase_vals x c i)) == 0.
Proof.
  intros Hc Hne. rewrite qsum_sub. unfold phase_mean, qmean.
  assert (H : ~ inject_Z (Z.of_nat (length (phase_vals x c i))) == 0).
  { destruct (phase_vals x c i) as [|v l]; [contradiction|]. cbn [length].
    rewrite Nat2Z.inj_succ. intros E. unfold Qeq in E. cbn in E. lia. }
  field. exact H.
Qed.

(* anomaly + phase mean = observable, sample by sample *)
Theorem anomaly_plus_mean x c k : (k < length x)%nat ->
  nth k (anomaly x c) 0 + phase_mean x c (k mod c) == nth k x 0.
Proof.
  intros Hk. unfold anomaly.
  rewrite (nth_map' _ _ k 0 0%nat) by (now rewrite seq_length).
  rewrite seq_nth by assumption. cbn [Nat.add]. ring.
Qed.

(* the anomaly of sample k really is an element of phase (k mod c) *)
Theorem anomaly_nth x c k : (k < length x)%nat ->
  nth k (anomaly x c) 0 == nth k x 0 - phase_mean x c (k mod c).
Proof.
  intros Hk. unfold anomaly.
  rewrite (nth_map' _ _ k 0 0%nat) by (now rewrite seq_length).
  rewrite seq_nth by assumption. reflexivity.
Qed.
Close Scope Q_scope.

Theorem anomaly_length x c : length (anomaly x c) = length x.
Proof. unfold anomaly. now rewrite map_length, seq_length. Qed.

(* phase_indices lists complete cycles only, inside the record *)
Theorem phase_indices_in_range n c i k : c <> 0 -> i < c -> In k (phase_indices n c i) ->
  k < n /\ k mod c = i.
Proof.
  intros Hc Hi Hin. unfold phase_indices in Hin. apply in_map_iff in Hin as (y & <- & Hy).
  apply in_seq in Hy. split.
  - pose proof (Nat.div_mod_eq n c). assert (S y * c <= (n / c) * c) by (apply Nat.mul_le_mono_r; lia). nia.
  - rewrite Nat.mod_add by assumption. now apply Nat.mod_small.
Qed.
