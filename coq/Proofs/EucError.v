(* C12: the squared Euclidean distance accumulated by the kernel (binary32
   rounding after every operation) is within (d + 4) * 2^-23 relative of the
   exact sum of squares, for d dimensions. *)
From Coq Require Import ZArith QArith Qabs List Lia Lqa.
From PV.Base Require Import F32.
From PV.Model Require Import Grid.
From PV.Proofs Require Import F32Error CosError.
Import ListNotations.
Open Scope Q_scope.

Lemma u_bounds : 0 < u /\ u <= 1 # 1000000.
Proof. rewrite u_val. split; reflexivity || discriminate. Qed.

Lemma abs_sq x : Qabs x * Qabs x == x * x.
Proof. rewrite <- Qabs_Qmult. apply Qabs_pos. 
  unfold Qle, Qmult. cbn. rewrite Z.mul_1_r. apply Z.square_nonneg. Qed.

(* one squared difference *)
Lemma term_error a b :
  Qabs (fsq 32 (fsub 32 a b) - (a - b) * (a - b)) <= 4 * u * ((a - b) * (a - b)).
Proof.
  destruct u_bounds as [U0 U1]. unfold fsq, fsub.
  set (dl := a - b). set (d1 := rnd 32 dl).
  pose proof (rnd32_err dl) as E1. fold d1 in E1.
  pose proof (rnd32_err (d1 * d1)) as E2.
  set (A := Qabs dl) in *. assert (PA : 0 <= A) by apply Qabs_nonneg.
  assert (DD : dl * dl == A * A) by (unfold A; now rewrite abs_sq).
  (* |d1| <= (1+u) A,  |d1 + dl| <= (2+u) A *)
  assert (B1 : Qabs d1 <= A + A * u).
  { assert (E : d1 == dl + (d1 - dl)) by ring. rewrite E. eapply Qle_trans; [apply Qabs_triangle|].
    apply Qplus_le_compat; [apply Qle_refl|assumption]. }
  assert (B2 : Qabs (d1 + dl) <= (A + A * u) + A).
  { eapply Qle_trans; [apply Qabs_triangle|]. apply Qplus_le_compat; [assumption|apply Qle_refl]. }
  (* d1^2 - dl^2 *)
  assert (S1 : Qabs (d1 * d1 - dl * dl) <= (A * u) * ((A + A * u) + A)).
  { assert (E : d1 * d1 - dl * dl == (d1 - dl) * (d1 + dl)) by ring.
    rewrite E, Qabs_Qmult. apply Qle_trans with (A * u * Qabs (d1 + dl)).
    - apply Qmult_le_compat_r; [assumption|apply Qabs_nonneg].
    - apply mul_le_l; [|assumption]. apply Qmult_le_0_compat; [assumption|now apply Qlt_le_weak]. }
  assert (S2 : Qabs (d1 * d1) <= (A + A * u) * (A + A * u)).
  { rewrite Qabs_Qmult. apply Qle_trans with ((A + A * u) * Qabs d1).
    - apply Qmult_le_compat_r; [assumption|apply Qabs_nonneg].
    - apply mul_le_l; [|assumption]. 
      apply Qle_trans with (Qabs d1); [apply Qabs_nonneg|assumption]. }
  assert (S3 : Qabs (rnd 32 (d1 * d1) - d1 * d1) <= (A + A * u) * (A + A * u) * u).
  { eapply Qle_trans; [exact E2|]. apply Qmult_le_compat_r; [assumption|now apply Qlt_le_weak]. }
  assert (E : rnd 32 (d1 * d1) - dl * dl == (rnd 32 (d1 * d1) - d1 * d1) + (d1 * d1 - dl * dl)) by ring.
  rewrite E. eapply Qle_trans; [apply Qabs_triangle|].
  eapply Qle_trans; [apply Qplus_le_compat; [exact S3|exact S1]|].
  rewrite DD.
  (* polynomial inequality in A*A >= 0 and u *)
  set (P := A * A). assert (PP : 0 <= P) by (unfold P; now apply Qmult_le_0_compat).
  assert (R : (A + A * u) * (A + A * u) * u + A * u * (A + A * u + A)
              == P * (3 * u + 3 * (u * u) + u * u * u)) by (unfold P; ring).
  rewrite R. rewrite (Qmult_comm (4 * u) P). apply mul_le_l; [assumption|].
  assert (Uu : u * u <= (1 # 1000000) * u) by (apply Qmult_le_compat_r; [assumption|lra]).
  assert (Uuu : u * u * u <= (1 # 1000000) * (u * u)).
  { rewrite <- Qmult_assoc. apply Qmult_le_compat_r; [assumption|].
    apply Qmult_le_0_compat; lra. }
  lra.
Qed.

(* one accumulation step *)
Lemma acc_step acc S D sq e : 0 <= S -> 0 <= D -> 4 * u <= e -> e <= 1 ->
  Qabs (acc - S) <= e * S -> Qabs (sq - D) <= 4 * u * D ->
  Qabs (fadd 32 acc sq - (S + D)) <= (e + 2 * u) * (S + D).
Proof.
  intros PS PD He1 He2 HA HS. destruct u_bounds as [U0 U1]. unfold fadd.
  set (t := acc + sq).
  assert (T1 : Qabs (t - (S + D)) <= e * (S + D)).
  { assert (E : t - (S + D) == (acc - S) + (sq - D)) by (unfold t; ring).
    rewrite E. eapply Qle_trans; [apply Qabs_triangle|].
    assert (M : 4 * u * D <= e * D) by (apply Qmult_le_compat_r; assumption).
    lra. }
  assert (T2 : Qabs t <= (S + D) + e * (S + D)).
  { assert (E : t == (S + D) + (t - (S + D))) by ring. rewrite E.
    eapply Qle_trans; [apply Qabs_triangle|]. apply Qplus_le_compat; [|assumption].
    rewrite Qabs_pos by lra. apply Qle_refl. }
  pose proof (rnd32_err t) as R.
  assert (R' : Qabs (rnd 32 t - t) <= ((S + D) + e * (S + D)) * u).
  { eapply Qle_trans; [exact R|]. apply Qmult_le_compat_r; [assumption|lra]. }
  assert (E : rnd 32 t - (S + D) == (rnd 32 t - t) + (t - (S + D))) by ring.
  rewrite E. eapply Qle_trans; [apply Qabs_triangle|].
  eapply Qle_trans; [apply Qplus_le_compat; [exact R'|exact T1]|].
  set (W := S + D). assert (PW : 0 <= W) by (unfold W; lra).
  assert (G : (W + e * W) * u + e * W == W * (e + u + e * u)) by ring.
  rewrite G, (Qmult_comm (e + 2 * u) W). apply mul_le_l; [assumption|].
  assert (Eu : e * u <= 1 * u) by (apply Qmult_le_compat_r; lra). lra.
Qed.

Definition sq_diff (x : nat -> nat -> Q) (i j k : nat) : Q := (x k i - x k j) * (x k i - x k j).
Definition exact_from (x : nat -> nat -> Q) (i j : nat) (S : Q) (ks : list nat) : Q :=
  fold_left (fun s k => s + sq_diff x i j k) ks S.
Definition kernel_from (x : nat -> nat -> Q) (i j : nat) (acc : Q) (ks : list nat) : Q :=
  fold_left (fun a k => fadd 32 a (fsq 32 (fsub 32 (x k i) (x k j)))) ks acc.
Definition qn (k : nat) : Q := inject_Z (Z.of_nat k).

Lemma sq_diff_nonneg x i j k : 0 <= sq_diff x i j k.
Proof. unfold sq_diff, Qle, Qmult. cbn. rewrite Z.mul_1_r. apply Z.square_nonneg. Qed.
Lemma exact_from_ge x i j ks : forall S, 0 <= S -> 0 <= exact_from x i j S ks.
Proof.
  induction ks as [|k ks IH]; intros S HS; cbn [exact_from fold_left]; [assumption|].
  apply IH. pose proof (sq_diff_nonneg x i j k). lra.
Qed.
Lemma qn_S k : qn (S k) == qn k + 1.
Proof. unfold qn. rewrite Nat2Z.inj_succ, <- Z.add_1_r, inject_Z_plus. reflexivity. Qed.

Lemma fold_error x i j ks : forall acc Sx e, 0 <= Sx -> 4 * u <= e -> e + 2 * u * qn (length ks) <= 1 ->
  Qabs (acc - Sx) <= e * Sx ->
  Qabs (kernel_from x i j acc ks - exact_from x i j Sx ks)
  <= (e + 2 * u * qn (length ks)) * exact_from x i j Sx ks.
Proof.
  destruct u_bounds as [U0 U1].
  induction ks as [|k ks IH]; intros acc Sx e HS He Hb HA.
  - cbn [kernel_from exact_from fold_left length]. 
    assert (Z : e + 2 * u * qn 0 == e) by (unfold qn; cbn; ring). rewrite Z. exact HA.
  - cbn [kernel_from exact_from fold_left]. cbn [length] in Hb |- *.
    assert (Hb' : e + 2 * u * (qn (length ks) + 1) <= 1) by (rewrite <- qn_S; exact Hb).
    assert (Q0 : 0 <= qn (length ks)).
    { unfold qn. change 0 with (inject_Z 0). rewrite <- Zle_Qle. lia. }
    assert (Uq : 0 <= u * qn (length ks)) by (apply Qmult_le_0_compat; lra).
    pose proof (sq_diff_nonneg x i j k) as PD.
    pose proof (term_error (x k i) (x k j)) as TE. fold (sq_diff x i j k) in TE.
    assert (He2 : e <= 1) by lra.
    pose proof (acc_step acc Sx (sq_diff x i j k) _ e HS PD He He2 HA TE) as ST.
    specialize (IH (fadd 32 acc (fsq 32 (fsub 32 (x k i) (x k j)))) (Sx + sq_diff x i j k) (e + 2 * u)).
    assert (G : e + 2 * u * qn (S (length ks)) == (e + 2 * u) + 2 * u * qn (length ks))
      by (rewrite qn_S; ring).
    rewrite G. apply IH; try lra.
Qed.

(* the kernel's squared distance *)
Theorem euc_sum_error x d i j : (qn d + 4) * (2 * u) <= 1 ->
  let exact := exact_from x i j 0 (seq 0 d) in
  Qabs (euc_sum 32 x (seq 0 d) i j - exact) <= (qn d + 4) * (2 * u) * exact.
Proof.
  intros Hd. cbv zeta. destruct u_bounds as [U0 U1].
  change (euc_sum 32 x (seq 0 d) i j) with (kernel_from x i j 0 (seq 0 d)).
  pose proof (fold_error x i j (seq 0 d) 0 0 (8 * u)) as F.
  rewrite seq_length in F.
  assert (E : 8 * u + 2 * u * qn d == (qn d + 4) * (2 * u)) by ring.
  rewrite E in F. apply F; try lra.
  assert (Z : 0 - 0 == 0) by ring. rewrite Z. cbn. lra.
Qed.
