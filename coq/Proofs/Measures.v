From Coq Require Import QArith Qcanon List Lia Bool Arith.
From PV.Base Require Import Sums ListX.
From PV.Model Require Import NsiLang Split Measures.
From PV.Proofs Require Import NsiLang Split.
Import ListNotations.
Open Scope Qc_scope.

(* the catalogue: every measure term of Model/Measures.v *)
Definition node_measures (tw : Qc) (B a : nat) (directed : bool) : list expr :=
  [ nsi_degree directed; correct tw (nsi_degree directed); nsi_indegree; nsi_outdegree;
    nsi_strength directed a; nsi_instrength a; nsi_outstrength a;
    nsi_bildegree; correct tw nsi_bildegree;
    nsi_average_neighbors_degree; nsi_max_neighbors_degree;
    nsi_local_clustering; nsi_local_clustering_corrected tw;
    nsi_local_soffer_clustering;
    nsi_local_cyclemotif_clustering; nsi_local_midmotif_clustering;
    nsi_local_inmotif_clustering; nsi_local_outmotif_clustering;
    nsi_local_cyclemotif_clustering_key a; nsi_local_midmotif_clustering_key a;
    nsi_local_inmotif_clustering_key a; nsi_local_outmotif_clustering_key a;
    nsi_local_cyclemotif_clustering_corrected tw; nsi_local_midmotif_clustering_corrected tw;
    nsi_local_inmotif_clustering_corrected tw; nsi_local_outmotif_clustering_corrected tw;
    nsi_closeness B; nsi_harmonic_closeness B; nsi_exponential_closeness B;
    nsi_cross_degree; nsi_cross_local_clustering; nsi_cross_closeness_centrality B ].
Definition pair_measures : list expr := [ nsi_twinness ].
Definition global_measures (B : nat) : list expr :=
  [ nsi_global_clustering; nsi_transitivity; nsi_average_path_length B; nsi_global_efficiency B;
    nsi_cross_mean_degree; nsi_cross_edge_density; nsi_cross_global_clustering;
    nsi_cross_transitivity; nsi_cross_average_path_length B ].

Lemma first_closed d k i j : (i <? d)%nat = true -> (j <? d)%nat = true -> closedb d (first k i j) = true.
Proof. intros Hi Hj. destruct k; cbn [first closedb]; rewrite Hi, Hj; reflexivity. Qed.

Lemma dsum_closed f d B i j : (i <? d)%nat = true -> (j <? d)%nat = true -> closedb d (dsum f B i j) = true.
Proof.
  intros Hi Hj. induction B as [|B IH]; cbn [dsum closedb]; [reflexivity|].
  rewrite IH, first_closed by assumption. reflexivity.
Qed.

Lemma catalogue_closed : forall tw B a directed,
  Forall (fun e => closedb 1 e = true) (node_measures tw B a directed) /\
  Forall (fun e => closedb 2 e = true) pair_measures /\
  Forall (fun e => closedb 0 e = true) (global_measures B).
Proof.
  intros tw B a directed. split; [|split].
  - unfold node_measures. repeat (apply Forall_cons; [|]); try apply Forall_nil;
      try (destruct directed; reflexivity);
      unfold nsi_closeness, nsi_harmonic_closeness, nsi_exponential_closeness,
        nsi_cross_closeness_centrality, Dist, InvDist, Pow2Dist, AllConn, Conn;
      cbn [closedb]; rewrite ?dsum_closed by reflexivity; reflexivity.
  - repeat constructor.
  - unfold global_measures. repeat (apply Forall_cons; [|]); try apply Forall_nil; try reflexivity;
      unfold nsi_average_path_length, nsi_global_efficiency, nsi_cross_average_path_length,
        Dist, InvDist, Conn; cbn [closedb]; rewrite ?dsum_closed by reflexivity; reflexivity.
Qed.

Lemma example_split :
  let r := raw_of [[false; true; false]; [true; false; true]; [false; true; false]]
                  [1; 1 # 2; 3 # 4]%Q [] [] in
  (1 < rn r)%nat /\ (forall i, ra r i i = false) /\
  eval (to_graph (split r 1 (Q2Qc (1 # 4)))) [3%nat] nsi_local_clustering =
  eval (to_graph r) [1%nat] nsi_local_clustering.
Proof.
  cbv zeta. split; [cbn; lia|]. split.
  - intros i. cbn [raw_of ra]. destruct i as [|[|[|i]]]; cbn; try reflexivity. destruct i; reflexivity.
  - pose proof (nsi_invariance (raw_of [[false; true; false]; [true; false; true]; [false; true; false]]
                  [1; 1 # 2; 3 # 4]%Q [] []) 1%nat (Q2Qc (1 # 4)) nsi_local_clustering [3%nat]) as H.
    cbn [length map] in H.
    change (orig (rn (raw_of [[false; true; false]; [true; false; true]; [false; true; false]]
                  [1; 1 # 2; 3 # 4]%Q [] [])) 1 3) with 1%nat in H.
    apply H.
    + cbn; lia.
    + intros i. cbn [raw_of ra]. destruct i as [|[|[|i]]]; cbn; try reflexivity. destruct i; reflexivity.
    + apply closedb_closed. reflexivity.
    + repeat constructor.
Qed.
