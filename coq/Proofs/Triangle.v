(* C18: maximum principle for the potential of a unit current, and the
   triangle inequality of the effective resistance on connected networks. *)
From Coq Require Import QArith Qcanon List Bool Arith Lia.
From PV.Base Require Import Sums.
From PV.Model Require Import Resistive.
From PV.Model Require GraphDefs.
From PV.Proofs Require Import Resistive CauchySchwarz Energy Positivity.
Import ListNotations.
Open Scope Qc_scope.

(* (L v)_i = sum_j c_ij (v_i - v_j) for a symmetric conductance matrix *)
Lemma lap_apply n c (v : nat -> Qc) i : (forall a b, c a b = c b a) -> (i < n)%nat ->
  sumn n (fun j => lap n c i j * v j) = sumn n (fun j => c i j * (v i - v j)).
Proof.
  intros Hc Hi. unfold lap.
  transitivity (sumn n (fun j => ind (Nat.eqb i j) * (sumn n (fun k => c k j) * v j))
                - sumn n (fun j => c i j * v j)).
  - rewrite <- sumn_sub. apply sumn_ext. intros j _. unfold delta. ring.
  - rewrite (sumn_ind n i (fun j => sumn n (fun k => c k j) * v j) Hi).
    replace (sumn n (fun k => c k i)) with (sumn n (fun j => c i j))
      by (apply sumn_ext; intros j _; apply Hc).
    rewrite (Qcmult_comm _ (v i)), <- sumn_scal, <- sumn_sub. apply sumn_ext. intros; ring.
Qed.

Lemma exists_max n (v : nat -> Qc) : (0 < n)%nat ->
  exists x, (x < n)%nat /\ forall j, (j < n)%nat -> v j <= v x.
Proof.
  induction n as [|n IH]; intros Hn; [lia|].
  destruct n as [|n].
  - exists 0%nat. split; [lia|]. intros j Hj. replace j with 0%nat by lia. apply Qcle_refl.
  - destruct (IH ltac:(lia)) as [x [Hx Hmax]].
    destruct (Qclt_le_dec (v x) (v (S n))) as [L|L].
    + exists (S n). split; [lia|]. intros j Hj. destruct (Nat.eq_dec j (S n)) as [->|Hne].
      * apply Qcle_refl.
      * apply Qcle_trans with (v x); [apply Hmax; lia|now apply Qclt_le_weak].
    + exists x. split; [lia|]. intros j Hj. destruct (Nat.eq_dec j (S n)) as [->|Hne];
        [assumption|apply Hmax; lia].
Qed.

Section MaxPrinciple.
  Variables (n : nat) (c : mat) (v : nat -> Qc) (a b : nat).
  Hypotheses (Hc : forall i j, c i j = c j i) (Hpos : forall i j, 0 <= c i j)
             (Hconn : connected n c) (Ha : (a < n)%nat) (Hb : (b < n)%nat)
             (HV : forall i, (i < n)%nat ->
                   sumn n (fun j => lap n c i j * v j) = delta i a - delta i b).

  (* at a maximum that is not the source, every linked neighbour is a maximum too *)
  Lemma max_spreads m : (m < n)%nat -> m <> a -> (forall j, (j < n)%nat -> v j <= v m) ->
    forall j, (j < n)%nat -> linked c m j = true -> v j = v m.
  Proof.
    intros Hm Hne Hmax j Hj L.
    assert (S0 : sumn n (fun j0 => c m j0 * (v m - v j0)) = 0).
    { apply Qcle_antisym.
      - rewrite <- lap_apply, HV by assumption. unfold delta.
        replace (Nat.eqb m a) with false by (symmetry; now apply Nat.eqb_neq).
        destruct (Nat.eqb m b); cbn [ind]; [|apply Qcle_refl].
        replace (0 - 1) with (- (1)) by ring. apply (Qcopp_le_compat 0 1). discriminate.
      - apply sumn_nonneg. intros j0 Hj0. apply Qc_mult_nonneg; [apply Hpos|].
        pose proof (Hmax j0 Hj0) as H. apply Qcle_minus_iff in H. exact H. }
    assert (T : c m j * (v m - v j) = 0).
    { apply (sumn_nonneg_zero n (fun j0 => c m j0 * (v m - v j0))); try assumption.
      intros j0 Hj0. apply Qc_mult_nonneg; [apply Hpos|].
      pose proof (Hmax j0 Hj0) as H. apply Qcle_minus_iff in H. exact H. }
    unfold linked in L. destruct (Qc_eq_dec (c m j) 0) as [|Hn0]; [discriminate|].
    apply Qcmult_integral in T. destruct T as [T|T]; [contradiction|].
    replace (v j) with (v m - (v m - v j)) by ring. rewrite T. ring.
  Qed.

  (* the potential of a unit current a -> b is maximal at the source *)
  Theorem max_at_source x : (x < n)%nat -> v x <= v a.
  Proof.
    intros Hx. destruct (exists_max n v ltac:(lia)) as [x0 [Hx0 Hmax]].
    assert (R : forall k j, (j < n)%nat -> GraphDefs.within n (linked c) k x0 j = true ->
                v j = v x0 \/ v a = v x0).
    { induction k as [|k IH]; intros j Hj H; cbn [GraphDefs.within] in H.
      - apply Nat.eqb_eq in H. subst. now left.
      - apply orb_true_iff in H. destruct H as [H|H]; [now apply IH|].
        apply existsb_exists in H. destruct H as [m [Hm H]]. apply in_seq in Hm.
        apply andb_true_iff in H as [H1 H2].
        destruct (IH m ltac:(lia) H1) as [Em|Ea]; [|now right].
        destruct (Nat.eq_dec m a) as [->|Hne]; [now right|].
        left. rewrite <- Em. apply max_spreads; try assumption; try lia.
        intros j0 Hj0. rewrite Em. now apply Hmax. }
    destruct (Hconn x0 a Hx0 Ha) as [k Hk].
    assert (Ea : v a = v x0) by (destruct (R k a Ha Hk); assumption).
    rewrite Ea. now apply Hmax.
  Qed.
End MaxPrinciple.

(* the potential built from a pseudo-inverse *)
Definition pot (R : mat) (a b : nat) : nat -> Qc := fun j => R j a - R j b.
Lemma pot_spec n L R a b : is_pinv n L R -> (a < n)%nat -> (b < n)%nat ->
  forall i, (i < n)%nat -> sumn n (fun j => L i j * pot R a b j) = delta i a - delta i b.
Proof.
  intros [_ HLR] Ha Hb i Hi. unfold pot.
  transitivity (sumn n (fun j => L i j * R j a) - sumn n (fun j => L i j * R j b)).
  - rewrite <- sumn_sub. apply sumn_ext. intros; ring.
  - rewrite !HLR by assumption. ring.
Qed.

(* triangle inequality *)
Theorem eff_triangle n c R a b d : (a < n)%nat -> (b < n)%nat -> (d < n)%nat ->
  (forall i j, c i j = c j i) -> (forall i j, 0 <= c i j) -> connected n c ->
  is_pinv n (lap n c) R -> eff R a d <= eff R a b + eff R b d.
Proof.
  intros Ha Hb Hd Hc Hpos Hconn HP.
  set (v1 := pot R a b). set (v2 := pot R b d).
  pose proof (pot_spec n (lap n c) R a b HP Ha Hb) as H1.
  pose proof (pot_spec n (lap n c) R b d HP Hb Hd) as H2.
  fold v1 in H1. fold v2 in H2.
  (* the three effective resistances as potential drops *)
  rewrite (eff_is_potential_drop n (lap n c) R v1 a b Ha Hb HP H1).
  rewrite (eff_is_potential_drop n (lap n c) R v2 b d Hb Hd HP H2).
  assert (H3 : forall i, (i < n)%nat ->
            sumn n (fun j => lap n c i j * (v1 j + v2 j)) = delta i a - delta i d).
  { intros i Hi.
    transitivity (sumn n (fun j => lap n c i j * v1 j) + sumn n (fun j => lap n c i j * v2 j)).
    - rewrite <- sumn_add. apply sumn_ext. intros; ring.
    - rewrite H1, H2 by assumption. ring. }
  rewrite (eff_is_potential_drop n (lap n c) R (fun j => v1 j + v2 j) a d Ha Hd HP H3).
  (* maximum principle: v2 is maximal at its source b; minimum: v1 minimal at its sink b *)
  pose proof (max_at_source n c v2 b d Hc Hpos Hconn Hb Hd H2 a Ha) as M2.
  assert (H1' : forall i, (i < n)%nat ->
            sumn n (fun j => lap n c i j * (- v1 j)) = delta i b - delta i a).
  { intros i Hi.
    transitivity (- sumn n (fun j => lap n c i j * v1 j)).
    - replace (- sumn n (fun j => lap n c i j * v1 j))
        with ((-(1)) * sumn n (fun j => lap n c i j * v1 j)) by ring.
      rewrite <- sumn_scal. apply sumn_ext. intros; ring.
    - rewrite H1 by assumption. ring. }
  pose proof (max_at_source n c (fun j => - v1 j) b a Hc Hpos Hconn Hb Ha H1' d Hd) as M1.
  cbn beta in M1.
  (* assemble *)
  apply Qcle_minus_iff. apply Qcle_minus_iff in M2. apply Qcle_minus_iff in M1.
  replace (v1 a - v1 b + (v2 b - v2 d) + - (v1 a + v2 a - (v1 d + v2 d)))
    with ((- v1 b + - - v1 d) + (v2 b + - v2 a)) by ring.
  apply Qc_nonneg_add; assumption.
Qed.

(* ---------- Rayleigh: never more than the resistance of a connecting path ---------- *)
Lemma sumn_term_le n f j : (forall i, (i < n)%nat -> 0 <= f i) -> (j < n)%nat -> f j <= sumn n f.
Proof.
  induction n as [|n IH]; intros Hp Hj; [lia|]. rewrite sumn_S.
  destruct (Nat.eq_dec j n) as [->|Hne].
  - replace (f n) with (0 + f n) at 1 by ring. apply Qcplus_le_compat; [|apply Qcle_refl].
    apply sumn_nonneg. intros; apply Hp; lia.
  - apply Qcle_trans with (sumn n f); [apply IH; [intros; apply Hp; lia|lia]|].
    replace (sumn n f) with (sumn n f + 0) at 1 by ring.
    apply Qcplus_le_compat; [apply Qcle_refl|apply Hp; lia].
Qed.

(* a single link carries at most the whole unit current *)
Theorem eff_link_bound n c R a b : (a < n)%nat -> (b < n)%nat -> a <> b ->
  (forall i j, c i j = c j i) -> (forall i j, 0 <= c i j) -> connected n c ->
  is_pinv n (lap n c) R -> c a b * eff R a b <= 1.
Proof.
  intros Ha Hb Hne Hc Hpos Hconn HP.
  set (v := pot R a b). pose proof (pot_spec n (lap n c) R a b HP Ha Hb) as HV. fold v in HV.
  rewrite (eff_is_potential_drop n (lap n c) R v a b Ha Hb HP HV).
  pose proof (HV a Ha) as Ka. rewrite lap_apply in Ka by assumption.
  unfold delta in Ka. rewrite Nat.eqb_refl in Ka.
  replace (Nat.eqb a b) with false in Ka by (symmetry; now apply Nat.eqb_neq). cbn [ind] in Ka.
  replace (1 - 0) with 1 in Ka by ring. rewrite <- Ka.
  apply (sumn_term_le n (fun j => c a j * (v a - v j))); [|assumption].
  intros j Hj. apply Qc_mult_nonneg; [apply Hpos|].
  pose proof (max_at_source n c v a b Hc Hpos Hconn Ha Hb HV j Hj) as M.
  apply Qcle_minus_iff in M. exact M.
Qed.

(* resistance of a path given as a list of nodes *)
Fixpoint path_resistance (c : mat) (p : list nat) : Qc :=
  match p with
  | x :: ((y :: _) as r) => 1 / c x y + path_resistance c r
  | _ => 0
  end.
Fixpoint is_path (n : nat) (c : mat) (p : list nat) : Prop :=
  match p with
  | x :: ((y :: _) as r) => (x < n)%nat /\ x <> y /\ c x y <> 0 /\ is_path n c r
  | [x] => (x < n)%nat
  | [] => False
  end.

Lemma link_resistance_bound n c R a b : (a < n)%nat -> (b < n)%nat -> a <> b -> c a b <> 0 ->
  (forall i j, c i j = c j i) -> (forall i j, 0 <= c i j) -> connected n c ->
  is_pinv n (lap n c) R -> eff R a b <= 1 / c a b.
Proof.
  intros Ha Hb Hne Hn0 Hc Hpos Hconn HP.
  pose proof (eff_link_bound n c R a b Ha Hb Hne Hc Hpos Hconn HP) as H.
  assert (Pc : 0 < c a b).
  { destruct (Qclt_le_dec 0 (c a b)) as [P|P]; [assumption|].
    exfalso. apply Hn0. apply Qcle_antisym; [assumption|apply Hpos]. }
  (* eff = (c * eff) / c <= 1 / c *)
  replace (eff R a b) with ((c a b * eff R a b) * / c a b) by (field; assumption).
  unfold Qcdiv. apply Qcmult_le_compat_r; [assumption|].
  apply Qclt_le_weak. 
  assert (I : 0 < / c a b).
  { destruct (Qclt_le_dec 0 (/ c a b)) as [P|P]; [assumption|].
    exfalso. assert (Q1 : c a b * / c a b <= 0).
    { replace 0 with (c a b * 0) by ring. rewrite !(Qcmult_comm (c a b)).
      apply Qcmult_le_compat_r; [assumption|now apply Qclt_le_weak]. }
    rewrite Qcmult_inv_r in Q1 by assumption. apply (Qcle_not_lt _ _ Q1). reflexivity. }
  exact I.
Qed.

Theorem eff_path_bound n c R : 
  (forall i j, c i j = c j i) -> (forall i j, 0 <= c i j) -> connected n c ->
  is_pinv n (lap n c) R ->
  forall p a b, is_path n c p -> hd 0%nat p = a -> last p 0%nat = b -> (b < n)%nat ->
  eff R a b <= path_resistance c p.
Proof.
  intros Hc Hpos Hconn HP. induction p as [|x p IH]; intros a b Hp Hh Hl Hb; [destruct Hp|].
  destruct p as [|y r].
  - cbn in Hh, Hl. subst. rewrite eff_self_zero. cbn. apply Qcle_refl.
  - destruct Hp as [Hx [Hxy [Hn0 Hr]]]. cbn [hd] in Hh. subst x.
    assert (Hy : (y < n)%nat).
    { destruct r as [|z r']; [exact Hr|destruct Hr; assumption]. }
    assert (Ll : last (a :: y :: r) 0%nat = last (y :: r) 0%nat) by reflexivity.
    rewrite Ll in Hl.
    specialize (IH y b Hr eq_refl Hl Hb).
    apply Qcle_trans with (eff R a y + eff R y b).
    + now apply (eff_triangle n c R a y b).
    + change (path_resistance c (a :: y :: r)) with (1 / c a y + path_resistance c (y :: r)).
      apply Qcplus_le_compat; [|assumption].
      now apply (link_resistance_bound n c R a y).
Qed.

(* non-vacuity: two nodes joined by a unit resistor satisfy every hypothesis *)
Definition c2 : mat := fun i j => if (Nat.eqb i j) then 0 else if (Nat.ltb i 2 && Nat.ltb j 2)%bool then 1 else 0.
Definition R2 : mat := fun i j =>
  if (Nat.ltb i 2 && Nat.ltb j 2)%bool then (if Nat.eqb i j then Q2Qc (1 # 4) else Q2Qc (-1 # 4)) else 0.
Example hypotheses_satisfiable :
  is_pinv 2 (lap 2 c2) R2 /\ connected 2 c2 /\ (forall i j, c2 i j = c2 j i) /\
  (forall i j, 0 <= c2 i j) /\ eff R2 0 1 = 1.
Proof.
  split; [|split; [|split; [|split]]].
  - split; intros i j Hi Hj; destruct i as [|[|i]]; destruct j as [|[|j]]; try lia;
      apply Qc_is_canon; reflexivity.
  - intros i j Hi Hj. exists 1%nat. destruct i as [|[|i]]; destruct j as [|[|j]]; try lia; reflexivity.
  - intros i j. unfold c2. rewrite (Nat.eqb_sym j i), (andb_comm (Nat.ltb j 2)). reflexivity.
  - intros i j. unfold c2. destruct (Nat.eqb i j); [apply Qcle_refl|].
    destruct (Nat.ltb i 2 && Nat.ltb j 2)%bool; [discriminate|apply Qcle_refl].
  - apply Qc_is_canon. reflexivity.
Qed.
