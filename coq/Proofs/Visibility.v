From Coq Require Import QArith Lqa List Bool Arith Lia.
From PV.Base Require Import F32.
From PV.Model Require Import Visibility.
Import ListNotations.
Close Scope Q_scope.
Close Scope Z_scope.
Open Scope nat_scope.

(* ---- the early-exit loop is a universal quantifier ---- *)
Lemma scan_le cond j : forall fuel k, k <= j -> scan cond j fuel k <= j.
Proof.
  induction fuel as [|f IH]; intros k Hk; cbn [scan]; [exact Hk|].
  destruct (cond k && (k <? j)) eqn:E; [|exact Hk].
  apply andb_prop in E as [_ E]. apply Nat.ltb_lt in E. apply IH. lia.
Qed.

Lemma scan_spec cond j : forall fuel k, k <= j -> j - k <= fuel ->
  (scan cond j fuel k = j <-> forall m, k <= m < j -> cond m = true).
Proof.
  induction fuel as [|f IH]; intros k Hk Hf; cbn [scan].
  - split; [intros; lia|]. intros _. lia.
  - destruct (cond k && (k <? j)) eqn:E.
    + apply andb_prop in E as [Ec El]. apply Nat.ltb_lt in El.
      rewrite IH by lia. split.
      * intros H m Hm. destruct (Nat.eq_dec m k) as [->|]; [exact Ec|]. apply H. lia.
      * intros H m Hm. apply H. lia.
    + split.
      * intros ->. intros m Hm. lia.
      * intros H. destruct (Nat.eq_dec k j) as [|NE]; [assumption|]. exfalso.
        assert (Hc : cond k = true) by (apply H; lia).
        assert (Hl : (k <? j) = true) by (apply Nat.ltb_lt; lia).
        rewrite Hc, Hl in E. discriminate.
Qed.

Section Spec.
Variable lt : Q -> Q -> bool.
Variables (x t : nat -> Q).
Variable mv : nat -> bool.

(* two samples at distance >= 2 are linked iff EVERY intermediate sample
   passes the kernel's test -- natural, missing-value and horizontal kernels *)
Theorem nat_link_spec i j : i < j ->
  (nat_link lt x t i j = true <-> forall k, i < k < j -> nat_cond lt x t i j k = true).
Proof.
  intros H. unfold nat_link. rewrite Nat.eqb_eq, scan_spec by lia.
  split; intros G k Hk; apply G; lia.
Qed.
Theorem hor_link_spec i j : i < j ->
  (hor_link lt x i j = true <-> forall k, i < k < j -> hor_cond lt x i j k = true).
Proof.
  intros H. unfold hor_link. rewrite Nat.eqb_eq, scan_spec by lia.
  split; intros G k Hk; apply G; lia.
Qed.
Theorem mv_link_spec i j : i < j ->
  (mv_link lt x t mv i j = true <-> forall k, i < k < j -> mv_cond lt x t mv i j k = true).
Proof.
  intros H. unfold mv_link. rewrite Nat.eqb_eq, scan_spec by lia.
  split; intros G k Hk; apply G; lia.
Qed.

(* missing samples block visibility and stay isolated *)
Theorem missing_blocks i j k : i < k < j -> mv k = true -> mv_link lt x t mv i j = false.
Proof.
  intros Hk Hm. destruct (mv_link lt x t mv i j) eqn:E; [|reflexivity].
  assert (Hij : i < j) by lia.
  pose proof (proj1 (mv_link_spec i j Hij) E k Hk) as E'. unfold mv_cond in E'.
  rewrite Hm in E'. discriminate.
Qed.
Theorem missing_isolated a b : mv a = true \/ mv b = true -> A_missing lt x t mv a b = false.
Proof.
  intros Hm. unfold A_missing, adj.
  destruct (Nat.eqb_spec a b); [reflexivity|].
  set (i := Nat.min a b). set (j := Nat.max a b).
  assert (Hij : mv i = true \/ mv j = true).
  { unfold i, j. destruct (Nat.le_ge_cases a b).
    - rewrite Nat.min_l, Nat.max_r by assumption. assumption.
    - rewrite Nat.min_r, Nat.max_l by assumption. tauto. }
  destruct (Nat.eqb_spec j (S i)) as [E|NE].
  - rewrite E in Hij. destruct Hij as [->| ->]; [reflexivity|apply andb_false_r].
  - assert (i < j) by (unfold i, j; lia).
    destruct (mv_link lt x t mv i j) eqn:E; [|reflexivity].
    assert (Hr : i < S i < j) by lia.
    pose proof (proj1 (mv_link_spec i j H) E (S i) Hr) as E'. unfold mv_cond in E'.
    destruct (mv (S i)), (mv i) eqn:Mi, (mv j) eqn:Mj; cbn in E'; try discriminate.
    destruct Hij; discriminate.
Qed.

Theorem adj_symmetric link trivial a b : adj link trivial a b = adj link trivial b a.
Proof. unfold adj. rewrite (Nat.eqb_sym a b), (Nat.min_comm a b), (Nat.max_comm a b). reflexivity. Qed.
End Spec.

(* ---- geometry, in exact arithmetic ---- *)
Open Scope Q_scope.
Lemma ltQ_spec a b : ltQ a b = true <-> a < b.
Proof.
  unfold ltQ. destruct (a ?= b) eqn:E; split; intros H; try discriminate; try reflexivity.
  - apply Qeq_alt in E. lra.
  - now apply Qlt_alt.
  - apply Qgt_alt in E. lra.
Qed.

Lemma div_lt_cross a b c d : 0 < b -> 0 < d -> (a / b < c / d <-> a * d < c * b).
Proof.
  intros Hb Hd. split; intros H.
  - apply (Qmult_lt_r _ _ (b*d)) in H; [|nra].
    assert (E1: a / b * (b * d) == a * d) by (field; lra).
    assert (E2: c / d * (b * d) == c * b) by (field; lra).
    rewrite E1, E2 in H. exact H.
  - apply (Qmult_lt_r _ _ (b*d)); [nra|].
    assert (E1: a / b * (b * d) == a * d) by (field; lra).
    assert (E2: c / d * (b * d) == c * b) by (field; lra).
    rewrite E1, E2. exact H.
Qed.

(* "sample k lies strictly below the straight line joining i and j" *)
Definition below (x t : nat -> Q) (i k j : nat) : Prop :=
  (x k - x i) * (t j - t i) < (x j - x i) * (t k - t i).

Theorem nat_cond_geometric x t i j k : t i < t k -> t i < t j ->
  (nat_cond ltQ x t i j k = true <-> below x t i k j).
Proof.
  intros H1 H2. unfold nat_cond, slope, below. rewrite ltQ_spec.
  rewrite div_lt_cross by lra. reflexivity.
Qed.

(* positive affine maps of values and of times do not change the test *)
Theorem below_affine x t a b c d i k j : 0 < a -> 0 < c ->
  (below (fun n => a * x n + b) (fun n => c * t n + d) i k j <-> below x t i k j).
Proof.
  intros Ha Hc. unfold below.
  assert (E1 : (a * x k + b - (a * x i + b)) * (c * t j + d - (c * t i + d))
               == (a * c) * ((x k - x i) * (t j - t i))) by ring.
  assert (E2 : (a * x j + b - (a * x i + b)) * (c * t k + d - (c * t i + d))
               == (a * c) * ((x j - x i) * (t k - t i))) by ring.
  rewrite E1, E2. assert (0 < a * c) by (apply Qmult_lt_0_compat; assumption). split; intros H0.
  - apply (Qmult_lt_l _ _ (a * c)); assumption.
  - apply (Qmult_lt_l _ _ (a * c)); assumption.
Qed.

(* the chord lemma: below the chord seen from i  <->  below it seen from j,
   which is the test the time-reversed series performs *)
Theorem below_mirror x t i k j : t i < t k -> t k < t j ->
  (below x t i k j <-> (x i - x j) * (t k - t j) < (x k - x j) * (t i - t j)).
Proof.
  intros H1 H2. unfold below.
  assert (E : (x j - x i) * (t k - t i) - (x k - x i) * (t j - t i)
              == (x k - x j) * (t i - t j) - (x i - x j) * (t k - t j)) by ring.
  split; intros; lra.
Qed.

Theorem below_reversed x t T n i k j : (i < k < j)%nat -> (j < n)%nat ->
  let x' := fun m => x (n - 1 - m)%nat in
  let t' := fun m => T - t (n - 1 - m)%nat in
  t (n - 1 - j)%nat < t (n - 1 - k)%nat -> t (n - 1 - k)%nat < t (n - 1 - i)%nat ->
  (below x' t' i k j <-> below x t (n - 1 - j) (n - 1 - k) (n - 1 - i)).
Proof.
  intros Hk Hj x' t' H1 H2. unfold below, x', t'.
  set (a := (n - 1 - i)%nat). set (b := (n - 1 - k)%nat). set (c := (n - 1 - j)%nat).
  fold a b c in H1, H2.
  assert (E : (x c - x a) * (T - t b - (T - t a)) - (x b - x a) * (T - t c - (T - t a))
              == (x a - x c) * (t b - t c) - (x b - x c) * (t a - t c)) by ring.
  split; intros; lra.
Qed.
Close Scope Q_scope.

(* ---- retarded + advanced degree = degree ---- *)
Theorem degree_split A n i : i <= n ->
  retarded_degree A n i + advanced_degree A n i = degree A n i.
Proof.
  intros H. unfold retarded_degree, advanced_degree, degree.
  rewrite <- app_length, <- filter_app. f_equal. f_equal.
  replace (seq 0 n) with (seq 0 (i + (n - i))) by (f_equal; lia). rewrite seq_app. reflexivity.
Qed.
