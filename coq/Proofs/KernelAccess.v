From Coq Require Import ZArith List Bool Lia.
From PV.Model Require Import KernelAccess.
Import ListNotations.
Open Scope Z_scope.

Lemma idx_bound a A b B : 0 <= a < A -> 0 <= b < B -> 0 <= a * B + b < A * B.
Proof.
  intros Ha Hb. split; [nia|].
  assert (a * B + b < (a + 1) * B) by nia.
  assert ((a + 1) * B <= A * B) by (apply Z.mul_le_mono_nonneg_r; lia). lia.
Qed.
(* the ONE tactic that has to close every generated range obligation *)
Ltac kernel_access_tac :=
  hnf; intros; first [ lia | apply idx_bound; lia | nia ].

(* a checked access never reads outside the buffer *)
Theorem checked_get_in_range {V} (d : V) buf i v :
  checked_get d buf i = Val v -> 0 <= i < Z.of_nat (List.length buf) /\ v = nth (Z.to_nat i) buf d.
Proof.
  unfold checked_get. destruct ((i <? 0) || (Z.of_nat (List.length buf) <=? i)) eqn:E; [discriminate|].
  intros H. injection H as <-. apply orb_false_iff in E as [E1 E2].
  apply Z.ltb_ge in E1. apply Z.leb_gt in E2. split; [lia|reflexivity].
Qed.
Theorem checked_get_total {V} (d : V) buf i :
  (checked_get d buf i = IndexError /\ (i < 0 \/ Z.of_nat (List.length buf) <= i)) \/
  (exists v, checked_get d buf i = Val v /\ 0 <= i < Z.of_nat (List.length buf)).
Proof.
  unfold checked_get. destruct ((i <? 0) || (Z.of_nat (List.length buf) <=? i)) eqn:E.
  - left. split; [reflexivity|]. apply orb_true_iff in E as [E|E];
      [apply Z.ltb_lt in E|apply Z.leb_le in E]; lia.
  - right. eexists. split; [reflexivity|]. apply orb_false_iff in E as [E1 E2].
    apply Z.ltb_ge in E1. apply Z.leb_gt in E2. lia.
Qed.
(* the loops that index before testing the bound end in a value or an
   IndexError, whatever the bound n is *)
Theorem scan_eq_safe d buf x n fuel : forall l,
  scan_eq d buf x n l fuel = IndexError \/ exists r, scan_eq d buf x n l fuel = Val r.
Proof.
  induction fuel as [|f IH]; intros l; cbn [scan_eq]; [right; eauto|].
  destruct (checked_get d buf l) as [v|]; [|now left].
  destruct (v =? x); [|right; eauto]. destruct (l + 1 =? n); [right; eauto|apply IH].
Qed.
(* without the check an index outside 0..len-1 touches foreign memory *)
Theorem unchecked_out_of_range len i : (i < 0 \/ Z.of_nat len <= i) -> unchecked_touches len i = false.
Proof.
  unfold unchecked_touches. intros [H|H].
  - replace (0 <=? i) with false by (symmetry; apply Z.leb_gt; lia). reflexivity.
  - replace (i <? Z.of_nat len) with false by (symmetry; apply Z.ltb_ge; lia). apply andb_false_r.
Qed.
