From Coq Require Import ZArith QArith Qround List Bool Lia.
From PV.Model Require Import KernelAccess.
Import ListNotations.
Open Scope Z_scope.

Lemma idx_bound a A b B : 0 <= a < A -> 0 <= b < B -> 0 <= a * B + b < A * B.
Proof.
  intros Ha Hb. split; [nia|].
  assert (a * B + b < (a + 1) * B) by nia.
  assert ((a + 1) * B <= A * B) by (apply Z.mul_le_mono_nonneg_r; lia). lia.
Qed.
(* the ONE tactic that has to close every generated range obligation *)
Ltac kernel_access_tac :=
  hnf; intros; first [ lia | apply idx_bound; lia | nia ].

(* a checked access never reads outside the buffer *)
Theorem checked_get_in_range {V} (d : V) buf i v :
  checked_get d buf i = Val v -> 0 <= i < Z.of_nat (List.length buf) /\ v = nth (Z.to_nat i) buf d.
Proof.
  unfold checked_get. destruct ((i <? 0) || (Z.of_nat (List.length buf) <=? i)) eqn:E; [discriminate|].
  intros H. injection H as <-. apply orb_false_iff in E as [E1 E2].
  apply Z.ltb_ge in E1. apply Z.leb_gt in E2. split; [lia|reflexivity].
Qed.
Theorem checked_get_total {V} (d : V) buf i :
  (checked_get d buf i = IndexError /\ (i < 0 \/ Z.of_nat (List.length buf) <= i)) \/
  (exists v, checked_get d buf i = Val v /\ 0 <= i < Z.of_nat (List.length buf)).
Proof.
  unfold checked_get. destruct ((i <? 0) || (Z.of_nat (List.length buf) <=? i)) eqn:E.
  - left. split; [reflexivity|]. apply orb_true_iff in E as [E|E];
      [apply Z.ltb_lt in E|apply Z.leb_le in E]; lia.
  - right. eexists. split; [reflexivity|]. apply orb_false_iff in E as [E1 E2].
    apply Z.ltb_ge in E1. apply Z.leb_gt in E2. lia.
Qed.
(* the loops that index before testing the bound end in a value or an
   IndexError, whatever the bound n is *)
Theorem scan_eq_safe d buf x n fuel : forall l,
  scan_eq d buf x n l fuel = IndexError \/ exists r, scan_eq d buf x n l fuel = Val r.
Proof.
  induction fuel as [|f IH]; intros l; cbn [scan_eq]; [right; eauto|].
  destruct (checked_get d buf l) as [v|]; [|now left].
  destruct (v =? x); [|right; eauto]. destruct (l + 1 =? n); [right; eauto|apply IH].
Qed.
(* without the check an index outside 0..len-1 touches foreign memory *)
Theorem unchecked_out_of_range len i : (i < 0 \/ Z.of_nat len <= i) -> unchecked_touches len i = false.
Proof.
  unfold unchecked_touches. intros [H|H].
  - replace (0 <=? i) with false by (symmetry; apply Z.leb_gt; lia). reflexivity.
  - replace (i <? Z.of_nat len) with false by (symmetry; apply Z.ltb_ge; lia). apply andb_false_r.
Qed.

(* ---------- the bin number is a valid column ---------- *)
Theorem symbolise_in_range r n_bins undef : 1 <= n_bins -> rescaled_ok r ->
  0 <= symbolise_guarded r n_bins undef < n_bins.
Proof.
  intros Hn Hr. destruct r as [| |q]; cbn [symbolise_guarded]; try lia.
  cbn [rescaled_ok] in Hr. destruct (Qle_bool 1 q) eqn:E; [lia|].
  assert (Hq : (q < 1)%Q).
  { apply Qnot_le_lt. intros C. apply Qle_bool_iff in C. congruence. }
  set (x := (q * inject_Z n_bins)%Q).
  assert (X0 : (0 <= x)%Q).
  { unfold x. apply Qmult_le_0_compat; [assumption|]. change 0%Q with (inject_Z 0).
    rewrite <- Zle_Qle. lia. }
  assert (X1 : (x < inject_Z n_bins)%Q).
  { unfold x. rewrite <- (Qmult_1_l (inject_Z n_bins)) at 2.
    apply Qmult_lt_compat_r; [|assumption]. change 0%Q with (inject_Z 0). rewrite <- Zlt_Qlt. lia. }
  split.
  - change 0 with (Qfloor (inject_Z 0)). apply Qfloor_resp_le. exact X0.
  - rewrite Zlt_Qlt. apply Qle_lt_trans with x; [apply Qfloor_le|assumption].
Qed.
(* without the guard a NaN sample selects an arbitrary (e.g. negative) column *)
Theorem symbolise_unguarded_escapes n_bins : 1 <= n_bins ->
  exists undef, ~ (0 <= symbolise_unguarded FNaN n_bins undef < n_bins).
Proof.
  intros Hn. exists (-1). unfold symbolise_unguarded.
  replace (-1 <? n_bins) with true by (symmetry; apply Z.ltb_lt; lia). lia.
Qed.

(* ---------- int index products ----------
   the index-addressed routines compute i*N+j in C `int`: no signed overflow
   (undefined behaviour) while the arrays have fewer than 2^31 elements *)
Theorem int_index_fits R C i j : 0 <= i < R -> 0 <= j < C -> R * C <= 2147483647 ->
  0 <= i * C + j <= 2147483647 /\ 0 <= i * C <= 2147483647.
Proof.
  intros Hi Hj H. assert (i * C + j < R * C) by (apply idx_bound; lia).
  assert (0 <= i * C) by nia. lia.
Qed.
(* a square N x N array: up to N = 46340 *)
Corollary int_index_fits_square N i j : 0 <= i < N -> 0 <= j < N -> N <= 46340 ->
  0 <= i * N + j <= 2147483647.
Proof. intros Hi Hj H. apply (int_index_fits N N i j Hi Hj). nia. Qed.
