From Coq Require Import QArith Qcanon List Bool Arith Lia Permutation.
From PV.Model Require Import PairLoop Interacting.
From PV.Proofs Require Import PairLoop.
Import ListNotations.
Close Scope Q_scope. Open Scope nat_scope.

(* sub-block extraction: entry (a, b) of the block is M at the a-th node of
   the first list and the b-th node of the second, in the ORDER of the lists *)
Theorem block_spec {V} (M : nat -> nat -> V) l1 l2 a b d d2 : a < length l1 -> b < length l2 ->
  nth b (nth a (block M l1 l2) d2) d = M (nth a l1 0) (nth b l2 0).
Proof.
  intros Ha Hb. unfold block.
  rewrite (nth_indep _ d2 ((fun a => map (fun b => M a b) l2) 0)) by (now rewrite map_length).
  rewrite (map_nth (fun a => map (fun b => M a b) l2)).
  rewrite (nth_indep _ d ((fun b => M (nth a l1 0) b) 0)) by (now rewrite map_length).
  now rewrite (map_nth (fun b => M (nth a l1 0) b)).
Qed.

Open Scope Qc_scope.
Lemma sumq_perm l l' : Permutation l l' -> sumq l = sumq l'.
Proof.
  unfold sumq. induction 1 as [|x l l' _ IH|x y l|l l' l'' _ IH1 _ IH2]; cbn [fold_right].
  - reflexivity.
  - now rewrite IH.
  - ring.
  - now rewrite IH1.
Qed.

(* the unique-pairs loop is half of the full double sum minus the diagonal *)
Definition S2 (f : nat -> nat -> Qc) (l1 l2 : list nat) : Qc :=
  sumq (map (fun a => sumq (map (f a) l2)) l1).
Lemma sumq_cons a l : sumq (a :: l) = a + sumq l.
Proof. reflexivity. Qed.
Lemma S2_cons_l f x l1 l2 : S2 f (x :: l1) l2 = sumq (map (f x) l2) + S2 f l1 l2.
Proof. reflexivity. Qed.
Lemma S2_cons_r f x l1 l2 : S2 f l1 (x :: l2) = sumq (map (fun a => f a x) l1) + S2 f l1 l2.
Proof.
  induction l1 as [|y l1 IH]; [cbn; ring|].
  rewrite !S2_cons_l, IH. cbn [map]. rewrite !sumq_cons. ring.
Qed.
Lemma row_sum_sumq f x l : row_sum f x l = sumq (map (f x) l).
Proof. unfold row_sum. induction l as [|y l IH]; cbn [map fold_right]; [reflexivity|]. now rewrite sumq_cons, IH. Qed.

Theorem pair_loop_double f l : (forall a b, f a b = f b a) ->
  (1 + 1) * pair_loop f l + sumq (map (fun a => f a a) l) = S2 f l l.
Proof.
  intros Hs. induction l as [|x l IH]; [cbn; ring|].
  cbn [pair_loop map]. rewrite sumq_cons, S2_cons_l. cbn [map]. rewrite sumq_cons, S2_cons_r.
  rewrite row_sum_sumq, <- IH.
  replace (sumq (map (fun a => f a x) l)) with (sumq (map (f x) l))
    by (f_equal; apply map_ext; intros; apply Hs).
  ring.
Qed.

(* the kernels' summands are symmetric on undirected networks, so neither
   kernel depends on the order in which the second node list is given *)
Theorem triangles_order_free A l2 l2' n1 : (forall a b, A a b = A b a) ->
  Permutation l2 l2' -> triangles_of A l2 n1 = triangles_of A l2' n1.
Proof.
  intros Hs P. unfold triangles_of. apply pair_loop_order_free; [|assumption].
  intros a b. f_equal. rewrite (Hs a b), (Hs n1 a), (Hs b n1).
  destruct (A n1 b), (A a n1), (A b a); reflexivity.
Qed.
Theorem triples_order_free A l2 l2' n1 :
  Permutation l2 l2' -> triples_of A l2 n1 = triples_of A l2' n1.
Proof.
  intros P. unfold triples_of. apply pair_loop_order_free; [|assumption].
  intros a b. f_equal. apply andb_comm.
Qed.
Theorem cross_degree_order_free A l2 l2' n1 :
  Permutation l2 l2' -> cross_degree A l2 n1 = cross_degree A l2' n1.
Proof. intros P. unfold cross_degree. apply sumq_perm. now apply Permutation_map. Qed.

Theorem cross_local_clustering_order_free A l2 l2' n1 : (forall a b, A a b = A b a) ->
  Permutation l2 l2' -> cross_local_clustering A l2 n1 = cross_local_clustering A l2' n1.
Proof.
  intros Hs P. unfold cross_local_clustering.
  now rewrite (cross_degree_order_free A l2 l2' n1 P), (triangles_order_free A l2 l2' n1 Hs P).
Qed.

Theorem cross_transitivity_order_free A l1 l1' l2 l2' : (forall a b, A a b = A b a) ->
  Permutation l1 l1' -> Permutation l2 l2' ->
  cross_transitivity A l1 l2 = cross_transitivity A l1' l2'.
Proof.
  intros Hs P1 P2. unfold cross_transitivity.
  assert (E1 : sumq (map (triangles_of A l2) l1) = sumq (map (triangles_of A l2') l1')).
  { rewrite (sumq_perm _ _ (Permutation_map _ P1)). f_equal. apply map_ext.
    intros; now apply triangles_order_free. }
  assert (E2 : sumq (map (triples_of A l2) l1) = sumq (map (triples_of A l2') l1')).
  { rewrite (sumq_perm _ _ (Permutation_map _ P1)). f_equal. apply map_ext.
    intros; now apply triples_order_free. }
  now rewrite E1, E2.
Qed.

Lemma sumq_scale_ind (A : mat) n1 (c : bool) l2 :
  sumq (map (fun n2 => qb (A n1 n2 && c)) l2) = sumq (map (fun n2 => qb (A n1 n2)) l2) * qb c.
Proof.
  induction l2 as [|b l2 IH]; cbn [map]; [cbn; ring|]. rewrite !sumq_cons, IH.
  destruct (A n1 b), c; cbn [andb qb]; ring.
Qed.
Lemma sumq_product (A : mat) n1 l2 l :
  sumq (map (fun a => sumq (map (fun n2 => qb (A n1 n2 && A n1 a)) l2)) l)
  = sumq (map (fun n2 => qb (A n1 n2)) l2) * sumq (map (fun a => qb (A n1 a)) l).
Proof.
  induction l as [|a l IH]; cbn [map]; [cbn; ring|].
  rewrite !sumq_cons, IH, sumq_scale_ind. ring.
Qed.

(* connected triples = k (k-1) / 2 : the norm of the local clustering is the
   number of pairs of cross neighbours *)
Theorem triples_are_neighbour_pairs A l2 n1 :
  (1 + 1) * triples_of A l2 n1 = cross_degree A l2 n1 * (cross_degree A l2 n1 - 1).
Proof.
  unfold triples_of.
  set (f := fun n3 n2 => qb (A n1 n2 && A n1 n3)).
  assert (Hs : forall a b, f a b = f b a) by (intros; unfold f; f_equal; apply andb_comm).
  pose proof (pair_loop_double f l2 Hs) as H.
  assert (D : sumq (map (fun a => f a a) l2) = cross_degree A l2 n1).
  { unfold cross_degree, f. f_equal. apply map_ext. intros a. now rewrite andb_diag. }
  assert (S : S2 f l2 l2 = cross_degree A l2 n1 * cross_degree A l2 n1).
  { unfold S2, cross_degree, f. apply sumq_product. }
  rewrite D, S in H.
  assert (E : (1 + 1) * pair_loop f l2
              = cross_degree A l2 n1 * cross_degree A l2 n1 - cross_degree A l2 n1)
    by (rewrite <- H; ring).
  rewrite E. ring.
Qed.
