(* Facts read from the CURRENT core/data.py and climate/climate_data.py
   (Gen/WindowK.v is regenerated on every run) agree with Model/Window.v. *)
From Coq Require Import QArith List Bool.
From PV.Model Require Import Window.
From PV.Gen Require Import WindowK.
Import ListNotations.
Close Scope Q_scope.

(* the temporal mask of the source is the model's one-axis mask *)
Lemma gen_time_mask_is_model tmin tmax vals :
  map (fun v => gen_time_full tmin tmax || gen_time_in tmin tmax v) vals = axis_mask tmin tmax vals.
Proof.
  unfold axis_mask, gen_time_full, gen_time_in, in_closed.
  destruct (eqQ tmin tmax); cbn [orb]; reflexivity.
Qed.
(* the spatial mask of the source is the model's mask under the rule "full
   extent as soon as EITHER pair of bounds coincides" (per_axis = false) *)
Lemma gen_space_mask_is_model latlo lathi lonlo lonhi lat lon : length lat = length lon ->
  map (fun p => gen_space_full latlo lathi lonlo lonhi
                || gen_space_in latlo lathi lonlo lonhi (fst p) (snd p)) (combine lat lon)
  = space_mask false latlo lathi lonlo lonhi lat lon.
Proof.
  intros HL. unfold space_mask, gen_space_full, gen_space_in, in_closed.
  destruct (eqQ latlo lathi || eqQ lonlo lonhi); cbn [orb].
  - revert lon HL. induction lat as [|a lat IH]; intros [|b lon] HL; try discriminate; [reflexivity|].
    cbn [combine map]. f_equal. apply IH. now injection HL.
  - apply map_ext. intros [a b]. cbn [fst snd]. now rewrite !andb_assoc.
Qed.
Lemma gen_window_facts :
  gen_window_slicing = true /\ gen_phase_mean_by_stride = true /\
  gen_anomaly_is_minus_phase_mean = true.
Proof. repeat split; reflexivity. Qed.
