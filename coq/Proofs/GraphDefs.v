From Coq Require Import ZArith QArith List Bool Arith Lia.
From PV.Model Require Import GraphDefs.
Import ListNotations.
Close Scope Q_scope. Open Scope nat_scope.

(* ---------- clustering is a fraction ---------- *)
Lemma filter_length_le {X} (f : X -> bool) l : length (filter f l) <= length l.
Proof. induction l as [|x l IH]; cbn; [lia|]. destruct (f x); cbn; lia. Qed.
Lemma filter_misses_one (f : nat -> bool) l a : In a l -> f a = false ->
  length (filter f l) + 1 <= length l.
Proof.
  induction l as [|x l IH]; intros Hin Hf; [destruct Hin|]. cbn.
  destruct Hin as [->|Hin].
  - rewrite Hf. pose proof (filter_length_le f l). lia.
  - specialize (IH Hin Hf). destruct (f x); cbn; lia.
Qed.
Lemma list_sum_le_const (g : nat -> nat) l c : (forall a, In a l -> g a <= c) ->
  list_sum (map g l) <= length l * c.
Proof.
  induction l as [|x l IH]; intros H; [cbn; lia|].
  change (list_sum (map g (x :: l))) with (g x + list_sum (map g l)).
  change (length (x :: l)) with (S (length l)).
  pose proof (H x (or_introl eq_refl)). specialize (IH (fun a Ha => H a (or_intror Ha))).
  rewrite Nat.mul_succ_l. lia.
Qed.
Theorem linked_pairs_bound A nb : (forall a, A a a = false) ->
  linked_pairs A nb <= length nb * (length nb - 1).
Proof.
  intros Hd. unfold linked_pairs. apply list_sum_le_const. intros a Ha.
  pose proof (filter_misses_one (fun b => A a b) nb a Ha (Hd a)). lia.
Qed.

Lemma tri_le_trip n A l : (forall a, A a a = false) ->
  list_sum (map (fun i => linked_pairs A (nbrs n A i)) l)
  <= list_sum (map (fun i => degree n A i * (degree n A i - 1)) l).
Proof.
  intros Hd. induction l as [|x l IH]; [cbn; lia|].
  change (list_sum (map (fun i => linked_pairs A (nbrs n A i)) (x :: l)))
    with (linked_pairs A (nbrs n A x) + list_sum (map (fun i => linked_pairs A (nbrs n A i)) l)).
  change (list_sum (map (fun i => degree n A i * (degree n A i - 1)) (x :: l)))
    with (degree n A x * (degree n A x - 1)
          + list_sum (map (fun i => degree n A i * (degree n A i - 1)) l)).
  pose proof (linked_pairs_bound A (nbrs n A x) Hd). unfold degree in *. lia.
Qed.

Open Scope Q_scope.
Lemma qnat_le a b : (a <= b)%nat -> qnat a <= qnat b.
Proof. intros H. unfold qnat. rewrite <- Zle_Qle. lia. Qed.
Lemma qnat_pos a : (0 < a)%nat -> 0 < qnat a.
Proof. intros H. unfold qnat. change 0 with (inject_Z 0). rewrite <- Zlt_Qlt. lia. Qed.
Lemma frac_range a b : (a <= b)%nat -> (0 < b)%nat -> 0 <= qnat a / qnat b /\ qnat a / qnat b <= 1.
Proof.
  intros Hab Hb. pose proof (qnat_pos b Hb) as Pb. split.
  - apply Qle_shift_div_l; [assumption|]. rewrite Qmult_0_l. change 0 with (qnat 0).
    apply qnat_le. lia.
  - apply Qle_shift_div_r; [assumption|]. rewrite Qmult_1_l. now apply qnat_le.
Qed.
Theorem local_clustering_range n A i : (forall a, A a a = false) ->
  0 <= local_clustering n A i /\ local_clustering n A i <= 1.
Proof.
  intros Hd. unfold local_clustering. set (nb := nbrs n A i).
  destruct (length nb <? 2)%nat eqn:E; [split; [apply Qle_refl|discriminate]|].
  apply Nat.ltb_ge in E. apply frac_range; [now apply linked_pairs_bound|nia].
Qed.
Theorem transitivity_range n A : (forall a, A a a = false) ->
  0 <= transitivity n A /\ transitivity n A <= 1.
Proof.
  intros Hd. unfold transitivity.
  set (tri := list_sum (map (fun i => linked_pairs A (nbrs n A i)) (seq 0 n))).
  set (trip := list_sum (map (fun i => (degree n A i * (degree n A i - 1))%nat) (seq 0 n))).
  destruct (trip =? 0)%nat eqn:E; [split; [apply Qle_refl|discriminate]|].
  apply Nat.eqb_neq in E. apply frac_range; [|lia].
  unfold tri, trip. now apply tri_le_trip.
Qed.
Close Scope Q_scope.

(* ---------- paths ---------- *)
Lemma within_mono n A k i j : within n A k i j = true -> within n A (S k) i j = true.
Proof. intros H. cbn [within]. now rewrite H. Qed.
Lemma within_le n A k k' i j : k <= k' -> within n A k i j = true -> within n A k' i j = true.
Proof. induction 1 as [|k' Hle IH]; [auto|]. intros Hw. now apply within_mono, IH. Qed.
Theorem within_self n A k i : within n A k i i = true.
Proof. induction k as [|k IH]; cbn [within]; [apply Nat.eqb_refl|now rewrite IH]. Qed.
(* concatenating a path of length <= a and one of length <= b *)
Theorem within_trans n A b : forall a i j m, m < n -> j < n ->
  within n A a i j = true -> within n A b j m = true -> within n A (a + b) i m = true.
Proof.
  induction b as [|b IH]; intros a i j m Hm Hj H1 H2.
  - cbn [within] in H2. apply Nat.eqb_eq in H2. subst. now rewrite Nat.add_0_r.
  - cbn [within] in H2. apply orb_true_iff in H2. destruct H2 as [H2|H2].
    + replace (a + S b) with (S (a + b)) by lia. apply within_mono. now apply (IH a i j m).
    + apply existsb_exists in H2. destruct H2 as [x [Hx H2]]. apply in_seq in Hx.
      apply andb_true_iff in H2 as [H2 Hxm].
      replace (a + S b) with (S (a + b)) by lia. cbn [within]. apply orb_true_iff. right.
      apply existsb_exists. exists x. split; [apply in_seq; lia|].
      rewrite (IH a i j x) by (try lia; assumption). exact Hxm.
Qed.
(* a link is a path of length 1 *)
Theorem within_link n A i j : j < n -> i < n -> A i j = true -> within n A 1 i j = true.
Proof.
  intros Hj Hi H. cbn [within]. apply orb_true_iff. right. apply existsb_exists.
  exists i. split; [apply in_seq; lia|]. now rewrite Nat.eqb_refl, H.
Qed.
(* the distance is the least number of steps *)
Lemma find_seq_least (P : nat -> bool) l : forall s d, find P (seq s l) = Some d ->
  P d = true /\ s <= d /\ forall k, s <= k < d -> P k = false.
Proof.
  induction l as [|l IH]; intros s d H; cbn in H; [discriminate|].
  destruct (P s) eqn:E.
  - injection H as <-. split; [assumption|]. split; [lia|]. intros k Hk. lia.
  - destruct (IH (S s) d H) as [H1 [H2 H3]]. split; [assumption|]. split; [lia|].
    intros k Hk. destruct (Nat.eq_dec k s) as [->|Hne]; [assumption|]. apply H3. lia.
Qed.
Theorem dist_least n A i j d : dist n A i j = Some d ->
  within n A d i j = true /\ forall k, k < d -> within n A k i j = false.
Proof.
  unfold dist. intros H. destruct (find_seq_least _ _ _ _ H) as [H1 [_ H3]].
  split; [assumption|]. intros k Hk. apply H3. lia.
Qed.
Theorem dist_self n A i : 0 < n -> dist n A i i = Some 0.
Proof.
  intros Hn. unfold dist. destruct n as [|n]; [lia|]. cbn [seq find within].
  now rewrite Nat.eqb_refl.
Qed.

(* ---------- handshake lemma ---------- *)
Lemma filter_seq_S (f : nat -> bool) n :
  filter f (seq 0 (S n)) = filter f (seq 0 n) ++ (if f n then [n] else []).
Proof. rewrite seq_S, filter_app. cbn. now destruct (f n). Qed.
Lemma degree_S n A i : degree (S n) A i = degree n A i + (if A i n then 1 else 0).
Proof. unfold degree, nbrs. rewrite filter_seq_S, app_length. now destruct (A i n). Qed.
Lemma list_sum_map_add (f g : nat -> nat) l :
  list_sum (map (fun i => f i + g i) l) = list_sum (map f l) + list_sum (map g l).
Proof.
  induction l as [|x l IH]; [reflexivity|].
  change (list_sum (map (fun i => f i + g i) (x :: l)))
    with (f x + g x + list_sum (map (fun i => f i + g i) l)).
  change (list_sum (map f (x :: l))) with (f x + list_sum (map f l)).
  change (list_sum (map g (x :: l))) with (g x + list_sum (map g l)). lia.
Qed.
Lemma count_as_sum (f : nat -> bool) l :
  length (filter f l) = list_sum (map (fun i => if f i then 1 else 0) l).
Proof.
  induction l as [|x l IH]; [reflexivity|]. cbn [filter map].
  change (list_sum ((if f x then 1 else 0) :: map (fun i => if f i then 1 else 0) l))
    with ((if f x then 1 else 0) + list_sum (map (fun i => if f i then 1 else 0) l)).
  destruct (f x); cbn [length]; lia.
Qed.
Lemma links_S n A : links (S n) A = links n A + degree n A n.
Proof.
  unfold links. rewrite seq_S, flat_map_app, filter_app, app_length. cbn [flat_map].
  rewrite app_nil_r. change (0 + n) with n. f_equal. unfold degree, nbrs.
  generalize (seq 0 n) as l. induction l as [|j l IH]; [reflexivity|]. cbn [map filter fst snd].
  destruct (A n j); cbn [length]; now rewrite IH.
Qed.
Theorem handshake n A : (forall i j, A i j = A j i) -> (forall i, A i i = false) ->
  list_sum (map (degree n A) (seq 0 n)) = 2 * links n A.
Proof.
  intros Hs Hd. induction n as [|n IH]; [reflexivity|].
  rewrite links_S, seq_S, map_app.
  assert (E : forall l l', list_sum (l ++ l') = list_sum l + list_sum l').
  { intros l l'. induction l as [|x l IHl]; [reflexivity|].
    change (list_sum ((x :: l) ++ l')) with (x + list_sum (l ++ l')).
    change (list_sum (x :: l)) with (x + list_sum l). lia. }
  rewrite E. cbn [map]. change (list_sum [degree (S n) A n]) with (degree (S n) A n + 0).
  rewrite (map_ext (degree (S n) A) (fun i => degree n A i + (if A i n then 1 else 0)))
    by (intros; apply degree_S).
  rewrite list_sum_map_add, IH, degree_S, Hd.
  assert (C : list_sum (map (fun i => if A i n then 1 else 0) (seq 0 n)) = degree n A n).
  { unfold degree, nbrs. rewrite count_as_sum. f_equal. apply map_ext. intros i. now rewrite Hs. }
  rewrite C. change (0 + n) with n. change (list_sum [degree n A n + 0]) with (degree n A n + 0 + 0). lia.
Qed.
