From Coq Require Import ZArith QArith Qabs Qcanon List Bool Arith Lia.
From PV.Base Require Import Sums.
From PV.Model Require Import Coupling.
Import ListNotations.
Open Scope Q_scope.

Lemma Qlt_b_true a b : Qlt_b a b = true <-> a < b.
Proof.
  unfold Qlt_b. rewrite Qlt_alt. destruct (a ?= b); split; intros H; congruence.
Qed.
Lemma Qlt_b_false a b : Qlt_b a b = false <-> b <= a.
Proof.
  split.
  - intros H. destruct (Qlt_le_dec a b) as [L|L]; [|assumption].
    apply Qlt_b_true in L. congruence.
  - intros H. destruct (Qlt_b a b) eqn:E; [|reflexivity].
    apply Qlt_b_true in E. exfalso. exact (Qlt_not_le _ _ E H).
Qed.

(* ---------- the running maximum ---------- *)
Lemma scan_inv f l : forall acc,
  let r := fold_left (scan_step f) l acc in
  Qabs (fst acc) <= Qabs (fst r) /\
  (forall t, In t l -> Qabs (f t) <= Qabs (fst r)) /\
  (r = acc \/ (In (snd r) l /\ fst r = f (snd r))).
Proof.
  induction l as [|t l IH]; intros acc; cbn [fold_left].
  - split; [apply Qle_refl|]. split; [intros ? []|now left].
  - specialize (IH (scan_step f acc t)). cbv zeta in IH. destruct IH as [I1 [I2 I3]].
    unfold scan_step in *. unfold better in *.
    destruct (Qlt_b (Qabs (fst acc)) (Qabs (f t))) eqn:E.
    + apply Qlt_b_true in E. cbn [fst snd] in *. split; [|split].
      * apply Qle_trans with (Qabs (f t)); [now apply Qlt_le_weak|assumption].
      * intros t' [<-|Ht']; [assumption|now apply I2].
      * right. destruct I3 as [-> | [Hin Hf]]; cbn [fst snd]; [split; [now left|reflexivity]|].
        split; [now right|assumption].
    + apply Qlt_b_false in E. split; [assumption|]. split.
      * intros t' [<-|Ht']; [now apply Qle_trans with (Qabs (fst acc))|now apply I2].
      * destruct I3 as [-> | [Hin Hf]]; [now left|right]. split; [now right|assumption].
Qed.

(* 'max' mode reports a lag slice whose |cross correlation| is maximal *)
Theorem scan_absmax f n :
  let r := scan f (seq 0 (n + 1)) in
  (forall t, (t <= n)%nat -> Qabs (f t) <= Qabs (fst r)) /\ (snd r <= n)%nat /\
  (fst r = f (snd r) \/ (r = (0, 0%nat) /\ forall t, (t <= n)%nat -> f t == 0)).
Proof.
  cbv zeta. unfold scan. destruct (scan_inv f (seq 0 (n + 1)) (0, 0%nat)) as [_ [H2 H3]].
  set (r := fold_left (scan_step f) (seq 0 (n + 1)) (0, 0%nat)) in *.
  split; [intros t Ht; apply H2, in_seq; lia|].
  destruct H3 as [E | [Hin Hf]].
  - rewrite E. cbn [fst snd]. split; [lia|]. right. split; [reflexivity|].
    intros t Ht. assert (A : Qabs (f t) <= 0).
    { specialize (H2 t). rewrite E in H2. apply H2, in_seq. lia. }
    apply Qabs_Qle_condition in A. destruct A as [A1 A2]. now apply Qle_antisym.
  - apply in_seq in Hin. split; [lia|now left].
Qed.

Lemma qnat_div0 cr x : x == 0 -> x / qnat cr == 0.
Proof. intros ->. unfold Qdiv. ring. Qed.

(* the value of 'max' mode is the entry of 'all' mode at the reported lag *)
Theorem max_is_all_at_lag a cr tau_max i j :
  let r := cc_max a cr tau_max i j in
  (0 <= snd r <= Z.of_nat tau_max)%Z /\
  fst r == cc_all a cr tau_max i j (Z.to_nat (snd r)).
Proof.
  cbv zeta. unfold cc_max, cc_all. cbn [fst snd].
  set (f := fun tau => cross a cr tau_max tau i j).
  destruct (scan_absmax f tau_max) as [H1 [H2 H3]].
  set (r := scan f (seq 0 (tau_max + 1))) in *.
  split; [lia|].
  replace (Z.to_nat (Z.of_nat tau_max - Z.of_nat (snd r))) with (tau_max - snd r)%nat by lia.
  replace (tau_max - (tau_max - snd r))%nat with (snd r) by lia.
  destruct H3 as [E | [E Hz]].
  - rewrite E. reflexivity.
  - rewrite E. cbn [fst snd]. change (cross a cr tau_max 0 i j) with (f 0%nat).
    rewrite (Hz 0%nat) by lia. reflexivity.
Qed.
(* ... and no entry of the lag function is larger in absolute value *)
Theorem max_dominates_all a cr tau_max i j l : (l <= tau_max)%nat -> (0 < cr)%nat ->
  Qabs (cc_all a cr tau_max i j l) <= Qabs (fst (cc_max a cr tau_max i j)).
Proof.
  intros Hl Hcr. unfold cc_all, cc_max. cbn [fst].
  set (f := fun tau => cross a cr tau_max tau i j).
  destruct (scan_absmax f tau_max) as [H1 _].
  unfold Qdiv. rewrite !Qabs_Qmult. apply Qmult_le_compat_r; [apply (H1 (tau_max - l)%nat); lia|].
  apply Qabs_nonneg.
Qed.
(* the all-mode index of slice tau is tau_max - tau: entry l holds lag l *)
Theorem all_index_is_lag tau_max tau : (tau <= tau_max)%nat ->
  (tau_max - all_index tau_max tau)%nat = tau.
Proof. unfold all_index. lia. Qed.

(* reordering the series reorders the result (the kernels treat nodes alike) *)
Theorem cc_max_equivariant a cr tau_max (p : nat -> nat) i j :
  cc_max (fun t n k => a t (p n) k) cr tau_max i j = cc_max a cr tau_max (p i) (p j).
Proof. reflexivity. Qed.

(* ---------- the fixed-width lag matrix ---------- *)
Close Scope Q_scope. Open Scope Z_scope.
Theorem wrap_id bits z : 0 < bits -> - 2 ^ (bits - 1) <= z < 2 ^ (bits - 1) -> wrap bits z = z.
Proof.
  intros Hb Hz. unfold wrap.
  assert (E : 2 ^ bits = 2 * 2 ^ (bits - 1)).
  { replace bits with (1 + (bits - 1)) at 1 by lia. rewrite Z.pow_add_r by lia. reflexivity. }
  set (h := 2 ^ (bits - 1)) in *. assert (0 < h) by (apply Z.pow_pos_nonneg; lia).
  rewrite E. replace (2 * h / 2) with h by (rewrite (Z.mul_comm 2 h), Z.div_mul; lia).
  destruct (Z_lt_le_dec z 0) as [N|N].
  - assert (M : z mod (2 * h) = z + 2 * h).
    { symmetry. apply Z.mod_unique with (-1); lia. }
    rewrite M. destruct (z + 2 * h <? h) eqn:C; [apply Z.ltb_lt in C; lia|lia].
  - rewrite Z.mod_small by lia. destruct (z <? h) eqn:C; [reflexivity|apply Z.ltb_ge in C; lia].
Qed.
Theorem lag_fits_int8 tau_max argmax : (argmax <= tau_max)%nat -> (tau_max <= 127)%nat ->
  wrap 8 (Z.of_nat tau_max - Z.of_nat argmax) = Z.of_nat tau_max - Z.of_nat argmax.
Proof. intros H1 H2. apply wrap_id; [lia|]. change (2 ^ (8 - 1)) with 128. lia. Qed.
(* beyond 127 an 8-bit lag matrix reports a wrong (negative) lag *)
Theorem lag_wraps_int8 : wrap 8 (Z.of_nat 200 - Z.of_nat 0) = -56.
Proof. reflexivity. Qed.
Close Scope Z_scope. Open Scope Q_scope.

(* ---------- symmetrize_by_absmax ---------- *)
Theorem symS_symmetric S i j : symS S i j = symS S j i.
Proof.
  unfold symS. destruct (Nat.lt_trichotomy i j) as [H|[->|H]].
  - replace (i <? j)%nat with true by (symmetry; apply Nat.ltb_lt; lia).
    replace (j <? i)%nat with false by (symmetry; apply Nat.ltb_ge; lia). reflexivity.
  - reflexivity.
  - replace (i <? j)%nat with false by (symmetry; apply Nat.ltb_ge; lia).
    replace (j <? i)%nat with true by (symmetry; apply Nat.ltb_lt; lia). reflexivity.
Qed.
Theorem symL_antisymmetric S L i j : i <> j -> symL S L i j = (- symL S L j i)%Z.
Proof.
  intros Hne. unfold symL. destruct (Nat.lt_trichotomy i j) as [H|[->|H]]; [|congruence|].
  - replace (i <? j)%nat with true by (symmetry; apply Nat.ltb_lt; lia).
    replace (j <? i)%nat with false by (symmetry; apply Nat.ltb_ge; lia).
    destruct (keep_upper S i j); lia.
  - replace (i <? j)%nat with false by (symmetry; apply Nat.ltb_ge; lia).
    replace (j <? i)%nat with true by (symmetry; apply Nat.ltb_lt; lia).
    destruct (keep_upper S j i); lia.
Qed.
Lemma pick_absmax x y : let v := if better x y then x else y in
  Qabs x <= Qabs v /\ Qabs y <= Qabs v.
Proof.
  cbv zeta. unfold better. destruct (Qlt_b (Qabs y) (Qabs x)) eqn:E.
  - apply Qlt_b_true in E. split; [apply Qle_refl|now apply Qlt_le_weak].
  - apply Qlt_b_false in E. split; [assumption|apply Qle_refl].
Qed.
Theorem symS_is_absmax S i j :
  Qabs (S i j) <= Qabs (symS S i j) /\ Qabs (S j i) <= Qabs (symS S i j) /\
  (symS S i j = S i j \/ symS S i j = S j i).
Proof.
  unfold symS, keep_upper. destruct (i <? j)%nat eqn:E1.
  - destruct (pick_absmax (S i j) (S j i)) as [A B]. split; [assumption|]. split; [assumption|].
    destruct (better (S i j) (S j i)); auto.
  - destruct (j <? i)%nat eqn:E2.
    + destruct (pick_absmax (S j i) (S i j)) as [A B]. split; [assumption|]. split; [assumption|].
      destruct (better (S j i) (S i j)); auto.
    + apply Nat.ltb_ge in E1, E2. assert (i = j) by lia. subst.
      split; [apply Qle_refl|]. split; [apply Qle_refl|now left].
Qed.

(* ---------- Pearson (squared, sign-free) ---------- *)
Open Scope Qc_scope.
Theorem cov_symmetric n x y : cov n x y = cov n y x.
Proof. unfold cov. apply sumn_ext. intros; ring. Qed.
Theorem r2_symmetric n x y : r2 n x y = r2 n y x.
Proof. unfold r2. rewrite (cov_symmetric n x y). f_equal. ring. Qed.

Lemma qcn_0 : qcn 0 = 0.
Proof. apply Qc_is_canon. reflexivity. Qed.
Lemma qcn_S n : qcn (S n) = qcn n + 1.
Proof.
  unfold qcn. apply Qc_is_canon. unfold Qcplus, Q2Qc. cbn [this]. rewrite !Qred_correct.
  rewrite Nat2Z.inj_succ, <- Z.add_1_r, inject_Z_plus. reflexivity.
Qed.
Lemma sumn_const n c : sumn n (fun _ => c) = qcn n * c.
Proof.
  induction n as [|n IH]; [rewrite qcn_0; unfold sumn; cbn; ring|].
  rewrite sumn_S, IH, qcn_S. ring.
Qed.
Lemma qcn_pos n : (0 < n)%nat -> qcn n <> 0.
Proof.
  intros H E. assert (Q : (inject_Z (Z.of_nat n) == 0)%Q).
  { rewrite <- (Qred_correct (inject_Z (Z.of_nat n))).
    change (Qred (inject_Z (Z.of_nat n))) with (this (qcn n)). rewrite E. reflexivity. }
  unfold Qeq in Q. cbn in Q. lia.
Qed.
Lemma mean_affine n a b x : (0 < n)%nat -> mean n (fun k => a * x k + b) = a * mean n x + b.
Proof.
  intros Hn. unfold mean. rewrite sumn_add, sumn_scal, sumn_const. field. now apply qcn_pos.
Qed.
Lemma cov_affine n a b c d x y : (0 < n)%nat ->
  cov n (fun k => a * x k + b) (fun k => c * y k + d) = a * c * cov n x y.
Proof.
  intros Hn. unfold cov. rewrite !mean_affine by assumption.
  rewrite <- sumn_scal. apply sumn_ext. intros; ring.
Qed.
(* the squared correlation is invariant under affine maps of either series *)
Theorem r2_affine n a b c d x y : (0 < n)%nat -> a <> 0 -> c <> 0 ->
  cov n x x <> 0 -> cov n y y <> 0 ->
  r2 n (fun k => a * x k + b) (fun k => c * y k + d) = r2 n x y.
Proof.
  intros Hn Ha Hc Hx Hy. unfold r2. rewrite !cov_affine by assumption. field. repeat split; assumption.
Qed.
(* the sign of the covariance is multiplied by the sign of a * c *)
Theorem cov_affine_sign n a b c d x y : (0 < n)%nat ->
  cov n (fun k => a * x k + b) (fun k => c * y k + d) = (a * c) * cov n x y.
Proof. intros Hn. now rewrite cov_affine. Qed.
