(* The kernels of the CURRENT funcnet/_ext/numerics.pyx are the model. *)
From Coq Require Import ZArith QArith Qabs List Bool Arith.
From PV.Model Require Import Coupling.
From PV.Gen Require Import CouplingK.
From PV.Proofs Require Import Coupling.
Import ListNotations.
Open Scope Q_scope.

Lemma gen_kernels_are_model :
  (forall a tau_max tau i j k, gen_cc_term a tau_max tau i j k = a tau i k * a tau_max j k) /\
  (forall c m, gen_cc_better c m = better c m) /\
  (forall m cr, gen_cc_value m cr = m / qnat cr) /\
  (forall tau_max am, gen_cc_lag tau_max am = (Z.of_nat tau_max - Z.of_nat am)%Z) /\
  (forall tau_max tau, gen_all_index tau_max tau = all_index tau_max tau) /\
  (forall c cr, gen_all_value c cr = c / qnat cr) /\
  (forall S i j, gen_sym_keep_upper S i j = keep_upper S i j).
Proof. repeat split; reflexivity. Qed.

(* the running maximum of the generated kernel *)
Definition gen_cc_max (a : arr3) (cr tau_max i j : nat) : Q * Z :=
  let f := fun tau => sumQ (map (gen_cc_term a tau_max tau i j) (seq 0 cr)) in
  let r := fold_left (fun acc tau => if gen_cc_better (f tau) (fst acc) then (f tau, tau) else acc)
                     (seq 0 (tau_max + 1)) (0, 0%nat) in
  (gen_cc_value (fst r) cr, gen_cc_lag tau_max (snd r)).
Theorem gen_cc_max_is_model a cr tau_max i j : gen_cc_max a cr tau_max i j = cc_max a cr tau_max i j.
Proof. reflexivity. Qed.

(* the lag matrix of the current source holds every lag up to its width *)
Theorem gen_lag_fits tau_max argmax : (argmax <= tau_max)%nat ->
  (Z.of_nat tau_max < 2 ^ (gen_lag_bits - 1))%Z ->
  wrap gen_lag_bits (gen_cc_lag tau_max argmax) = gen_cc_lag tau_max argmax.
Proof.
  intros H1 H2. apply wrap_id; [reflexivity|]. unfold gen_cc_lag.
  assert (0 < 2 ^ (gen_lag_bits - 1))%Z by (apply Z.pow_pos_nonneg; [reflexivity|discriminate]).
  split; [|apply Z.le_lt_trans with (Z.of_nat tau_max); [|assumption]];
    try apply Z.le_sub_nonneg; try apply Nat2Z.is_nonneg.
  apply Z.le_trans with 0%Z; [|apply Zle_minus_le_0, Nat2Z.inj_le, H1].
  apply Z.opp_nonpos_nonneg, Z.lt_le_incl. assumption.
Qed.
