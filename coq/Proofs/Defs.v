From Coq Require Import ZArith QArith Qcanon List Bool Arith Lia.
From PV.Base Require Import Sums.
From PV.Model Require Import NsiLang Split Measures Defs.
From PV.Gen Require Import Widths.
Import ListNotations.
Close Scope Q_scope. Close Scope Qc_scope.

Open Scope Z_scope.
Lemma wrap_id w x : 0 < w -> fits w x -> wrap w x = x.
Proof.
  unfold fits, wrap. intros Hw [H1 H2].
  assert (E : 2 ^ w = 2 * 2 ^ (w - 1)).
  { replace w with (w - 1 + 1) at 1 by lia. rewrite Z.pow_add_r by lia. lia. }
  rewrite Z.mod_small by lia. lia.
Qed.

(* int32: the 5th-order normalisation d(d-1)(d-2)(d-3) fits up to degree 216 ... *)
Lemma cliq5_fits_below_217 : forallb (fun d => Z.eqb (wrap 32 (falling d 4)) (falling d 4))
                                    (map Z.of_nat (seq 0 217)) = true.
Proof. vm_compute. reflexivity. Qed.
(* ... and wraps at 217 (negative at 221) *)
Lemma cliq5_wraps_at_217 : wrap 32 (falling 217 4) <> falling 217 4 /\ wrap 32 (falling 221 4) < 0.
Proof. vm_compute. split; [discriminate|reflexivity]. Qed.
Lemma cliq4_wraps_at_1292 : wrap 32 (falling 1292 3) <> falling 1292 3.
Proof. vm_compute. discriminate. Qed.

(* the CURRENT source: either the normalisation is evaluated in double (exact
   for every degree), or the int32 witness applies *)
Lemma cliq_norm_current :
  (gen_cliq5_norm_in_double = true /\ gen_cliq4_norm_in_double = true /\
   forall d, cliq_norm gen_bits_NODE gen_cliq5_norm_in_double 4 d = falling d 4 /\
             cliq_norm gen_bits_NODE gen_cliq4_norm_in_double 3 d = falling d 3)
  \/ (gen_cliq5_norm_in_double = false /\
      cliq_norm gen_bits_NODE gen_cliq5_norm_in_double 4 217 <> falling 217 4).
Proof.
  first [ left; split; [reflexivity|split; [reflexivity|intros d; split; reflexivity]]
        | right; split; [reflexivity|vm_compute; discriminate] ].
Qed.

(* to_cy(degree, DEGREE): an int16 holds every degree of a network with
   fewer than 32768 nodes; the kernels index nodes with int32 *)
Lemma degree_cast_fits d : gen_bits_DEGREE = 16 /\ gen_bits_NODE = 32 /\ gen_bits_ADJ = 8 /\
  (0 <= d < 32768 -> wrap gen_bits_DEGREE d = d).
Proof.
  repeat split; try reflexivity. intros H. apply wrap_id; [reflexivity|].
  unfold fits. change gen_bits_DEGREE with 16. cbn. lia.
Qed.
Close Scope Z_scope.

(* ---- with unit node weights n.s.i. degree = degree + 1 ---- *)
Open Scope Qc_scope.
Theorem unit_weight_nsi_degree r i : (i < rn r)%nat -> (forall j, ra r j j = false) ->
  (forall j, rw r j = 1) ->
  eval (to_graph r) [i] (K 0) = sumn (rn r) (fun j => ind (ra r i j)) + 1.
Proof.
  intros Hi Hirr Hw. cbn [eval K to_graph gn ap gw var nth].
  transitivity (sumn (rn r) (fun j => ind (ra r i j) + ind (Nat.eqb i j) * 1)).
  - apply sumn_ext. intros j Hj. rewrite Hw. unfold aplus.
    destruct (Nat.eqb_spec i j) as [->|NE]; cbn [orb].
    + rewrite Hirr. unfold ind. ring.
    + unfold ind. destruct (ra r i j); ring.
  - rewrite sumn_add. f_equal. apply (sumn_ind (rn r) i (fun _ => 1)). exact Hi.
Qed.
