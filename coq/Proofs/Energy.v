From Coq Require Import QArith Qcanon List Bool Arith Lia.
From PV.Base Require Import Sums.
From PV.Model Require Import Resistive.
From PV.Proofs Require Import Resistive CauchySchwarz.
Open Scope Qc_scope.

(* v^T L v = 1/2 sum_ij c_ij (v_i - v_j)^2 for a symmetric conductance matrix *)
Lemma energy_form n c (v : nat -> Qc) : (forall i j, c i j = c j i) ->
  (1 + 1) * sumn n (fun i => v i * sumn n (fun j => lap n c i j * v j))
  = sumn n (fun i => sumn n (fun j => c i j * ((v i - v j) * (v i - v j)))).
Proof.
  intros Hc.
  (* sum_i v_i (L v)_i = sum_i d_i v_i^2 - sum_ij c_ij v_i v_j *)
  assert (E : sumn n (fun i => v i * sumn n (fun j => lap n c i j * v j))
            = sumn n (fun i => sumn n (fun j => c i j * (v i * v i)))
              - sumn n (fun i => sumn n (fun j => c i j * (v i * v j)))).
  { rewrite <- sumn_sub. apply sumn_ext. intros i Hi.
    transitivity (v i * (sumn n (fun k => c k i) * v i - sumn n (fun j => c i j * v j))).
    - f_equal. unfold lap.
      transitivity (sumn n (fun j => ind (Nat.eqb i j) * (sumn n (fun k => c k j) * v j))
                    - sumn n (fun j => c i j * v j)).
      + rewrite <- sumn_sub. apply sumn_ext. intros j _. unfold delta. ring.
      + now rewrite (sumn_ind n i (fun j => sumn n (fun k => c k j) * v j) Hi).
    - rewrite <- sumn_sub.
      transitivity (sumn n (fun j => c j i * (v i * v i)) - sumn n (fun j => c i j * (v i * v j))).
      + rewrite <- sumn_sub.
        transitivity (v i * sumn n (fun j => c j i * v i - c i j * v j)).
        * f_equal. rewrite sumn_sub. f_equal.
          rewrite (Qcmult_comm _ (v i)), <- sumn_scal. apply sumn_ext; intros; ring.
        * rewrite <- sumn_scal. apply sumn_ext; intros; ring.
      + rewrite <- !sumn_sub. apply sumn_ext. intros j _. rewrite (Hc j i). ring. }
  rewrite E.
  transitivity (sumn n (fun i => sumn n (fun j => c i j * (v i * v i)))
                + sumn n (fun i => sumn n (fun j => c i j * (v j * v j)))
                - (1 + 1) * sumn n (fun i => sumn n (fun j => c i j * (v i * v j)))).
  - assert (S : sumn n (fun i => sumn n (fun j => c i j * (v j * v j)))
              = sumn n (fun i => sumn n (fun j => c i j * (v i * v i)))).
    { rewrite sumn_swap. apply sumn_ext. intros i _. apply sumn_ext. intros j _.
      now rewrite (Hc j i). }
    rewrite S. ring.
  - replace (sumn n (fun i => sumn n (fun j => c i j * (v i * v i)))
             + sumn n (fun i => sumn n (fun j => c i j * (v j * v j)))
             - (1 + 1) * sumn n (fun i => sumn n (fun j => c i j * (v i * v j))))
      with (sumn n (fun i => sumn n (fun j => c i j * (v i * v i)))
            + sumn n (fun i => sumn n (fun j => c i j * (v j * v j)))
            + (-(1 + 1)) * sumn n (fun i => sumn n (fun j => c i j * (v i * v j)))) by ring.
    rewrite <- sumn_scal, <- !sumn_add. apply sumn_ext. intros i _.
    rewrite <- sumn_scal, <- !sumn_add. apply sumn_ext. intros j _. ring.
Qed.

Lemma Qc_mult_nonneg (x y : Qc) : 0 <= x -> 0 <= y -> 0 <= x * y.
Proof.
  intros Hx Hy. replace 0 with (0 * y) by ring. now apply Qcmult_le_compat_r.
Qed.
Lemma half_nonneg (D : Qc) : 0 <= (1 + 1) * D -> 0 <= D.
Proof.
  intros H. destruct (Qclt_le_dec D 0) as [Hn|Hp]; [|assumption].
  exfalso. assert (H2 : (1 + 1) * D < 0).
  { replace 0 with ((1 + 1) * 0) by ring. rewrite !(Qcmult_comm (1 + 1)).
    apply Qcmult_lt_compat_r; [reflexivity|assumption]. }
  exact (Qclt_not_le _ _ H2 H).
Qed.

(* effective resistances of a network with non-negative conductances are
   non-negative: they are the dissipated energy of a unit current *)
Theorem eff_nonneg n c R a b : (a < n)%nat -> (b < n)%nat ->
  (forall i j, c i j = c j i) -> (forall i j, 0 <= c i j) ->
  is_pinv n (lap n c) R -> 0 <= eff R a b.
Proof.
  intros Ha Hb Hc Hpos HP.
  destruct (Nat.eq_dec a b) as [->|Hne]; [rewrite eff_self_zero; apply Qcle_refl|].
  set (v := fun j => R j a - R j b).
  assert (HV : forall i, (i < n)%nat -> sumn n (fun j => lap n c i j * v j) = delta i a - delta i b).
  { intros i Hi. destruct HP as [_ HLR]. unfold v.
    transitivity (sumn n (fun j => lap n c i j * R j a) - sumn n (fun j => lap n c i j * R j b)).
    - rewrite <- sumn_sub. apply sumn_ext. intros; ring.
    - rewrite !HLR by assumption. ring. }
  rewrite (eff_is_potential_drop n (lap n c) R v a b Ha Hb HP HV).
  (* v_a - v_b = sum_i v_i (L v)_i *)
  assert (E : v a - v b = sumn n (fun i => v i * sumn n (fun j => lap n c i j * v j))).
  { transitivity (sumn n (fun i => v i * (delta i a - delta i b))).
    - transitivity (sumn n (fun i => v i * ind (Nat.eqb i a)) - sumn n (fun i => v i * ind (Nat.eqb i b))).
      + now rewrite !sumn_ind_r.
      + rewrite <- sumn_sub. apply sumn_ext. intros; unfold delta; ring.
    - apply sumn_ext. intros i Hi. now rewrite HV. }
  rewrite E. apply half_nonneg. rewrite energy_form by assumption.
  apply sumn_nonneg. intros i _. apply sumn_nonneg. intros j _.
  apply Qc_mult_nonneg; [apply Hpos|apply Qc_sq_nonneg].
Qed.
