From Coq Require Import QArith Qround Lqa List Bool Arith ZArith Lia Sorting Permutation.
From PV.Base Require Import F32.
From PV.Model Require Import Recurrence Threshold.
From PV.Proofs Require Import Visibility Recurrence.
Import ListNotations.
Close Scope Q_scope. Close Scope Z_scope. Open Scope nat_scope.

Theorem adj_spec S thr i j : adj S thr i j = true <-> i <> j /\ (thr < S i j)%Q.
Proof.
  unfold adj. rewrite andb_true_iff, negb_true_iff, Nat.eqb_neq, ltQ_spec. reflexivity.
Qed.

Theorem adj_antitone S t1 t2 i j : (t1 <= t2)%Q -> adj S t2 i j = true -> adj S t1 i j = true.
Proof. rewrite !adj_spec. intros H [Hn Hl]. split; [assumption|lra]. Qed.

Theorem adj_symmetric S thr i j : (forall a b, S a b = S b a) -> adj S thr i j = adj S thr j i.
Proof. intros H. unfold adj. now rewrite (Nat.eqb_sym i j), H. Qed.

Theorem adj_no_loops S thr i : adj S thr i i = false.
Proof. unfold adj. now rewrite Nat.eqb_refl. Qed.

(* damping by a weight in [0,1] never adds a link when similarities are >= 0 *)
Theorem damped_removes_only S g thr i j : (0 <= thr)%Q -> (0 <= S i j)%Q -> (0 <= g i j <= 1)%Q ->
  adj (damped S g) thr i j = true -> adj S thr i j = true.
Proof. rewrite !adj_spec. unfold damped. intros Ht Hs Hg [Hn Hl]. split; [assumption|nra]. Qed.

(* ---- density -> threshold ---- *)
Definition count_gt (thr : Q) (l : list Q) : nat := length (filter (fun d => ltQ thr d) l).

Lemma count_gt_perm thr l l' : Permutation l l' -> count_gt thr l = count_gt thr l'.
Proof.
  unfold count_gt. induction 1; cbn; auto.
  - destruct (ltQ thr x); cbn; auto.
  - destruct (ltQ thr x), (ltQ thr y); reflexivity.
  - congruence.
Qed.
Lemma count_gt_app thr a b : count_gt thr (a ++ b) = count_gt thr a + count_gt thr b.
Proof. unfold count_gt. now rewrite filter_app, app_length. Qed.

Lemma count_gt_le_length thr l : count_gt thr l <= length l.
Proof. unfold count_gt. induction l as [|a l IH]; cbn; [lia|]. destruct (ltQ thr a); cbn; lia. Qed.

Lemma count_gt_sorted l : StronglySorted qle l -> forall i, i < length l ->
  count_gt (nth i l 0%Q) l + i + 1 <= length l.
Proof.
  induction 1 as [|a l Hs IH Ha]; intros i Hi; [cbn in Hi; lia|].
  destruct i as [|i]; cbn [nth length].
  - unfold count_gt. cbn [filter].
    assert (E : ltQ a a = false) by (apply ltQ_false; unfold qle; lra). rewrite E.
    pose proof (count_gt_le_length a l). unfold count_gt in H. lia.
  - cbn in Hi. specialize (IH i ltac:(lia)). unfold count_gt in *. cbn [filter].
    assert (E : ltQ (nth i l 0%Q) a = false).
    { apply ltQ_false. rewrite Forall_forall in Ha. apply Ha. apply nth_In. lia. }
    rewrite E. lia.
Qed.

(* the similarity matrix as n diagonal entries, all equal to the maximum M, and
   the off-diagonal entries: at most len - 1 - idx - n off-diagonal entries
   exceed the selected threshold, i.e. the realised density is <= the request *)
Theorem density_bound flat diags offs M rho n :
  Permutation flat (diags ++ offs) -> length diags = n -> length flat = n * n ->
  Forall (fun d => d = M) diags -> Forall (fun x => (x <= M)%Q) offs ->
  density_index rho n < length flat ->
  let thr := threshold_of_density flat rho n in
  count_gt thr offs + n + density_index rho n + 1 <= n * n \/ count_gt thr offs = 0.
Proof.
  intros P Ld Lf Hd Ho Hi thr.
  assert (Hs := sortQ_sorted flat). assert (Pp := sortQ_perm flat).
  assert (Li : density_index rho n < length (sortQ flat)) by (now rewrite <- (Permutation_length Pp)).
  pose proof (count_gt_sorted _ Hs _ Li) as Hc. fold (threshold_of_density flat rho n) in Hc. fold thr in Hc.
  rewrite <- (count_gt_perm thr _ _ Pp), (count_gt_perm thr _ _ P), count_gt_app in Hc.
  rewrite <- (Permutation_length Pp), Lf in Hc.
  destruct (ltQ thr M) eqn:E.
  - left. assert (G : count_gt thr diags = n).
    { rewrite <- Ld. clear -Hd E. unfold count_gt. induction Hd as [|d l -> _ IH]; cbn; [reflexivity|].
      rewrite E. cbn. now rewrite IH. }
    lia.
  - right. apply ltQ_false in E. unfold qle in E. clear -Ho E. unfold count_gt.
    induction Ho as [|x l Hx _ IH]; cbn; [reflexivity|].
    assert (E2 : ltQ thr x = false) by (apply ltQ_false; unfold qle; lra). now rewrite E2.
Qed.

(* ... and the selected rank is the stated quantile: rank > (1-rho)(n^2-n) - 1 *)
Theorem density_index_bound rho n : (0 <= rho <= 1)%Q ->
  ((1 - rho) * inject_Z (Z.of_nat (n * n - n)) < inject_Z (Z.of_nat (density_index rho n)) + 1)%Q.
Proof.
  intros Hr. unfold density_index.
  set (x := ((1 - rho) * inject_Z (Z.of_nat (n * n - n)))%Q).
  assert (Hx : (0 <= x)%Q).
  { unfold x. assert (0 <= inject_Z (Z.of_nat (n * n - n)))%Q.
    { change 0%Q with (inject_Z 0). rewrite <- Zle_Qle. lia. } nra. }
  assert (H0 : (0 <= Qfloor x)%Z).
  { change 0%Z with (Qfloor 0). now apply Qfloor_resp_le. }
  rewrite Z2Nat.id by assumption. pose proof (Qlt_floor x) as H.
  rewrite inject_Z_plus in H. exact H.
Qed.

(* ---- consistency after every setter sequence ---- *)
Fixpoint cn_run flat n st (ops : list cn_op) : cn_state :=
  match ops with [] => st | o :: l => cn_run flat n (cn_step flat n st o) l end.

Theorem consistent S g flat n st ops i j :
  let st' := cn_run flat n st ops in
  cn_adj S g st' i j = true <->
  i <> j /\ (cn_thr st' < (if cn_nonlocal st' then damped S g else S) i j)%Q.
Proof. cbv zeta. unfold cn_adj. apply adj_spec. Qed.
