From Coq Require Import QArith Qcanon List Permutation.
From PV.Model Require Import PairLoop.
Import ListNotations.
Open Scope Qc_scope.

Lemma row_sum_perm f a l l' : Permutation l l' -> row_sum f a l = row_sum f a l'.
Proof.
  unfold row_sum. induction 1 as [|x l l' _ IH|x y l|l l' l'' _ IH1 _ IH2]; cbn [fold_right].
  - reflexivity.
  - now rewrite IH.
  - ring.
  - now rewrite IH1.
Qed.

(* a symmetric summand makes the unique-pairs loop independent of the order
   in which the node list is given *)
Theorem pair_loop_order_free f l l' :
  (forall a b, f a b = f b a) -> Permutation l l' -> pair_loop f l = pair_loop f l'.
Proof.
  intros Hsym. induction 1 as [|x l l' P IH|x y l|l l' l'' _ IH1 _ IH2]; cbn [pair_loop].
  - reflexivity.
  - rewrite IH, (row_sum_perm f x l l' P). reflexivity.
  - unfold row_sum; cbn [fold_right]. rewrite (Hsym y x). ring.
  - now rewrite IH1.
Qed.

(* the `for j: for k in range(j)` form enumerates the same pairs *)
Corollary pair_loop_rev f l :
  (forall a b, f a b = f b a) -> pair_loop f (rev l) = pair_loop f l.
Proof. intros H. apply pair_loop_order_free; auto. apply Permutation_sym, Permutation_rev. Qed.
