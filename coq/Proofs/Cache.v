From Coq Require Import List Lia Bool Arith String.
From PV.Model Require Import Cache.
Import ListNotations.
Open Scope string_scope.

Lemma lstr_eqb_eq a : forall b, lstr_eqb a b = true -> a = b.
Proof.
  induction a as [|x a IH]; intros [|y b] H; cbn in H; try discriminate; auto.
  apply andb_prop in H as [H1 H2]. apply String.eqb_eq in H1. subst. f_equal. auto.
Qed.
Lemma cmethod_eqb_eq a b : cmethod_eqb a b = true -> a = b.
Proof.
  unfold cmethod_eqb. intros H. apply andb_prop in H as [H H3]. apply andb_prop in H as [H1 H2].
  apply String.eqb_eq in H1. apply lstr_eqb_eq in H2. apply lstr_eqb_eq in H3.
  destruct a, b; cbn in *; subst; reflexivity.
Qed.
Lemma lnat_eqb_eq a : forall b, lnat_eqb a b = true -> a = b.
Proof.
  induction a as [|x a IH]; intros [|y b] H; cbn in H; try discriminate; auto.
  apply andb_prop in H as [H1 H2]. apply Nat.eqb_eq in H1. subst. f_equal. auto.
Qed.
Lemma mem_In x l : mem x l = true <-> In x l.
Proof.
  unfold mem. rewrite existsb_exists. split.
  - intros [y [Hy E]]. apply String.eqb_eq in E. now subst.
  - intros H. exists x. split; auto. apply String.eqb_refl.
Qed.
Lemma map_eq_in {A B} (g h : A -> B) l : map g l = map h l -> forall x, In x l -> g x = h x.
Proof.
  induction l as [|a l IH]; cbn; intros H x Hx; [tauto|].
  injection H as H1 H2. destruct Hx as [->|Hx]; auto.
Qed.

Section Coherence.
Variables (args value : Type).
Variable args_eqb : args -> args -> bool.
Hypothesis args_eqb_spec : forall a b, args_eqb a b = true -> a = b.
Variable f : cmethod -> store -> args -> value.
(* a method depends on the store only through the fields it reads *)
Hypothesis f_frame : forall m s s' a,
  (forall x, In x (m_reads m) -> s x = s' x) -> f m s a = f m s' a.

Notation query := (query args value args_eqb f).
Notation run := (run args value args_eqb f).
Notation entry := (entry args value).
Notation cache := (cache args value).

(* a mutation step of the real object, as far as the cache can see it *)
Definition mutates (mu : cmutator) (s s' : store) : Prop :=
  (forall x, touches (mu_changed mu ++ mu_bumps mu) x = false -> s' x = s x) /\
  (forall c, is_counter c = true -> s c <= s' c) /\
  (forall c, In c (mu_bumps mu) -> s c < s' c).

Definition adequate_for (mu : cmutator) (m : cmethod) : Prop :=
  (forall x, In x (m_reads m) -> touches (mu_changed mu ++ mu_bumps mu) x = true ->
     In x (m_key m) \/ exists c, In c (mu_bumps mu) /\ In c (m_key m)) /\
  (forall c, In c (mu_bumps mu) -> is_counter c = true).

(* ghost invariant: every entry was computed in an earlier store s0 whose key
   fields can only coincide with the current ones if nothing it read changed *)
Definition entry_ok (s : store) (e : entry) : Prop :=
  exists s0, e_v _ _ e = f (e_m _ _ e) s0 (e_a _ _ e) /\
    e_kv _ _ e = map s0 (m_key (e_m _ _ e)) /\
    (forall c, is_counter c = true -> s0 c <= s c) /\
    (forall x, In x (m_reads (e_m _ _ e)) -> s x <> s0 x ->
        In x (m_key (e_m _ _ e)) \/
        exists c, In c (m_key (e_m _ _ e)) /\ is_counter c = true /\ s0 c < s c).

Variable good : cmethod -> Prop.     (* the methods we speak about *)
Definition inv (s : store) (c : cache) : Prop :=
  forall e, In e c -> good (e_m _ _ e) -> entry_ok s e.

Lemma hit_fresh s c m a e : inv s c -> good m -> In e c ->
  hit args value args_eqb s m a e = true -> e_v _ _ e = f m s a.
Proof.
  intros Hinv Hg Hin Hh. unfold hit in Hh.
  apply andb_prop in Hh as [Hh Hkv]. apply andb_prop in Hh as [Hm Ha].
  apply cmethod_eqb_eq in Hm. apply args_eqb_spec in Ha. apply lnat_eqb_eq in Hkv.
  subst m a. destruct (Hinv e Hin Hg) as (s0 & Hv & Hk0 & Hmono & Hdiff).
  rewrite Hv. apply f_frame. intros x Hx.
  destruct (Nat.eq_dec (s x) (s0 x)) as [E|NE]; [now symmetry|]. exfalso.
  rewrite Hk0 in Hkv. pose proof (map_eq_in _ _ _ Hkv) as Hagree.
  destruct (Hdiff x Hx NE) as [Hk1|(c9 & Hc & _ & Hlt)].
  - apply NE. symmetry. now apply Hagree.
  - specialize (Hagree c9 Hc). lia.
Qed.

Theorem query_fresh s c m a : inv s c -> good m ->
  fst (query s c m a) = f m s a /\ inv s (snd (query s c m a)).
Proof.
  intros Hinv Hg. unfold Cache.query.
  destruct (find (hit args value args_eqb s m a) c) as [e|] eqn:Hf; cbn [fst snd].
  - apply find_some in Hf as [Hin Hh]. split; [eapply hit_fresh; eauto|assumption].
  - split; [reflexivity|]. intros e [<-|Hin] Hge; [|now apply Hinv].
    exists s. cbn. repeat split; auto. intros x _ NE. now elim NE.
Qed.

Lemma query_inv_any s c m a : inv s c -> inv s (snd (query s c m a)).
Proof.
  intros Hinv. unfold Cache.query.
  destruct (find (hit args value args_eqb s m a) c) as [e|] eqn:Hf; cbn [snd]; [assumption|].
  intros e [<-|Hin] Hge; [|now apply Hinv].
  exists s. cbn. repeat split; auto. intros x _ NE. now elim NE.
Qed.

Theorem mutate_inv mu s s' c :
  (forall m, good m -> adequate_for mu m) -> mutates mu s s' -> inv s c -> inv s' c.
Proof.
  intros Had (Hout & Hmono & Hb) Hinv e He Hg.
  destruct (Hinv e He Hg) as (s0 & Hv & Hk & Hm0 & Hdiff). destruct (Had _ Hg) as [Had1 Had2].
  exists s0. repeat split; auto.
  - intros c0 Hc0. specialize (Hm0 c0 Hc0). specialize (Hmono c0 Hc0). lia.
  - intros x Hx NE. destruct (Nat.eq_dec (s x) (s0 x)) as [E|NE0].
    + (* x was changed by this very mutation *)
      assert (Hch : touches (mu_changed mu ++ mu_bumps mu) x = true).
      { destruct (touches (mu_changed mu ++ mu_bumps mu) x) eqn:T; auto.
        exfalso. apply NE. rewrite Hout; auto. }
      destruct (Had1 x Hx Hch) as [Hk1|(c0 & Hc0 & Hk0)]; [now left|]. right.
      exists c0. repeat split; auto. specialize (Hm0 c0 (Had2 c0 Hc0)). specialize (Hb c0 Hc0). lia.
    + destruct (Hdiff x Hx NE0) as [Hk1|(c0 & Hk0 & Hcnt & Hlt)]; [now left|]. right.
      exists c0. repeat split; auto. specialize (Hmono c0 Hcnt). lia.
Qed.

Lemma evict_inv s c k : inv s c -> inv s (filter k c).
Proof. intros H e He. apply filter_In in He as [He _]. now apply H. Qed.

Fixpoint legal (s : store) (h : list (op args value)) : Prop :=
  match h with
  | [] => True
  | Q _ _ _ _ :: h' => legal s h'
  | M _ _ mu s' :: h' => (forall m, good m -> adequate_for mu m) /\ mutates mu s s' /\ legal s' h'
  | Evict _ _ _ :: h' => legal s h'
  end.

(* after ANY history of queries, adequate mutations and evictions, every
   query of a good method returns the value for the CURRENT store *)
Theorem coherence h : forall s c, inv s c -> legal s h ->
  let (s1, c1) := run s c h in
  inv s1 c1 /\ forall m a, good m -> fst (query s1 c1 m a) = f m s1 a.
Proof.
  induction h as [|o h IH]; intros s c Hinv Hl; cbn [Cache.run].
  - split; auto. intros m a Hg. now apply query_fresh.
  - destruct o as [m a|mu s'|k]; cbn [legal] in Hl.
    + apply IH; auto. now apply query_inv_any.
    + destruct Hl as (Had & Hmu & Hl). apply IH; auto. eapply mutate_inv; eauto.
    + apply IH; auto. now apply evict_inv.
Qed.

(* repeating a query without mutation in between returns the same value *)
Corollary repeat_equal s c m a : inv s c -> good m ->
  fst (query s (snd (query s c m a)) m a) = fst (query s c m a).
Proof.
  intros Hinv Hg. destruct (query_fresh s c m a Hinv Hg) as [E I2].
  destruct (query_fresh s _ m a I2 Hg) as [E2 _]. now rewrite E, E2.
Qed.
End Coherence.

(* ---- the boolean decision procedure used on the generated tables ---- *)
Lemma adequate_mm_sound mu m : adequate_mm mu m = true -> adequate_for mu m.
Proof.
  unfold adequate_mm, adequate_for. intros H.
  apply andb_prop in H as [H Hcnt]. apply andb_prop in H as [H Hres].
  rewrite forallb_forall in H. rewrite forallb_forall in Hcnt. split.
  - intros x Hx Ht. specialize (H x Hx). rewrite Ht in H. cbn [negb orb] in H.
    apply orb_prop in H as [H|H].
    + left. now apply mem_In.
    + right. apply existsb_exists in H as (c & Hc & Hk). exists c. split; auto. now apply mem_In.
  - exact Hcnt.
Qed.

Definition good_in (t : ctable) (m : cmethod) : Prop :=
  forallb (fun mu => adequate_mm mu m) (t_mutators t) = true.

Lemma inadequate_nil_good t m : inadequate t = [] -> In m (t_methods t) -> good_in t m.
Proof.
  unfold inadequate, good_in. intros H Hm. apply forallb_forall. intros mu Hmu.
  destruct (adequate_mm mu m) eqn:E; auto. exfalso.
  assert (In (t_class t, m_name m, mu_name mu)
    (flat_map (fun mu0 => flat_map (fun m0 => if adequate_mm mu0 m0 then [] else [(t_class t, m_name m0, mu_name mu0)])
       (t_methods t)) (t_mutators t))).
  { apply in_flat_map. exists mu. split; auto. apply in_flat_map. exists m. split; auto. rewrite E. now left. }
  rewrite H in H0. inversion H0.
Qed.

(* a (method, mutator) pair that the decision procedure accepts never shows up
   in the list of inadequate triples, and vice versa *)
Lemma inadequate_spec t m mu : In m (t_methods t) -> In mu (t_mutators t) ->
  adequate_mm mu m = false -> In (t_class t, m_name m, mu_name mu) (inadequate t).
Proof.
  intros Hm Hmu E. unfold inadequate. apply in_flat_map. exists mu. split; auto.
  apply in_flat_map. exists m. split; auto. rewrite E. now left.
Qed.
