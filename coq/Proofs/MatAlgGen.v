(* The expressions regenerated from core/network.py (Gen/NsiTerms.v, terms of
   the sparse-matrix algebra of Model/MatAlg.v) denote the index-sum terms of
   Model/Measures.v.  Together with eval_pullback this makes node-splitting
   and relabelling invariance a theorem about the expression the source
   computes today, not about a transcription. *)
From Coq Require Import QArith Qcanon List Lia Bool Arith.
From PV.Base Require Import Sums ListX.
From PV.Model Require Import NsiLang Measures MatAlg Split.
From PV.Proofs Require Import NsiLang Split Measures.
From PV.Gen Require Import NsiTerms.
Import ListNotations.
Open Scope Qc_scope.

(* ---- sums ---------------------------------------------------------------- *)
Lemma sumn_scal_r n c f : sumn n (fun i => f i * c) = sumn n f * c.
Proof.
  rewrite Qcmult_comm, <- sumn_scal. apply sumn_ext; intros; ring.
Qed.

Lemma delta_sym i j : delta i j = delta j i.
Proof. unfold delta. now rewrite Nat.eqb_sym. Qed.

Lemma sumn_delta_l n a f : (a < n)%nat -> sumn n (fun k => delta k a * f k) = f a.
Proof. intros H. unfold delta. now apply sumn_ind_r. Qed.

Lemma sumn_delta_r n a f : (a < n)%nat -> sumn n (fun k => f k * delta k a) = f a.
Proof.
  intros H. rewrite <- (sumn_delta_l n a f H). apply sumn_ext; intros; ring.
Qed.

Lemma qnat1 : qnat 1 = 1.
Proof. now apply Qc_is_canon. Qed.

(* (w a) / (w b) = a / b  for w <> 0, also when b = 0 *)
Lemma div_cancel_l w a b : w <> 0 -> (w * a) / (w * b) = a / b.
Proof.
  intros H. unfold Qcdiv. rewrite Qcinv_mult_distr.
  transitivity ((w * / w) * (a * / b)); [ring|].
  rewrite Qcmult_inv_r by assumption. ring.
Qed.

(* ---- diagonal factors ---------------------------------------------------- *)
(* D is a "weight diagonal" if right multiplication by it scales column b by
   w_b and left multiplication scales row a by w_a *)
Definition wdiag (G : graph) (D : mexp) : Prop :=
  forall a b, mden G D a b = delta a b * gw G a.

Lemma wdiag_diag G : wdiag G (MDiag VW).
Proof. intros a b. reflexivity. Qed.

(* sp.csc_matrix(np.eye(N) * w) *)
Lemma wdiag_nodew G : wdiag G (MHad (MDiag (VConst 1)) (MRows VW)).
Proof.
  intros a b. cbn [mden vden]. unfold delta.
  destruct (Nat.eqb_spec a b) as [->|]; cbn [ind]; ring.
Qed.

Lemma mul_wdiag_r G D M a b : wdiag G D -> (b < gn G)%nat ->
  mden G (MMul M D) a b = mden G M a b * gw G b.
Proof.
  intros HD Hb. cbn [mden].
  rewrite (sumn_ext _ _ (fun k => (mden G M a k * gw G k) * delta k b)).
  - now rewrite sumn_delta_r.
  - intros k _. cbv beta. rewrite HD. ring.
Qed.

Lemma mul_wdiag_l G D M a b : wdiag G D -> (a < gn G)%nat ->
  mden G (MMul D M) a b = gw G a * mden G M a b.
Proof.
  intros HD Ha. cbn [mden].
  rewrite (sumn_ext _ _ (fun k => delta k a * (gw G k * mden G M k b))).
  - now rewrite sumn_delta_l.
  - intros k _. cbv beta. rewrite HD. unfold delta. rewrite (Nat.eqb_sym a k).
    destruct (Nat.eqb_spec k a) as [->|]; cbn [ind]; ring.
Qed.

(* diag((X D)(Y D)(Z D))_i = w_i sum_u w_u sum_v w_v X_iu Y_uv Z_vi *)
Lemma diag3 G D X Y Z i : wdiag G D -> (i < gn G)%nat ->
  mden G (MMul (MMul (MMul X D) (MMul Y D)) (MMul Z D)) i i =
  gw G i * sumn (gn G) (fun u => gw G u * sumn (gn G) (fun v => gw G v *
             (mden G X i u * mden G Y u v * mden G Z v i))).
Proof.
  intros HD Hi. cbn [mden]. fold (mden G (MMul X D)) (mden G (MMul Y D)) (mden G (MMul Z D)).
  rewrite (sumn_ext _ _ (fun k => sumn (gn G) (fun j =>
      gw G i * (gw G j * (gw G k * (mden G X i j * mden G Y j k * mden G Z k i)))))).
  - rewrite sumn_swap, <- sumn_scal. apply sumn_ext; intros u _.
    rewrite <- sumn_scal, <- sumn_scal. apply sumn_ext; intros v _. ring.
  - intros k Hk.
    change (sumn (gn G) (fun j => mden G (MMul X D) i j * mden G (MMul Y D) j k)
            * mden G (MMul Z D) k i = sumn (gn G) (fun j =>
      gw G i * (gw G j * (gw G k * (mden G X i j * mden G Y j k * mden G Z k i))))).
    rewrite <- sumn_scal_r. apply sumn_ext; intros j Hj.
    rewrite !mul_wdiag_r by assumption. ring.
Qed.

(* diag((X D)(Y D) Z)_i = sum_u w_u sum_v w_v X_iu Y_uv Z_vi *)
Lemma diag3_open G D X Y Z i : wdiag G D -> (i < gn G)%nat ->
  mden G (MMul (MMul (MMul X D) (MMul Y D)) Z) i i =
  sumn (gn G) (fun u => gw G u * sumn (gn G) (fun v => gw G v *
             (mden G X i u * mden G Y u v * mden G Z v i))).
Proof.
  intros HD Hi.
  change (sumn (gn G) (fun k => sumn (gn G) (fun j => mden G (MMul X D) i j * mden G (MMul Y D) j k)
            * mden G Z k i) = sumn (gn G) (fun u => gw G u * sumn (gn G) (fun v => gw G v *
             (mden G X i u * mden G Y u v * mden G Z v i)))).
  rewrite (sumn_ext _ _ (fun k => sumn (gn G) (fun j =>
      gw G j * (gw G k * (mden G X i j * mden G Y j k * mden G Z k i))))).
  - rewrite sumn_swap. apply sumn_ext; intros u _.
    rewrite <- sumn_scal. apply sumn_ext; intros v _. ring.
  - intros k Hk. rewrite <- sumn_scal_r. apply sumn_ext; intros j Hj.
    rewrite !mul_wdiag_r by assumption. ring.
Qed.

(* ---- degrees --------------------------------------------------------------- *)
Lemma eval_K G env x : eval G env (K x) =
  sumn (gn G) (fun u => gw G u * ind (ap G (var env x) u)).
Proof. reflexivity. Qed.
Lemma eval_Kin G env x : eval G env (Kin x) =
  sumn (gn G) (fun u => gw G u * ind (ap G u (var env x))).
Proof. reflexivity. Qed.

Lemma den_kout G i : vden G (VMatVec MAplus VW) i =
  sumn (gn G) (fun u => gw G u * ind (ap G i u)).
Proof. cbn [vden mden]. apply sumn_ext; intros; ring. Qed.
Lemma den_kin G i : vden G (VVecMat VW MAplus) i =
  sumn (gn G) (fun u => gw G u * ind (ap G u i)).
Proof. reflexivity. Qed.

Theorem gen_nsi_degree_denotes G i :
  vden G gen_nsi_degree i = eval G [i] (nsi_degree false).
Proof. unfold gen_nsi_degree. now rewrite den_kout. Qed.

Theorem gen_nsi_indegree_denotes G i :
  vden G gen_nsi_indegree i = eval G [i] nsi_indegree.
Proof. reflexivity. Qed.

Theorem gen_nsi_outdegree_denotes G i :
  vden G gen_nsi_outdegree i = eval G [i] nsi_outdegree.
Proof. unfold gen_nsi_outdegree. now rewrite den_kout. Qed.

Theorem gen_nsi_degree_directed_denotes G i :
  vden G gen_nsi_degree_directed i = eval G [i] (nsi_degree true).
Proof.
  change (vden G (VVecMat VW MAplus) i + vden G (VMatVec MAplus VW) i =
          eval G [i] (Kin 0) + eval G [i] (Kout 0)).
  now rewrite den_kout.
Qed.

Theorem gen_nsi_degree_tw_denotes G tw i :
  vden G (gen_nsi_degree_tw tw) i = eval G [i] (correct tw (nsi_degree false)).
Proof.
  unfold gen_nsi_degree_tw.
  change (vden G (VMatVec MAplus VW) i / tw - qnat 1 = eval G [i] (K 0) / tw - 1).
  now rewrite den_kout, qnat1.
Qed.

Theorem gen_nsi_instrength_denotes G a i :
  vden G (gen_nsi_instrength a) i = eval G [i] (nsi_instrength a).
Proof. reflexivity. Qed.

Theorem gen_nsi_outstrength_denotes G a i :
  vden G (gen_nsi_outstrength a) i = eval G [i] (nsi_outstrength a).
Proof. cbn. apply sumn_ext; intros; ring. Qed.

Theorem gen_nsi_strength_denotes G a i :
  vden G (gen_nsi_strength a) i = eval G [i] (nsi_strength false a).
Proof. reflexivity. Qed.

Theorem gen_nsi_strength_directed_denotes G a i :
  vden G (gen_nsi_strength_directed a) i = eval G [i] (nsi_strength true a).
Proof.
  change (vden G (gen_nsi_instrength a) i + vden G (gen_nsi_outstrength a) i =
          eval G [i] (nsi_instrength a) + eval G [i] (nsi_outstrength a)).
  now rewrite gen_nsi_outstrength_denotes.
Qed.

Lemma den_bildegree G i : (i < gn G)%nat ->
  vden G (VDiagonal (MMul (MMul MAplus (MDiag VW)) MAplus)) i =
  sumn (gn G) (fun u => gw G u * (ind (ap G i u) * ind (ap G u i))).
Proof.
  intros Hi.
  change (sumn (gn G) (fun k => mden G (MMul MAplus (MDiag VW)) i k * mden G MAplus k i) =
          sumn (gn G) (fun u => gw G u * (ind (ap G i u) * ind (ap G u i)))).
  apply sumn_ext; intros k Hk.
  rewrite (mul_wdiag_r G _ _ _ _ (wdiag_diag G) Hk). cbn [mden]. ring.
Qed.

Theorem gen_nsi_bildegree_denotes G i : (i < gn G)%nat ->
  vden G gen_nsi_bildegree i = eval G [i] nsi_bildegree.
Proof. intros Hi. unfold gen_nsi_bildegree. now rewrite den_bildegree. Qed.

(* ---- congruence: a vexp and an expr built the same way from equal parts ---- *)
Section Cong.
  Variables (G : graph) (env : list nat) (i : nat).
  Notation "a ~ b" := (vden G a i = eval G env b) (at level 70).
  Lemma cong_add a b a' b' : a ~ a' -> b ~ b' -> VAdd a b ~ Add a' b'.
  Proof. intros H1 H2. cbn [vden eval]. now rewrite H1, H2. Qed.
  Lemma cong_sub a b a' b' : a ~ a' -> b ~ b' -> VSub a b ~ Sub a' b'.
  Proof. intros H1 H2. cbn [vden eval]. now rewrite H1, H2. Qed.
  Lemma cong_mul a b a' b' : a ~ a' -> b ~ b' -> VMul a b ~ Mul a' b'.
  Proof. intros H1 H2. cbn [vden eval]. now rewrite H1, H2. Qed.
  Lemma cong_div a b a' b' : a ~ a' -> b ~ b' -> VDiv a b ~ Div a' b'.
  Proof. intros H1 H2. cbn [vden eval]. now rewrite H1, H2. Qed.
  Lemma cong_const q : VConst q ~ Const q.
  Proof. reflexivity. Qed.
  Lemma cong_one : VConst (qnat 1) ~ Const 1.
  Proof. cbn [vden eval]. apply qnat1. Qed.
End Cong.

Ltac cong_step :=
  first [ apply cong_add | apply cong_sub | apply cong_mul | apply cong_div
        | apply cong_one | apply cong_const ].

(* leaves *)
Lemma leaf_K G env x : vden G (VMatVec MAplus VW) (var env x) = eval G env (K x).
Proof. now rewrite den_kout. Qed.
Lemma leaf_Kin G env x : vden G (VVecMat VW MAplus) (var env x) = eval G env (Kin x).
Proof. reflexivity. Qed.
Lemma leaf_K0 G i : vden G (VMatVec MAplus VW) i = eval G [i] (K 0).
Proof. exact (leaf_K G [i] 0%nat). Qed.
Lemma leaf_Kin0 G i : vden G (VVecMat VW MAplus) i = eval G [i] (Kin 0).
Proof. reflexivity. Qed.
Lemma leaf_bil G i : (i < gn G)%nat ->
  vden G (VDiagonal (MMul (MMul MAplus (MDiag VW)) MAplus)) i = eval G [i] nsi_bildegree.
Proof. intros Hi. now rewrite den_bildegree. Qed.

(* (Ap Dw)(Ap Dw)Ap diagonal = T_i *)
Lemma leaf_tri G i : (i < gn G)%nat ->
  vden G (VDiagonal (MMul (MMul (MMul MAplus (MDiag VW)) (MMul MAplus (MDiag VW))) MAplus)) i
  = eval G [i] (tri 0).
Proof.
  intros Hi. cbn [vden]. rewrite (diag3_open G _ _ _ _ _ (wdiag_diag G) Hi). reflexivity.
Qed.

(* ---- neighbour degrees ------------------------------------------------------ *)
Lemma mul_diag_r G v M a b : (b < gn G)%nat ->
  mden G (MMul M (MDiag v)) a b = mden G M a b * vden G v b.
Proof.
  intros Hb. cbn [mden].
  rewrite (sumn_ext _ _ (fun k => (mden G M a k * vden G v k) * delta k b)).
  - now rewrite sumn_delta_r.
  - intros k _. ring.
Qed.

Lemma diag_apply G v x j : (j < gn G)%nat ->
  vden G (VMatVec (MDiag v) x) j = vden G v j * vden G x j.
Proof.
  intros Hj. cbn [vden mden].
  rewrite (sumn_ext _ _ (fun k => ind (Nat.eqb j k) * (vden G v j * vden G x k))).
  - now rewrite sumn_ind.
  - intros k _. unfold delta. ring.
Qed.

Theorem gen_nsi_average_neighbors_degree_denotes G i :
  vden G gen_nsi_average_neighbors_degree i = eval G [i] nsi_average_neighbors_degree.
Proof.
  unfold gen_nsi_average_neighbors_degree, nsi_average_neighbors_degree.
  apply cong_div; [|apply leaf_K0].
  change (sumn (gn G) (fun k => mden G MAplus i k *
            vden G (VMatVec (MDiag VW) (VMatVec MAplus VW)) k) =
          sumn (gn G) (fun u => gw G u * (ind (ap G i u) * eval G [u; i] (K 0)))).
  apply sumn_ext; intros k Hk. rewrite diag_apply by assumption.
  rewrite <- (leaf_K G [k; i] 0%nat). cbn [mden vden var nth]. ring.
Qed.

Lemma maxn_ext n f g : (forall i, (i < n)%nat -> f i = g i) -> maxn n f = maxn n g.
Proof.
  intros H. unfold maxn. f_equal. apply map_ext_in. intros a Ha.
  apply in_seq in Ha. apply H. lia.
Qed.

Theorem gen_nsi_max_neighbors_degree_denotes G i :
  vden G gen_nsi_max_neighbors_degree i = eval G [i] nsi_max_neighbors_degree.
Proof.
  unfold gen_nsi_max_neighbors_degree, nsi_max_neighbors_degree.
  change (maxn (gn G) (fun k => mden G (MMul MAplus (MDiag (VMatVec MAplus VW))) i k) =
          maxn (gn G) (fun u => ind (ap G i u) * eval G [u; i] (K 0))).
  apply maxn_ext; intros k Hk. rewrite mul_diag_r by assumption.
  now rewrite <- (leaf_K G [k; i] 0%nat).
Qed.

(* ---- clustering ------------------------------------------------------------- *)
Theorem gen_nsi_local_clustering_tw_denotes G tw i : (i < gn G)%nat ->
  vden G (gen_nsi_local_clustering_tw tw) i = eval G [i] (nsi_local_clustering_corrected tw).
Proof.
  intros Hi. unfold gen_nsi_local_clustering_tw, nsi_local_clustering_corrected, correct, c1.
  cbv zeta. repeat cong_step; first [apply leaf_K0 | now apply leaf_tri].
Qed.

Theorem gen_nsi_local_soffer_clustering_denotes G i : (i < gn G)%nat ->
  vden G gen_nsi_local_soffer_clustering i = eval G [i] nsi_local_soffer_clustering.
Proof.
  intros Hi. unfold gen_nsi_local_soffer_clustering, nsi_local_soffer_clustering.
  apply cong_div; [now apply leaf_tri|].
  set (k := VMatVec MAplus VW).
  change (sumn (gn G) (fun u => qmin (vden G k i) (vden G k u) * mden G (MMul (MDiag VW) MAplus) u i) =
          sumn (gn G) (fun u => gw G u *
             (qmin (eval G [u; i] (K 1)) (eval G [u; i] (K 0)) * ind (ap G u i)))).
  apply sumn_ext; intros u Hu.
  rewrite (mul_wdiag_l G _ _ _ _ (wdiag_diag G) Hu).
  unfold k. rewrite <- (leaf_K G [u; i] 1%nat), <- (leaf_K G [u; i] 0%nat).
  cbn [var nth mden]. ring.
Qed.

Theorem gen_nsi_twinness_denotes G i j : (i < gn G)%nat -> (j < gn G)%nat ->
  mden G gen_nsi_twinness i j = eval G [i; j] nsi_twinness.
Proof.
  intros Hi Hj. unfold gen_nsi_twinness, nsi_twinness.
  set (k := VMatVec MAplus VW).
  change (ind (ap G i j) * mden G (MMul (MMul MAplus (MDiag VW)) MAplus) i j
            / qmax (vden G k j) (vden G k i) =
          ind (ap G i j) * sumn (gn G) (fun u => gw G u * (ind (ap G i u) * ind (ap G u j)))
            / qmax (eval G [i; j] (K 1)) (eval G [i; j] (K 0))).
  unfold k. rewrite <- (leaf_K G [i; j] 1%nat), <- (leaf_K G [i; j] 0%nat).
  cbn [var nth]. f_equal. f_equal.
  change (sumn (gn G) (fun u => mden G (MMul MAplus (MDiag VW)) i u * mden G MAplus u j) =
          sumn (gn G) (fun u => gw G u * (ind (ap G i u) * ind (ap G u j)))).
  apply sumn_ext; intros u Hu.
  rewrite (mul_wdiag_r G _ _ _ _ (wdiag_diag G) Hu). cbn [mden]. ring.
Qed.

(* ---- directed motif clusterings --------------------------------------------- *)
Lemma div_self_l w s : w <> 0 -> (w * s) / w = s.
Proof.
  intros H. unfold Qcdiv. rewrite (Qcmult_comm w s), <- Qcmult_assoc, Qcmult_inv_r by assumption.
  ring.
Qed.

Lemma sum2_entries G i X Y Z e :
  (forall u v, mden G X i u * mden G Y u v * mden G Z v i = eval G [v; u; i] e) ->
  sumn (gn G) (fun u => gw G u * sumn (gn G) (fun v => gw G v *
             (mden G X i u * mden G Y u v * mden G Z v i))) = eval G [i] (Sum (Sum e)).
Proof.
  intros H. cbn [eval]. apply sumn_ext; intros u _. f_equal.
  apply sumn_ext; intros v _. now rewrite H.
Qed.

(* t / w : the diagonal of the triple product carries one factor w_i *)
Lemma t3_over_w G D X Y Z e i : wdiag G D -> (i < gn G)%nat -> gw G i <> 0 ->
  (forall u v, mden G X i u * mden G Y u v * mden G Z v i = eval G [v; u; i] e) ->
  vden G (VDiv (VDiagonal (MMul (MMul (MMul X D) (MMul Y D)) (MMul Z D))) VW) i =
  eval G [i] (Sum (Sum e)).
Proof.
  intros HD Hi Hw H. cbn [vden]. rewrite (diag3 G D X Y Z i HD Hi).
  rewrite div_self_l by assumption. now apply sum2_entries.
Qed.

Lemma motif_plain G D X Y Z e1 e2 e3 T den i : wdiag G D -> (i < gn G)%nat -> gw G i <> 0 ->
  (forall u v, mden G X i u * mden G Y u v * mden G Z v i = eval G [v; u; i] (Mul3 e1 e2 e3)) ->
  vden G T i = eval G [i] den ->
  vden G (VDiv (VDiagonal (MMul (MMul (MMul X D) (MMul Y D)) (MMul Z D))) (VMul VW T)) i =
  eval G [i] (motif e1 e2 e3 den).
Proof.
  intros HD Hi Hw H HT. unfold motif.
  change (mden G (MMul (MMul (MMul X D) (MMul Y D)) (MMul Z D)) i i / (gw G i * vden G T i) =
          eval G [i] (Sum (Sum (Mul3 e1 e2 e3))) / eval G [i] den).
  rewrite (diag3 G D X Y Z i HD Hi), div_cancel_l, HT by assumption.
  f_equal. now apply sum2_entries.
Qed.

Ltac motif_plain_tac :=
  intros Hi Hw; eapply motif_plain;
  [ apply wdiag_nodew | exact Hi | exact Hw | intros u v; reflexivity
  | repeat cong_step; first [apply leaf_K0 | apply leaf_Kin0] ].

Ltac motif_tw_tac :=
  intros Hi Hw; cbv zeta; repeat cong_step;
  first [ apply leaf_K0 | apply leaf_Kin0 | now apply leaf_bil
        | apply t3_over_w; [apply wdiag_nodew | exact Hi | exact Hw | intros u v; reflexivity] ].

Section Motifs.
  Variables (G : graph) (i : nat).
  Hypothesis (Hi : (i < gn G)%nat) (Hw : gw G i <> 0).

  Theorem gen_cyclemotif_denotes :
    vden G gen_nsi_local_cyclemotif_clustering i = eval G [i] nsi_local_cyclemotif_clustering.
  Proof. revert Hi Hw. unfold gen_nsi_local_cyclemotif_clustering, nsi_local_cyclemotif_clustering.
         motif_plain_tac. Qed.
  Theorem gen_midmotif_denotes :
    vden G gen_nsi_local_midmotif_clustering i = eval G [i] nsi_local_midmotif_clustering.
  Proof. revert Hi Hw. unfold gen_nsi_local_midmotif_clustering, nsi_local_midmotif_clustering.
         motif_plain_tac. Qed.
  Theorem gen_inmotif_denotes :
    vden G gen_nsi_local_inmotif_clustering i = eval G [i] nsi_local_inmotif_clustering.
  Proof. revert Hi Hw. unfold gen_nsi_local_inmotif_clustering, nsi_local_inmotif_clustering, Sq.
         motif_plain_tac. Qed.
  Theorem gen_outmotif_denotes :
    vden G gen_nsi_local_outmotif_clustering i = eval G [i] nsi_local_outmotif_clustering.
  Proof. revert Hi Hw. unfold gen_nsi_local_outmotif_clustering, nsi_local_outmotif_clustering, Sq.
         motif_plain_tac. Qed.

  Theorem gen_cyclemotif_key_denotes a :
    vden G (gen_nsi_local_cyclemotif_clustering_key a) i =
    eval G [i] (nsi_local_cyclemotif_clustering_key a).
  Proof. revert Hi Hw. unfold gen_nsi_local_cyclemotif_clustering_key, nsi_local_cyclemotif_clustering_key.
         motif_plain_tac. Qed.
  Theorem gen_midmotif_key_denotes a :
    vden G (gen_nsi_local_midmotif_clustering_key a) i =
    eval G [i] (nsi_local_midmotif_clustering_key a).
  Proof. revert Hi Hw. unfold gen_nsi_local_midmotif_clustering_key, nsi_local_midmotif_clustering_key.
         motif_plain_tac. Qed.
  Theorem gen_inmotif_key_denotes a :
    vden G (gen_nsi_local_inmotif_clustering_key a) i =
    eval G [i] (nsi_local_inmotif_clustering_key a).
  Proof. revert Hi Hw. unfold gen_nsi_local_inmotif_clustering_key, nsi_local_inmotif_clustering_key, Sq.
         motif_plain_tac. Qed.
  Theorem gen_outmotif_key_denotes a :
    vden G (gen_nsi_local_outmotif_clustering_key a) i =
    eval G [i] (nsi_local_outmotif_clustering_key a).
  Proof. revert Hi Hw. unfold gen_nsi_local_outmotif_clustering_key, nsi_local_outmotif_clustering_key, Sq.
         motif_plain_tac. Qed.

  Theorem gen_cyclemotif_tw_denotes tw :
    vden G (gen_nsi_local_cyclemotif_clustering_tw tw) i =
    eval G [i] (nsi_local_cyclemotif_clustering_corrected tw).
  Proof. revert Hi Hw. unfold gen_nsi_local_cyclemotif_clustering_tw,
           nsi_local_cyclemotif_clustering_corrected, motif_corrected, correct, c1, Sq.
         motif_tw_tac. Qed.
  Theorem gen_midmotif_tw_denotes tw :
    vden G (gen_nsi_local_midmotif_clustering_tw tw) i =
    eval G [i] (nsi_local_midmotif_clustering_corrected tw).
  Proof. revert Hi Hw. unfold gen_nsi_local_midmotif_clustering_tw,
           nsi_local_midmotif_clustering_corrected, motif_corrected, correct, c1, Sq.
         motif_tw_tac. Qed.
  Theorem gen_inmotif_tw_denotes tw :
    vden G (gen_nsi_local_inmotif_clustering_tw tw) i =
    eval G [i] (nsi_local_inmotif_clustering_corrected tw).
  Proof. revert Hi Hw. unfold gen_nsi_local_inmotif_clustering_tw,
           nsi_local_inmotif_clustering_corrected, motif_corrected, correct, c1, Sq.
         motif_tw_tac. Qed.
  Theorem gen_outmotif_tw_denotes tw :
    vden G (gen_nsi_local_outmotif_clustering_tw tw) i =
    eval G [i] (nsi_local_outmotif_clustering_corrected tw).
  Proof. revert Hi Hw. unfold gen_nsi_local_outmotif_clustering_tw,
           nsi_local_outmotif_clustering_corrected, motif_corrected, correct, c1, Sq.
         motif_tw_tac. Qed.
End Motifs.

(* ---- transitivity ------------------------------------------------------------ *)
Theorem gen_nsi_transitivity_denotes G :
  sden G gen_nsi_transitivity = eval G [] nsi_transitivity.
Proof.
  unfold gen_nsi_transitivity, nsi_transitivity.
  set (AD := MMul MAplus (MDiag VW)).
  change (sumn (gn G) (fun i => mden G (MMul (MMul AD AD) AD) i i) /
          sumn (gn G) (fun i => sumn (gn G) (fun j => mden G (MMul (MMul (MDiag VW) AD) AD) i j)) =
          sumn (gn G) (fun i => gw G i * eval G [i] (tri 0)) /
          sumn (gn G) (fun i => gw G i * sumn (gn G) (fun a => gw G a *
             sumn (gn G) (fun b => gw G b * (ind (ap G i a) * ind (ap G a b)))))).
  f_equal.
  - apply sumn_ext; intros i Hi. unfold AD.
    rewrite (diag3 G _ _ _ _ i (wdiag_diag G) Hi). reflexivity.
  - apply sumn_ext; intros i Hi.
    rewrite (sumn_ext _ _ (fun j => sumn (gn G) (fun k =>
        gw G i * (gw G k * (gw G j * (ind (ap G i k) * ind (ap G k j))))))).
    + rewrite sumn_swap, <- sumn_scal. apply sumn_ext; intros a _.
      rewrite <- !sumn_scal. apply sumn_ext; intros b _. ring.
    + intros j Hj.
      change (sumn (gn G) (fun k => mden G (MMul (MDiag VW) AD) i k * mden G AD k j) =
              sumn (gn G) (fun k => gw G i * (gw G k * (gw G j * (ind (ap G i k) * ind (ap G k j)))))).
      apply sumn_ext; intros k Hk. unfold AD.
      rewrite (mul_wdiag_l G _ _ _ _ (wdiag_diag G) Hi).
      rewrite !(mul_wdiag_r G _ _ _ _ (wdiag_diag G)) by assumption.
      cbn [mden]. ring.
Qed.

(* ---- uncorrected local clustering: (A Dw A+ Dw A^T)_ii + 2 k_i w_i - w_i^2 ---- *)
Lemma sumn_delta_i n i f : (i < n)%nat -> sumn n (fun v => delta i v * f v) = f i.
Proof. intros H. unfold delta. now apply sumn_ind. Qed.

Lemma tri_split n (w a : nat -> Qc) (p : nat -> nat -> Qc) i : (i < n)%nat ->
  sumn n (fun u => w u * sumn n (fun v => w v * ((a u + delta i u) * p u v * (a v + delta i v)))) =
  sumn n (fun u => w u * sumn n (fun v => w v * (a u * p u v * a v)))
  + w i * sumn n (fun v => w v * (p i v * a v))
  + w i * sumn n (fun u => w u * (a u * p u i))
  + w i * w i * p i i.
Proof.
  intros Hi.
  rewrite (sumn_ext _ _ (fun u =>
     (w u * sumn n (fun v => w v * (a u * p u v * a v)) + w i * (w u * (a u * p u i)))
     + (delta i u * (w u * sumn n (fun v => w v * (p u v * a v)))
        + delta i u * (w u * w i * p u i)))).
  - rewrite sumn_add, sumn_add, sumn_add, sumn_scal, !sumn_delta_i by assumption. ring.
  - intros u _.
    rewrite (sumn_ext _ _ (fun v =>
       (w v * (a u * p u v * a v) + delta i v * (w v * (a u * p u v)))
       + (delta i u * (w v * (p u v * a v)) + delta i v * (delta i u * (w v * p u v))))).
    + rewrite sumn_add, sumn_add, sumn_add, sumn_scal, !sumn_delta_i by assumption. ring.
    + intros v _. ring.
Qed.

Lemma ind_idem b : ind b * ind b = ind b.
Proof. destruct b; cbn [ind]; ring. Qed.

Lemma den_MA_Dw G a b : (b < gn G)%nat ->
  mden G (MMul MA (MDiag VW)) a b = (ind (ap G a b) - delta a b) * gw G b.
Proof. intros Hb. now rewrite (mul_wdiag_r G _ _ _ _ (wdiag_diag G) Hb). Qed.

Lemma leaf_tri_uncorrected G i :
  (forall a b, ap G a b = ap G b a) -> (forall a, ap G a a = true) -> (i < gn G)%nat ->
  vden G (VSub (VAdd (VDiagonal (MMul (MMul (MMul MA (MDiag VW)) MAplus) (MT (MMul MA (MDiag VW)))))
                     (VMul (VMul (VConst (qnat 2)) (VMatVec MAplus VW)) VW))
               (VMul VW VW)) i = eval G [i] (tri 0).
Proof.
  intros Hsym Hrefl Hi.
  set (n := gn G). set (w := gw G).
  set (a := fun u => ind (ap G i u) - delta i u).
  set (p := fun u v => ind (ap G u v)).
  assert (Htri : eval G [i] (tri 0) =
     sumn n (fun u => w u * sumn n (fun v => w v * ((a u + delta i u) * p u v * (a v + delta i v))))).
  { cbn [eval tri Mul3 var nth]. apply sumn_ext; intros u _. f_equal.
    apply sumn_ext; intros v _. unfold a, p. rewrite (Hsym v i). f_equal. ring. }
  assert (Hnum : mden G (MMul (MMul (MMul MA (MDiag VW)) MAplus) (MT (MMul MA (MDiag VW)))) i i =
     sumn n (fun u => w u * sumn n (fun v => w v * (a u * p u v * a v)))).
  { change (sumn n (fun k => sumn n (fun j => mden G (MMul MA (MDiag VW)) i j * mden G MAplus j k)
              * mden G (MMul MA (MDiag VW)) i k) =
            sumn n (fun u => w u * sumn n (fun v => w v * (a u * p u v * a v)))).
    rewrite (sumn_ext _ _ (fun k => sumn n (fun j => w j * (w k * (a j * p j k * a k))))).
    - rewrite sumn_swap. apply sumn_ext; intros u _. rewrite <- sumn_scal.
      apply sumn_ext; intros v _. ring.
    - intros k Hk. rewrite <- sumn_scal_r. apply sumn_ext; intros j Hj.
      rewrite !den_MA_Dw by assumption. cbn [mden]. unfold a, p, w. ring. }
  assert (Hpa : sumn n (fun v => w v * (p i v * a v)) =
                vden G (VMatVec MAplus VW) i - w i).
  { rewrite den_kout.
    rewrite (sumn_ext _ _ (fun v => w v * ind (ap G i v) + delta i v * (- w v))).
    - rewrite sumn_add, sumn_delta_i by assumption. fold n w. ring.
    - intros v _. unfold p, a. unfold delta.
      destruct (Nat.eqb_spec i v) as [->|]; [rewrite Hrefl|]; cbn [ind];
        [ring | destruct (ap G i v); cbn [ind]; ring]. }
  assert (Hap : sumn n (fun u => w u * (a u * p u i)) =
                vden G (VMatVec MAplus VW) i - w i).
  { rewrite <- Hpa. apply sumn_ext; intros u _. unfold p. rewrite (Hsym u i). ring. }
  rewrite Htri, (tri_split n w a p i Hi), Hpa, Hap.
  change (mden G (MMul (MMul (MMul MA (MDiag VW)) MAplus) (MT (MMul MA (MDiag VW)))) i i
          + qnat 2 * vden G (VMatVec MAplus VW) i * w i - w i * w i = 
          sumn n (fun u => w u * sumn n (fun v => w v * (a u * p u v * a v)))
          + w i * (vden G (VMatVec MAplus VW) i - w i)
          + w i * (vden G (VMatVec MAplus VW) i - w i) + w i * w i * p i i).
  rewrite Hnum. unfold p. rewrite Hrefl. cbn [ind].
  replace (qnat 2) with (1 + 1) by (now apply Qc_is_canon). ring.
Qed.

Theorem gen_nsi_local_clustering_denotes G i :
  (forall a b, ap G a b = ap G b a) -> (forall a, ap G a a = true) -> (i < gn G)%nat ->
  vden G gen_nsi_local_clustering i = eval G [i] nsi_local_clustering.
Proof.
  intros Hsym Hrefl Hi. unfold gen_nsi_local_clustering, nsi_local_clustering, Sq.
  apply cong_div; [now apply leaf_tri_uncorrected|].
  apply cong_mul; apply leaf_K0.
Qed.

Theorem gen_nsi_global_clustering_denotes G :
  (forall a b, ap G a b = ap G b a) -> (forall a, ap G a a = true) ->
  sden G gen_nsi_global_clustering = eval G [] nsi_global_clustering.
Proof.
  intros Hsym Hrefl. unfold gen_nsi_global_clustering, nsi_global_clustering.
  change (sumn (gn G) (fun i => vden G gen_nsi_local_clustering i * gw G i) /
          sumn (gn G) (fun i => gw G i) =
          sumn (gn G) (fun i => gw G i * eval G [i] nsi_local_clustering) /
          sumn (gn G) (fun i => gw G i * 1)).
  f_equal; apply sumn_ext; intros i Hi; [|ring].
  rewrite gen_nsi_local_clustering_denotes by assumption. ring.
Qed.

(* ---- the catalogue of source expressions and what each denotes --------------- *)
Definition Ptrue (G : graph) (i : nat) : Prop := True.
Definition Pweight (G : graph) (i : nat) : Prop := gw G i <> 0.
Definition Pundirected (G : graph) (i : nat) : Prop :=
  (forall a b, ap G a b = ap G b a) /\ (forall a, ap G a a = true).

Definition vdenotes (P : graph -> nat -> Prop) (v : vexp) (e : expr) : Prop :=
  forall G i, (i < gn G)%nat -> P G i -> vden G v i = eval G [i] e.

(* no side condition *)
Definition source_plain (tw : Qc) (a : nat) : list (vexp * expr) :=
  [ (gen_nsi_degree, nsi_degree false); (gen_nsi_degree_directed, nsi_degree true);
    (gen_nsi_degree_tw tw, correct tw (nsi_degree false));
    (gen_nsi_indegree, nsi_indegree); (gen_nsi_outdegree, nsi_outdegree);
    (gen_nsi_instrength a, nsi_instrength a); (gen_nsi_outstrength a, nsi_outstrength a);
    (gen_nsi_strength a, nsi_strength false a); (gen_nsi_strength_directed a, nsi_strength true a);
    (gen_nsi_bildegree, nsi_bildegree);
    (gen_nsi_average_neighbors_degree, nsi_average_neighbors_degree);
    (gen_nsi_max_neighbors_degree, nsi_max_neighbors_degree);
    (gen_nsi_local_clustering_tw tw, nsi_local_clustering_corrected tw);
    (gen_nsi_local_soffer_clustering, nsi_local_soffer_clustering) ].
(* the node's own weight is divided out: it must not be zero *)
Definition source_motif (tw : Qc) (a : nat) : list (vexp * expr) :=
  [ (gen_nsi_local_cyclemotif_clustering, nsi_local_cyclemotif_clustering);
    (gen_nsi_local_midmotif_clustering, nsi_local_midmotif_clustering);
    (gen_nsi_local_inmotif_clustering, nsi_local_inmotif_clustering);
    (gen_nsi_local_outmotif_clustering, nsi_local_outmotif_clustering);
    (gen_nsi_local_cyclemotif_clustering_key a, nsi_local_cyclemotif_clustering_key a);
    (gen_nsi_local_midmotif_clustering_key a, nsi_local_midmotif_clustering_key a);
    (gen_nsi_local_inmotif_clustering_key a, nsi_local_inmotif_clustering_key a);
    (gen_nsi_local_outmotif_clustering_key a, nsi_local_outmotif_clustering_key a);
    (gen_nsi_local_cyclemotif_clustering_tw tw, nsi_local_cyclemotif_clustering_corrected tw);
    (gen_nsi_local_midmotif_clustering_tw tw, nsi_local_midmotif_clustering_corrected tw);
    (gen_nsi_local_inmotif_clustering_tw tw, nsi_local_inmotif_clustering_corrected tw);
    (gen_nsi_local_outmotif_clustering_tw tw, nsi_local_outmotif_clustering_corrected tw) ].
(* written with sp_A and a correction that presumes a symmetric loop-free A *)
Definition source_undirected : list (vexp * expr) :=
  [ (gen_nsi_local_clustering, nsi_local_clustering) ].

Definition all_denote (P : graph -> nat -> Prop) (l : list (vexp * expr)) : Prop :=
  Forall (fun ve => vdenotes P (fst ve) (snd ve) /\ closedb 1 (snd ve) = true) l.

Ltac denote_one thm := split; [intros G i Hi HP; cbn [fst snd]; thm | reflexivity].

Theorem source_plain_denote tw a : all_denote Ptrue (source_plain tw a).
Proof.
  unfold all_denote, source_plain.
  repeat (apply Forall_cons; [split; [intros G i Hi _; cbn [fst snd] | reflexivity]|]);
    [ apply gen_nsi_degree_denotes | apply gen_nsi_degree_directed_denotes
    | apply gen_nsi_degree_tw_denotes | apply gen_nsi_indegree_denotes
    | apply gen_nsi_outdegree_denotes | apply gen_nsi_instrength_denotes
    | apply gen_nsi_outstrength_denotes | apply gen_nsi_strength_denotes
    | apply gen_nsi_strength_directed_denotes | now apply gen_nsi_bildegree_denotes
    | apply gen_nsi_average_neighbors_degree_denotes | apply gen_nsi_max_neighbors_degree_denotes
    | now apply gen_nsi_local_clustering_tw_denotes
    | now apply gen_nsi_local_soffer_clustering_denotes | apply Forall_nil ].
Qed.

Theorem source_motif_denote tw a : all_denote Pweight (source_motif tw a).
Proof.
  unfold all_denote, source_motif.
  repeat (apply Forall_cons; [split; [intros G i Hi Hw; cbn [fst snd] | reflexivity]|]);
    [ now apply gen_cyclemotif_denotes | now apply gen_midmotif_denotes
    | now apply gen_inmotif_denotes | now apply gen_outmotif_denotes
    | now apply gen_cyclemotif_key_denotes | now apply gen_midmotif_key_denotes
    | now apply gen_inmotif_key_denotes | now apply gen_outmotif_key_denotes
    | now apply gen_cyclemotif_tw_denotes | now apply gen_midmotif_tw_denotes
    | now apply gen_inmotif_tw_denotes | now apply gen_outmotif_tw_denotes | apply Forall_nil ].
Qed.

Theorem source_undirected_denote : all_denote Pundirected source_undirected.
Proof.
  unfold all_denote, source_undirected.
  apply Forall_cons; [|apply Forall_nil].
  split; [|reflexivity]. intros G i Hi [Hs Hr]. now apply gen_nsi_local_clustering_denotes.
Qed.

(* ---- what the source computes is invariant under every weighted pullback ------ *)
Theorem source_invariant P l : all_denote P l ->
  forall ve, In ve l -> forall G' G phi, pullback G' G phi ->
  forall i, (i < gn G')%nat -> P G' i -> P G (phi i) ->
  vden G' (fst ve) i = vden G (fst ve) (phi i).
Proof.
  intros Hall ve Hin G' G phi PB i Hi P1 P2.
  unfold all_denote in Hall. rewrite Forall_forall in Hall.
  destruct (Hall ve Hin) as [Hd Hc].
  rewrite (Hd G' i Hi P1), (Hd G (phi i) (pb_lt _ _ _ PB i Hi) P2).
  apply (eval_pullback G' G phi PB (snd ve) [i]).
  - now apply closedb_closed.
  - now constructor.
Qed.

Theorem source_twinness_invariant G' G phi : pullback G' G phi ->
  forall i j, (i < gn G')%nat -> (j < gn G')%nat ->
  mden G' gen_nsi_twinness i j = mden G gen_nsi_twinness (phi i) (phi j).
Proof.
  intros PB i j Hi Hj.
  rewrite gen_nsi_twinness_denotes by assumption.
  rewrite gen_nsi_twinness_denotes by (now apply (pb_lt _ _ _ PB)).
  apply (eval_pullback G' G phi PB nsi_twinness [i; j]).
  - apply closedb_closed. reflexivity.
  - now repeat constructor.
Qed.

Theorem source_transitivity_invariant G' G phi : pullback G' G phi ->
  sden G' gen_nsi_transitivity = sden G gen_nsi_transitivity.
Proof.
  intros PB. rewrite !gen_nsi_transitivity_denotes.
  apply (eval_pullback G' G phi PB nsi_transitivity []).
  - apply closedb_closed. reflexivity.
  - constructor.
Qed.

Theorem source_global_clustering_invariant G' G phi : pullback G' G phi ->
  Pundirected G' 0%nat -> Pundirected G 0%nat ->
  sden G' gen_nsi_global_clustering = sden G gen_nsi_global_clustering.
Proof.
  intros PB [S1 R1] [S2 R2]. rewrite !gen_nsi_global_clustering_denotes by assumption.
  apply (eval_pullback G' G phi PB nsi_global_clustering []).
  - apply closedb_closed. reflexivity.
  - constructor.
Qed.

(* ---- the property in its own words, for the source expressions ---------------- *)
Lemma all_denote_weaken (P Q : graph -> nat -> Prop) l :
  (forall G i, Q G i -> P G i) -> all_denote P l -> all_denote Q l.
Proof.
  intros HPQ H. unfold all_denote in *. rewrite Forall_forall in *.
  intros ve Hin. destruct (H ve Hin) as [Hd Hc]. split; [|exact Hc].
  intros G i Hi HQ. apply Hd; auto.
Qed.

Lemma pos_ne0 (x : Qc) : 0 < x -> x <> 0.
Proof. intros H E. rewrite E in H. now apply Qclt_not_eq in H. Qed.

Lemma split_weight_ne0 r v p i :
  (forall u, 0 < rw r u) -> 0 < p -> p < 1 -> rw (split r v p) i <> 0.
Proof.
  intros Hw Hp0 Hp1. cbn [split rw].
  assert (Hv : rw r v <> 0) by (apply pos_ne0, Hw).
  assert (H1p : 1 - p <> 0).
  { intros E. apply (Qclt_not_eq _ _ Hp1). 
    transitivity (p + 0); [ring|]. rewrite <- E. ring. }
  destruct (Nat.eqb i (rn r)); [|destruct (Nat.eqb i v)].
  - intros E. apply Qcmult_integral in E. destruct E as [E|E]; [now apply (pos_ne0 p)|now apply Hv].
  - intros E. apply Qcmult_integral in E. destruct E as [E|E]; [now apply H1p|now apply Hv].
  - apply pos_ne0, Hw.
Qed.

(* positive weights, a split proportion in (0,1): every per-node expression of
   the source has equal values on untouched nodes and v's value on both twins *)
Theorem source_split_invariant tw a r v p ve :
  In ve (source_plain tw a ++ source_motif tw a) ->
  (v < rn r)%nat -> (forall i, ra r i i = false) ->
  (forall u, 0 < rw r u) -> 0 < p -> p < 1 ->
  forall i, (i < S (rn r))%nat ->
  vden (to_graph (split r v p)) (fst ve) i = vden (to_graph r) (fst ve) (orig (rn r) v i).
Proof.
  intros Hin Hv Hirr Hw Hp0 Hp1 i Hi.
  apply (source_invariant Pweight (source_plain tw a ++ source_motif tw a)).
  - unfold all_denote. apply Forall_app. split.
    + apply (all_denote_weaken Ptrue); [intros; exact I | apply source_plain_denote].
    + apply source_motif_denote.
  - exact Hin.
  - now apply split_is_pullback.
  - exact Hi.
  - now apply split_weight_ne0.
  - apply pos_ne0, Hw.
Qed.

Lemma aplus_sym A : (forall i j, A i j = A j i) -> forall i j, aplus A i j = aplus A j i.
Proof. intros H i j. unfold aplus. now rewrite H, Nat.eqb_sym. Qed.

Lemma split_sym r v p : (forall i j, ra r i j = ra r j i) ->
  forall i j, ra (split r v p) i j = ra (split r v p) j i.
Proof.
  intros H i j. cbn [split ra].
  destruct (i <? rn r)%nat, (j <? rn r)%nat; cbn [andb]; try reflexivity; try apply H.
  - destruct (Nat.eqb i v); [reflexivity | apply H].
  - destruct (Nat.eqb j v); [reflexivity | apply H].
Qed.

(* the undirected clustering coefficients (uncorrected form), symmetric input *)
Theorem source_split_invariant_undirected r v p :
  (v < rn r)%nat -> (forall i, ra r i i = false) -> (forall i j, ra r i j = ra r j i) ->
  (forall i, (i < S (rn r))%nat ->
     vden (to_graph (split r v p)) gen_nsi_local_clustering i =
     vden (to_graph r) gen_nsi_local_clustering (orig (rn r) v i)) /\
  sden (to_graph (split r v p)) gen_nsi_global_clustering =
  sden (to_graph r) gen_nsi_global_clustering.
Proof.
  intros Hv Hirr Hsym.
  assert (PB := split_is_pullback r v p Hv Hirr).
  assert (U1 : forall i, Pundirected (to_graph (split r v p)) i).
  { intros i0. split; [apply aplus_sym, split_sym, Hsym|].
    intros x. unfold to_graph, aplus. cbn [ap]. now rewrite Nat.eqb_refl. }
  assert (U2 : forall i, Pundirected (to_graph r) i).
  { intros i0. split; [apply aplus_sym, Hsym|].
    intros x. unfold to_graph, aplus. cbn [ap]. now rewrite Nat.eqb_refl. }
  split.
  - intros i Hi.
    apply (source_invariant Pundirected source_undirected source_undirected_denote
             (gen_nsi_local_clustering, nsi_local_clustering)); auto.
    now left.
  - now apply (source_global_clustering_invariant _ _ _ PB).
Qed.

(* renumbering *)
Theorem source_relabel_invariant tw a r p ve :
  In ve (source_plain tw a ++ source_motif tw a) ->
  Permutation.Permutation p (seq 0 (rn r)) -> (forall u, rw r u <> 0) ->
  forall i, (i < rn r)%nat ->
  vden (to_graph (permute r p)) (fst ve) i = vden (to_graph r) (fst ve) (nth i p 0%nat).
Proof.
  intros Hin Hp Hw i Hi.
  assert (HA : all_denote Pweight (source_plain tw a ++ source_motif tw a)).
  { unfold all_denote. apply Forall_app. split.
    + apply (all_denote_weaken Ptrue); [intros; exact I | apply source_plain_denote].
    + apply source_motif_denote. }
  exact (source_invariant Pweight _ HA ve Hin _ _ (fun i => nth i p 0%nat)
           (permute_is_pullback r p Hp) i Hi (Hw _) (Hw _)).
Qed.

(* non-vacuity: the expression of the source, on a concrete network split at node 1 *)
Example source_example :
  let r := raw_of [[false; true; false]; [true; false; true]; [false; true; false]]
                  [1; 1 # 2; 3 # 4]%Q [] [] in
  vden (to_graph (split r 1 (Q2Qc (1 # 4)))) gen_nsi_local_clustering 3 =
  vden (to_graph r) gen_nsi_local_clustering 1 /\
  vden (to_graph r) gen_nsi_local_clustering 1 <> 0.
Proof. split; [now vm_compute | now vm_compute]. Qed.

(* ---- distance based measures --------------------------------------------------- *)
Lemma eval_Wtot G env : eval G env Wtot = sumn (gn G) (gw G).
Proof. cbn [eval Wtot c1]. apply sumn_ext; intros; ring. Qed.

Lemma distvec G f B i :
  vden G (VMatVec (MDistFn f B) VW) i = eval G [i] (Sum (dsum f B 1 0)).
Proof. cbn [vden mden eval]. apply sumn_ext; intros; ring. Qed.

Theorem gen_nsi_harmonic_closeness_denotes G B i :
  vden G (gen_nsi_harmonic_closeness B) i = eval G [i] (nsi_harmonic_closeness B).
Proof.
  unfold gen_nsi_harmonic_closeness, nsi_harmonic_closeness.
  apply cong_div; [apply distvec | symmetry; apply eval_Wtot].
Qed.

Theorem gen_nsi_exponential_closeness_denotes G B i :
  vden G (gen_nsi_exponential_closeness B) i = eval G [i] (nsi_exponential_closeness B).
Proof.
  unfold gen_nsi_exponential_closeness, nsi_exponential_closeness.
  apply cong_div; [apply distvec | symmetry; apply eval_Wtot].
Qed.

Theorem gen_nsi_closeness_denotes G B i :
  vden G (gen_nsi_closeness B) i = eval G [i] (nsi_closeness B).
Proof.
  unfold gen_nsi_closeness, nsi_closeness.
  apply cong_mul; [reflexivity|].
  apply cong_div; [symmetry; apply eval_Wtot | apply distvec].
Qed.

Theorem gen_nsi_average_path_length_denotes G B :
  sden G (gen_nsi_average_path_length B) = eval G [] (nsi_average_path_length B).
Proof.
  unfold gen_nsi_average_path_length, nsi_average_path_length.
  change (sumn (gn G) (fun i => gw G i * vden G (VMatVec (MDistFn (fun k => qnat (S k)) B) VW) i) /
          sumn (gn G) (fun i => sumn (gn G) (fun j => gw G i * gw G j * eval G [j; i] (Conn B 1 0))) =
          sumn (gn G) (fun i => gw G i * eval G [i] (Sum (Dist B 1 0))) /
          sumn (gn G) (fun i => gw G i * sumn (gn G) (fun j => gw G j * eval G [j; i] (Conn B 1 0)))).
  f_equal.
  - apply sumn_ext; intros i _. now rewrite distvec.
  - apply sumn_ext; intros i _. rewrite <- sumn_scal. apply sumn_ext; intros j _. ring.
Qed.

Theorem gen_nsi_global_efficiency_denotes G B :
  sden G (gen_nsi_global_efficiency B) = eval G [] (nsi_global_efficiency B).
Proof.
  unfold gen_nsi_global_efficiency, nsi_global_efficiency, Sq.
  change (sumn (gn G) (fun i => gw G i * vden G (VMatVec (MDistFn (fun k => 1 / qnat (S k)) B) VW) i) /
          (sumn (gn G) (fun i => gw G i) * sumn (gn G) (fun i => gw G i)) =
          sumn (gn G) (fun i => gw G i * eval G [i] (Sum (InvDist B 1 0))) /
          (eval G [] Wtot * eval G [] Wtot)).
  rewrite eval_Wtot. f_equal.
  apply sumn_ext; intros i _. now rewrite distvec.
Qed.

Definition source_distance (B : nat) : list (vexp * expr) :=
  [ (gen_nsi_closeness B, nsi_closeness B);
    (gen_nsi_harmonic_closeness B, nsi_harmonic_closeness B);
    (gen_nsi_exponential_closeness B, nsi_exponential_closeness B) ].

Theorem source_distance_denote B : all_denote Ptrue (source_distance B).
Proof.
  unfold all_denote, source_distance.
  repeat (apply Forall_cons; [split; [intros G i Hi _; cbn [fst snd] | ]|]);
    try apply Forall_nil.
  - apply gen_nsi_closeness_denotes.
  - cbn [snd]. unfold nsi_closeness, AllConn, Conn, Wtot, c1, Dist. cbn [closedb].
    rewrite dsum_closed by reflexivity. reflexivity.
  - apply gen_nsi_harmonic_closeness_denotes.
  - cbn [snd]. unfold nsi_harmonic_closeness, Wtot, c1, InvDist. cbn [closedb].
    rewrite dsum_closed by reflexivity. reflexivity.
  - apply gen_nsi_exponential_closeness_denotes.
  - cbn [snd]. unfold nsi_exponential_closeness, Wtot, c1, Pow2Dist. cbn [closedb].
    rewrite dsum_closed by reflexivity. reflexivity.
Qed.

Theorem source_distance_global_invariant G' G phi B : pullback G' G phi ->
  sden G' (gen_nsi_average_path_length B) = sden G (gen_nsi_average_path_length B) /\
  sden G' (gen_nsi_global_efficiency B) = sden G (gen_nsi_global_efficiency B).
Proof.
  intros PB. rewrite !gen_nsi_average_path_length_denotes, !gen_nsi_global_efficiency_denotes.
  pose proof (catalogue_closed 1 B 0%nat false) as [_ [_ Hg]].
  rewrite Forall_forall in Hg.
  split.
  - apply (eval_pullback G' G phi PB _ []); [|constructor].
    apply closedb_closed, Hg. cbn. tauto.
  - apply (eval_pullback G' G phi PB _ []); [|constructor].
    apply closedb_closed, Hg. cbn. tauto.
Qed.
