From Coq Require Import ZArith List Bool Arith Lia String ZifyNat.
From PV.Model Require Import MpiMaster.
Import ListNotations.
Ltac Zify.zify_post_hook ::= Z.div_mod_to_equations.

(* ---- chunk arithmetic ---- *)
Lemma step_pos N mp : 1 <= N -> 1 <= mp -> 1 <= step_of N mp.
Proof. unfold step_of, cdiv. intros. nia. Qed.

Lemma parts_cover N mp : 1 <= N -> 1 <= mp ->
  let s := step_of N mp in let p := parts_of N mp in
  1 <= p /\ (p - 1) * s < N /\ N <= p * s.
Proof.
  intros HN Hm. pose proof (step_pos N mp HN Hm) as Hs. unfold parts_of, cdiv. cbv zeta.
  remember (step_of N mp) as s. clear Heqs. nia.
Qed.

(* every chunk the loops visit is non-empty (the `break` is dead code),
   chunks are contiguous, start at 0 and end at N *)
Theorem chunks_partition N mp : 1 <= N -> 1 <= mp ->
  let p := parts_of N mp in
  1 <= p /\
  (forall idx, idx < p -> start_of N mp idx < end_of N mp idx) /\
  (forall idx, idx + 1 < p -> end_of N mp idx = start_of N mp (idx + 1)) /\
  start_of N mp 0 = 0 /\ end_of N mp (p - 1) = N.
Proof.
  intros HN Hm. destruct (parts_cover N mp HN Hm) as (Hp & Hlo & Hhi).
  pose proof (step_pos N mp HN Hm) as Hs. cbv zeta in *.
  unfold start_of, end_of. remember (step_of N mp) as s. remember (parts_of N mp) as p.
  clear Heqs Heqp. repeat split.
  - exact Hp.
  - intros idx Hi. nia.
  - intros idx Hi. nia.
  - nia.
Qed.

(* ---- contiguous chains of bounds ---- *)
Inductive chain : nat -> list (nat * nat) -> nat -> Prop :=
| chain_nil a : chain a [] a
| chain_cons a e l b : a <= e -> chain e l b -> chain a ((a, e) :: l) b.

Lemma chain_app a l1 m l2 b : chain a l1 m -> chain m l2 b -> chain a (l1 ++ l2) b.
Proof. induction 1; cbn; auto. intros. constructor; auto. Qed.

Lemma chain_le a l b : chain a l b -> a <= b.
Proof. induction 1; lia. Qed.

Lemma chunk_bounds_chain N mp : 1 <= N -> 1 <= mp -> chain 0 (chunk_bounds N mp) N.
Proof.
  intros HN Hm. destruct (chunks_partition N mp HN Hm) as (Hp & Hne & Hcont & H0 & Hlast).
  cbv zeta in *. unfold chunk_bounds.
  assert (G : forall k, k <= parts_of N mp ->
     chain 0 (map (fun idx => (start_of N mp idx, end_of N mp idx)) (seq 0 k))
           (if Nat.eqb k 0 then 0 else end_of N mp (k - 1))).
  { induction k as [|k IH]; intros Hk; [constructor|].
    rewrite seq_S, map_app. cbn [map Nat.eqb]. replace (S k - 1) with k by lia.
    eapply chain_app; [apply IH; lia|].
    replace (0 + k) with k by lia.
    assert (E : (if Nat.eqb k 0 then 0 else end_of N mp (k - 1)) = start_of N mp k).
    { destruct k; [cbn [Nat.eqb]; now rewrite H0|]. cbn [Nat.eqb]. replace (S k - 1) with k by lia.
      rewrite Hcont by lia. f_equal. lia. }
    rewrite E. constructor; [|constructor]. specialize (Hne k). lia. }
  specialize (G (parts_of N mp) (Nat.le_refl _)).
  destruct (Nat.eqb_spec (parts_of N mp) 0); [lia|]. now rewrite Hlast in G.
Qed.

(* ---- Slice reassembly: concatenating the chunk results in index order is
   the serial result ---- *)
Lemma slices_of_chain A (f : nat -> A) a l b : chain a l b ->
  reassemble_slices A f l = map f (seq a (b - a)).
Proof.
  induction 1 as [a|a e l b Hae Hc IH]; cbn [reassemble_slices flat_map].
  - now rewrite Nat.sub_diag.
  - fold (reassemble_slices A f l). rewrite IH. unfold slice_kernel. cbn [fst snd].
    rewrite <- map_app. f_equal. pose proof (chain_le _ _ _ Hc).
    replace (b - a) with ((e - a) + (b - e)) by lia. rewrite seq_app. f_equal. f_equal. lia.
Qed.

Theorem slice_reassembly A (f : nat -> A) N mp : 1 <= N -> 1 <= mp ->
  reassemble_slices A f (chunk_bounds N mp) = map f (seq 0 N).
Proof.
  intros. rewrite (slices_of_chain A f 0 _ N) by now apply chunk_bounds_chain.
  now rewrite Nat.sub_0_r.
Qed.

(* ---- Sum reassembly: adding up the chunk results is the serial sum ---- *)
Lemma fold_add_app l1 l2 : fold_right Z.add 0%Z (l1 ++ l2) = (fold_right Z.add 0 l1 + fold_right Z.add 0 l2)%Z.
Proof. induction l1; cbn; lia. Qed.

Lemma sums_of_chain g a l b k : chain a l b ->
  reassemble_sums g l k = rows_sum g a b k.
Proof.
  induction 1 as [a|a e l b Hae Hc IH]; unfold reassemble_sums; cbn [map fold_right].
  - unfold rows_sum. now rewrite Nat.sub_diag.
  - fold (reassemble_sums g l k). rewrite IH. unfold rows_sum. cbn [fst snd].
    rewrite <- fold_add_app, <- map_app. f_equal. f_equal. pose proof (chain_le _ _ _ Hc).
    replace (b - a) with ((e - a) + (b - e)) by lia. rewrite seq_app. f_equal. f_equal. lia.
Qed.

Theorem sum_reassembly g N mp k : 1 <= N -> 1 <= mp ->
  reassemble_sums g (chunk_bounds N mp) k = rows_sum g 0 N k.
Proof. intros. apply sums_of_chain. now apply chunk_bounds_chain. Qed.

(* ---- the protocol: any scheduler, any number of workers ---- *)
Section Protocol.
Variable R : Type.
Variables (sched : nat -> nat) (res : nat -> R).

Definition mine (w : nat) (ids : list nat) : list nat := filter (fun id => Nat.eqb (sched id) w) ids.

Lemma submit_all_queues ids : forall st w,
  squeue (submit_all st sched res ids) w = squeue st w ++ mine w ids /\
  channel (submit_all st sched res ids) w = channel st w ++ map res (mine w ids).
Proof.
  induction ids as [|id ids IH]; intros st w; cbn [submit_all mine filter map].
  - now rewrite !app_nil_r.
  - destruct (IH (submit st id (sched id) (res id)) w) as [E1 E2]. rewrite E1, E2.
    unfold submit, upd; cbn [squeue channel]. fold (mine w ids).
    rewrite (Nat.eqb_sym w (sched id)).
    destruct (Nat.eqb_spec (sched id) w) as [<-|NE]; cbn [map]; rewrite <- ?app_assoc; auto.
Qed.

Lemma submit_all_lookup ids : forall st id, In id ids ->
  lookup id (assigned (submit_all st sched res ids)) = Some (sched id).
Proof.
  induction ids as [|x ids IH]; intros st id Hin; [inversion Hin|].
  cbn [submit_all]. destruct (in_dec Nat.eq_dec id ids) as [Hi|Hn]; [now apply IH|].
  destruct Hin as [->|Hin]; [|contradiction].
  (* id is submitted here and never again *)
  assert (G : forall l st', ~ In id l ->
     lookup id (assigned (submit_all st' sched res l)) = lookup id (assigned st')).
  { induction l as [|y l IHl]; intros st' Hy; [reflexivity|]. cbn [submit_all].
    rewrite IHl by (intro; apply Hy; now right). unfold submit; cbn [assigned lookup].
    destruct (Nat.eqb_spec y id); [subst; exfalso; apply Hy; now left|reflexivity]. }
  rewrite G by assumption. unfold submit; cbn [assigned lookup]. now rewrite Nat.eqb_refl.
Qed.

(* retrieving k, k+1, ..., p-1 from a state that holds exactly those ids *)
Lemma retrieve_from k : forall n (st : mpi_state R),
  (forall w, squeue st w = mine w (seq k n)) ->
  (forall w, channel st w = map res (mine w (seq k n))) ->
  (forall id, k <= id < k + n -> lookup id (assigned st) = Some (sched id)) ->
  retrieve_all st (seq k n) = Some (map res (seq k n)).
Proof.
  intros n. revert k. induction n as [|n IH]; intros k st Hq Hc Hl; [reflexivity|].
  cbn [seq retrieve_all map]. unfold get_result. rewrite Hl by lia.
  rewrite Hq, Hc. cbn [seq mine filter]. rewrite Nat.eqb_refl. cbn [map]. rewrite Nat.eqb_refl.
  fold (mine (sched k) (seq (S k) n)).
  rewrite (IH (S k)); [reflexivity| | |].
  - intros w. unfold upd; cbn [squeue]. destruct (Nat.eqb_spec w (sched k)) as [->|NE]; [reflexivity|].
    rewrite Hq. cbn [seq mine filter]. destruct (Nat.eqb_spec (sched k) w); [congruence|reflexivity].
  - intros w. unfold upd; cbn [channel]. destruct (Nat.eqb_spec w (sched k)) as [->|NE]; [reflexivity|].
    rewrite Hc. cbn [seq mine filter]. destruct (Nat.eqb_spec (sched k) w); [congruence|reflexivity].
  - intros id Hid. cbn [assigned]. apply Hl. lia.
Qed.

(* submit ids 0..p-1 to ANY workers, retrieve them in the same order: never an
   exception, and every call gets its own result back *)
Theorem protocol_fifo_ok p :
  retrieve_all (submit_all empty_state sched res (seq 0 p)) (seq 0 p) = Some (map res (seq 0 p)).
Proof.
  apply retrieve_from.
  - intros w. destruct (submit_all_queues (seq 0 p) empty_state w) as [E _]. exact E.
  - intros w. destruct (submit_all_queues (seq 0 p) empty_state w) as [_ E]. exact E.
  - intros id Hid. apply submit_all_lookup. apply in_seq. lia.
Qed.

(* retrieving in a different order can fail: the order matters (non-vacuity) *)
End Protocol.

Lemma out_of_order_fails :
  retrieve_all (submit_all empty_state (fun _ => 1) (fun i => i) [0; 1]) [1; 0] = None.
Proof. reflexivity. Qed.
