(* The cross-link rewiring kernel of the CURRENT numerics.pyx (Gen/RewireK.v is
   regenerated on every run) is the step of Model/Rewire.v. *)
From Coq Require Import List Bool.
From PV.Model Require Import Rewire.
From PV.Gen Require Import RewireK.

(* a step is a retry exactly when the generated condition holds for the two
   links it drew *)
Lemma gen_cross_reject_is_model st e1 e2 :
  let '(a, b) := nth e1 (cL st) (0, 0) in
  let '(c, d) := nth e2 (cL st) (0, 0) in
  snd (cross_step st e1 e2) = negb (gen_cross_reject (cC st) a b c d).
Proof.
  unfold cross_step, gen_cross_reject.
  destruct (nth e1 (cL st) (0, 0)) as [a b]. destruct (nth e2 (cL st) (0, 0)) as [c d].
  destruct (cC st a d || cC st c b); reflexivity.
Qed.
Lemma gen_cross_facts : gen_cross_swap_is_model = true.
Proof. reflexivity. Qed.
