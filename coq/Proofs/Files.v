From Coq Require Import String Ascii List Bool Arith.
From PV.Model Require Import Files.
Import ListNotations.
Open Scope string_scope.

Lemma keep_alnum_id s : all_alnum s = true -> keep_alnum s = s.
Proof.
  induction s as [|c r IH]; cbn [all_alnum keep_alnum]; [reflexivity|].
  intros H. apply andb_true_iff in H as [Hc Hr]. rewrite Hc. now rewrite IH.
Qed.

(* names made of letters and digits that start with a letter survive GML *)
Theorem gml_key_clean s : clean s = true -> gml_key s = s.
Proof.
  destruct s as [|c r]; [discriminate|]. unfold clean, gml_key.
  intros H. apply andb_true_iff in H as [Hc Hr]. rewrite Hc. now apply keep_alnum_id.
Qed.

Theorem stored_clean f s : clean s = true -> stored f s = s.
Proof. intros H. destruct f; cbn [stored]; try reflexivity. now apply gml_key_clean. Qed.

Lemma keep_alnum_all s : all_alnum (keep_alnum s) = true.
Proof.
  induction s as [|c r IH]; cbn [keep_alnum]; [reflexivity|].
  destruct (is_alnum c) eqn:E; [cbn [all_alnum]; now rewrite E|assumption].
Qed.
Lemma all_alnum_app a b : all_alnum a = true -> all_alnum b = true -> all_alnum (a ++ b) = true.
Proof.
  induction a as [|c r IH]; cbn [all_alnum append]; [auto|].
  intros H Hb. apply andb_true_iff in H as [Hc Hr]. rewrite Hc. cbn. auto.
Qed.

(* what GML writes is itself a clean name: writing twice changes nothing more *)
Theorem gml_key_is_clean s : clean (gml_key s) = true.
Proof.
  destruct s as [|c r]; [reflexivity|]. unfold gml_key.
  destruct (is_alpha c) eqn:E.
  - cbn [keep_alnum]. unfold is_alnum at 1. rewrite E. cbn [orb clean].
    rewrite E. cbn [andb all_alnum]. unfold is_alnum at 1. rewrite E. cbn [orb andb].
    apply keep_alnum_all.
  - change ("igraph" ++ keep_alnum (String c r)) with
      (String "i" ("graph" ++ keep_alnum (String c r))).
    unfold clean. apply andb_true_iff. split; [reflexivity|].
    change (String "i" ("graph" ++ keep_alnum (String c r)))
      with ("igraph" ++ keep_alnum (String c r)).
    apply all_alnum_app; [reflexivity|apply keep_alnum_all].
Qed.
Theorem gml_key_idempotent s : gml_key (gml_key s) = gml_key s.
Proof. apply gml_key_clean, gml_key_is_clean. Qed.

(* an underscore never survives *)
Theorem underscore_dropped a b : keep_alnum (a ++ String "_" b) = keep_alnum a ++ keep_alnum b.
Proof.
  induction a as [|c r IH]; cbn [append keep_alnum]; [reflexivity|].
  destruct (is_alnum c); [cbn [append]; now rewrite IH|assumption].
Qed.

Lemma mem_eqb x l : mem x l = true <-> In x l.
Proof.
  unfold mem. rewrite existsb_exists. split.
  - intros [y [Hy E]]. apply String.eqb_eq in E. now subst.
  - intros H. exists x. split; [assumption|apply String.eqb_refl].
Qed.

(* a loader that reads through the repair finds weights written under a name
   whose GML form is a declared alias of the name it looks up *)
Theorem repair_finds written lookup f :
  lookup = written -> finds [(gml_key written, written)] written f (true, lookup) = true.
Proof.
  intros ->. unfold finds. cbn [fst snd repair fold_left repair1].
  destruct f; cbn [stored].
  1-3: destruct (mem (gml_key written) [written] && negb (mem written [written]));
       cbn [mem existsb]; now rewrite String.eqb_refl.
  destruct (String.eqb (gml_key written) written) eqn:E.
  - apply String.eqb_eq in E. rewrite E. cbn [mem existsb]. rewrite String.eqb_refl.
    cbn [orb negb andb]. cbn [mem existsb]. now rewrite String.eqb_refl.
  - cbn [mem existsb]. rewrite String.eqb_refl. cbn [orb].
    rewrite String.eqb_sym, E. cbn [negb andb orb mem existsb]. now rewrite String.eqb_refl.
Qed.

(* without the repair a loader finds the weights in a GML file only when the
   name it looks up is the GML form of the written name *)
Theorem no_repair_gml written lookup :
  finds [] written Gml (false, lookup) = String.eqb lookup (gml_key written).
Proof. unfold finds. cbn. now rewrite orb_false_r. Qed.
