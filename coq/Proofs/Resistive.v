From Coq Require Import QArith Qabs Qcanon List Bool Arith Lia.
From PV.Base Require Import Sums.
From PV.Model Require Import Resistive.
Import ListNotations.
Open Scope Qc_scope.

(* ---------- elementary laws of R_aa - R_ab - R_ba + R_bb ---------- *)
Theorem eff_symmetric R a b : eff R a b = eff R b a.
Proof.
  unfold eff. rewrite (Nat.eqb_sym b a). destruct (Nat.eqb a b); [reflexivity|ring].
Qed.
Theorem eff_self_zero R a : eff R a a = 0.
Proof. unfold eff. now rewrite Nat.eqb_refl. Qed.
(* scaling R scales every effective resistance *)
Theorem eff_scale R k a b : eff (fun i j => k * R i j) a b = k * eff R a b.
Proof. unfold eff. destruct (Nat.eqb a b); ring. Qed.

Lemma qn_0 : qn 0 = 0.
Proof. apply Qc_is_canon. reflexivity. Qed.
Lemma qn_S n : qn (S n) = qn n + 1.
Proof.
  unfold qn. apply Qc_is_canon. unfold Qcplus, Q2Qc. cbn [this]. rewrite !Qred_correct.
  rewrite Nat2Z.inj_succ, <- Z.add_1_r, inject_Z_plus. reflexivity.
Qed.
Lemma sumn_const n c : sumn n (fun _ => c) = qn n * c.
Proof.
  induction n as [|n IH]; [rewrite qn_0; unfold sumn; cbn; ring|].
  rewrite sumn_S, IH, qn_S. ring.
Qed.
Lemma qn_pos n : (0 < n)%nat -> qn n <> 0.
Proof.
  intros H E. assert (Q : (inject_Z (Z.of_nat n) == 0)%Q).
  { rewrite <- (Qred_correct (inject_Z (Z.of_nat n))).
    change (Qred (inject_Z (Z.of_nat n))) with (this (qn n)). rewrite E. reflexivity. }
  unfold Qeq in Q. cbn in Q. lia.
Qed.
Lemma sumn_sub n f g : sumn n (fun i => f i - g i) = sumn n f - sumn n g.
Proof.
  transitivity (sumn n f + (-(1)) * sumn n g); [|ring].
  rewrite <- sumn_scal, <- sumn_add. apply sumn_ext. intros; ring.
Qed.
Lemma sumn_ind_r n a f : (a < n)%nat -> sumn n (fun u => f u * ind (Nat.eqb u a)) = f a.
Proof.
  intros H. rewrite <- (sumn_ind n a f H). apply sumn_ext. intros u _.
  rewrite (Nat.eqb_sym u a). ring.
Qed.

(* scaling all resistances by k divides the Laplacian by k; k R is then the
   pseudo-inverse: effective resistances are linear in the resistances *)
Theorem lap_scale n c k : k <> 0 -> forall i j, lap n (fun a b => c a b / k) i j = lap n c i j / k.
Proof.
  intros Hk i j. unfold lap.
  replace (sumn n (fun k0 => c k0 j / k)) with (/ k * sumn n (fun k0 => c k0 j)).
  - field. assumption.
  - rewrite <- sumn_scal. apply sumn_ext. intros; field; assumption.
Qed.
Theorem pinv_scale n L R k : k <> 0 -> is_pinv n L R ->
  is_pinv n (fun i j => L i j / k) (fun i j => k * R i j).
Proof.
  intros Hk [H1 H2]. split; intros i j Hi Hj.
  - rewrite <- (H1 i j Hi Hj). apply sumn_ext. intros; field; assumption.
  - rewrite <- (H2 i j Hi Hj). apply sumn_ext. intros; field; assumption.
Qed.

(* ---------- effective resistance = potential drop of a unit current ---------- *)
Theorem eff_is_potential_drop n L R (v : nat -> Qc) a b :
  (a < n)%nat -> (b < n)%nat -> is_pinv n L R ->
  (forall i, (i < n)%nat -> sumn n (fun j => L i j * v j) = delta i a - delta i b) ->
  eff R a b = v a - v b.
Proof.
  intros Ha Hb [HRL _] HV.
  assert (Hn : (0 < n)%nat) by lia.
  assert (K : forall i, (i < n)%nat -> R i a - R i b = v i - sumn n v / qn n).
  { intros i Hi.
    transitivity (sumn n (fun k => R i k * sumn n (fun j => L k j * v j))).
    - transitivity (sumn n (fun k => R i k * (delta k a - delta k b))).
      + rewrite <- (sumn_ind_r n a (fun k => R i k) Ha), <- (sumn_ind_r n b (fun k => R i k) Hb).
        rewrite <- sumn_sub. apply sumn_ext. intros; unfold delta; ring.
      + apply sumn_ext. intros k Hk. now rewrite HV.
    - transitivity (sumn n (fun j => sumn n (fun k => R i k * L k j) * v j)).
      + transitivity (sumn n (fun k => sumn n (fun j => R i k * L k j * v j))).
        * apply sumn_ext. intros k _. rewrite <- sumn_scal. apply sumn_ext. intros; ring.
        * rewrite sumn_swap. apply sumn_ext. intros j _.
          rewrite (Qcmult_comm _ (v j)), <- sumn_scal. apply sumn_ext. intros; ring.
      + transitivity (sumn n (fun j => (delta i j - 1 / qn n) * v j)).
        * apply sumn_ext. intros j Hj. now rewrite HRL.
        * transitivity (sumn n (fun j => ind (Nat.eqb i j) * v j) - sumn n (fun j => (1 / qn n) * v j)).
          -- rewrite <- sumn_sub. apply sumn_ext. intros; unfold delta; ring.
          -- rewrite sumn_ind by assumption. rewrite sumn_scal. field. now apply qn_pos. }
  unfold eff. destruct (Nat.eqb a b) eqn:E.
  - apply Nat.eqb_eq in E. subst b. ring.
  - pose proof (K a Ha) as Ka. pose proof (K b Hb) as Kb.
    replace (R a a - R a b - R b a + R b b) with ((R a a - R a b) - (R b a - R b b)) by ring.
    rewrite Ka, Kb. ring.
Qed.

(* consequently the value does not depend on WHICH pseudo-inverse was computed *)
Corollary eff_unique n L R R' a b : (a < n)%nat -> (b < n)%nat ->
  is_pinv n L R -> is_pinv n L R' -> eff R a b = eff R' a b.
Proof.
  intros Ha Hb H H'. destruct (Nat.eq_dec a b) as [->|Hne]; [now rewrite !eff_self_zero|].
  (* v := R' (e_a - e_b) is a potential *)
  set (v := fun j => R' j a - R' j b).
  assert (HV : forall i, (i < n)%nat -> sumn n (fun j => L i j * v j) = delta i a - delta i b).
  { intros i Hi. destruct H' as [_ HLR]. unfold v.
    transitivity (sumn n (fun j => L i j * R' j a) - sumn n (fun j => L i j * R' j b)).
    - rewrite <- sumn_sub. apply sumn_ext. intros; ring.
    - rewrite !HLR by assumption. ring. }
  rewrite (eff_is_potential_drop n L R v a b Ha Hb H HV).
  unfold v, eff. apply Nat.eqb_neq in Hne. rewrite Hne. ring.
Qed.

(* ---------- series and parallel laws (symbolic, every positive r) ---------- *)
Definition path3 (g1 g2 : Qc) : mat := fun i j =>
  match i, j with 0%nat, 1%nat | 1%nat, 0%nat => g1 | 1%nat, 2%nat | 2%nat, 1%nat => g2 | _, _ => 0 end.
Theorem series_law r1 r2 R : r1 <> 0 -> r2 <> 0 ->
  is_pinv 3 (lap 3 (path3 (1 / r1) (1 / r2))) R -> eff R 0 2 = r1 + r2.
Proof.
  intros H1 H2 HP.
  set (v := fun j : nat => match j with 0%nat => r1 + r2 | 1%nat => r2 | _ => 0 end).
  rewrite (eff_is_potential_drop 3 (lap 3 (path3 (1 / r1) (1 / r2))) R v 0 2); [unfold v; ring|lia|lia|assumption|].
  intros i Hi. destruct i as [|[|[|i]]]; try lia; unfold sumn, lap, path3, delta, ind, v; cbn;
    field; auto.
Qed.
Definition tri3 (g01 g12 g02 : Qc) : mat := fun i j =>
  match i, j with
  | 0%nat, 1%nat | 1%nat, 0%nat => g01 | 1%nat, 2%nat | 2%nat, 1%nat => g12
  | 0%nat, 2%nat | 2%nat, 0%nat => g02 | _, _ => 0 end.
(* a resistor r in parallel with the series r1 + r2 *)
Theorem parallel_law r r1 r2 R : r <> 0 -> r1 <> 0 -> r2 <> 0 -> r + r1 + r2 <> 0 ->
  is_pinv 3 (lap 3 (tri3 (1 / r1) (1 / r2) (1 / r))) R ->
  eff R 0 2 = r * (r1 + r2) / (r + r1 + r2).
Proof.
  intros H0 H1 H2 HS HP.
  set (v := fun j : nat => match j with
              | 0%nat => r * (r1 + r2) / (r + r1 + r2) | 1%nat => r * r2 / (r + r1 + r2) | _ => 0 end).
  rewrite (eff_is_potential_drop 3 (lap 3 (tri3 (1 / r1) (1 / r2) (1 / r))) R v 0 2); [unfold v; ring|lia|lia|assumption|].
  intros i Hi. destruct i as [|[|[|i]]]; try lia; unfold sumn, lap, tri3, delta, ind, v; cbn;
    field; auto.
Qed.

(* ---------- Foster's theorem ---------- *)
Theorem foster n c R : (0 < n)%nat ->
  (forall i j, c i j = c j i) -> (forall i, c i i = 0) -> (forall i j, R i j = R j i) ->
  is_pinv n (lap n c) R ->
  sumn n (fun i => sumn n (fun j => c i j * eff R i j)) = (1 + 1) * (qn n - 1).
Proof.
  intros Hn Hc Hd HR [HRL _].
  set (d := fun j => sumn n (fun k => c k j)).
  (* trace of R L *)
  assert (T : sumn n (fun i => sumn n (fun k => R i k * lap n c k i)) = qn n - 1).
  { transitivity (sumn n (fun i => 1 - 1 / qn n)).
    - apply sumn_ext. intros i Hi. rewrite HRL by assumption. unfold delta. now rewrite Nat.eqb_refl.
    - rewrite sumn_const. field. now apply qn_pos. }
  assert (T2 : sumn n (fun i => sumn n (fun k => R i k * lap n c k i))
             = sumn n (fun i => R i i * d i) - sumn n (fun i => sumn n (fun k => R i k * c k i))).
  { replace (sumn n (fun i => R i i * d i) - sumn n (fun i => sumn n (fun k => R i k * c k i)))
      with (sumn n (fun i => R i i * d i) + (-(1)) * sumn n (fun i => sumn n (fun k => R i k * c k i))) by ring.
    rewrite <- sumn_scal, <- sumn_add. apply sumn_ext. intros i Hi.
    transitivity (sumn n (fun k => R i k * ind (Nat.eqb k i) * d i) + sumn n (fun k => -(1) * (R i k * c k i))).
    - rewrite <- sumn_add. apply sumn_ext. intros k _. unfold lap, delta, d. ring.
    - rewrite sumn_scal. f_equal.
      transitivity (sumn n (fun k => (R i k * d i) * ind (Nat.eqb k i))).
      + apply sumn_ext. intros; ring.
      + now rewrite (sumn_ind_r n i (fun k => R i k * d i)). }
  (* the Foster sum *)
  assert (F : forall i j, c i j * eff R i j = c i j * (R i i - R i j - R j i + R j j)).
  { intros i j. unfold eff. destruct (Nat.eqb i j) eqn:E; [|reflexivity].
    apply Nat.eqb_eq in E. subst j. rewrite Hd. ring. }
  transitivity (sumn n (fun i => sumn n (fun j => c i j * (R i i - R i j - R j i + R j j)))).
  { apply sumn_ext. intros i _. apply sumn_ext. intros j _. apply F. }
  assert (S1 : sumn n (fun i => sumn n (fun j => c i j * R i i)) = sumn n (fun i => R i i * d i)).
  { apply sumn_ext. intros i _. unfold d. rewrite <- sumn_scal. apply sumn_ext. intros j _.
    rewrite (Hc j i). ring. }
  assert (S2 : sumn n (fun i => sumn n (fun j => c i j * R j j)) = sumn n (fun i => R i i * d i)).
  { rewrite sumn_swap. apply sumn_ext. intros j _. unfold d. rewrite <- sumn_scal.
    apply sumn_ext. intros i _. ring. }
  assert (S3 : sumn n (fun i => sumn n (fun j => c i j * R i j))
             = sumn n (fun i => sumn n (fun k => R i k * c k i))).
  { apply sumn_ext. intros i _. apply sumn_ext. intros j _. rewrite (Hc i j). ring. }
  assert (S4 : sumn n (fun i => sumn n (fun j => c i j * R j i))
             = sumn n (fun i => sumn n (fun k => R i k * c k i))).
  { apply sumn_ext. intros i _. apply sumn_ext. intros j _. rewrite (Hc i j), (HR j i). ring. }
  transitivity (sumn n (fun i => sumn n (fun j => c i j * R i i))
                + (-(1)) * sumn n (fun i => sumn n (fun j => c i j * R i j))
                + (-(1)) * sumn n (fun i => sumn n (fun j => c i j * R j i))
                + sumn n (fun i => sumn n (fun j => c i j * R j j))).
  { rewrite <- !sumn_scal, <- !sumn_add. apply sumn_ext. intros i _.
    rewrite <- !sumn_scal, <- !sumn_add. apply sumn_ext. intros j _. ring. }
  rewrite S1, S2, S3, S4. rewrite <- T, T2. ring.
Qed.

(* ---------- the object follows its resistances ---------- *)
Section Machine.
  Variables (n : nat) (pinv_of : mat -> mat).
  Lemma step_coherent s o : coherent n pinv_of s -> coherent n pinv_of (fst (step n pinv_of true s o)).
  Proof.
    intros [HR HS]. destruct o as [r| | |a b]; cbn [step fst].
    - split; cbn; auto.
    - split; cbn; auto.
    - destruct (store s) eqn:E; cbn [fst]; split; cbn; auto. now rewrite E.
    - split; assumption.
  Qed.
  Definition res_after (r : mat) (o : op) : mat := match o with Update r' => r' | _ => r end.
  Lemma step_res s o : res (fst (step n pinv_of true s o)) = res_after (res s) o.
  Proof. destruct o; cbn [step fst res_after]; try reflexivity. now destruct (store s). Qed.
  (* every answer equals the specification evaluated on the current resistances *)
  Theorem step_spec s o : coherent n pinv_of s ->
    snd (step n pinv_of true s o) = spec n pinv_of (res s) o.
  Proof.
    intros [HR HS]. destruct o as [r| | |a b]; cbn [step snd spec]; rewrite <- ?HR; try reflexivity.
    destruct (store s) as [l|] eqn:E; cbn [snd]; [now rewrite HS|reflexivity].
  Qed.
  Theorem run_coherent os : forall s, coherent n pinv_of s -> coherent n pinv_of (run n pinv_of true s os).
  Proof. induction os as [|o os IH]; intros s H; cbn [run]; [assumption|]. apply IH, step_coherent, H. Qed.
  Lemma init_coherent r : coherent n pinv_of (init pinv_of r).
  Proof. split; cbn; auto. Qed.
  (* after ANY history, the next answer is the one for the current resistances *)
  Theorem answers_follow_updates r os o :
    let s := run n pinv_of true (init pinv_of r) os in
    snd (step n pinv_of true s o) = spec n pinv_of (res s) o.
  Proof. cbn zeta. apply step_spec, run_coherent, init_coherent. Qed.
End Machine.

(* without the reset in update_R the diameter is stale: a witness *)
Definition r_one : mat := fun i j => if (Nat.eqb i 0 && Nat.eqb j 0)%bool then 1 else 0.
Definition r_zero : mat := fun _ _ => 0.
Theorem stale_without_reset :
  let s := run 2 (fun r => r) false (init (fun r => r) r_one) [Average; Update r_zero] in
  snd (step 2 (fun r => r) false s Diameter) <> spec 2 (fun r => r) (res s) Diameter.
Proof. cbn. intros E. apply (f_equal this) in E. discriminate E. Qed.
