From Coq Require Import QArith List Bool Arith Lia.
From PV.Model Require Import Reps.
Import ListNotations.
Close Scope Q_scope. Open Scope nat_scope.

Lemma edge_eqb_spec a b : edge_eqb a b = true <-> a = b.
Proof.
  unfold edge_eqb. rewrite andb_true_iff, !Nat.eqb_eq. destruct a, b; cbn. split.
  - intros [-> ->]. reflexivity.
  - intros H. injection H. auto.
Qed.

Lemma in_pairs n i j : In (i, j) (pairs n) <-> i < n /\ j < n.
Proof.
  unfold pairs. rewrite in_flat_map. split.
  - intros (a & Ha & H). apply in_map_iff in H as (b & E & Hb). injection E as -> ->.
    apply in_seq in Ha. apply in_seq in Hb. lia.
  - intros [Hi Hj]. exists i. split; [apply in_seq; lia|]. apply in_map_iff. exists j.
    split; [reflexivity|apply in_seq; lia].
Qed.

Lemma of_edges_spec directed E i j :
  of_edges directed E i j = true <-> In (i, j) (symmetrise directed E).
Proof.
  unfold of_edges. rewrite existsb_exists. split.
  - intros (e & He & H). apply edge_eqb_spec in H. now subst.
  - intros H. exists (i, j). split; [assumption|now apply edge_eqb_spec].
Qed.

(* the network rebuilt from its own edge list is the same network: for every
   simple graph (symmetric and loop-free if undirected) *)
Theorem of_edges_of_dense n directed (A : mat) i j : i < n -> j < n ->
  (directed = false -> (forall a b, A a b = A b a) /\ (forall a, A a a = false)) ->
  of_edges directed (edges_of n directed A) i j = A i j.
Proof.
  intros Hi Hj Hsym. apply eq_true_iff_eq. rewrite of_edges_spec. unfold symmetrise, edges_of.
  destruct directed.
  - rewrite filter_In, in_pairs. cbn [fst snd orb]. rewrite andb_true_r. tauto.
  - destruct (Hsym eq_refl) as [Hs Hl]. rewrite in_app_iff, in_map_iff. cbn [orb]. split.
    + intros [H|((a, b) & E & H)].
      * apply filter_In in H as [_ H]. cbn [fst snd] in H. now apply andb_prop in H as [H _].
      * cbn [fst snd] in E. injection E as <- <-. apply filter_In in H as [_ H]. cbn [fst snd] in H.
        apply andb_prop in H as [H _]. now rewrite Hs.
    + intros H. destruct (Nat.lt_trichotomy i j) as [L|[->|L]].
      * left. apply filter_In. split; [now apply in_pairs|]. cbn [fst snd]. rewrite H.
        now apply Nat.ltb_lt.
      * rewrite Hl in H. discriminate.
      * right. exists (j, i). split; [reflexivity|]. apply filter_In. split; [now apply in_pairs|].
        cbn [fst snd]. rewrite <- Hs, H. now apply Nat.ltb_lt.
Qed.

(* repeated or reversed entries of an edge list do not change the network *)
Theorem of_edges_duplicates directed E E' i j :
  (forall e, In e (symmetrise directed E) <-> In e (symmetrise directed E')) ->
  of_edges directed E i j = of_edges directed E' i j.
Proof. intros H. apply eq_true_iff_eq. rewrite !of_edges_spec. apply H. Qed.

Corollary of_edges_twice directed E i j : of_edges directed (E ++ E) i j = of_edges directed E i j.
Proof.
  apply of_edges_duplicates. intros e. unfold symmetrise. destruct directed.
  - rewrite in_app_iff. tauto.
  - rewrite map_app, !in_app_iff. tauto.
Qed.

(* an undirected network built from an edge list is symmetric *)
Theorem of_edges_symmetric E i j : of_edges false E i j = of_edges false E j i.
Proof.
  apply eq_true_iff_eq. rewrite !of_edges_spec. unfold symmetrise. rewrite !in_app_iff, !in_map_iff.
  split.
  - intros [H|((a, b) & Eq & H)].
    + right. exists (i, j). split; [reflexivity|exact H].
    + cbn [fst snd] in Eq. injection Eq as <- <-. left. exact H.
  - intros [H|((a, b) & Eq & H)].
    + right. exists (j, i). split; [reflexivity|exact H].
    + cbn [fst snd] in Eq. injection Eq as <- <-. left. exact H.
Qed.

(* total and mean node weight as the setter stores them *)
Open Scope Q_scope.
Theorem mean_times_n w : (length w > 0)%nat ->
  mean_weight w * inject_Z (Z.of_nat (length w)) == total_weight w.
Proof.
  intros H. unfold mean_weight. field. intros E. unfold Qeq in E. cbn in E. lia.
Qed.

(* link density times the number of ordered pairs is the number of non-zero
   entries (N >= 2); a single node has density 0 *)
Theorem density_consistent n A : (2 <= n)%nat ->
  link_density n A * inject_Z (Z.of_nat (n * (n - 1))) == inject_Z (Z.of_nat (nnz n A)).
Proof.
  intros H. unfold link_density. destruct (Nat.leb_spec n 1); [lia|]. field.
  intros E. unfold Qeq in E. cbn in E. nia.
Qed.
Theorem density_single_node A : link_density 1 A == 0.
Proof. reflexivity. Qed.
