(* C18: on a connected network with non-negative conductances the effective
   resistance vanishes only between identical nodes. *)
From Coq Require Import QArith Qcanon List Bool Arith Lia.
From PV.Base Require Import Sums.
From PV.Model Require Import Resistive.
From PV.Model Require GraphDefs.
From PV.Proofs Require Import Resistive CauchySchwarz Energy.
Open Scope Qc_scope.

Lemma nonneg_sum_zero (a b : Qc) : 0 <= a -> 0 <= b -> a + b = 0 -> a = 0 /\ b = 0.
Proof.
  intros Ha Hb H.
  assert (A0 : a <= 0).
  { replace a with (0 + - b) by (rewrite <- H; ring). 
    replace 0 with (0 + - 0) at 2 by ring. apply Qcplus_le_compat; [apply Qcle_refl|].
    apply Qcopp_le_compat. exact Hb. }
  assert (Ea : a = 0) by (apply Qcle_antisym; assumption).
  split; [assumption|]. rewrite Ea in H. rewrite <- H. ring.
Qed.
Lemma sumn_nonneg_zero n f : (forall i, (i < n)%nat -> 0 <= f i) -> sumn n f = 0 ->
  forall i, (i < n)%nat -> f i = 0.
Proof.
  induction n as [|n IH]; intros Hp H i Hi; [lia|].
  rewrite sumn_S in H.
  destruct (nonneg_sum_zero (sumn n f) (f n)) as [H1 H2]; try assumption.
  - apply sumn_nonneg. intros; apply Hp; lia.
  - apply Hp; lia.
  - destruct (Nat.eq_dec i n) as [->|Hne]; [assumption|]. apply IH; try assumption; try lia.
    intros; apply Hp; lia.
Qed.

Definition linked (c : mat) : GraphDefs.mat :=
  fun i j => if Qc_eq_dec (c i j) 0 then false else true.
Definition connected (n : nat) (c : mat) : Prop :=
  forall i j, (i < n)%nat -> (j < n)%nat -> exists k, GraphDefs.within n (linked c) k i j = true.

(* a potential that is constant across every link is constant on a connected network *)
Lemma constant_along_paths n c (v : nat -> Qc) :
  (forall i j, (i < n)%nat -> (j < n)%nat -> linked c i j = true -> v i = v j) ->
  forall k i j, (i < n)%nat -> (j < n)%nat -> GraphDefs.within n (linked c) k i j = true -> v i = v j.
Proof.
  intros Hl. induction k as [|k IH]; intros i j Hi Hj H; cbn [GraphDefs.within] in H.
  - apply Nat.eqb_eq in H. now subst.
  - apply orb_true_iff in H. destruct H as [H|H]; [now apply IH|].
    apply existsb_exists in H. destruct H as [m [Hm H]]. apply in_seq in Hm.
    apply andb_true_iff in H as [H1 H2].
    transitivity (v m); [apply IH; [assumption|lia|assumption]|apply Hl; [lia|assumption|assumption]].
Qed.

Lemma lap_row_sum n c a : (forall i j, c i j = c j i) -> (a < n)%nat ->
  sumn n (fun j => lap n c a j) = 0.
Proof.
  intros Hc Ha. unfold lap.
  transitivity (sumn n (fun j => ind (Nat.eqb a j) * sumn n (fun k => c k j)) - sumn n (fun j => c a j)).
  - rewrite <- sumn_sub. apply sumn_ext. intros j _. unfold delta. ring.
  - rewrite (sumn_ind n a (fun j => sumn n (fun k => c k j)) Ha).
    replace (sumn n (fun k => c k a)) with (sumn n (fun j => c a j)); [ring|].
    apply sumn_ext. intros j _. apply Hc.
Qed.

Theorem eff_positive n c R a b : (a < n)%nat -> (b < n)%nat -> a <> b ->
  (forall i j, c i j = c j i) -> (forall i j, 0 <= c i j) -> connected n c ->
  is_pinv n (lap n c) R -> eff R a b <> 0.
Proof.
  intros Ha Hb Hne Hc Hpos Hconn HP Hz.
  set (v := fun j => R j a - R j b).
  assert (HV : forall i, (i < n)%nat -> sumn n (fun j => lap n c i j * v j) = delta i a - delta i b).
  { intros i Hi. destruct HP as [_ HLR]. unfold v.
    transitivity (sumn n (fun j => lap n c i j * R j a) - sumn n (fun j => lap n c i j * R j b)).
    - rewrite <- sumn_sub. apply sumn_ext. intros; ring.
    - rewrite !HLR by assumption. ring. }
  pose proof (eff_is_potential_drop n (lap n c) R v a b Ha Hb HP HV) as Ed.
  assert (E : v a - v b = sumn n (fun i => v i * sumn n (fun j => lap n c i j * v j))).
  { transitivity (sumn n (fun i => v i * (delta i a - delta i b))).
    - transitivity (sumn n (fun i => v i * ind (Nat.eqb i a)) - sumn n (fun i => v i * ind (Nat.eqb i b))).
      + now rewrite !sumn_ind_r.
      + rewrite <- sumn_sub. apply sumn_ext. intros; unfold delta; ring.
    - apply sumn_ext. intros i Hi. now rewrite HV. }
  (* the energy vanishes *)
  assert (En : sumn n (fun i => sumn n (fun j => c i j * ((v i - v j) * (v i - v j)))) = 0).
  { rewrite <- energy_form by assumption. rewrite <- E, <- Ed, Hz. ring. }
  (* hence every term, hence v is constant across links *)
  assert (Hl : forall i j, (i < n)%nat -> (j < n)%nat -> linked c i j = true -> v i = v j).
  { intros i j Hi Hj L.
    assert (Row : sumn n (fun j0 => c i j0 * ((v i - v j0) * (v i - v j0))) = 0).
    { apply (sumn_nonneg_zero n (fun i0 => sumn n (fun j0 => c i0 j0 * ((v i0 - v j0) * (v i0 - v j0)))));
        [|assumption|assumption].
      intros i0 _. apply sumn_nonneg. intros j0 _. apply Qc_mult_nonneg; [apply Hpos|apply Qc_sq_nonneg]. }
    assert (T : c i j * ((v i - v j) * (v i - v j)) = 0).
    { apply (sumn_nonneg_zero n (fun j0 => c i j0 * ((v i - v j0) * (v i - v j0)))); try assumption.
      intros j0 _. apply Qc_mult_nonneg; [apply Hpos|apply Qc_sq_nonneg]. }
    unfold linked in L. destruct (Qc_eq_dec (c i j) 0) as [|Hn0]; [discriminate|].
    apply Qcmult_integral in T. destruct T as [T|T]; [contradiction|].
    apply Qcmult_integral in T. assert (D : v i - v j = 0) by (destruct T; assumption).
    replace (v i) with ((v i - v j) + v j) by ring. rewrite D. ring. }
  (* v is constant: L v = 0 at a, but it must be 1 *)
  assert (Const : forall j, (j < n)%nat -> v j = v a).
  { intros j Hj. destruct (Hconn j a Hj Ha) as [k Hk].
    exact (constant_along_paths n c v Hl k j a Hj Ha Hk). }
  pose proof (HV a Ha) as Ka.
  assert (Z : sumn n (fun j => lap n c a j * v j) = 0).
  { transitivity (v a * sumn n (fun j => lap n c a j)).
    - rewrite <- sumn_scal. apply sumn_ext. intros j Hj. rewrite (Const j Hj). ring.
    - rewrite lap_row_sum by assumption. ring. }
  rewrite Z in Ka. unfold delta in Ka. rewrite Nat.eqb_refl in Ka.
  replace (Nat.eqb a b) with false in Ka by (symmetry; now apply Nat.eqb_neq).
  cbn [ind] in Ka. assert (C : (0 : Qc) = 1) by (rewrite Ka; ring). discriminate C.
Qed.
