(* Facts read from the CURRENT source (Gen/TwinsK.v is regenerated each run;
   the translator stops, and the file does not compile, when a kernel statement
   is not one the model accounts for). *)
From Coq Require Import List Bool String.
From PV.Gen Require Import TwinsK.
Import ListNotations.

Lemma gen_twin_facts :
  gen_twins_s_threshold_type = "float"%string /\ gen_twins_s_resets_R = true /\
  gen_twins_r_same_search = true /\ gen_walks_are_model = true /\
  gen_twin_surrogates_s_ndim = 2 /\ gen_twin_surrogates_r_ndim = 3 /\
  gen_caller_twins_s = true /\ gen_caller_walk_s = true /\
  gen_caller_twins_r = true /\ gen_caller_walk_r = true.
Proof. repeat split; reflexivity. Qed.
Lemma gen_fourier_facts : gen_phase_is_unit_multiplier = true /\ gen_fft_full_length = true.
Proof. split; reflexivity. Qed.
