(* C11: with both groups equal to the whole node set the cross measures are
   the single-network measures of Model/GraphDefs.v. *)
From Coq Require Import ZArith QArith Qcanon List Bool Arith Lia.
From PV.Model Require Import PairLoop Interacting.
From PV.Model Require GraphDefs.
From PV.Proofs Require Import PairLoop Interacting.
Import ListNotations.
Open Scope Qc_scope.

Definition qcnat (k : nat) : Qc := Q2Qc (inject_Z (Z.of_nat k)).
Lemma qcnat_S k : qcnat (S k) = qcnat k + 1.
Proof.
  unfold qcnat. apply Qc_is_canon. unfold Qcplus, Q2Qc. cbn [this]. rewrite !Qred_correct.
  rewrite Nat2Z.inj_succ, <- Z.add_1_r, inject_Z_plus. reflexivity.
Qed.
Lemma count_sumq (P : nat -> bool) l : sumq (map (fun a => qb (P a)) l) = qcnat (length (filter P l)).
Proof.
  induction l as [|x l IH]; [apply Qc_is_canon; reflexivity|].
  cbn [map filter]. change (sumq (qb (P x) :: map (fun a => qb (P a)) l))
    with (qb (P x) + sumq (map (fun a => qb (P a)) l)).
  rewrite IH. destruct (P x); cbn [qb length]; [rewrite qcnat_S; ring|ring].
Qed.

(* cross degree towards the whole node set = degree *)
Theorem cross_degree_whole n A i : cross_degree A (seq 0 n) i = qcnat (GraphDefs.degree n A i).
Proof. unfold cross_degree, GraphDefs.degree, GraphDefs.nbrs. apply count_sumq. Qed.

(* hence the number of connected triples at i is k (k-1) / 2 with k its degree *)
Corollary triples_whole n A i :
  (1 + 1) * triples_of A (seq 0 n) i
  = qcnat (GraphDefs.degree n A i) * (qcnat (GraphDefs.degree n A i) - 1).
Proof. rewrite triples_are_neighbour_pairs, cross_degree_whole. reflexivity. Qed.

Lemma qb_and x y : qb (x && y) = qb x * qb y.
Proof. destruct x, y; cbn; ring. Qed.
Lemma sumq_cons x l : sumq (x :: l) = x + sumq l.
Proof. reflexivity. Qed.
Lemma sumq_filter (P : nat -> bool) (g : nat -> Qc) l :
  sumq (map (fun a => qb (P a) * g a) l) = sumq (map g (filter P l)).
Proof.
  induction l as [|x l IH]; [reflexivity|]. cbn [map filter]. rewrite sumq_cons, IH.
  destruct (P x); cbn [qb map]; [rewrite sumq_cons|]; ring.
Qed.
Lemma qcnat_add a b : qcnat (a + b) = qcnat a + qcnat b.
Proof.
  induction a as [|a IH]; [cbn [Nat.add]; unfold qcnat at 2; 
    replace (Q2Qc (inject_Z (Z.of_nat 0))) with (0 : Qc) by (apply Qc_is_canon; reflexivity); ring|].
  cbn [Nat.add]. rewrite !qcnat_S, IH. ring.
Qed.
Lemma sumq_qcnat (g : nat -> nat) l : sumq (map (fun a => qcnat (g a)) l) = qcnat (list_sum (map g l)).
Proof.
  induction l as [|x l IH]; [apply Qc_is_canon; reflexivity|].
  cbn [map]. rewrite sumq_cons, IH.
  change (list_sum (g x :: map g l)) with (g x + list_sum (map g l))%nat. now rewrite qcnat_add.
Qed.

(* triangles at i counted over the whole node set = linked pairs of neighbours / 2 *)
Theorem triangles_whole n A i : (forall a b, A a b = A b a) -> (forall a, A a a = false) ->
  (1 + 1) * triangles_of A (seq 0 n) i
  = qcnat (GraphDefs.linked_pairs A (GraphDefs.nbrs n A i)).
Proof.
  intros Hs Hd. unfold triangles_of.
  set (f := fun n3 n2 => qb (A i n2 && (A n2 n3 && A n3 i))).
  assert (Hf : forall a b, f a b = f b a).
  { intros a b. unfold f. rewrite (Hs a b), (Hs b i), (Hs a i).
    destruct (A i b), (A b a), (A i a); reflexivity. }
  pose proof (pair_loop_double f (seq 0 n) Hf) as D.
  assert (Z : sumq (map (fun a => f a a) (seq 0 n)) = 0).
  { clear D. generalize (seq 0 n) as l. induction l as [|x l IH]; [reflexivity|].
    cbn [map]. rewrite sumq_cons, IH.
    unfold f. rewrite Hd, andb_false_l, andb_false_r. cbn [qb]. ring. }
  rewrite Z in D. replace ((1 + 1) * pair_loop f (seq 0 n)) with (S2 f (seq 0 n) (seq 0 n))
    by (rewrite <- D; ring).
  unfold S2, GraphDefs.linked_pairs, GraphDefs.nbrs.
  (* outer sum over a restricted to neighbours of i, inner sum counts b *)
  transitivity (sumq (map (fun a => qb (A i a) *
                  qcnat (length (filter (fun b => A a b) (filter (A i) (seq 0 n))))) (seq 0 n))).
  - f_equal. apply map_ext. intros a. unfold f.
    transitivity (sumq (map (fun b => qb (A i b) * (qb (A i a) * qb (A a b))) (seq 0 n))).
    + f_equal. apply map_ext. intros b. rewrite !qb_and, (Hs b a), (Hs a i). ring.
    + rewrite sumq_filter.
      transitivity (qb (A i a) * sumq (map (fun b => qb (A a b)) (filter (A i) (seq 0 n)))).
      * induction (filter (A i) (seq 0 n)) as [|x l IH]; [cbn; ring|].
        cbn [map]. rewrite !sumq_cons, IH. ring.
      * now rewrite count_sumq.
  - rewrite sumq_filter. apply sumq_qcnat.
Qed.

(* cross local clustering towards the whole node set = local clustering:
   linked pairs of neighbours over k (k - 1) *)
Theorem cross_local_clustering_whole n A i :
  (forall a b, A a b = A b a) -> (forall a, A a a = false) ->
  let k := qcnat (GraphDefs.degree n A i) in
  let lp := qcnat (GraphDefs.linked_pairs A (GraphDefs.nbrs n A i)) in
  cross_local_clustering A (seq 0 n) i = if Qc_eq_dec (k * (k - 1)) 0 then 0 else lp / (k * (k - 1)).
Proof.
  intros Hs Hd. cbv zeta. unfold cross_local_clustering.
  rewrite cross_degree_whole.
  set (k := qcnat (GraphDefs.degree n A i)).
  pose proof (triangles_whole n A i Hs Hd) as T.
  set (lp := qcnat (GraphDefs.linked_pairs A (GraphDefs.nbrs n A i))) in *.
  assert (Tw : triangles_of A (seq 0 n) i = lp / (1 + 1)).
  { rewrite <- T. field. discriminate. }
  destruct (Qc_eq_dec (k * (k - 1) / (1 + 1)) 0) as [E|E];
    destruct (Qc_eq_dec (k * (k - 1)) 0) as [E'|E'].
  - reflexivity.
  - exfalso. apply E'. 
    replace (k * (k - 1)) with ((k * (k - 1) / (1 + 1)) * (1 + 1)) by (field; discriminate).
    rewrite E. ring.
  - exfalso. apply E. rewrite E'. field. discriminate.
  - rewrite Tw. field. split; [|split; [|discriminate]].
    + intros C. apply E'. change ({| this := 1; canon := Qred_involutive 1 |}) with (1 : Qc) in C.
      rewrite C. ring.
    + intros C. apply E'. rewrite C. ring.
Qed.
