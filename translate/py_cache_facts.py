"""Regenerate coq/Gen/CacheFacts.v: for every class that mixes in
pyunicorn.core.cache.Cached, the table of cached methods (key fields = fields
of the resolved __cache_state__ + decorator attrs; fields read, transitively
through self.* calls, property getters and Base.method(self) calls) and of
public mutators (fields written, counters bumped, counters reset by re-running
a constructor).  The classes are imported, so the MRO is Python's own; method
bodies are read with `ast`.  Fail-closed on source it cannot parse."""
import ast
import contextlib
import inspect
import io
import textwrap


class Unsupported(Exception):
    pass


def classes():
    with contextlib.redirect_stdout(io.StringIO()):
        from pyunicorn.core.cache import Cached
        import pyunicorn.core as core
        import pyunicorn.climate as climate
        import pyunicorn.timeseries as ts
        import pyunicorn.eventseries as es
        import pyunicorn.funcnet as fn
    out = set()
    for mod in (core, climate, ts, es, fn):
        for n in dir(mod):
            c = getattr(mod, n)
            if inspect.isclass(c) and issubclass(c, Cached) and c is not Cached:
                out.add(c)
    return sorted(out, key=lambda c: c.__name__)


def fn_ast(f):
    try:
        src = textwrap.dedent(inspect.getsource(f))
        return ast.parse(src).body[0]
    except (OSError, TypeError, SyntaxError, IndentationError) as e:
        raise Unsupported(f"cannot read source of {f}: {e}")


def chain_of(node):
    """self.a.b[...]... -> ['a', 'b'] (attribute chain rooted at self)."""
    parts = []
    while True:
        if isinstance(node, ast.Subscript):
            node = node.value
        elif isinstance(node, ast.Attribute):
            parts.append(node.attr)
            node = node.value
        elif isinstance(node, ast.Name):
            return (node.id, list(reversed(parts)))
        else:
            return (None, [])


SUBFIELDS = {("graph", "es"), ("graph", "vs")}


def field_of(parts):
    if len(parts) >= 2 and (parts[0], parts[1]) in SUBFIELDS:
        return parts[0] + "." + parts[1]
    return parts[0]


UNKNOWN = object()


def call_consts(call, env, skip_self=False):
    """(tuple of positional constants-or-UNKNOWN, frozenset of (kw, const))"""
    args = call.args[1:] if skip_self else call.args
    if any(isinstance(a, ast.Starred) for a in args) or any(
            k.arg is None for k in call.keywords):
        return None

    def val(a):
        if isinstance(a, ast.Constant) and isinstance(
                a.value, (type(None), bool)):
            return a.value
        if isinstance(a, ast.Name) and a.id in env:
            return env[a.id]
        return UNKNOWN
    pos = tuple(val(a) for a in args)
    kws = frozenset((k.arg, val(k.value)) for k in call.keywords)
    return (pos, kws)


def params_consts(fn, info):
    """parameter name -> constant (None / True / False) known at this call"""
    if info is None:
        return {}
    pos, kws = info
    kwd = dict(kws)
    a = fn.args
    names = [x.arg for x in a.args][1:]            # drop self
    defaults = [UNKNOWN] * (len(names) - len(a.defaults)) + [
        (d.value if isinstance(d, ast.Constant) and isinstance(
            d.value, (type(None), bool)) else UNKNOWN) for d in a.defaults]
    out = {}
    for i, (nm, d) in enumerate(zip(names, defaults)):
        if i < len(pos):
            v = pos[i]
        elif nm in kwd:
            v = kwd[nm]
        else:
            v = d
        if v is not UNKNOWN:
            out[nm] = v
    return out


class Scan(ast.NodeVisitor):
    def __init__(self, consts=None):
        self.loads, self.stores, self.bumps, self.resets = \
            set(), set(), set(), set()
        self.self_calls, self.class_calls, self.inits = set(), set(), set()
        self.alias = {}
        self.guarded = 0
        self.env = dict(consts or {})

    def value(self, t):
        """constant value of a test expression or UNKNOWN"""
        if isinstance(t, ast.Constant):
            return t.value
        if isinstance(t, ast.Name) and t.id in self.env:
            return self.env[t.id]
        if isinstance(t, ast.UnaryOp) and isinstance(t.op, ast.Not):
            v = self.value(t.operand)
            return UNKNOWN if v is UNKNOWN else (not v)
        if isinstance(t, ast.Compare) and len(t.ops) == 1:
            l, r = self.value(t.left), self.value(t.comparators[0])
            if l is UNKNOWN or r is UNKNOWN:
                return UNKNOWN
            op = t.ops[0]
            if isinstance(op, ast.Is):
                return l is r
            if isinstance(op, ast.IsNot):
                return l is not r
            if isinstance(op, ast.Eq):
                return l == r
            if isinstance(op, ast.NotEq):
                return l != r
            return UNKNOWN
        if isinstance(t, ast.BoolOp):
            vals = [self.value(v) for v in t.values]
            if isinstance(t.op, ast.And):
                if any(v is not UNKNOWN and not v for v in vals):
                    return False
                if all(v is not UNKNOWN for v in vals):
                    return all(vals)
            else:
                if any(v is not UNKNOWN and v for v in vals):
                    return True
                if all(v is not UNKNOWN for v in vals):
                    return any(vals)
        return UNKNOWN

    def truth(self, t):
        v = self.value(t)
        return None if v is UNKNOWN else bool(v)

    # -- helpers
    @staticmethod
    def _continues(counter, value):
        """`self._mut_X = getattr(self, "_mut_X", c)` keeps the old value"""
        return (isinstance(value, ast.Call) and isinstance(value.func, ast.Name)
                and value.func.id == "getattr" and len(value.args) == 3
                and ast.unparse(value.args[0]) == "self"
                and isinstance(value.args[1], ast.Constant)
                and value.args[1].value == counter)

    def _store_target(self, t, aug=False):
        root, parts = chain_of(t)
        if root == "self" and parts:
            direct = isinstance(t, ast.Attribute) and len(parts) == 1
            name = field_of(parts)
            if name.startswith("_mut_"):
                return name, direct
            self.stores.add(name)
            return None, direct
        if root in self.alias and not isinstance(t, ast.Name):
            self.stores.add(self.alias[root])
        return None, False

    def visit_Assign(self, n):
        for t in n.targets:
            for tt in (t.elts if isinstance(t, (ast.Tuple, ast.List)) else [t]):
                cnt, direct = self._store_target(tt)
                if cnt and direct and not self.guarded \
                        and not self._continues(cnt, n.value):
                    self.resets.add(cnt)
            if isinstance(t, ast.Name):
                self.env.pop(t.id, None)
                root, parts = chain_of(n.value)
                if root == "self" and parts and isinstance(
                        n.value, (ast.Attribute, ast.Subscript)):
                    self.alias[t.id] = field_of(parts)
        self.generic_visit(n)

    def visit_AnnAssign(self, n):
        if n.value is not None:
            cnt, direct = self._store_target(n.target)
            if cnt and direct and not self.guarded \
                    and not self._continues(cnt, n.value):
                self.resets.add(cnt)
        self.generic_visit(n)

    def visit_AugAssign(self, n):
        root, parts = chain_of(n.target)
        if root == "self" and parts and parts[0].startswith("_mut_"):
            self.bumps.add(parts[0])
        else:
            self._store_target(n.target, aug=True)
        self.generic_visit(n)

    def visit_Delete(self, n):
        for t in n.targets:
            self._store_target(t)
        self.generic_visit(n)

    def visit_For(self, n):
        if isinstance(n.target, ast.Name):
            root, parts = chain_of(n.iter)
            if root == "self" and parts and isinstance(
                    n.iter, (ast.Attribute, ast.Subscript)):
                self.alias[n.target.id] = field_of(parts)
                if parts[:2] == ["graph", "es"] and len(parts) == 2 and \
                        not self._reads_items(n.body, n.target.id):
                    # walking the edge list only to learn the end points or
                    # to assign: reads the topology, not the edge attributes
                    self.loads.add("graph")
                    for c in n.body + n.orelse:
                        self.visit(c)
                    return
        self.generic_visit(n)

    @staticmethod
    def _reads_items(body, var):
        for st in body:
            for node in ast.walk(st):
                if isinstance(node, ast.Subscript) and isinstance(
                        node.value, ast.Name) and node.value.id == var \
                        and isinstance(node.ctx, ast.Load):
                    return True
                if isinstance(node, ast.Attribute) and isinstance(
                        node.value, ast.Name) and node.value.id == var \
                        and node.attr not in ("tuple", "source", "target",
                                              "index"):
                    return True
                if isinstance(node, ast.Name) and node.id == var and \
                        isinstance(node.ctx, ast.Load):
                    # the bare edge object escapes (passed on / stored)
                    par_ok = False
                    for p in ast.walk(st):
                        for ch in ast.iter_child_nodes(p):
                            if ch is node and isinstance(
                                    p, (ast.Subscript, ast.Attribute)):
                                par_ok = True
                    if not par_ok:
                        return True
        return False

    def visit_If(self, n):
        tv = self.truth(n.test)
        if tv is True:
            for c in n.body:
                self.visit(c)
            return
        if tv is False:
            for c in n.orelse:
                self.visit(c)
            return
        src = ast.unparse(n.test)
        g = "hasattr(self" in src
        if g:
            self.guarded += 1
        for c in n.body:
            self.visit(c)
        if g:
            self.guarded -= 1
        for c in n.orelse:
            self.visit(c)
        self.visit(n.test)

    def visit_IfExp(self, n):
        tv = self.truth(n.test)
        if tv is True:
            self.visit(n.body)
        elif tv is False:
            self.visit(n.orelse)
        else:
            self.generic_visit(n)

    def visit_Attribute(self, n):
        if isinstance(n.ctx, ast.Load):
            root, parts = chain_of(n)
            if root == "self" and parts:
                self.loads.add(parts[0])
                if len(parts) >= 2 and (parts[0], parts[1]) in SUBFIELDS:
                    self.loads.add(parts[0] + "." + parts[1])
        self.generic_visit(n)

    def visit_Call(self, n):
        f = n.func
        if isinstance(f, ast.Attribute):
            root, parts = chain_of(f)
            if root == "self" and len(parts) == 1:
                self.self_calls.add((parts[0], call_consts(n, self.env)))
            elif root == "self" and parts and parts[0] == "graph":
                for kw in n.keywords:
                    if kw.arg == "weights" and not (
                            isinstance(kw.value, ast.Constant)
                            and kw.value.value is None) and not (
                            isinstance(kw.value, ast.Name)
                            and self.env.get(kw.value.id, 0) is None):
                        self.loads.add("graph.es")
            elif isinstance(f.value, ast.Name) and n.args and isinstance(
                    n.args[0], ast.Name) and n.args[0].id == "self":
                if f.attr == "__init__":
                    self.inits.add(f.value.id)
                else:
                    self.class_calls.add((f.value.id, f.attr,
                                          call_consts(n, self.env, True)))
            elif isinstance(f.value, ast.Call) and isinstance(
                    f.value.func, ast.Name) and f.value.func.id == "super":
                if f.attr == "__init__":
                    self.inits.add("super")
                else:
                    self.self_calls.add((f.attr, call_consts(n, self.env)))
        self.generic_visit(n)


def resolve(cls, name):
    for k in cls.__mro__:
        if name in k.__dict__:
            return k, k.__dict__[name]
    return None, None


def unwrap(o):
    while hasattr(o, "__wrapped__"):
        o = o.__wrapped__
    return o


class Analysis:
    def __init__(self, cls):
        self.cls = cls
        self.memo = {}

    def funcs(self, owner_cls, name, which):
        k, obj = resolve(owner_cls, name)
        if obj is None:
            return []
        if isinstance(obj, property):
            fn = obj.fget if which == "get" else obj.fset
            return [fn] if fn else []
        if isinstance(obj, (staticmethod, classmethod)):
            return []
        o = unwrap(obj)
        return [o] if inspect.isfunction(o) else []

    def scan(self, owner_cls, name, which="get", info=None):
        key = (owner_cls, name, which, info)
        if key in self.memo:
            return self.memo[key]
        res = dict(loads=set(), stores=set(), bumps=set(), resets=set())
        self.memo[key] = res
        for fn in self.funcs(owner_cls, name, which):
            node = fn_ast(fn)
            s = Scan(params_consts(node, info))
            for st in node.body:
                s.visit(st)
            res["loads"] |= s.loads
            res["stores"] |= s.stores
            res["bumps"] |= s.bumps
            # a plain assignment to a counter anywhere (a re-run constructor
            # or a setter that "starts over") can bring an old key back
            res["resets"] |= s.resets
            subs = []
            for callee, cinfo in s.self_calls:
                subs.append(self.scan(self.cls, callee, info=cinfo))
            for cname, meth, cinfo in s.class_calls:
                for kk in self.cls.__mro__:
                    if kk.__name__ == cname:
                        subs.append(self.scan(kk, meth, info=cinfo))
            for cname in s.inits:
                if cname == "super":
                    mro = list(self.cls.__mro__)
                    idx = mro.index(owner_cls) if owner_cls in mro else 0
                    if idx + 1 < len(mro):
                        subs.append(self.scan(mro[idx + 1], "__init__"))
                for kk in self.cls.__mro__:
                    if kk.__name__ == cname:
                        subs.append(self.scan(kk, "__init__"))
            for a in list(s.loads):
                _, o = resolve(self.cls, a)
                if isinstance(o, property):
                    subs.append(self.scan(self.cls, a, "get"))
            for a in list(s.stores):
                _, o = resolve(self.cls, a)
                if isinstance(o, property) and o.fset:
                    subs.append(self.scan(self.cls, a, "set"))
            for sub in subs:
                for f in res:
                    res[f] |= sub[f]
        return res

    def data_fields(self, names):
        """drop names that are methods; replace properties by nothing (their
        getters were expanded)"""
        out = set()
        for a in names:
            base = a.split(".")[0]
            _, o = resolve(self.cls, base)
            if isinstance(o, property):
                continue
            if o is not None and (inspect.isfunction(unwrap(o))
                                  or isinstance(o, (staticmethod,
                                                    classmethod))):
                continue
            out.add(a)
        return out

    def config_attrs(self):
        """public attributes that some __init__ in the MRO sets to a parameter
        of the same name or to kwargs.get(name) / kwds[name]"""
        out = set()
        for k in self.cls.__mro__:
            init = k.__dict__.get("__init__")
            if init is None or not inspect.isfunction(unwrap(init)):
                continue
            try:
                node = fn_ast(unwrap(init))
            except Unsupported:
                continue
            params = {a.arg for a in node.args.args + node.args.kwonlyargs}
            kw = node.args.kwarg.arg if node.args.kwarg else None
            for st in ast.walk(node):
                if not (isinstance(st, ast.Assign) and len(st.targets) == 1):
                    continue
                t = st.targets[0]
                if not (isinstance(t, ast.Attribute) and isinstance(
                        t.value, ast.Name) and t.value.id == "self"
                        and not t.attr.startswith("_")):
                    continue
                v = st.value
                if isinstance(v, ast.Name) and v.id == t.attr \
                        and v.id in params:
                    out.add(t.attr)
                elif kw and isinstance(v, ast.Call) and isinstance(
                        v.func, ast.Attribute) and v.func.attr == "get" \
                        and isinstance(v.func.value, ast.Name) \
                        and v.func.value.id == kw and v.args \
                        and isinstance(v.args[0], ast.Constant) \
                        and v.args[0].value == t.attr:
                    out.add(t.attr)
                elif kw and isinstance(v, ast.Subscript) and isinstance(
                        v.value, ast.Name) and v.value.id == kw \
                        and isinstance(v.slice, ast.Constant) \
                        and v.slice.value == t.attr:
                    out.add(t.attr)
        _, o = None, None
        return {a for a in out
                if not isinstance(resolve(self.cls, a)[1], property)}

    def cached_methods(self):
        out = {}
        for name in dir(self.cls):
            _, obj = resolve(self.cls, name)
            if hasattr(obj, "cache_info") and hasattr(obj, "__wrapped__"):
                attrs = ()
                if getattr(obj, "__closure__", None):
                    for c in obj.__closure__:
                        try:
                            v = c.cell_contents
                        except ValueError:
                            continue
                        if isinstance(v, tuple) and v and all(
                                isinstance(x, str) for x in v):
                            attrs = v
                out[name] = attrs
        return out

    def table(self):
        cls = self.cls
        cs = self.scan(cls, "__cache_state__")
        state = sorted(self.data_fields(cs["loads"]))
        methods = []
        for name, attrs in sorted(self.cached_methods().items()):
            r = self.scan(cls, name)
            key = sorted(set(state) | set(attrs))
            reads = sorted(f for f in self.data_fields(r["loads"])
                           if not f.startswith("_mut_")
                           and f not in ("silence_level",))
            methods.append((name, key, reads))
        mutators = []
        for n in sorted(dir(cls)):
            if n.startswith("_"):
                continue
            _, o = resolve(cls, n)
            if isinstance(o, property):
                if o.fset:
                    r = self.scan(cls, n, "set")
                    mutators.append((n + ".setter", r))
                continue
            if isinstance(o, (staticmethod, classmethod)):
                continue
            if inspect.isfunction(o) and not hasattr(o, "cache_info"):
                r = self.scan(cls, n)
                if r["stores"] or r["bumps"]:
                    mutators.append((n, r))
        muts = []
        # configuration the constructor stores under a public name straight
        # from its arguments (self.metric = metric, self.threshold =
        # kwargs.get("threshold")) is state the user may assign directly:
        # one implicit mutator per such attribute that a cached method reads
        read_by_cached = set()
        for _, _, reads in methods:
            read_by_cached |= set(reads)
        for a in sorted(self.config_attrs() & read_by_cached):
            muts.append((a + " (assigned)", [a], [], []))
        for n, r in mutators:
            changed = sorted(f for f in self.data_fields(r["stores"])
                             if f not in ("silence_level",))
            if not changed and not r["bumps"]:
                continue
            muts.append((n, changed, sorted(r["bumps"]), sorted(r["resets"])))
        return methods, muts


def slist(xs):
    return "[" + "; ".join('"%s"' % x for x in xs) + "]"


def generate(repo):
    out = ["(* GENERATED by translate/py_cache_facts.py from the classes that "
           "mix in pyunicorn.core.cache.Cached *)",
           "From Coq Require Import List String.",
           "From PV.Model Require Import Cache.",
           "Import ListNotations.", "Open Scope string_scope.", ""]
    names = []
    for cls in classes():
        methods, muts = Analysis(cls).table()
        if not methods:
            continue
        nm = "table_" + cls.__name__
        names.append(nm)
        out.append(f"Definition {nm} : ctable := {{|")
        out.append(f'  t_class := "{cls.__name__}";')
        out.append("  t_methods := [")
        out.append(";\n".join(
            f'    {{| m_name := "{n}"; m_key := {slist(k)}; '
            f"m_reads := {slist(r)} |}}" for n, k, r in methods))
        out.append("  ];")
        out.append("  t_mutators := [")
        out.append(";\n".join(
            f'    {{| mu_name := "{n}"; mu_changed := {slist(c)}; '
            f"mu_bumps := {slist(b)}; mu_resets := {slist(rs)} |}}"
            for n, c, b, rs in muts))
        out.append("  ] |}.")
        out.append("")
    out.append("Definition gen_tables : list ctable := ["
               + "; ".join(names) + "].")
    return "\n".join(out) + "\n"


if __name__ == "__main__":
    import sys
    sys.path.insert(0, "/verif/harness")
    import common
    common.activate_impl()
    print(generate("/repo"))
