"""Regenerate coq/Gen/GridGen.v from core/_ext/numerics.pyx and the callers in
core/geo_grid.py / core/grid.py: loop ranges, written cells, the arithmetic
expression (every operation rounded to the element type of `expr`) and the
clamp of the two distance kernels; which sequences the callers pass in which
argument position.  Fail-closed."""
import ast
import os
import re
import textwrap


class Unsupported(Exception):
    pass


PYX = "src/pyunicorn/core/_ext/numerics.pyx"


def _func_text(src, name):
    m = re.search(rf"^def {name}\(", src, flags=re.M)
    if not m:
        raise Unsupported(f"cannot find {name}")
    nxt = re.search(r"^(def |cdef |cpdef |# [a-z].*=====)", src[m.end():],
                    flags=re.M)
    return src[m.start(): m.end() + (nxt.start() if nxt else 0)]


def _split(ftxt):
    """signature parameters with types, cdef declarations, python body"""
    sig_end = ftxt.index("):\n")
    sig = ftxt[ftxt.index("(") + 1: sig_end]
    params = []
    for p in re.split(r",\s*(?![^\[]*\])", sig.replace("\n", " ")):
        p = p.strip()
        m = re.match(r"ndarray\[(\w+), ndim=(\d)\]\s+(\w+)$", p)
        if m:
            params.append((m.group(3), m.group(1), int(m.group(2))))
            continue
        m = re.match(r"(\w+)\s+(\w+)$", p)
        if not m:
            raise Unsupported(f"parameter {p}")
        params.append((m.group(2), m.group(1), 0))
    rest = ftxt[sig_end + 3:]
    m = re.match(r"\s*cdef:\n((?:\s{8}.*\n)+)", rest)
    if not m:
        raise Unsupported("cdef block")
    decls = {}
    for line in m.group(1).strip().splitlines():
        t, names = line.strip().split(None, 1)
        for n in names.split(","):
            decls[n.strip()] = t
    body = textwrap.dedent(rest[m.end():])
    # casts <T> e are dropped after checking the type
    casts = re.findall(r"<\s*(\w+)\s*>", body)
    body = re.sub(r"<\s*\w+\s*>\s*", "", body)
    return params, decls, ast.parse(body).body, casts


class Expr:
    """float expression -> Gallina over Q with a rounding after each
    operation; array reads become applications"""

    def __init__(self, arrays, nat_vars):
        self.arrays, self.nat = arrays, nat_vars

    def idx(self, e):
        if isinstance(e, ast.Name) and e.id in self.nat:
            return e.id
        raise Unsupported("index " + ast.unparse(e))

    def tr(self, e):
        if isinstance(e, ast.Subscript) and isinstance(e.value, ast.Name) \
                and e.value.id in self.arrays:
            s = e.slice
            ix = s.elts if isinstance(s, ast.Tuple) else [s]
            if len(ix) != self.arrays[e.value.id]:
                raise Unsupported("rank of " + ast.unparse(e))
            return "(" + " ".join([e.value.id] + [self.idx(i) for i in ix]) \
                + ")"
        if isinstance(e, ast.Name) and e.id == "expr":
            return "expr"
        if isinstance(e, ast.Constant) and isinstance(e.value, int):
            return f"({e.value}#1)%Q" if e.value >= 0 else \
                f"(-{-e.value}#1)%Q"
        if isinstance(e, ast.BinOp):
            if isinstance(e.op, ast.Pow):
                if isinstance(e.right, ast.Constant) and e.right.value == 2:
                    return f"(fsq {self.tr(e.left)})"
                if isinstance(e.right, ast.Constant) \
                        and e.right.value == 0.5:
                    return f"(fsqrt {self.tr(e.left)})"
                raise Unsupported("power " + ast.unparse(e))
            op = {ast.Add: "fadd", ast.Sub: "fsub", ast.Mult: "fmul"}.get(
                type(e.op))
            if op is None:
                raise Unsupported("operator in " + ast.unparse(e))
            return f"({op} {self.tr(e.left)} {self.tr(e.right)})"
        raise Unsupported("expression " + ast.unparse(e))


def _range(it, what):
    if not (isinstance(it, ast.Call) and ast.unparse(it.func) == "range"
            and len(it.args) == 1):
        raise Unsupported(what + " range")
    return it.args[0]


def _nat(e, nat_vars):
    if isinstance(e, ast.Name) and e.id in nat_vars:
        return e.id
    if isinstance(e, ast.Constant) and isinstance(e.value, int):
        return str(e.value)
    if isinstance(e, ast.BinOp) and isinstance(e.op, (ast.Add, ast.Sub)):
        return (f"({_nat(e.left, nat_vars)} "
                f"{'+' if isinstance(e.op, ast.Add) else '-'} "
                f"{_nat(e.right, nat_vars)})")
    raise Unsupported("loop bound " + ast.unparse(e))


def _cells(stmt, target):
    """A[i, j] = A[j, i] = expr  ->  [(i, j); (j, i)]"""
    if not isinstance(stmt, ast.Assign):
        raise Unsupported("store statement")
    cells = []
    for t in stmt.targets:
        if not (isinstance(t, ast.Subscript) and ast.unparse(t.value) == target
                and isinstance(t.slice, ast.Tuple) and len(t.slice.elts) == 2
                and all(isinstance(x, ast.Name) for x in t.slice.elts)):
            raise Unsupported("store target " + ast.unparse(t))
        cells.append("(%s, %s)" % tuple(x.id for x in t.slice.elts))
    return cells, stmt.value


def _width(t):
    if t in ("FIELD_t", "float"):
        return 32
    if t in ("DFIELD_t", "double"):
        return 64
    raise Unsupported("type of expr: " + t)


def _angular(src):
    params, decls, body, casts = _split(_func_text(
        src, "_calculate_angular_distance"))
    names = [p[0] for p in params]
    if names != ["cos_lat", "sin_lat", "cos_lon", "sin_lon", "cosangdist",
                 "N"]:
        raise Unsupported(f"angular kernel parameters {names}")
    if casts:
        raise Unsupported("casts in angular kernel")
    elem = {p[1] for p in params[:5]}
    if elem != {decls.get("expr")}:
        raise Unsupported(f"expr is {decls.get('expr')}, arrays are {elem}")
    if len(body) != 1 or not isinstance(body[0], ast.For):
        raise Unsupported("angular kernel body")
    outer = body[0]
    nat = {"N", "i", "j"}
    ob = _nat(_range(outer.iter, "outer"), nat)
    if ast.unparse(outer.target) != "i" or len(outer.body) != 1 \
            or not isinstance(outer.body[0], ast.For):
        raise Unsupported("outer loop")
    inner = outer.body[0]
    ib = _nat(_range(inner.iter, "inner"), nat)
    if ast.unparse(inner.target) != "j" or len(inner.body) != 3:
        raise Unsupported("inner loop")
    asg, clamp, store = inner.body
    if not (isinstance(asg, ast.Assign)
            and ast.unparse(asg.targets[0]) == "expr"):
        raise Unsupported("expr assignment")
    ex = Expr({"cos_lat": 1, "sin_lat": 1, "cos_lon": 1, "sin_lon": 1}, nat)
    e = ex.tr(asg.value)
    # clamp: chain of  if expr <cmp> c: expr = c'
    cl = "expr"
    branches = []
    node = clamp
    while True:
        if not isinstance(node, ast.If):
            raise Unsupported("clamp")
        t = node.test
        if not (isinstance(t, ast.Compare) and len(t.ops) == 1
                and ast.unparse(t.left) == "expr"
                and isinstance(t.ops[0], (ast.Gt, ast.Lt))):
            raise Unsupported("clamp test " + ast.unparse(t))
        c = ast.literal_eval(t.comparators[0])
        if not (len(node.body) == 1 and isinstance(node.body[0], ast.Assign)
                and ast.unparse(node.body[0].targets[0]) == "expr"):
            raise Unsupported("clamp body")
        v = ast.literal_eval(node.body[0].value)
        if not isinstance(c, int) or not isinstance(v, int):
            raise Unsupported("clamp constants")
        branches.append((isinstance(t.ops[0], ast.Gt), c, v))
        if not node.orelse:
            break
        if len(node.orelse) != 1:
            raise Unsupported("clamp else")
        node = node.orelse[0]

    def q(z):
        return f"({z}#1)%Q" if z >= 0 else f"(-{-z}#1)%Q"
    for gt, c, v in reversed(branches):
        test = f"Qlt_b {q(c)} expr" if gt else f"Qlt_b expr {q(c)}"
        cl = f"(if {test} then {q(v)} else {cl})"
    cells, val = _cells(store, "cosangdist")
    if ast.unparse(val) != "expr":
        raise Unsupported("stored value")
    w = _width(decls["expr"])
    return [
        f"Definition gen_ang_bits : Z := {w}.",
        f"Definition gen_ang_outer (N : nat) : list nat := seq 0 {ob}.",
        f"Definition gen_ang_inner (N i : nat) : list nat := seq 0 {ib}.",
        "Definition gen_ang_cells (i j : nat) : list (nat * nat) := ["
        + "; ".join(cells) + "].",
        "Definition gen_ang_expr (cos_lat sin_lat cos_lon sin_lon : nat -> Q)"
        " (i j : nat) : Q :=\n  let fadd := fadd gen_ang_bits in let fsub := "
        "fsub gen_ang_bits in let fmul := fmul gen_ang_bits in\n  " + e + ".",
        "Definition gen_ang_clamp (expr : Q) : Q := " + cl + ".", ""]


def _euclid(src):
    params, decls, body, casts = _split(_func_text(
        src, "_calculate_euclidean_distance"))
    names = [p[0] for p in params]
    if names != ["x", "distance", "N_dim", "N_nodes"]:
        raise Unsupported(f"euclidean kernel parameters {names}")
    if {p[1] for p in params[:2]} != {decls.get("expr")}:
        raise Unsupported("expr / array types differ")
    if any(c != decls["expr"] for c in casts):
        raise Unsupported(f"casts {casts}")
    nat = {"N_dim", "N_nodes", "i", "j", "k"}
    outer = body[0]
    if len(body) != 1 or not isinstance(outer, ast.For) \
            or ast.unparse(outer.target) != "i":
        raise Unsupported("euclidean outer loop")
    ob = _nat(_range(outer.iter, "outer"), nat)
    inner = outer.body[0]
    if len(outer.body) != 1 or not isinstance(inner, ast.For) \
            or ast.unparse(inner.target) != "j" or len(inner.body) != 3:
        raise Unsupported("euclidean inner loop")
    ib = _nat(_range(inner.iter, "inner"), nat)
    init, kloop, store = inner.body
    if ast.unparse(init) != "expr = 0":
        raise Unsupported("accumulator initialisation")
    if not (isinstance(kloop, ast.For) and ast.unparse(kloop.target) == "k"
            and len(kloop.body) == 1
            and isinstance(kloop.body[0], ast.AugAssign)
            and isinstance(kloop.body[0].op, ast.Add)
            and ast.unparse(kloop.body[0].target) == "expr"):
        raise Unsupported("accumulation loop")
    kb = _nat(_range(kloop.iter, "k"), nat)
    ex = Expr({"x": 2}, nat)
    term = ex.tr(kloop.body[0].value)
    cells, val = _cells(store, "distance")
    fin = ex.tr(val)
    w = _width(decls["expr"])
    return [
        f"Definition gen_euc_bits : Z := {w}.",
        f"Definition gen_euc_outer (N_dim N_nodes : nat) : list nat := "
        f"seq 0 {ob}.",
        f"Definition gen_euc_inner (N_dim N_nodes i : nat) : list nat := "
        f"seq 0 {ib}.",
        f"Definition gen_euc_ks (N_dim N_nodes : nat) : list nat := "
        f"seq 0 {kb}.",
        "Definition gen_euc_cells (i j : nat) : list (nat * nat) := ["
        + "; ".join(cells) + "].",
        "Definition gen_euc_term (x : nat -> nat -> Q) (i j k : nat) : Q :=\n"
        "  let fadd := fadd gen_euc_bits in let fsub := fsub gen_euc_bits in "
        "let fmul := fmul gen_euc_bits in let fsq := fsq gen_euc_bits in\n  "
        + term + ".",
        "(* the stored value as a function of the accumulated sum; fsqrt is "
        "a parameter of the model *)",
        "Definition gen_euc_final (fsqrt : Q -> Q) (expr : Q) : Q := "
        + fin + ".", ""]


def _callers(repo):
    """argument order at the call sites, and the trigonometric sequences"""
    g = ast.parse(open(os.path.join(
        repo, "src/pyunicorn/core/geo_grid.py")).read())
    cls = [n for n in g.body if isinstance(n, ast.ClassDef)
           and n.name == "GeoGrid"][0]
    fns = {n.name: n for n in cls.body if isinstance(n, ast.FunctionDef)}
    call = [n for n in ast.walk(fns["angular_distance"])
            if isinstance(n, ast.Call)
            and ast.unparse(n.func) == "_calculate_angular_distance"]
    if len(call) != 1:
        raise Unsupported("call of the angular kernel")
    args = []
    for a in call[0].args[:4]:
        m = re.fullmatch(r"to_cy\(self\.(\w+)\(\), FIELD\)", ast.unparse(a))
        if not m:
            raise Unsupported("kernel argument " + ast.unparse(a))
        args.append(m.group(1))
    trig = {}
    for nm in ("cos_lat", "sin_lat", "cos_lon", "sin_lon"):
        ret = [n for n in ast.walk(fns[nm]) if isinstance(n, ast.Return)]
        m = re.fullmatch(r"np\.(cos|sin)\(self\.(lat|lon)_sequence\(\) \* "
                         r"np\.pi / 180\)", ast.unparse(ret[0].value))
        if len(ret) != 1 or not m:
            raise Unsupported(nm + " body")
        trig[nm] = (m.group(1), m.group(2))
    seqs = {}
    for nm in ("lat_sequence", "lon_sequence"):
        ret = [n for n in ast.walk(fns[nm]) if isinstance(n, ast.Return)]
        m = re.fullmatch(r"self\.sequence\((\d)\)", ast.unparse(ret[0].value))
        if not m:
            raise Unsupported(nm + " body")
        seqs[nm[:3]] = int(m.group(1))
    res = [n for n in ast.walk(fns["angular_distance"])
           if isinstance(n, ast.Return)]
    if [ast.unparse(r.value) for r in res] != ["np.arccos(cosangdist)"]:
        raise Unsupported("angular_distance return value")
    out = ["Definition gen_ang_args : list (string * (string * nat)) := ["
           + "; ".join(f'("{a}", ("{trig[a][0]}", {seqs[trig[a][1]]}))'
                       for a in args) + "].",
           ""]
    # Grid.euclidean_distance: N_dim is the number of rows of the sequences
    gr = ast.parse(open(os.path.join(
        repo, "src/pyunicorn/core/grid.py")).read())
    cls = [n for n in gr.body if isinstance(n, ast.ClassDef)
           and n.name == "Grid"][0]
    fn = [n for n in cls.body if isinstance(n, ast.FunctionDef)
          and n.name == "euclidean_distance"][0]
    asg = {ast.unparse(n.targets[0]): ast.unparse(n.value)
           for n in ast.walk(fn) if isinstance(n, ast.Assign)}
    ok = (asg.get("N_nodes") == "self.N"
          and asg.get("sequences") == "to_cy(self._grid['space'], FIELD)"
          and asg.get("N_dim") == "sequences.shape[0]")
    call = [ast.unparse(n) for n in ast.walk(fn) if isinstance(n, ast.Call)
            and ast.unparse(n.func) == "_calculate_euclidean_distance"]
    ok = ok and call == ["_calculate_euclidean_distance(sequences, distance, "
                         "N_dim, N_nodes)"]
    out.append("Definition gen_euc_caller_ok : bool := "
               + ("true" if ok else "false") + ".")
    return out


def generate(repo):
    src = open(os.path.join(repo, PYX)).read()
    out = ["(* GENERATED by translate/pyx_grid.py *)",
           "From Coq Require Import ZArith QArith List String.",
           "From PV.Model Require Import Grid.",
           "Import ListNotations.", "Open Scope string_scope.",
           "Open Scope nat_scope.", ""]
    out += _angular(src) + _euclid(src) + _callers(repo)
    return "\n".join(out) + "\n"


if __name__ == "__main__":
    print(generate("/repo"))
