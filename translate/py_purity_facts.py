"""Regenerate coq/Gen/PurityFacts.v: every place in src/pyunicorn/**/*.py
where a function edits, in place, an array it does not own — the value handed
out by a memoised (Cached.method) call, or one of its own parameters — found
by a small alias analysis over the Python ast:

  aliases   x = obj.m(...) with m memoised;  parameters;  y = x, x.T, x[...],
            x.reshape(...), x.ravel(), np.asarray(x) (views share memory);
            anything else (x.copy(), np.array(x), arithmetic) is fresh
  edits     x op= e;  x[...] = e;  x[...] op= e;  x.sort/fill/resize/put/
            itemset/partition;  np.fill_diagonal(x, ..), np.put*(x, ..),
            shuffle(x);  f(.., x, ..) when f edits that parameter (fixpoint
            over all functions of the package, matched by name)
  restored  x[i] = a ... x[i] = b with the same index expression later in the
            same function (the library's save / restore idiom)

Rows are (function, origin kind, origin name, restored).  Fail-closed on
syntax the walker does not know how to treat conservatively (it treats
unknown expressions as fresh and unknown calls as non-editing: stated in the
trusted base)."""
import ast
import os


class Unsupported(Exception):
    pass


VIEW_ATTRS = {"T", "real", "imag", "flat"}
VIEW_METHODS = {"reshape", "ravel", "transpose", "swapaxes", "view",
                "squeeze", "diagonal"}
VIEW_FUNCS = {"np.asarray", "numpy.asarray", "np.ascontiguousarray",
              "np.asanyarray", "np.transpose", "np.ravel", "np.reshape",
              "np.squeeze", "np.atleast_2d", "np.atleast_1d"}
EDIT_METHODS = {"sort", "fill", "resize", "put", "itemset", "partition",
                "setfield", "byteswap"}
EDIT_FUNCS = {"np.fill_diagonal": 0, "numpy.fill_diagonal": 0, "np.put": 0,
              "np.put_along_axis": 0, "np.putmask": 0, "np.place": 0,
              "np.copyto": 0, "shuffle": 0, "random.shuffle": 0,
              "np.random.shuffle": 0}


def _files(repo):
    base = os.path.join(repo, "src/pyunicorn")
    for d, _, fs in sorted(os.walk(base)):
        for f in sorted(fs):
            if f.endswith(".py"):
                yield os.path.join(d, f)


def _is_cached(fn):
    for d in fn.decorator_list:
        s = ast.unparse(d)
        if s.startswith("Cached.method") or s.startswith("Cached.property") \
                or s.startswith("lru_cache") or s.startswith("cached"):
            return True
    return False


def _collect(repo):
    funcs = []          # (qualname, FunctionDef, file)
    cached = set()
    for path in _files(repo):
        tree = ast.parse(open(path).read())
        mod = os.path.relpath(path, os.path.join(repo, "src")) \
            .replace("/", ".")[:-3]
        for node in tree.body:
            if isinstance(node, ast.ClassDef):
                for it in node.body:
                    if isinstance(it, ast.FunctionDef):
                        funcs.append((f"{mod}.{node.name}.{it.name}", it))
                        if _is_cached(it):
                            cached.add(it.name)
            elif isinstance(node, ast.FunctionDef):
                funcs.append((f"{mod}.{node.name}", node))
    return funcs, cached


def _call_name(call):
    f = call.func
    if isinstance(f, ast.Attribute):
        return f.attr
    if isinstance(f, ast.Name):
        return f.id
    return None


class Walker:
    def __init__(self, fn, cached, editing):
        self.fn, self.cached, self.editing = fn, cached, editing
        self.env = {}
        args = fn.args
        names = [a.arg for a in args.posonlyargs + args.args
                 + args.kwonlyargs]
        for a in names:
            if a not in ("self", "cls"):
                self.env[a] = ("param", a)
        self.edits = []       # (origin, line, index-source or None)
        # names used like arrays somewhere in the function (subscripted, or
        # an attribute / method of them is used); other parameters are taken
        # to be numbers, for which `x += 1` rebinds instead of editing
        self.arrayish = set()
        for n in ast.walk(fn):
            if isinstance(n, (ast.Subscript, ast.Attribute)) \
                    and isinstance(n.value, ast.Name):
                self.arrayish.add(n.value.id)
            if isinstance(n, ast.Call) and ast.unparse(n.func) in (
                    "to_cy", "np.cos", "np.sin", "len"):
                for a in n.args[:1]:
                    if isinstance(a, ast.Name):
                        self.arrayish.add(a.id)

    # what does an expression alias?
    def origin(self, e):
        if isinstance(e, ast.Name):
            return self.env.get(e.id)
        if isinstance(e, ast.Attribute) and e.attr in VIEW_ATTRS:
            return self.origin(e.value)
        if isinstance(e, ast.Subscript):
            # basic slices are views; integer / array indices give copies
            if any(isinstance(n, ast.Slice) for n in ast.walk(e.slice)) \
                    or ast.unparse(e.slice) == "...":
                return self.origin(e.value)
            return None
        if isinstance(e, ast.Call):
            fs = ast.unparse(e.func)
            if isinstance(e.func, ast.Attribute):
                if e.func.attr in VIEW_METHODS:
                    return self.origin(e.func.value)
                if e.func.attr in self.cached and fs.split(".")[0] in (
                        "self", "cls") or (
                        e.func.attr in self.cached
                        and isinstance(e.func.value, (ast.Attribute,
                                                      ast.Name))):
                    return ("cached", e.func.attr)
            if fs in VIEW_FUNCS and e.args:
                return self.origin(e.args[0])
            if fs == "to_cy" and e.args:
                return self.origin(e.args[0])    # no copy when dtype matches
        if isinstance(e, ast.IfExp):
            return self.origin(e.body) or self.origin(e.orelse)
        return None

    def edit(self, e, line, index=None):
        o = self.origin(e)
        if o is not None:
            self.edits.append((o, line, index))

    def visit_call(self, call):
        fs = ast.unparse(call.func)
        if isinstance(call.func, ast.Attribute) \
                and call.func.attr in EDIT_METHODS:
            self.edit(call.func.value, call.lineno)
        if fs in EDIT_FUNCS and len(call.args) > EDIT_FUNCS[fs]:
            # the same editing function applied twice = save / restore idiom
            self.edit(call.args[EDIT_FUNCS[fs]], call.lineno, "call:" + fs)
        name = _call_name(call)
        for pos, kw in self.editing.get(name, ()):
            arg = None
            if kw is not None:
                for k in call.keywords:
                    if k.arg == kw:
                        arg = k.value
            if arg is None and pos is not None:
                # bound method call: parameter index shifts by the receiver
                if pos < len(call.args):
                    arg = call.args[pos]
            if arg is not None:
                self.edit(arg, call.lineno)

    def stmt(self, s):
        for node in ast.walk(s) if not isinstance(
                s, (ast.For, ast.While, ast.If, ast.With, ast.Try)) else []:
            if isinstance(node, ast.Call):
                self.visit_call(node)
        if isinstance(s, ast.Assign):
            for t in s.targets:
                if isinstance(t, ast.Subscript):
                    self.edit(t.value, s.lineno, ast.unparse(t.slice))
                elif isinstance(t, ast.Name):
                    o = self.origin(s.value)
                    if o is None:
                        self.env.pop(t.id, None)
                    else:
                        self.env[t.id] = o
                elif isinstance(t, (ast.Tuple, ast.List)):
                    for el in t.elts:
                        if isinstance(el, ast.Name):
                            self.env.pop(el.id, None)
        elif isinstance(s, ast.AugAssign):
            t = s.target
            if isinstance(t, ast.Name):
                o = self.env.get(t.id)
                # the result of a memoised method is the stored object itself:
                # `res = self.cached(); res += x` edits it (if it is an array)
                if t.id in self.arrayish or (o is not None
                                             and o[0] == "cached"):
                    self.edit(t, s.lineno)
                else:                  # a number: rebinding, not an edit
                    self.env.pop(t.id, None)
            elif isinstance(t, ast.Subscript):
                self.edit(t.value, s.lineno, ast.unparse(t.slice))
        elif isinstance(s, (ast.For, ast.While)):
            if isinstance(s, ast.For):
                for n in ast.walk(s.iter):
                    if isinstance(n, ast.Call):
                        self.visit_call(n)
                if isinstance(s.target, ast.Name):
                    self.env.pop(s.target.id, None)
            else:
                for n in ast.walk(s.test):
                    if isinstance(n, ast.Call):
                        self.visit_call(n)
            for b in s.body + s.orelse:
                self.stmt(b)
        elif isinstance(s, ast.If):
            for n in ast.walk(s.test):
                if isinstance(n, ast.Call):
                    self.visit_call(n)
            for b in s.body + s.orelse:
                self.stmt(b)
        elif isinstance(s, ast.With):
            for b in s.body:
                self.stmt(b)
        elif isinstance(s, ast.Try):
            for b in s.body + s.orelse + s.finalbody:
                self.stmt(b)
            for h in s.handlers:
                for b in h.body:
                    self.stmt(b)
        elif isinstance(s, (ast.FunctionDef, ast.ClassDef)):
            return

    def run(self):
        for s in self.fn.body:
            self.stmt(s)
        # save / restore idiom: the same index expression stored twice
        out = []
        for k, (o, line, idx) in enumerate(self.edits):
            restored = idx is not None and any(
                o2 == o and i2 == idx and l2 > line
                for (o2, l2, i2) in self.edits[k + 1:])
            last_of_pair = idx is not None and any(
                o2 == o and i2 == idx and l2 < line
                for (o2, l2, i2) in self.edits[:k])
            out.append((o, line, restored or last_of_pair))
        return out


def analyse(repo):
    funcs, cached = _collect(repo)
    editing = {}            # function name -> {(param position, param name)}
    rows = {}
    for _ in range(6):      # fixpoint over "edits its parameter"
        changed = False
        rows = {}
        for qual, fn in funcs:
            w = Walker(fn, cached, editing)
            res = w.run()
            rows[qual] = res
            a = fn.args
            names = [x.arg for x in a.posonlyargs + a.args]
            shift = 1 if names[:1] in (["self"], ["cls"]) else 0
            for (kind, name), line, restored in res:
                if kind == "param" and not restored:
                    pos = names.index(name) - shift if name in names else None
                    key = (pos, name)
                    s = editing.setdefault(fn.name, set())
                    if key not in s:
                        s.add(key)
                        changed = True
        if not changed:
            break
    else:
        raise Unsupported("no fixpoint")
    docs = {}
    for qual, fn in funcs:
        d = (ast.get_docstring(fn) or "").lower()
        docs[qual] = ("in place" in d or "in-place" in d or "inplace" in d)
    return rows, docs


def generate(repo):
    rows, docs = analyse(repo)
    out = ["(* GENERATED by translate/py_purity_facts.py *)",
           "From Coq Require Import List Bool String.",
           "Import ListNotations.", "Open Scope string_scope.", "",
           "(* (function, edits a memoised value? (else a parameter), name of "
           "the memoised method / parameter, restored before returning?, "
           "documented as in-place?, public?) *)",
           "Definition gen_inplace_edits : list (string * (bool * (string * "
           "(bool * (bool * bool))))) := ["]
    items = []
    for qual in sorted(rows):
        seen = set()
        for (kind, name), line, restored in rows[qual]:
            short = qual.split(".", 1)[1] if qual.startswith("pyunicorn.") \
                else qual
            key = (short, kind, name, restored)
            if key in seen:
                continue
            seen.add(key)
            pub = not qual.rsplit(".", 1)[1].startswith("_")
            items.append(f'  ("{short}", ({"true" if kind == "cached" else "false"}, '
                         f'("{name}", ({"true" if restored else "false"}, '
                         f'({"true" if docs[qual] else "false"}, '
                         f'{"true" if pub else "false"})))))')
    out.append(";\n".join(items))
    out.append("].")
    # to_cy: does the conversion helper always hand out a fresh array?
    tsrc = open(os.path.join(
        repo, "src/pyunicorn/core/_ext/types.py")).read()
    tree = ast.parse(tsrc)
    fn = [n for n in tree.body if isinstance(n, ast.FunctionDef)
          and n.name == "to_cy"]
    if len(fn) != 1:
        raise Unsupported("to_cy not found")
    ret = [n for n in ast.walk(fn[0]) if isinstance(n, ast.Return)]
    copies = False
    if len(ret) == 1 and isinstance(ret[0].value, ast.Call) \
            and ast.unparse(ret[0].value.func) == "arr.astype":
        kw = {k.arg: ast.unparse(k.value) for k in ret[0].value.keywords}
        copies = kw.get("copy") == "True"
    out.append("Definition gen_to_cy_copies : bool := "
               + ("true" if copies else "false") + ".")
    return "\n".join(out) + "\n"


if __name__ == "__main__":
    rows, docs = analyse("/repo")
    for q in sorted(rows):
        for (kind, name), line, restored in rows[q]:
            pub = not q.rsplit(".", 1)[1].startswith("_")
            print(f"{q}:{line}  {kind} {name}  restored={restored} "
                  f"documented={docs[q]} public={pub}")
