"""Tiny fail-closed translator: straight-line/if/continue loop bodies written in
the Python-syntax subset of Cython  ->  Gallina terms in let/if form.

A block is translated in continuation-passing style: `trans(stmts, cont)` is
the Gallina term that runs `stmts` and then evaluates `cont` (a term over the
current variable names; re-binding is by shadowing `let`).  `continue` ends the
block with `ret` (the loop-carried state tuple).  Anything outside the subset
raises Unsupported, which makes the caller emit a file that does not compile.
"""
import ast


class Unsupported(Exception):
    pass


class Trans:
    def __init__(self, ret, atoms=None, nat_vars=(), emit=None):
        self.ret = ret                    # state tuple returned by `continue`
        self.atoms = atoms or {}          # source text of expr -> Gallina name
        self.nat_vars = set(nat_vars)
        self.emit = emit or {}            # e.g. {"hist": "out"}: hist[k-1]+=1

    # -- expressions --------------------------------------------------------
    def expr(self, e):
        src = ast.unparse(e)
        if src in self.atoms:
            return self.atoms[src]
        if isinstance(e, ast.Constant):
            if e.value is True:
                return "true"
            if e.value is False:
                return "false"
            if isinstance(e.value, int):
                return str(e.value)
            raise Unsupported(f"constant {src}")
        if isinstance(e, ast.Name):
            return e.id
        if isinstance(e, ast.UnaryOp) and isinstance(e.op, ast.Not):
            return f"(negb {self.expr(e.operand)})"
        if isinstance(e, ast.BoolOp):
            op = "andb" if isinstance(e.op, ast.And) else "orb"
            out = self.expr(e.values[0])
            for v in e.values[1:]:
                out = f"({op} {out} {self.expr(v)})"
            return out
        if isinstance(e, ast.Compare) and len(e.ops) == 1:
            a, b = e.left, e.comparators[0]
            op = e.ops[0]
            is_nat = self._is_nat(a) or self._is_nat(b)
            sa, sb = self.expr(a), self.expr(b)
            if is_nat:
                tbl = {ast.Eq: f"(Nat.eqb {sa} {sb})",
                       ast.NotEq: f"(negb (Nat.eqb {sa} {sb}))",
                       ast.Lt: f"(Nat.ltb {sa} {sb})",
                       ast.LtE: f"(Nat.leb {sa} {sb})",
                       ast.Gt: f"(Nat.ltb {sb} {sa})",
                       ast.GtE: f"(Nat.leb {sb} {sa})"}
            else:
                tbl = {ast.Eq: f"(Bool.eqb {sa} {sb})",
                       ast.NotEq: f"(negb (Bool.eqb {sa} {sb}))"}
            if type(op) not in tbl:
                raise Unsupported(f"comparison {src}")
            return tbl[type(op)]
        if isinstance(e, ast.BinOp) and self._is_nat(e):
            tbl = {ast.Add: "+", ast.Sub: "-", ast.Mult: "*"}
            if type(e.op) not in tbl:
                raise Unsupported(f"operator in {src}")
            return f"({self.expr(e.left)} {tbl[type(e.op)]} {self.expr(e.right)})"
        raise Unsupported(f"expression {src}")

    def _is_nat(self, e):
        if isinstance(e, ast.Constant):
            return isinstance(e.value, int) and not isinstance(e.value, bool)
        if isinstance(e, ast.Name):
            return e.id in self.nat_vars
        if isinstance(e, ast.BinOp):
            return self._is_nat(e.left) and self._is_nat(e.right)
        return False

    # -- statements ---------------------------------------------------------
    def block(self, stmts, cont):
        if not stmts:
            return cont
        s, rest = stmts[0], stmts[1:]
        if isinstance(s, ast.Continue):
            return self.ret
        if isinstance(s, ast.Pass):
            return self.block(rest, cont)
        if isinstance(s, ast.Expr) and isinstance(s.value, ast.Constant):
            return self.block(rest, cont)          # docstring / comment
        if isinstance(s, ast.Assign) and len(s.targets) == 1 \
                and isinstance(s.targets[0], ast.Name):
            v = s.targets[0].id
            return (f"let {v} := {self.expr(s.value)} in\n"
                    + self.block(rest, cont))
        if isinstance(s, ast.AugAssign):
            t = s.target
            if isinstance(t, ast.Name) and t.id in self.nat_vars \
                    and isinstance(s.op, (ast.Add, ast.Sub)):
                op = "+" if isinstance(s.op, ast.Add) else "-"
                return (f"let {t.id} := ({t.id} {op} {self.expr(s.value)}) in\n"
                        + self.block(rest, cont))
            if isinstance(t, ast.Subscript) and isinstance(t.value, ast.Name) \
                    and t.value.id in self.emit \
                    and isinstance(s.op, ast.Add) \
                    and ast.unparse(s.value) == "1":
                # hist[e-1] += 1   ==>   emit e
                idx = t.slice
                if not (isinstance(idx, ast.BinOp)
                        and isinstance(idx.op, ast.Sub)
                        and ast.unparse(idx.right) == "1"):
                    raise Unsupported("histogram index " + ast.unparse(idx))
                out = self.emit[t.value.id]
                return (f"let {out} := ({self.expr(idx.left)} :: {out}) in\n"
                        + self.block(rest, cont))
            raise Unsupported("augmented assignment " + ast.unparse(s))
        if isinstance(s, ast.If):
            k = self.block(rest, cont)
            return (f"(if {self.expr(s.test)}\n then ({self.block(s.body, k)})"
                    f"\n else ({self.block(s.orelse, k)}))")
        raise Unsupported("statement " + ast.unparse(s))
