"""Regenerate coq/Gen/RecurrenceK.v from timeseries/_ext/numerics.pyx: the
three distance-matrix kernels of the recurrence plot
(_manhattan/_euclidean/_supremum_distance_matrix_rp) — loop ranges, the cells
written, the per-dimension update of the accumulator over option-valued
samples (NaN = None), the final value — and their cross-recurrence twins
(_*_distance_matrix_crp), which must use the same update.  Fail-closed."""
import ast
import os
import re
import textwrap


class Unsupported(Exception):
    pass


PYX = "src/pyunicorn/timeseries/_ext/numerics.pyx"


def _func(src, name):
    m = re.search(rf"^def {name}\(", src, flags=re.M)
    if not m:
        raise Unsupported("cannot find " + name)
    rest = src[m.start():]
    sig_end = rest.index("):\n")
    sig = re.sub(r"\s+", " ", rest[:sig_end])
    body = rest[sig_end + 3:]
    m2 = re.match(r"\s*cdef:\n((?:(?:\s{8}.*)?\n)+?)(?=\s{4}\S)", body)
    if not m2:
        raise Unsupported("cdef block of " + name)
    lines = []
    for ln in body[m2.end():].splitlines():
        if ln and not ln[0].isspace():
            break
        lines.append(ln)
    _check_decl_types(name, m2.group(1), sig)
    return sig, re.sub(r"\s+", " ", m2.group(1)), \
        ast.parse(textwrap.dedent("\n".join(lines))).body


def _check_decl_types(name, block, sig):
    """every C local is an int (counters, bounds) or has the element type of
    the arrays (DFIELD_t, binary64): a narrower temporary would round every
    term before it is accumulated; the arrays themselves are DFIELD_t"""
    text = re.sub(r"\\\n", " ", block)
    for ln in text.splitlines():
        ln = ln.strip()
        if not ln:
            continue
        if ln.startswith("ndarray["):
            if not ln.startswith("ndarray[DFIELD_t,"):
                raise Unsupported(f"{name}: array declaration `{ln}`")
            continue
        m = re.match(r"(\w+)\s+\w+", ln)
        if not m or m.group(1) not in ("int", "DFIELD_t"):
            raise Unsupported(f"{name}: local declaration `{ln}` is neither "
                              "int nor DFIELD_t")
    for m in re.finditer(r"ndarray\[(\w+),", sig):
        if m.group(1) != "DFIELD_t":
            raise Unsupported(f"{name}: argument array of type {m.group(1)}")


def u(n):
    return ast.unparse(n)


def _update(stmts, acc, a, b):
    """statements of the innermost loop -> Gallina `step acc x y : val`"""
    env = {}

    def tr(e):
        s = u(e)
        if s == f"abs({a} - {b})":
            return "(vabs_diff x y)"
        if isinstance(e, ast.Name) and e.id in env:
            return env[e.id]
        if isinstance(e, ast.Name) and e.id == acc:
            return "acc"
        if isinstance(e, ast.BinOp) and isinstance(e.op, ast.Mult):
            return f"(vmul {tr(e.left)} {tr(e.right)})"
        raise Unsupported("expression " + s)
    result = None
    for st in stmts:
        if isinstance(st, ast.Assign) and isinstance(st.targets[0], ast.Name) \
                and st.targets[0].id != acc:
            env[st.targets[0].id] = tr(st.value)
        elif isinstance(st, ast.AugAssign) and isinstance(st.op, ast.Add) \
                and u(st.target) == acc:
            result = f"(vadd acc {tr(st.value)})"
        elif isinstance(st, ast.If) and not st.orelse \
                and isinstance(st.test, ast.Compare) \
                and isinstance(st.test.ops[0], ast.Gt) \
                and u(st.test.comparators[0]) == acc \
                and len(st.body) == 1 and isinstance(st.body[0], ast.Assign) \
                and u(st.body[0].targets[0]) == acc \
                and u(st.body[0].value) == u(st.test.left):
            d = tr(st.test.left)
            result = f"(if vlt acc {d} then {d} else acc)"
        else:
            raise Unsupported("statement " + u(st))
    if result is None:
        raise Unsupported("no accumulator update")
    return result


def _kernel(src, name, cross):
    sig, decl, body = _func(src, name)
    if not re.search(r"DFIELD_t", decl):
        raise Unsupported(name + ": accumulator type")
    if len(body) != 2 or u(body[1]) != "return distance":
        raise Unsupported(name + " body")
    outer = body[0]
    if cross:
        want_outer, want_inner = "range(ntime_x)", "range(ntime_y)"
        a, b = "x_embedded[j, l]", "y_embedded[k, l]"
        lrange = "range(dim)"
    else:
        want_outer, want_inner = "range(T)", "range(j)"
        a, b = "embedding[j, l]", "embedding[k, l]"
        lrange = "range(D)"
        if "T = n_time" not in decl or "D = dim" not in decl:
            raise Unsupported(name + ": loop bounds are not n_time / dim")
    if not (isinstance(outer, ast.For) and u(outer.target) == "j"
            and u(outer.iter) == want_outer and len(outer.body) == 1):
        raise Unsupported(name + " outer loop")
    inner = outer.body[0]
    if not (isinstance(inner, ast.For) and u(inner.target) == "k"
            and u(inner.iter) == want_inner and len(inner.body) == 3):
        raise Unsupported(name + " inner loop")
    init, lloop, store = inner.body
    if not (isinstance(init, ast.Assign) and u(init.value) == "0"):
        raise Unsupported(name + " accumulator initialisation")
    acc = u(init.targets[0])
    if not (isinstance(lloop, ast.For) and u(lloop.target) == "l"
            and u(lloop.iter) == lrange):
        raise Unsupported(name + " dimension loop")
    step = _update(lloop.body, acc, a, b)
    if not isinstance(store, ast.Assign):
        raise Unsupported(name + " store")
    cells = [u(t) for t in store.targets]
    want_cells = ["distance[j, k]"] if cross else ["distance[j, k]",
                                                   "distance[k, j]"]
    if cells != want_cells:
        raise Unsupported(f"{name}: cells {cells}")
    val = u(store.value)
    if val == acc:
        root = False
    elif val == f"sqrt({acc})":
        root = True
    else:
        raise Unsupported(name + " stored value " + val)
    return step, root


def generate(repo):
    src = open(os.path.join(repo, PYX)).read()
    out = ["(* GENERATED by translate/pyx_recurrence.py *)",
           "From Coq Require Import QArith List Bool.",
           "From PV.Model Require Import Recurrence.", ""]
    for metric in ("manhattan", "euclidean", "supremum"):
        step, root = _kernel(src, f"_{metric}_distance_matrix_rp", False)
        cstep, croot = _kernel(src, f"_{metric}_distance_matrix_crp", True)
        out.append(f"Definition gen_{metric}_step (acc x y : val) : val := "
                   + step + ".")
        out.append(f"Definition gen_{metric}_takes_root : bool := "
                   + ("true" if root else "false") + ".")
        out.append(f"Definition gen_{metric}_crp_same : bool := "
                   + ("true" if (cstep, croot) == (step, root) else "false")
                   + ".")
    return "\n".join(out) + "\n"


if __name__ == "__main__":
    print(generate("/repo"))
