"""Regenerate coq/Gen/CouplingK.v from funcnet/_ext/numerics.pyx: the lag
bookkeeping of _cross_correlation_max / _cross_correlation_all /
_symmetrize_by_absmax (which slices are multiplied, the tie rule of the running
maximum, where each lag is stored, which cell of a pair is overwritten) and
the element type of the lag matrix.  Fail-closed (ast after removing the cdef
blocks and casts)."""
import ast
import os
import re
import textwrap


class Unsupported(Exception):
    pass


PYX = "src/pyunicorn/funcnet/_ext/numerics.pyx"
TYPES = "src/pyunicorn/core/_ext/types.py"


def _body(src, name):
    m = re.search(rf"^def {name}\(", src, flags=re.M)
    if not m:
        raise Unsupported("cannot find " + name)
    nxt = re.search(r"^(def |cdef |cpdef |# [a-z_]+ =====)", src[m.end():],
                    flags=re.M)
    txt = src[m.start(): m.end() + (nxt.start() if nxt else len(src))]
    sig_end = txt.index("):\n")
    sig = txt[:sig_end]
    rest = txt[sig_end + 3:]
    m2 = re.match(r"\s*cdef:\n((?:(?:\s{8}.*)?\n)+?)(?=\s{4}\S)", rest)
    if not m2:
        raise Unsupported("cdef block of " + name)
    decl = m2.group(1)
    body = textwrap.dedent(rest[m2.end():])
    casts = re.findall(r"<\s*(\w+)\s*>", body)
    body = re.sub(r"<\s*\w+\s*>\s*", "", body)
    return sig, decl, ast.parse(body).body, casts


def _u(n):
    return ast.unparse(n)


def _for(node, var, rng):
    if not (isinstance(node, ast.For) and _u(node.target) == var
            and _u(node.iter) == rng and not node.orelse):
        raise Unsupported(f"expected `for {var} in {rng}`, found "
                          + _u(node).splitlines()[0])
    return node.body


class QExpr:
    def __init__(self, arrays, nats, reals):
        self.arrays, self.nats, self.reals = arrays, nats, reals

    def nat(self, e):
        if isinstance(e, ast.Name) and e.id in self.nats:
            return e.id
        if isinstance(e, ast.Constant) and isinstance(e.value, int):
            return str(e.value)
        if isinstance(e, ast.BinOp) and isinstance(e.op, (ast.Add, ast.Sub)):
            op = "+" if isinstance(e.op, ast.Add) else "-"
            return f"({self.nat(e.left)} {op} {self.nat(e.right)})"
        raise Unsupported("index " + _u(e))

    def tr(self, e):
        if isinstance(e, ast.Subscript) and isinstance(e.value, ast.Name) \
                and e.value.id in self.arrays:
            ix = e.slice.elts if isinstance(e.slice, ast.Tuple) else [e.slice]
            if len(ix) != self.arrays[e.value.id]:
                raise Unsupported("rank " + _u(e))
            return "(" + " ".join([e.value.id] + [self.nat(i) for i in ix]) \
                + ")"
        if isinstance(e, ast.Name) and e.id in self.reals:
            return e.id
        if isinstance(e, ast.Name) and e.id in self.nats:
            return f"(inject_Z (Z.of_nat {e.id}))"
        if isinstance(e, ast.Call) and _u(e.func) == "abs" \
                and len(e.args) == 1:
            return f"(Qabs {self.tr(e.args[0])})"
        if isinstance(e, ast.UnaryOp) and isinstance(e.op, ast.USub):
            return f"(- {self.tr(e.operand)})"
        if isinstance(e, ast.BinOp):
            op = {ast.Add: "+", ast.Sub: "-", ast.Mult: "*",
                  ast.Div: "/"}.get(type(e.op))
            if op is None:
                raise Unsupported("operator " + _u(e))
            return f"({self.tr(e.left)} {op} {self.tr(e.right)})"
        raise Unsupported("expression " + _u(e))

    def cmp(self, e):
        if not (isinstance(e, ast.Compare) and len(e.ops) == 1):
            raise Unsupported("comparison " + _u(e))
        a, b = self.tr(e.left), self.tr(e.comparators[0])
        if isinstance(e.ops[0], ast.Gt):
            return f"(Qlt_b {b} {a})"
        if isinstance(e.ops[0], ast.Lt):
            return f"(Qlt_b {a} {b})"
        if isinstance(e.ops[0], ast.GtE):
            return f"(negb (Qlt_b {a} {b}))"
        raise Unsupported("comparison " + _u(e))


def _lag_bits(repo):
    py = open(os.path.join(repo, TYPES)).read()
    m = re.search(r"^LAG = (\w+)TYPE\s*$", py, flags=re.M)
    if not m:
        raise Unsupported("LAG type")
    bits = {"INT8": 8, "INT16": 16, "INT32": 32, "INT64": 64}.get(m.group(1))
    if bits is None:
        raise Unsupported("LAG type " + m.group(1))
    pxd = open(os.path.join(repo, TYPES[:-2] + "pxd")).read()
    if not re.search(rf"^ctypedef {m.group(1)}TYPE_t LAG_t", pxd, flags=re.M):
        raise Unsupported("types.py and types.pxd disagree on LAG")
    return bits


def _cc_inner(tau_body, ex):
    """crossij = 0; for k in range(corr_range): crossij += <term>; <rest>"""
    if _u(tau_body[0]) != "crossij = 0":
        raise Unsupported("crossij initialisation")
    kb = _for(tau_body[1], "k", "range(corr_range)")
    if not (len(kb) == 1 and isinstance(kb[0], ast.AugAssign)
            and isinstance(kb[0].op, ast.Add)
            and _u(kb[0].target) == "crossij"):
        raise Unsupported("accumulation of crossij")
    return ex.tr(kb[0].value), tau_body[2:]


def generate(repo):
    src = open(os.path.join(repo, PYX)).read()
    out = ["(* GENERATED by translate/pyx_coupling.py *)",
           "From Coq Require Import ZArith QArith Qabs List Bool Arith.",
           "From PV.Model Require Import Coupling.",
           "Import ListNotations.", "Open Scope Q_scope.", ""]
    nats = {"N", "i", "j", "tau", "k", "tau_max", "corr_range", "argmax",
            "I", "J"}
    # ---- max mode -----------------------------------------------------------
    sig, decl, body, casts = _body(src, "_cross_correlation_max")
    if not re.search(r"double crossij, max", decl):
        raise Unsupported("crossij / max are not double")
    if not re.search(r"similarity_matrix = np\.ones\(\s*\(N, N\)", decl) or \
            not re.search(r"lag_matrix = np\.zeros\(\s*\(N, N\)", decl):
        raise Unsupported("initial values of the result matrices")
    ib = _for(body[0], "i", "range(N)")
    jb = _for(ib[0], "j", "range(N)")
    if not (len(jb) == 1 and isinstance(jb[0], ast.If)
            and _u(jb[0].test) == "i != j" and not jb[0].orelse):
        raise Unsupported("diagonal guard")
    st = jb[0].body
    if [_u(s) for s in st[:2]] != ["max = 0.0", "argmax = 0"]:
        raise Unsupported("running maximum initialisation")
    tb = _for(st[2], "tau", "range(tau_max + 1)")
    ex = QExpr({"array": 3}, nats, {"crossij", "max"})
    term, rest = _cc_inner(tb, ex)
    if not (len(rest) == 1 and isinstance(rest[0], ast.If)
            and not rest[0].orelse
            and [_u(s) for s in rest[0].body] == ["max = crossij",
                                                  "argmax = tau"]):
        raise Unsupported("running maximum update")
    better = ex.cmp(rest[0].test)
    stores = {_u(s.targets[0]): s.value for s in st[3:]
              if isinstance(s, ast.Assign)}
    if set(stores) != {"similarity_matrix[i, j]", "lag_matrix[i, j]"} \
            or len(st) != 5:
        raise Unsupported("stores of the max kernel")
    val = ex.tr(stores["similarity_matrix[i, j]"])
    lag = stores["lag_matrix[i, j]"]
    if not (isinstance(lag, ast.BinOp) and isinstance(lag.op, ast.Sub)
            and _u(lag.left) == "tau_max" and _u(lag.right) == "argmax"):
        raise Unsupported("lag expression " + _u(lag))
    if sorted(casts) != ["FIELD_t", "LAG_t"]:
        raise Unsupported(f"casts {casts}")
    out += [
        "Definition gen_cc_term (array : nat -> nat -> nat -> Q) "
        "(tau_max tau i j k : nat) : Q :=\n  " + term + ".",
        "Definition gen_cc_better (crossij max : Q) : bool := " + better + ".",
        "Definition gen_cc_value (max : Q) (corr_range : nat) : Q := "
        + val + ".",
        "Definition gen_cc_lag (tau_max argmax : nat) : Z := "
        "(Z.of_nat tau_max - Z.of_nat argmax)%Z.",
        f"Definition gen_lag_bits : Z := {_lag_bits(repo)}%Z.", ""]
    # ---- all mode -----------------------------------------------------------
    sig, decl, body, casts = _body(src, "_cross_correlation_all")
    if not re.search(r"double crossij", decl):
        raise Unsupported("crossij is not double (all)")
    ib = _for(body[0], "i", "range(N)")
    jb = _for(ib[0], "j", "range(N)")
    tb = _for(jb[0], "tau", "range(tau_max + 1)")
    term2, rest = _cc_inner(tb, ex)
    if term2 != term:
        raise Unsupported("the two kernels multiply different slices")
    if not (len(rest) == 1 and isinstance(rest[0], ast.Assign)):
        raise Unsupported("store of the all kernel")
    tgt = rest[0].targets[0]
    if not (isinstance(tgt, ast.Subscript) and _u(tgt.value) == "lagfuncs"
            and len(tgt.slice.elts) == 3
            and [_u(x) for x in tgt.slice.elts[:2]] == ["i", "j"]):
        raise Unsupported("target of the all kernel")
    out += [
        "Definition gen_all_index (tau_max tau : nat) : nat := ("
        + ex.nat(tgt.slice.elts[2]) + ")%nat.",
        "Definition gen_all_value (crossij : Q) (corr_range : nat) : Q := "
        + ex.tr(rest[0].value) + ".", ""]
    # ---- symmetrize ---------------------------------------------------------
    sig, decl, body, casts = _body(src, "_symmetrize_by_absmax")
    ib = _for(body[0], "i", "range(N)")
    jb = _for(ib[0], "j", "range(i + 1, N)")
    ex2 = QExpr({"similarity_matrix": 2, "lag_matrix": 2}, nats, set())
    if not (len(jb) == 3 and isinstance(jb[0], ast.If)):
        raise Unsupported("symmetrize body")
    test = ex2.cmp(jb[0].test)
    th = [_u(s) for s in jb[0].body]
    el = [_u(s) for s in jb[0].orelse]
    if th not in (["I, J = (i, j)"], ["(I, J) = (i, j)"]) or \
            el not in (["I, J = (j, i)"], ["(I, J) = (j, i)"]):
        raise Unsupported(f"symmetrize choice {th} / {el}")
    if [_u(s) for s in jb[1:]] != [
            "similarity_matrix[J, I] = similarity_matrix[I, J]",
            "lag_matrix[J, I] = -lag_matrix[I, J]"]:
        raise Unsupported("symmetrize stores")
    out += [
        "(* true: the pair keeps the (i,j) entry and overwrites (j,i) *)",
        "Definition gen_sym_keep_upper (similarity_matrix : nat -> nat -> Q) "
        "(i j : nat) : bool := " + test + ".", ""]
    return "\n".join(out) + "\n"


if __name__ == "__main__":
    print(generate("/repo"))
