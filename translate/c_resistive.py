"""Regenerate coq/Gen/ResistiveK.v:
 * the two current-flow betweenness routines of core/_ext/src_numerics.c as
   Gallina sums over exact rationals (loop skeleton pattern-matched, the
   arithmetic and index expressions translated generically),
 * how numerics.pyx hands the arrays over (element type of the pointers),
 * the state handling of core/resistive_network.py (update chain, reset of the
   hand-rolled store, how diameter / average use it).
Fail-closed."""
import ast
import os
import re


class Unsupported(Exception):
    pass


C = "src/pyunicorn/core/_ext/src_numerics.c"
PYX = "src/pyunicorn/core/_ext/numerics.pyx"
PY = "src/pyunicorn/core/resistive_network.py"


def _strip(src):
    src = re.sub(r"//[^\n]*", "", src)
    src = re.sub(r"/\*.*?\*/", "", src, flags=re.S)
    return src.replace("\\\n", " ")


def _cfunc(src, name):
    m = re.search(r"(double|void)\s+" + name + r"\s*\(([^)]*)\)\s*\{", src)
    if not m:
        raise Unsupported("C function " + name)
    depth, k = 1, m.end()
    while depth:
        c = src[k]
        depth += (c == "{") - (c == "}")
        k += 1
    return m.group(1), m.group(2), src[m.end():k - 1]


def _params(text):
    out = []
    for p in text.split(","):
        m = re.match(r"\s*(\w+)\s*(\*?)\s*(\w+)\s*$", p.strip())
        if not m:
            raise Unsupported("C parameter " + p)
        out.append((m.group(3), m.group(1) + m.group(2)))
    return out


class CExpr:
    """C arithmetic expression -> Gallina over Qc; arrays are functions of a
    flat index (nat)"""

    def __init__(self, arrays, nats, reals):
        self.arrays, self.nats, self.reals = arrays, nats, reals

    def nat(self, e):
        if isinstance(e, ast.Name) and e.id in self.nats:
            return e.id
        if isinstance(e, ast.Constant) and isinstance(e.value, int):
            return str(e.value)
        if isinstance(e, ast.BinOp) and isinstance(e.op, (ast.Add, ast.Mult,
                                                          ast.Sub)):
            op = {ast.Add: "+", ast.Mult: "*", ast.Sub: "-"}[type(e.op)]
            return f"({self.nat(e.left)} {op} {self.nat(e.right)})%nat"
        raise Unsupported("index expression " + ast.unparse(e))

    def is_nat(self, e):
        try:
            self.nat(e)
            return True
        except Unsupported:
            return False

    def real(self, e):
        if isinstance(e, ast.Subscript) and isinstance(e.value, ast.Name) \
                and e.value.id in self.arrays:
            return f"({e.value.id} {self.nat(e.slice)})"
        if isinstance(e, ast.Name) and e.id in self.reals:
            return e.id
        if isinstance(e, ast.Constant) and isinstance(e.value, (int, float)):
            v = e.value
            if float(v) != int(v):
                raise Unsupported("constant " + repr(v))
            return f"(qn {int(v)})"
        if self.is_nat(e):                      # int promoted to double
            return f"(qn {self.nat(e)})"
        if isinstance(e, ast.Call) and ast.unparse(e.func) == "fabs" \
                and len(e.args) == 1:
            return f"(qabs {self.real(e.args[0])})"
        if isinstance(e, ast.BinOp):
            op = {ast.Add: "+", ast.Sub: "-", ast.Mult: "*",
                  ast.Div: "/"}.get(type(e.op))
            if op is None:
                raise Unsupported("operator in " + ast.unparse(e))
            return f"({self.real(e.left)} {op} {self.real(e.right)})"
        raise Unsupported("expression " + ast.unparse(e))


def _parse_expr(text):
    text = re.sub(r"\(\s*float\s*\)", "", text)       # value cast on store
    text = re.sub(r"(\d)\.(?!\d)", r"\1.0", text)      # 2. -> 2.0
    return ast.parse(text.strip(), mode="eval").body


def FOR(k):
    """for(v=0; v<b; v++){   with the variable captured as v<k>, bound b<k>"""
    return (rf"for\s*\(\s*(?P<v{k}>\w+)\s*=\s*0\s*;\s*(?P=v{k})\s*<\s*"
            rf"(?P<b{k}>\w+)\s*;\s*(?P=v{k})\+\+\s*\)\s*\{{")


def _vertex(src):
    ret, ptxt, body = _cfunc(src, "_vertex_current_flow_betweenness_fast")
    params = _params(ptxt)
    if [p[0] for p in params] != ["N", "Is", "It", "admittance", "R", "i"]:
        raise Unsupported("vertex kernel parameters")
    types = dict(params)
    if ret != "double" or types["admittance"] != types["R"]:
        raise Unsupported("vertex kernel types")
    b = re.sub(r"\s+", " ", body)
    pat = (r"double VCFB\s*=\s*0\.0; int t\s*=\s*0; int s\s*=\s*0; int j\s*=\s*0; "
           r"double J\s*=\s*0; "
           + FOR(1) + r" " + FOR(2)
           + r" J = 0\.0; if\s*\((?P<cond>.*?)\)\s*\{ continue; \} "
           r"else\s*\{ " + FOR(3)
           + r" J \+= (?P<term>.*?); \} \} VCFB \+= (?P<upd>.*?); \} \} "
           r"return VCFB; ?$")
    m = re.match(pat, b.strip())
    if not m:
        raise Unsupported("vertex kernel skeleton")
    g = m.groupdict()
    (v1, b1, v2, b2, cond, v3, b3, term, upd) = (
        g["v1"], g["b1"], g["v2"], g["b2"], g["cond"], g["v3"], g["b3"],
        g["term"], g["upd"])
    if (v1, v2, v3) != ("t", "s", "j"):
        raise Unsupported("vertex kernel loop variables")
    ex = CExpr({"admittance", "R"}, {"N", "i", "j", "s", "t"},
               {"Is", "It", "J"})
    conds = [c.strip() for c in cond.split("||")]
    ctr = []
    for c in conds:
        mm = re.fullmatch(r"(\w+) == (\w+)", c)
        if not mm:
            raise Unsupported("skip condition " + c)
        ctr.append(f"Nat.eqb {mm.group(1)} {mm.group(2)}")
    cond_g = " || ".join(ctr)
    return [
        f'Definition gen_vcfb_elem : string := "{types["R"]}".',
        "Definition gen_vcfb (N : nat) (Is It : Qc) (admittance R : nat -> Qc)"
        " (i : nat) : Qc :=",
        f"  sumn {b1} (fun t => sumn {b2} (fun s =>",
        f"    if ({cond_g})%bool then 0 else",
        f"    let J := sumn {b3} (fun j => {ex.real(_parse_expr(term))}) in",
        f"    {ex.real(_parse_expr(upd))})).", ""]


def _edge(src):
    ret, ptxt, body = _cfunc(src, "_edge_current_flow_betweenness_fast")
    params = _params(ptxt)
    if [p[0] for p in params] != ["N", "Is", "It", "admittance", "R", "ECFB"]:
        raise Unsupported("edge kernel parameters")
    b = re.sub(r"\s+", " ", body).strip()
    pat = (r"int i\s*=\s*0; int j\s*=\s*0; int t\s*=\s*0; int s\s*=\s*0; "
           r"double J\s*=\s*0\.0; "
           + FOR(1) + " " + FOR(2) + r" J = 0\.0; " + FOR(3) + " " + FOR(4)
           + r" J \+= (?P<term>.*?); \} \} ECFB\[(?P<cell>.*?)\] \+= "
           r"(?P<upd>.*?); \} \} ?$")
    m = re.match(pat, b)
    if not m:
        raise Unsupported("edge kernel skeleton")
    g = m.groupdict()
    (v1, b1, v2, b2, v3, b3, v4, b4, term, cell, upd) = (
        g["v1"], g["b1"], g["v2"], g["b2"], g["v3"], g["b3"], g["v4"],
        g["b4"], g["term"], g["cell"], g["upd"])
    if (v1, v2, v3, v4) != ("i", "j", "t", "s"):
        raise Unsupported("edge kernel loop variables")
    if (b1, b2) != ("N", "N") or re.sub(r"\s", "", cell) != "i*N+j":
        raise Unsupported("edge kernel output cell")
    ex = CExpr({"admittance", "R"}, {"N", "i", "j", "s", "t"},
               {"Is", "It", "J"})
    return [
        "Definition gen_ecfb (N : nat) (Is It : Qc) (admittance R : nat -> Qc)"
        " (i j : nat) : Qc :=",
        f"  let J := sumn {b3} (fun t => sumn {b4} (fun s => "
        f"{ex.real(_parse_expr(term))})) in",
        f"  {ex.real(_parse_expr(upd))}.", ""]


def _pyx(src):
    out = []
    for name, fast in (("_vertex_current_flow_betweenness",
                        "_vertex_current_flow_betweenness_fast"),
                       ("_edge_current_flow_betweenness",
                        "_edge_current_flow_betweenness_fast")):
        m = re.search(rf"^def {name}\((.*?)\):(.*?)(?=^def |\Z)", src,
                      flags=re.S | re.M)
        if not m:
            raise Unsupported("wrapper " + name)
        sig, body = m.group(1), m.group(2)
        elem = set(re.findall(r"ndarray\[(\w+), ndim=2\]\s+(?:admittance|R)",
                              sig))
        casts = set(re.findall(r"<(\w+)\*>\s*cnp\.PyArray_DATA\((?:admittance"
                               r"|R)\)", body))
        if len(elem) != 1 or casts != elem:
            raise Unsupported(f"{name}: buffers {elem} cast to {casts}")
        if fast + "(N, Is, It," not in re.sub(r"\s+", " ", body):
            raise Unsupported(name + " does not pass N, Is, It")
        out.append(elem.pop())
    if len(set(out)) != 1:
        raise Unsupported("wrappers disagree on the element type")
    return [f'Definition gen_wrapper_elem : string := "{out[0]}".', ""]


def _py(src):
    tree = ast.parse(src)
    cls = [n for n in tree.body if isinstance(n, ast.ClassDef)
           and n.name == "ResNetwork"][0]
    fns = {n.name: n for n in cls.body if isinstance(n, ast.FunctionDef)}

    def calls(fn):
        return [n.func.attr for n in ast.walk(fn) if isinstance(n, ast.Call)
                and isinstance(n.func, ast.Attribute)
                and isinstance(n.func.value, ast.Name)
                and n.func.value.id == "self"]

    def assigns_none(fn, attr):
        for n in ast.walk(fn):
            if isinstance(n, ast.Assign) and len(n.targets) == 1 \
                    and ast.unparse(n.targets[0]) == "self." + attr \
                    and ast.unparse(n.value) == "None":
                return True
        return False
    ur = fns["update_resistances"]
    chain = [c for c in calls(ur) if c.startswith("update_")]
    resets = assigns_none(fns["update_R"], "_effective_resistances")
    # update_R must recompute R from the current admittance Laplacian
    r_src = re.sub(r"\s+", "", ast.unparse(fns["update_R"]))
    recompute = ("self.sparse_R=sparse.lil_matrix(np.linalg.pinv("
                 "self.admittance_lapacian()))") in r_src
    d = fns["diameter_effective_resistance"]
    dtxt = re.sub(r"\s+", " ", ast.unparse(d.body[-3] if False else d))
    dia_ok = bool(re.search(
        r"if self\._effective_resistances is not None: diameter = np\.max\("
        r"self\._effective_resistances\) else: .*self\.average_effective_"
        r"resistance\(\) diameter = np\.max\(self\._effective_resistances\) "
        r"return diameter", dtxt))
    a = re.sub(r"\s+", " ", ast.unparse(fns["average_effective_resistance"]))
    avg_ok = bool(re.search(
        r"self\._effective_resistances = np\.array\(\[\]\) for i in range\("
        r"self\.N\): for j in range\(i\): self\._effective_resistances = "
        r"np\.append\(self\._effective_resistances, self\.effective_"
        r"resistance\(i, j\)\) return 2 \* np\.sum\(self\._effective_"
        r"resistances\) / \(self\.N \* \(self\.N - 1\)\)", a))
    e = re.sub(r"\s+", " ", ast.unparse(fns["effective_resistance"]))
    eff_ok = "return R[a, a] - R[a, b] - R[b, a] + R[b, b]" in e \
        and "R = self.get_R()" in e
    lap = re.sub(r"\s+", "", ast.unparse(fns["admittance_lapacian"]))
    lap_ok = ("returnnp.diag(sum(self.get_admittance()))-self.get_admittance()"
              in lap)

    def b(x):
        return "true" if x else "false"
    return [
        "Definition gen_update_chain : list string := ["
        + "; ".join(f'"{c}"' for c in chain) + "].",
        f"Definition gen_update_R_resets : bool := {b(resets)}.",
        f"Definition gen_update_R_recomputes : bool := {b(recompute)}.",
        f"Definition gen_diameter_uses_store : bool := {b(dia_ok)}.",
        f"Definition gen_average_fills_store : bool := {b(avg_ok)}.",
        f"Definition gen_eff_formula : bool := {b(eff_ok)}.",
        f"Definition gen_laplacian_formula : bool := {b(lap_ok)}.", ""]


def generate(repo):
    csrc = _strip(open(os.path.join(repo, C)).read())
    out = ["(* GENERATED by translate/c_resistive.py *)",
           "From Coq Require Import QArith Qcanon List Bool Arith String.",
           "From PV.Base Require Import Sums.",
           "From PV.Model Require Import Resistive.",
           "Import ListNotations.", "Open Scope string_scope.",
           "Open Scope Qc_scope.", ""]
    out += _vertex(csrc) + _edge(csrc)
    out += _pyx(open(os.path.join(repo, PYX)).read())
    out += _py(open(os.path.join(repo, PY)).read())
    return "\n".join(out) + "\n"


if __name__ == "__main__":
    print(generate("/repo"))
