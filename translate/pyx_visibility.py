"""Regenerate coq/Gen/VisibilityK.v from timeseries/_ext/numerics.pyx: the
three visibility kernels — loop ranges, start of the scan, the scan condition
(translated expression by expression), the link test, the trivial links and
the element type the slopes are held in.  Fail-closed (ast after removing
the cdef block)."""
import ast
import os
import re
import textwrap


class Unsupported(Exception):
    pass


PYX = "src/pyunicorn/timeseries/_ext/numerics.pyx"


def _func(src, name):
    m = re.search(rf"^def {name}\(", src, flags=re.M)
    if not m:
        raise Unsupported("cannot find " + name)
    rest = src[m.start():]
    sig_end = rest.index("):\n")
    sig = re.sub(r"\s+", " ", rest[:sig_end])
    body = rest[sig_end + 3:]
    m2 = re.match(r"\s*cdef:\n((?:(?:\s{8}.*)?\n)+?)(?=\s{4}\S)", body)
    if not m2:
        raise Unsupported("cdef block of " + name)
    lines = []
    for ln in body[m2.end():].splitlines():
        if ln and not ln[0].isspace():
            break
        lines.append(ln)
    code = textwrap.dedent("\n".join(lines)).replace("\\\n", " ")
    return sig, m2.group(1), ast.parse(code).body


def u(n):
    return ast.unparse(n)


class E:
    """float expression over x, t -> Gallina over Q; comparisons through the
    parameter `lt` (the comparison in the element type)"""

    def tr(self, e):
        if isinstance(e, ast.Subscript) and isinstance(e.value, ast.Name) \
                and e.value.id in ("x", "t") and isinstance(e.slice, ast.Name):
            return f"({e.value.id} {e.slice.id})"
        if isinstance(e, ast.Name) and e.id in ("test", "minimum"):
            return e.id
        if isinstance(e, ast.BinOp):
            op = {ast.Sub: "-", ast.Div: "/", ast.Add: "+",
                  ast.Mult: "*"}.get(type(e.op))
            if op is None:
                raise Unsupported("operator " + u(e))
            return f"({self.tr(e.left)} {op} {self.tr(e.right)})%Q"
        if isinstance(e, ast.Call) and u(e.func) == "min" and len(e.args) == 2:
            a, b = self.tr(e.args[0]), self.tr(e.args[1])
            return f"(if lt {b} {a} then {b} else {a})"
        raise Unsupported("expression " + u(e))

    def cond(self, e):
        """conjunction -> (list of float comparisons / mask tests, has k<j)"""
        parts = e.values if isinstance(e, ast.BoolOp) and isinstance(
            e.op, ast.And) else [e]
        out, bound = [], False
        for p in parts:
            if u(p) == "k < j":
                bound = True
            elif isinstance(p, ast.UnaryOp) and isinstance(p.op, ast.Not) \
                    and re.fullmatch(r"mv_indices\[\w+\]", u(p.operand)):
                out.append(f"negb (mv {p.operand.slice.id})")
            elif isinstance(p, ast.Compare) and len(p.ops) == 1 \
                    and isinstance(p.ops[0], ast.Lt):
                out.append(f"lt {self.tr(p.left)} "
                           f"{self.tr(p.comparators[0])}")
            else:
                raise Unsupported("condition " + u(p))
        return out, bound


def _kernel(src, name, has_t, has_mv):
    sig, decl, body = _func(src, name)
    ty = re.search(r"(\w+)\s+(?:test|minimum)\s*$", decl, flags=re.M)
    if not ty:
        raise Unsupported(name + ": type of the slope variable")
    elem = set(re.findall(r"ndarray\[(\w+), ndim=1\] [xt]\b", sig))
    if elem != {ty.group(1)}:
        raise Unsupported(f"{name}: arrays {elem}, slope {ty.group(1)}")
    if len(body) != 2:
        raise Unsupported(name + " body")
    outer, triv = body
    if not (isinstance(outer, ast.For) and u(outer.target) == "i"
            and u(outer.iter) == "range(N - 2)" and len(outer.body) == 1):
        raise Unsupported(name + " outer loop")
    inner = outer.body[0]
    if not (isinstance(inner, ast.For) and u(inner.target) == "j"
            and u(inner.iter) == "range(i + 2, N)" and len(inner.body) == 4):
        raise Unsupported(name + " inner loop")
    k0, asg, loop, test = inner.body
    if u(k0) != "k = i + 1":
        raise Unsupported(name + " scan start")
    ex = E()
    if not (isinstance(asg, ast.Assign) and u(asg.targets[0]) in ("test",
                                                                  "minimum")):
        raise Unsupported(name + " reference value")
    ref_name = u(asg.targets[0])
    ref = ex.tr(asg.value)
    if not (isinstance(loop, ast.While) and [u(s) for s in loop.body]
            == ["k += 1"] and not loop.orelse):
        raise Unsupported(name + " scan loop")
    conds, bound = ex.cond(loop.test)
    if not bound:
        raise Unsupported(name + ": the scan is not bounded by k < j")
    if not (isinstance(test, ast.If) and u(test.test) == "k == j"
            and [u(s) for s in test.body] == ["A[i, j] = A[j, i] = 1"]
            and not test.orelse):
        raise Unsupported(name + " link test")
    # trivial links
    if not (isinstance(triv, ast.For) and u(triv.iter) == "range(N - 1)"
            and u(triv.target) == "i" and len(triv.body) == 1):
        raise Unsupported(name + " trivial links")
    tb = triv.body[0]
    if has_mv:
        ok = (isinstance(tb, ast.If)
              and u(tb.test) == "not mv_indices[i] and (not mv_indices[i + 1])"
              and [u(s) for s in tb.body] == ["A[i, i + 1] = A[i + 1, i] = 1"])
        trivial = "negb (mv i) && negb (mv (S i))"
    else:
        ok = u(tb) == "A[i, i + 1] = A[i + 1, i] = 1"
        trivial = "true"
    if not ok:
        raise Unsupported(name + " trivial links body")
    short = name.replace("_visibility_relations_", "")
    args = "(lt : Q -> Q -> bool) (x" + (" t" if has_t else "") \
        + " : nat -> Q)" + (" (mv : nat -> bool)" if has_mv else "")
    return [
        f'Definition gen_{short}_type : string := "{ty.group(1)}".',
        f"Definition gen_{short}_cond {args} (i j k : nat) : bool :=",
        f"  let {ref_name} := {ref} in",
        "  " + " && ".join(f"({c})" for c in conds) + ".",
        f"Definition gen_{short}_trivial"
        + (" (mv : nat -> bool)" if has_mv else "")
        + f" (i : nat) : bool := {trivial}.", ""]


def generate(repo):
    src = open(os.path.join(repo, PYX)).read()
    out = ["(* GENERATED by translate/pyx_visibility.py *)",
           "From Coq Require Import QArith List Bool Arith String.",
           "Open Scope string_scope.", ""]
    out += _kernel(src, "_visibility_relations_no_missingvalues", True, False)
    out += _kernel(src, "_visibility_relations_missingvalues", True, True)
    out += _kernel(src, "_visibility_relations_horizontal", False, False)
    return "\n".join(out) + "\n"


if __name__ == "__main__":
    print(generate("/repo"))
