"""Abstract interpreter for the pointer-walking C routines of pyunicorn
(`p = base + e; ... *p ...; p++` inside counted loops):

  * a small recursive-descent parser for the C subset they use (declarations,
    counted for-loops, if / else with or without braces, assignments,
    compound assignments, ++, casts, dereferences, calls);
  * every integer / pointer variable is tracked as an affine form
    base + sum(coeff * symbol) over loop variables, parameters and *data
    symbols*; a variable that is incremented by a loop-invariant amount at
    the end of every iteration of a loop (and initialised just before it) is
    an induction variable: inside iteration v it holds init + v * step — the
    interpreter checks this inductively by executing the body once;
  * a value read from one of the declared *symbol arrays* (the bin numbers of
    the histogram routines) is a fresh symbol with the range the symbolising
    assignment guarantees, provided EVERY write into that array is an
    assignment of the recognised guarded form;
  * every dereference yields an obligation
        forall symbols in their ranges, 0 <= offset < extent(base).

Anything outside the subset raises Unsupported (fail-closed)."""
import re


class Unsupported(Exception):
    pass


TYPES = {"int", "long", "float", "double", "unsigned", "char", "signed",
         "short"}
TOKEN = re.compile(r"\s*(?:(\d+\.\d*|\d+)|([A-Za-z_]\w*)|(\+\+|--|\+=|-=|\*=|"
                   r"/=|<=|>=|==|!=|&&|\|\||[-+*/<>=!(){};,\[\]&|?:]))")


def tokenize(src):
    out, k = [], 0
    src = src.strip()
    while k < len(src):
        m = TOKEN.match(src, k)
        if not m:
            raise Unsupported("token at: " + src[k:k + 30])
        out.append(m.group(1) or m.group(2) or m.group(3))
        k = m.end()
    return out


# ---- parser -----------------------------------------------------------------

class P:
    def __init__(self, toks):
        self.t, self.k = toks, 0

    def peek(self, o=0):
        return self.t[self.k + o] if self.k + o < len(self.t) else None

    def eat(self, x=None):
        v = self.peek()
        if x is not None and v != x:
            raise Unsupported(f"expected {x}, found {v}")
        self.k += 1
        return v

    # statements
    def block(self):
        out = []
        while self.peek() is not None and self.peek() != "}":
            out.append(self.stmt())
        return out

    def stmt(self):
        v = self.peek()
        if v == "{":
            self.eat("{")
            b = self.block()
            self.eat("}")
            return ("block", b)
        if v == "for":
            self.eat()
            self.eat("(")
            if self.peek() in TYPES:
                self.eat()
            init = self.expr()
            self.eat(";")
            cond = self.expr()
            self.eat(";")
            inc = self.expr()
            self.eat(")")
            return ("for", init, cond, inc, self.stmt())
        if v == "if":
            self.eat()
            self.eat("(")
            c = self.expr()
            self.eat(")")
            a = self.stmt()
            b = None
            if self.peek() == "else":
                self.eat()
                b = self.stmt()
            return ("if", c, a, b)
        if v == "return":
            self.eat()
            e = None if self.peek() == ";" else self.expr()
            self.eat(";")
            return ("return", e)
        if v in TYPES:
            return self.decl()
        e = self.expr()
        self.eat(";")
        return ("expr", e)

    def decl(self):
        ty = []
        while self.peek() in TYPES:
            ty.append(self.eat())
        items = []
        while True:
            ptr = False
            while self.peek() == "*":
                self.eat()
                ptr = True
            name = self.eat()
            init = None
            if self.peek() == "=":
                self.eat()
                init = self.assign()
            items.append((name, ptr, init))
            if self.peek() == ",":
                self.eat()
                continue
            break
        self.eat(";")
        return ("decl", " ".join(ty), items)

    # expressions
    def expr(self):
        return self.assign()

    def assign(self):
        lhs = self.cmp()
        if self.peek() in ("=", "+=", "-=", "*=", "/="):
            op = self.eat()
            return ("assign", op, lhs, self.assign())
        return lhs

    def cmp(self):
        a = self.add()
        while self.peek() in ("<", "<=", ">", ">=", "==", "!=", "&&", "||",
                              "|", "&"):
            op = self.eat()
            a = ("bin", op, a, self.add())
        return a

    def add(self):
        a = self.mul()
        while self.peek() in ("+", "-"):
            op = self.eat()
            a = ("bin", op, a, self.mul())
        return a

    def mul(self):
        a = self.unary()
        while self.peek() in ("*", "/"):
            op = self.eat()
            a = ("bin", op, a, self.unary())
        return a

    def unary(self):
        v = self.peek()
        if v == "*":
            self.eat()
            return ("deref", self.unary())
        if v == "-":
            self.eat()
            return ("neg", self.unary())
        if v == "(" and self.peek(1) in TYPES:
            self.eat("(")
            ty = []
            while self.peek() in TYPES or self.peek() == "*":
                ty.append(self.eat())
            self.eat(")")
            return ("cast", " ".join(ty), self.unary())
        return self.postfix()

    def postfix(self):
        a = self.primary()
        while True:
            if self.peek() == "++":
                self.eat()
                a = ("postinc", a)
            elif self.peek() == "[":
                self.eat()
                i = self.expr()
                self.eat("]")
                a = ("deref", ("bin", "+", a, i))
            else:
                return a

    def primary(self):
        v = self.eat()
        if v == "(":
            e = self.expr()
            self.eat(")")
            return e
        if re.fullmatch(r"\d+", v):
            return ("num", int(v))
        if re.fullmatch(r"\d+\.\d*", v):
            return ("fnum", v)
        if re.fullmatch(r"[A-Za-z_]\w*", v):
            if self.peek() == "(":
                self.eat("(")
                args = []
                while self.peek() != ")":
                    args.append(self.expr())
                    if self.peek() == ",":
                        self.eat()
                self.eat(")")
                return ("call", v, args)
            return ("var", v)
        raise Unsupported("primary " + str(v))


# ---- affine forms -------------------------------------------------------------
# {monomial (sorted tuple of symbol names): coefficient}; () is the constant

def aconst(c):
    return {(): c} if c else {}


def asym(s):
    return {(s,): 1}


def aadd(a, b, sign=1):
    out = dict(a)
    for k, v in b.items():
        out[k] = out.get(k, 0) + sign * v
        if out[k] == 0:
            del out[k]
    return out


def amul(a, b):
    out = {}
    for k1, v1 in a.items():
        for k2, v2 in b.items():
            k = tuple(sorted(k1 + k2))
            if len(k) > 3:
                raise Unsupported("degree")
            out[k] = out.get(k, 0) + v1 * v2
            if out[k] == 0:
                del out[k]
    return out


def ashow(a):
    if not a:
        return "0"
    parts = []
    for k, v in sorted(a.items()):
        mono = " * ".join(k) if k else "1"
        parts.append(f"({v}) * {mono}" if k else f"({v})")
    return " + ".join(parts)


TOP = "top"


class Interp:
    def __init__(self, params, extents, sym_arrays, nonneg):
        """params: [(name, type, is_pointer)]; extents: {array: affine text};
        sym_arrays: {array: upper bound symbol}; nonneg: size parameters"""
        self.env = {}
        self.ptr = {}            # pointer var -> (base array, affine offset)
        self.arrays = set()
        for name, ty, isp in params:
            if isp:
                self.arrays.add(name)
            else:
                self.env[name] = asym(name)
        self.extents = extents
        self.sym_arrays = sym_arrays
        self.hyps = []           # textual range hypotheses, in order
        self.syms = [p[0] for p in params if not p[2]]
        self.obligations = []    # (array, offset affine, hyps snapshot, kind)
        self.fresh = 0
        self.writes_sym = []     # writes into symbol arrays: (array, rhs ast)
        self.nonneg = nonneg
        self.ints = set()
        self.floats = set()

    # -- expression evaluation: integer-valued affine form, or None (float) --
    def ev(self, e):
        t = e[0]
        if t == "num":
            return aconst(e[1])
        if t == "fnum":
            return None
        if t == "var":
            n = e[1]
            if n in self.ptr or n in self.arrays:
                raise Unsupported("pointer used as a number: " + n)
            if n in self.floats:
                return None
            v = self.env.get(n)
            if v is TOP:
                raise Unsupported("use of a variable with unknown value: " + n)
            if v is None:
                raise Unsupported("unknown variable " + n)
            return v
        if t == "bin":
            op = e[1]
            if op in ("+", "-", "*"):
                a, b = self.ev(e[2]), self.ev(e[3])
                if a is None or b is None:
                    return None
                if op == "*":
                    return amul(a, b)
                return aadd(a, b, 1 if op == "+" else -1)
            if op == "/":
                self.ev(e[2])
                self.ev(e[3])
                return None
            self.ev(e[2])
            self.ev(e[3])
            return None
        if t == "neg":
            a = self.ev(e[1])
            return None if a is None else amul(aconst(-1), a)
        if t == "cast":
            a = self.ev(e[2])
            if e[1] in ("float", "double"):
                return None
            return a
        if t == "deref":
            base, off = self.pval(e[1])
            self.oblige(base, off, "read")
            if base in self.sym_arrays:
                self.fresh += 1
                s = f"s{self.fresh}"
                self.syms.append(s)
                self.hyps.append(f"0 <= {s} < {self.sym_arrays[base]}")
                return asym(s)
            return None
        if t == "call":
            for a in e[2]:
                self.ev(a)
            return None
        if t == "postinc":
            raise Unsupported("++ inside an expression")
        if t == "assign":
            raise Unsupported("assignment inside an expression")
        raise Unsupported("expression " + str(t))

    def pval(self, e):
        """pointer-valued expression -> (base, offset)"""
        t = e[0]
        if t == "var":
            if e[1] in self.arrays:
                return e[1], {}
            if e[1] in self.ptr:
                v = self.ptr[e[1]]
                if v is TOP:
                    raise Unsupported("pointer with unknown value: " + e[1])
                return v
            raise Unsupported("not a pointer: " + e[1])
        if t == "bin" and e[1] in ("+", "-"):
            try:
                base, off = self.pval(e[2])
                k = self.ev(e[3])
            except Unsupported:
                if e[1] == "+":
                    base, off = self.pval(e[3])
                    k = self.ev(e[2])
                else:
                    raise
            if k is None:
                raise Unsupported("non-integer pointer offset")
            return base, aadd(off, k, 1 if e[1] == "+" else -1)
        raise Unsupported("pointer expression " + str(e)[:80])

    def oblige(self, base, off, kind):
        self.obligations.append((base, dict(off), list(self.hyps), kind,
                                 list(self.syms)))

    # -- statements --
    def run(self, stmts):
        for s in stmts:
            self.stmt(s)

    def assign_var(self, name, rhs):
        if name in self.ptr_names:
            self.ptr[name] = self.pval(rhs)
        elif name in self.floats:
            self.ev(rhs)
        else:
            v = self.ev(rhs)
            if v is None:
                raise Unsupported(f"float assigned to integer {name}")
            self.env[name] = v

    def do_expr(self, e):
        t = e[0]
        if t == "assign":
            op, lhs, rhs = e[1], e[2], e[3]
            if lhs[0] == "var":
                n = lhs[1]
                if op == "=":
                    if rhs[0] == "assign":       # a = b = 0
                        self.do_expr(rhs)
                        self.assign_var(n, rhs[2])
                    else:
                        self.assign_var(n, rhs)
                elif op in ("+=", "-="):
                    sign = 1 if op == "+=" else -1
                    if n in self.ptr_names:
                        k = self.ev(rhs)
                        b, o = self.pval(lhs)
                        self.ptr[n] = (b, aadd(o, k, sign))
                    elif n in self.floats:
                        self.ev(rhs)
                    else:
                        k = self.ev(rhs)
                        if k is None:
                            raise Unsupported("float added to integer " + n)
                        self.env[n] = aadd(self.ev(lhs), k, sign)
                else:
                    raise Unsupported("operator " + op)
                return
            if lhs[0] == "deref":
                base, off = self.pval(lhs[1])
                self.oblige(base, off, "write")
                if base in self.sym_arrays:
                    self.writes_sym.append((base, op, rhs))
                    # the value is not needed: reads get a fresh symbol
                    self._walk_reads(rhs)
                else:
                    self.ev(rhs)
                return
            raise Unsupported("assignment target")
        if t == "postinc":
            x = e[1]
            if x[0] == "var":
                n = x[1]
                if n in self.ptr_names:
                    b, o = self.pval(x)
                    self.ptr[n] = (b, aadd(o, aconst(1)))
                elif n in self.floats:
                    pass
                else:
                    self.env[n] = aadd(self.ev(x), aconst(1))
                return
            if x[0] == "deref":                  # (*p)++
                base, off = self.pval(x[1])
                self.oblige(base, off, "write")
                if base in self.sym_arrays:
                    raise Unsupported("increment inside a symbol array")
                return
            raise Unsupported("++ target")
        self.ev(e)

    def _walk_reads(self, e):
        """evaluate an expression only for the dereferences it contains"""
        try:
            self.ev(e)
        except Unsupported:
            raise

    def stmt(self, s):
        t = s[0]
        if t == "block":
            self.run(s[1])
        elif t == "decl":
            for name, isp, init in s[2]:
                if isp:
                    self.ptr_names.add(name)
                    self.ptr[name] = TOP
                    if init is not None:
                        if init[0] == "call":          # alloca scratch array
                            self.arrays.add(name)
                            self.ptr_names.discard(name)
                            del self.ptr[name]
                        else:
                            self.ptr[name] = self.pval(init)
                elif s[1].split()[-1] in ("float", "double"):
                    self.floats.add(name)
                    if init is not None:
                        self.ev(init)
                else:
                    self.env[name] = TOP
                    if init is not None:
                        v = self.ev(init)
                        self.env[name] = v if v is not None else TOP
        elif t == "expr":
            self.do_expr(s[1])
        elif t == "if":
            self.ev(s[1])
            saved = (dict(self.env), dict(self.ptr), list(self.hyps))
            self.stmt(s[2])
            a_env, a_ptr = dict(self.env), dict(self.ptr)
            self.env, self.ptr, self.hyps = dict(saved[0]), dict(saved[1]), \
                list(saved[2])
            if s[3] is not None:
                self.stmt(s[3])
            # join: a variable that differs between the branches is unknown
            for n in set(a_env) | set(self.env):
                if a_env.get(n) != self.env.get(n):
                    self.env[n] = TOP
            for n in set(a_ptr) | set(self.ptr):
                if a_ptr.get(n) != self.ptr.get(n):
                    self.ptr[n] = TOP
            self.hyps = list(saved[2])
        elif t == "for":
            self.loop(s)
        elif t == "return":
            if s[1] is not None:
                self.ev(s[1])
        else:
            raise Unsupported("statement " + t)

    def loop(self, s):
        _, init, cond, inc, body = s
        if not (init[0] == "assign" and init[1] == "=" and init[2][0] == "var"):
            raise Unsupported("loop initialisation")
        v = init[2][1]
        lo = self.ev(init[3])
        if not (cond[0] == "bin" and cond[1] in ("<", "<=")
                and cond[2] == ("var", v)):
            raise Unsupported("loop condition")
        self.env[v] = asym(v)            # placeholder while reading the bound
        hi = self.ev(cond[3])
        if not (inc == ("postinc", ("var", v))):
            raise Unsupported("loop increment")
        if v not in self.syms:
            self.syms.append(v)
        # candidates for induction variables: x++ / x += e at the top level
        body_list = body[1] if body[0] == "block" else [body]
        steps = {}
        for st in body_list:
            if st[0] == "expr":
                e = st[1]
                if e[0] == "postinc" and e[1][0] == "var":
                    steps[e[1][1]] = ("num", 1)
                elif e[0] == "assign" and e[1] == "+=" and e[2][0] == "var":
                    steps[e[2][1]] = e[3]
        assigned = set()
        self._assigned(body_list, assigned)
        assigned.discard(v)
        entry_env, entry_ptr = dict(self.env), dict(self.ptr)
        hyps0 = list(self.hyps)
        self.hyps.append(f"{ashow(lo)} <= {v} {'<=' if cond[1] == '<=' else '<'}"
                         f" {ashow(hi)}")
        self.env[v] = asym(v)
        iters = aadd(asym(v), lo, -1)         # iterations completed so far
        ind = {}
        for n in assigned:
            if n in self.floats:
                continue
            if n in steps:
                k = self.ev(steps[n])          # must be loop invariant
                if k is None or any(v in m for m in k):
                    raise Unsupported("induction step of " + n)
                if n in self.ptr_names:
                    b0 = entry_ptr.get(n)
                    if b0 is TOP or b0 is None:
                        self.ptr[n] = TOP
                        continue
                    self.ptr[n] = (b0[0], aadd(b0[1], amul(k, iters)))
                    ind[n] = ("p", k)
                elif n not in self.floats:
                    e0 = entry_env.get(n)
                    if e0 is TOP or e0 is None:
                        self.env[n] = TOP
                        continue
                    self.env[n] = aadd(e0, amul(k, iters))
                    ind[n] = ("i", k)
            else:
                # re-initialised inside the body before use, or unknown
                if n in self.ptr_names:
                    self.ptr[n] = TOP
                elif n not in self.floats:
                    self.env[n] = TOP
        start_env, start_ptr = dict(self.env), dict(self.ptr)
        self.run(body_list)
        # inductive check: value at the end = value at the start + step
        for n, (kind, k) in ind.items():
            if kind == "p":
                want = (start_ptr[n][0], aadd(start_ptr[n][1], k))
                if self.ptr.get(n) != want:
                    raise Unsupported("pointer " + n + " is not an induction "
                                      "variable of this loop")
            else:
                if self.env.get(n) != aadd(start_env[n], k):
                    raise Unsupported(n + " is not an induction variable")
        # after the loop: induction variables hold init + step * trip count,
        # which is not needed by these routines -> unknown unless reassigned
        self.hyps = hyps0
        for n in assigned:
            if n in self.ptr_names:
                self.ptr[n] = TOP
            elif n not in self.floats:
                self.env[n] = TOP
        self.env[v] = TOP

    def _assigned(self, stmts, out):
        for st in stmts:
            t = st[0]
            if t == "block":
                self._assigned(st[1], out)
            elif t == "expr":
                e = st[1]
                while e[0] == "assign":
                    if e[2][0] == "var":
                        out.add(e[2][1])
                    e = e[3]
                if e[0] == "postinc" and e[1][0] == "var":
                    out.add(e[1][1])
            elif t == "if":
                self._assigned([st[2]] + ([st[3]] if st[3] else []), out)
            elif t == "for":
                out.add(st[1][2][1])
                self._assigned([st[4]], out)
            elif t == "decl":
                for name, _, _ in st[2]:
                    out.add(name)


def analyse(body_src, params, extents, sym_arrays, nonneg):
    toks = tokenize(body_src)
    prog = P(toks).block()
    it = Interp(params, extents, sym_arrays, nonneg)
    it.ptr_names = set()
    it.run(prog)
    return it


SYMBOLISE = re.compile(
    r"if\s*\(\s*rescaled\s*<\s*1\.0\s*\)\s*\{?\s*\*(\w+)\s*=\s*\(\s*(?:int|long)"
    r"\s*\)\s*\(\s*rescaled\s*\*\s*n_bins\s*\)\s*;\s*\}?\s*else\s*\{?\s*\*\1\s*"
    r"=\s*n_bins\s*-\s*1\s*;")


def symbolising_writes(body_src):
    """pointer variables written by the recognised guarded assignment"""
    return [m.group(1) for m in SYMBOLISE.finditer(body_src)]
