"""Regenerate coq/Gen/NsiTerms.v from core/network.py: the expression each
algebraic n.s.i. measure of Network computes, as a term of the sparse-matrix /
vector algebra of Model/MatAlg.v.

An abstract interpreter over the Python ast of the method bodies: values are
typed (sparse matrix, dense matrix, vector, scalar, static Python value) and
`*` is resolved the way numpy / scipy resolve it for those types (sparse *
sparse and ndarray * sparse are matrix products, sparse * vector is a
matrix-vector product, ndarray * ndarray is entrywise with broadcasting of a
vector along rows).  `self.directed`, `key is None`, `typical_weight is None`
and `nsi` are static per configuration; every other statement or expression
the interpreter has no rule for raises Unsupported (fail-closed).  Calls to
other methods of the class (sp_Aplus, sp_diag_w, nsi_degree, ...,
_motif_clustering_helper) and to the local t_func are interpreted, not
assumed."""
import ast
import os
import re


class Unsupported(Exception):
    pass


PY = "src/pyunicorn/core/network.py"


def u(n):
    return re.sub(r"\s+", " ", ast.unparse(n))


class V:
    """typed abstract value: kind in M (sparse) D (dense matrix) V (vector)
    S (scalar term, coq of type sexp) C (scalar constant, coq of type Qc)
    P (static python value in .py)
    X (the n.s.i. distance matrix path_lengths() + identity, inf where
    unconnected; .coq = how a finite entry depends on the step count)
    K (boolean mask: the unconnected pairs)
    XV (vector X @ v: .coq = its value where every node is reachable, inf
    elsewhere)"""
    def __init__(self, kind, coq=None, py=None):
        self.kind, self.coq, self.py = kind, coq, py

    def __repr__(self):
        return f"<{self.kind} {self.coq if self.kind != 'P' else self.py!r}>"


def P(x):
    return V("P", py=x)


class Closure:
    def __init__(self, fn):
        self.fn = fn


def qconst(x):
    """python number -> Qc literal"""
    if isinstance(x, bool) or not isinstance(x, (int, float)):
        raise Unsupported(f"constant {x!r}")
    if float(x) != int(x):
        raise Unsupported(f"non-integral constant {x!r}")
    return f"(qnat {int(x)})" if int(x) >= 0 else f"(- qnat {-int(x)})"


def as_vec(v):
    """vector, or scalar constant broadcast to a vector"""
    if v.kind == "V":
        return v.coq
    if v.kind == "S" and v.coq == "(SVSum VW)":
        return "VWtot"
    if v.kind == "C":
        return f"(VConst {v.coq})"
    if v.kind == "P" and isinstance(v.py, (int, float)) \
            and not isinstance(v.py, bool):
        return f"(VConst {qconst(v.py)})"
    raise Unsupported(f"not a vector: {v}")


def as_const(v):
    if v.kind == "C":
        return v.coq
    if v.kind == "P" and isinstance(v.py, (int, float)) \
            and not isinstance(v.py, bool):
        return qconst(v.py)
    raise Unsupported(f"not a constant: {v}")


def is_num(v):
    return v.kind == "C" or (v.kind == "P" and isinstance(v.py, (int, float))
                             and not isinstance(v.py, bool))


class Interp:
    def __init__(self, cls, cfg):
        self.methods = {n.name: n for n in cls.body
                        if isinstance(n, ast.FunctionDef)}
        self.cfg = cfg

    # ---- methods -----------------------------------------------------------
    def call_method(self, name, args, kwargs):
        if name not in self.methods:
            raise Unsupported("method " + name)
        fn = self.methods[name]
        if name == "sp_Aplus":
            # A+ = A + Id is the definition of MAplus (MA denotes A+ - Id)
            body = [u(s) for s in fn.body if not (isinstance(s, ast.Expr)
                    and isinstance(s.value, ast.Constant))]
            if args or kwargs or body != [
                    "return self.sp_A + sp.identity(self.N, "
                    "dtype=self.sp_dtype)"]:
                raise Unsupported("sp_Aplus: " + str(body))
            return V("M", "MAplus")
        return self.call_function(fn, args, kwargs, skip_self=True)

    def call_function(self, fn, args, kwargs, skip_self=False, outer=None):
        params = [a.arg for a in fn.args.args]
        if skip_self:
            params = params[1:]
        if fn.args.vararg or fn.args.kwarg or fn.args.kwonlyargs:
            raise Unsupported("signature of " + fn.name)
        defaults = fn.args.defaults
        env = dict(outer or {})
        for p, d in zip(params[len(params) - len(defaults):], defaults):
            env[p] = self.expr(d, {})
        if len(args) > len(params):
            raise Unsupported("too many arguments for " + fn.name)
        for p, a in zip(params, args):
            env[p] = a
        for k, a in kwargs.items():
            if k not in params:
                raise Unsupported(f"keyword {k} of {fn.name}")
            env[k] = a
        for p in params:
            if p not in env:
                raise Unsupported(f"missing argument {p} of {fn.name}")
        r = self.block(fn.body, env)
        if r is None:
            raise Unsupported(fn.name + " does not return")
        return r

    # ---- statements --------------------------------------------------------
    def block(self, stmts, env):
        for s in stmts:
            r = self.stmt(s, env)
            if r is not None:
                return r
        return None

    def static(self, e, env):
        v = self.expr(e, env)
        if v.kind != "P":
            raise Unsupported("condition is not static: " + u(e))
        return bool(v.py)

    def stmt(self, s, env):
        if isinstance(s, ast.Expr) and isinstance(s.value, ast.Constant):
            return None                                     # docstring
        if isinstance(s, ast.If) and "silence_level" in u(s.test):
            if s.orelse or not all(isinstance(x, ast.Expr) and isinstance(
                    x.value, ast.Call) and u(x.value.func) == "print"
                    for x in s.body):
                raise Unsupported("verbosity block " + u(s))
            return None
        if isinstance(s, ast.If):
            return self.block(s.body if self.static(s.test, env) else s.orelse,
                              env)
        if isinstance(s, ast.Raise):
            raise Unsupported("configuration raises: " + u(s))
        if isinstance(s, ast.Assert):
            if not self.static(s.test, env):
                raise Unsupported("assertion fails: " + u(s))
            return None
        if isinstance(s, ast.Return):
            return self.expr(s.value, env)
        if isinstance(s, ast.FunctionDef):
            env[s.name] = Closure(s)
            return None
        if isinstance(s, ast.Expr) and isinstance(s.value, ast.Call):
            # a call for its (cached) value only
            if re.fullmatch(r"self\.nsi_degree\(\)", u(s.value)):
                return None
            raise Unsupported("expression statement " + u(s))
        if isinstance(s, ast.Assign) and len(s.targets) == 1:
            t = s.targets[0]
            txt = u(s)
            # the two nan guards of _motif_clustering_helper: a zero
            # denominator gives 0 (the convention of Qc division)
            if txt == "T[T == 0] = np.nan":
                if env["T"].kind != "V":
                    raise Unsupported(txt)
                env["_T_nan_guard"] = P(True)
                return None
            if txt == "C[np.isnan(C)] = 0":
                if not env.get("_T_nan_guard"):
                    raise Unsupported(txt + " without the guard on T")
                return None
            if isinstance(t, ast.Name):
                env[t.id] = self.expr(s.value, env)
                return None
            # X[np.isinf(X)] = 0 / D[np.isinf(X)] = 0 through named masks
            if isinstance(t, ast.Subscript) and isinstance(t.value, ast.Name) \
                    and isinstance(t.slice, ast.Name) and u(s.value) == "0":
                tgt, mask = env.get(t.value.id), env.get(t.slice.id)
                if tgt is not None and mask is not None and mask.kind == "K":
                    if tgt.kind == "X":
                        env[t.value.id] = V("D", f"(MDistFn {tgt.coq} B)")
                        return None
                    if tgt.kind == "D":
                        env[t.value.id] = V("D",
                                            f"(MHad {tgt.coq} (MConn B))")
                        return None
            if isinstance(t, ast.Tuple) and isinstance(s.value, ast.Tuple) \
                    and len(t.elts) == len(s.value.elts) \
                    and all(isinstance(x, ast.Name) for x in t.elts):
                vals = [self.expr(x, env) for x in s.value.elts]
                for x, v in zip(t.elts, vals):
                    env[x.id] = v
                return None
        raise Unsupported("statement " + u(s))

    # ---- expressions -------------------------------------------------------
    def expr(self, e, env):
        s = u(e)
        if isinstance(e, ast.Constant):
            return P(e.value)
        if isinstance(e, ast.Name):
            if e.id not in env:
                raise Unsupported("name " + e.id)
            return env[e.id]
        if s == "self.directed":
            return P(self.cfg["directed"])
        if s == "self.N":
            return P("N")
        if s == "self.node_weights":
            return V("V", "VW")
        if s == "self.total_node_weight":
            return V("S", "(SVSum VW)")
        if s == "self.sp_A":
            return V("M", "MA")
        if s == "self.sp_dtype":
            return P("dtype")
        if s == "self.path_lengths() + np.identity(self.N)":
            # n.s.i. distances: steps + 1 along A+, inf where unconnected
            return V("X", "(fun k => qnat (S k))")
        if isinstance(e, ast.BinOp) and isinstance(e.op, ast.Pow) \
                and u(e.left) == "2.0" and isinstance(e.right, ast.UnaryOp) \
                and isinstance(e.right.op, ast.USub):
            x = self.expr(e.right.operand, env)
            if x.kind == "X" and x.coq == "(fun k => qnat (S k))":
                return V("D", "(MDistFn (fun k => qpow2inv (S k)) B)")
            raise Unsupported("power " + s)
        if isinstance(e, ast.IfExp):
            return self.expr(e.body if self.static(e.test, env) else e.orelse,
                             env)
        if isinstance(e, ast.Compare) and len(e.ops) == 1 \
                and isinstance(e.ops[0], (ast.Is, ast.IsNot)):
            a = self.expr(e.left, env)
            b = self.expr(e.comparators[0], env)
            if b.kind != "P" or b.py is not None:
                raise Unsupported("comparison " + s)
            isnone = a.kind == "P" and a.py is None
            return P(isnone if isinstance(e.ops[0], ast.Is) else not isnone)
        if isinstance(e, ast.UnaryOp) and isinstance(e.op, ast.USub):
            v = self.expr(e.operand, env)
            if v.kind == "P" and isinstance(v.py, (int, float)):
                return P(-v.py)
            raise Unsupported("negation " + s)
        if isinstance(e, ast.BinOp):
            return self.binop(e, env)
        if isinstance(e, ast.Attribute):
            v = self.expr(e.value, env)
            if e.attr == "T":
                if v.kind in "MD":
                    return V(v.kind, f"(MT {v.coq})")
                if v.kind == "V":
                    return v
            raise Unsupported("attribute " + s)
        if isinstance(e, ast.Call):
            return self.call(e, env)
        raise Unsupported("expression " + s)

    def binop(self, e, env):
        a, b = self.expr(e.left, env), self.expr(e.right, env)
        k = a.kind + b.kind
        op = type(e.op)
        if a.kind == "P" and b.kind == "P" and isinstance(a.py, (int, float)) \
                and isinstance(b.py, (int, float)):
            if op is ast.Div:
                return P(a.py / b.py)
            if op is ast.Mult:
                return P(a.py * b.py)
            raise Unsupported("static arithmetic " + u(e))
        if op is ast.Div and b.kind == "X" and a.kind == "P" and a.py == 1 \
                and b.coq == "(fun k => qnat (S k))":
            return V("D", "(MDistFn (fun k => 1 / qnat (S k)) B)")   # 1/inf = 0
        if op is ast.Div and a.kind == "S" and b.kind == "XV":
            # s / inf = 0 unless every node is reachable
            return V("V", f"(VMul (VAllConn B) (VDiv {as_vec(a)} {b.coq}))")
        if op is ast.Div and a.kind == "V" and b.kind == "S":
            return V("V", f"(VDiv {a.coq} {as_vec(b)})")
        if op is ast.Pow and a.kind == "S" and b.kind == "P" and b.py == 2:
            return V("S", f"(SMul {a.coq} {a.coq})")
        if op is ast.Mult:
            if k in ("MM", "DM", "MD"):
                # scipy: sparse * sparse, ndarray * sparse, sparse * ndarray
                # are all matrix products
                return V("M" if k == "MM" else "D",
                         f"(MMul {a.coq} {b.coq})")
            if k == "DD":
                return V("D", f"(MHad {a.coq} {b.coq})")
            if k == "MV":
                return V("V", f"(VMatVec {a.coq} {b.coq})")
            if k == "VM":
                return V("V", f"(VVecMat {a.coq} {b.coq})")
            if k == "DV":   # broadcasting of a vector along the rows
                return V("D", f"(MHad {a.coq} (MRows {b.coq}))")
            if k == "VV" or (a.kind == "V" and is_num(b)) \
                    or (b.kind == "V" and is_num(a)):
                return V("V", f"(VMul {as_vec(a)} {as_vec(b)})")
            if is_num(a) and is_num(b):
                return V("C", f"({as_const(a)} * {as_const(b)})")
        if op is ast.MatMult:
            if k in ("VD", "VM"):
                return V("V", f"(VVecMat {a.coq} {b.coq})")
            if k in ("DV", "MV"):
                return V("V", f"(VMatVec {a.coq} {b.coq})")
        if op in (ast.Add, ast.Sub, ast.Div):
            c = {ast.Add: "VAdd", ast.Sub: "VSub", ast.Div: "VDiv"}[op]
            if k == "VV" or (a.kind == "V" and is_num(b)) \
                    or (b.kind == "V" and is_num(a)):
                return V("V", f"({c} {as_vec(a)} {as_vec(b)})")
            if op is ast.Div and k == "DD":
                return V("D", f"(MDivE {a.coq} {b.coq})")
            if op is ast.Div and a.kind == "S" and b.kind == "S":
                return V("S", f"(SDiv {a.coq} {b.coq})")
        if op is ast.Pow and b.kind == "P" and b.py == 2:
            if a.kind == "V":
                return V("V", f"(VMul {a.coq} {a.coq})")
            if a.kind == "C":
                return V("C", f"({a.coq} * {a.coq})")
        if op is ast.Pow and u(e) == "self.link_attribute(key) ** (1 / 3.0)":
            raise Unsupported("cube root outside sp.csc_matrix(...)")
        raise Unsupported(f"operator in {u(e)} on {a} and {b}")

    def call(self, e, env):
        s = u(e)
        f = e.func
        args = e.args
        kw = {k.arg: k.value for k in e.keywords}
        # methods of the class
        if isinstance(f, ast.Attribute) and u(f.value) == "self":
            if f.attr == "link_attribute":
                key = self.expr(args[0], env)
                if len(args) != 1 or kw or key.kind != "P" \
                        or not isinstance(key.py, tuple):
                    raise Unsupported(s)
                return V("D", f"(MAttr {key.py[1]})")
            return self.call_method(
                f.attr, [self.expr(a, env) for a in args],
                {k: self.expr(v, env) for k, v in kw.items()})
        # local function (t_func)
        if isinstance(f, ast.Name) and isinstance(env.get(f.id), Closure):
            if kw:
                raise Unsupported(s)
            return self.call_function(env[f.id].fn,
                                      [self.expr(a, env) for a in args], {})
        # scipy / numpy constructors
        if u(f) == "sp.identity":
            if u(args[0]) != "self.N":
                raise Unsupported(s)
            return V("M", "(MDiag (VConst 1))")
        if u(f) == "np.eye":
            if len(args) != 1 or u(args[0]) != "self.N" or kw:
                raise Unsupported(s)
            return V("D", "(MDiag (VConst 1))")
        if u(f) == "sp.diags":
            if set(kw) - {"shape", "format"} or (
                    "shape" in kw and u(kw["shape"]) != "(self.N, self.N)"):
                raise Unsupported(s)
            if len(args) == 1:
                v = self.expr(args[0], env)
            elif len(args) == 2 and u(args[1]) == "[0]" and isinstance(
                    args[0], ast.List) and len(args[0].elts) == 1:
                v = self.expr(args[0].elts[0], env)
            else:
                raise Unsupported(s)
            if v.kind != "V":
                raise Unsupported(s)
            return V("M", f"(MDiag {v.coq})")
        if u(f) == "sp.csc_matrix" and len(args) == 1 and not kw:
            if u(args[0]) == "self.link_attribute(key) ** (1 / 3.0)":
                # attribute number a stands for the entrywise cube root of the
                # link attribute (the harness hands the model that matrix)
                key = env["key"]
                if key.kind != "P" or not isinstance(key.py, tuple):
                    raise Unsupported(s)
                return V("M", f"(MAttr {key.py[1]})")
            v = self.expr(args[0], env)
            if v.kind not in "MD":
                raise Unsupported(s)
            return V("M", v.coq)
        if u(f) == "np.repeat" and len(args) == 2 and u(args[1]) in (
                "N", "self.N") and u(kw.get("axis", ast.Constant(None))) == "0" \
                and isinstance(args[0], ast.List) and len(args[0].elts) == 1:
            v = self.expr(args[0].elts[0], env)
            n = self.expr(args[1], env)
            if v.kind != "V" or n.kind != "P" or n.py != "N":
                raise Unsupported(s)
            return V("D", f"(MRows {v.coq})")
        if u(f) in ("np.maximum", "np.minimum") and len(args) == 2 and not kw:
            a, b = self.expr(args[0], env), self.expr(args[1], env)
            if a.kind + b.kind != "DD":
                raise Unsupported(s)
            c = "MMax2" if u(f) == "np.maximum" else "MMin2"
            return V("D", f"({c} {a.coq} {b.coq})")
        m = re.fullmatch(r"np\.array\(\[\[min\((\w+)\[i\], (\w+)\[j\]\) for j "
                         r"in range\(N\)\] for i in range\(N\)\]\)", s)
        if m and m.group(1) == m.group(2):
            v, n = env.get(m.group(1)), env.get("N")
            if v is None or v.kind != "V" or n is None or n.py != "N":
                raise Unsupported(s)
            return V("D", f"(MMin2 (MT (MRows {v.coq})) (MRows {v.coq}))")
        if u(f) == "np.isinf" and len(args) == 1 and not kw:
            x = self.expr(args[0], env)
            if x.kind != "X":
                raise Unsupported(s)
            return V("K", "unconnected")
        if u(f) == "np.outer" and len(args) == 2 and not kw:
            a, b = self.expr(args[0], env), self.expr(args[1], env)
            if a.kind + b.kind != "VV":
                raise Unsupported(s)
            return V("D", f"(MHad (MT (MRows {a.coq})) (MRows {b.coq}))")
        if u(f) == "np.dot" and len(args) == 2 and not kw:
            a, b = self.expr(args[0], env), self.expr(args[1], env)
            if a.kind == "X" and b.kind == "V":
                return V("XV", f"(VMatVec (MDistFn {a.coq} B) {b.coq})")
            if a.kind == "D" and b.kind == "V":
                return V("V", f"(VMatVec {a.coq} {b.coq})")
            raise Unsupported(s)
        if u(f) == "np.power" and len(args) == 2 and u(args[1]) == "-1":
            v = self.expr(args[0], env)
            if v.kind != "V":
                raise Unsupported(s)
            return V("V", f"(VDiv (VConst 1) {v.coq})")
        # methods of values
        if isinstance(f, ast.Attribute):
            v = self.expr(f.value, env)
            a = f.attr
            if a == "diagonal" and not args and not kw and v.kind in "MD":
                return V("V", f"(VDiagonal {v.coq})")
            if a == "toarray" and not args and not kw and v.kind == "M":
                return V("D", v.coq)
            if a == "squeeze" and not args and not kw and v.kind == "V":
                return v
            if a == "astype" and u(args[0]) == "float" and v.kind in "VD":
                return v
            if a == "sum" and not args and not kw:
                if v.kind == "V":
                    return V("S", f"(SVSum {v.coq})")
                if v.kind in "MD":
                    return V("S", f"(SMSum {v.coq})")
            if a == "max" and not args and u(kw.get("axis")) == "1" \
                    and v.kind == "D":
                return V("V", f"(VRowMax {v.coq})")
            if a == "dot" and len(args) == 1 and not kw:
                b = self.expr(args[0], env)
                if v.kind + b.kind == "VV":
                    return V("S", f"(SDot {v.coq} {b.coq})")
                if v.kind + b.kind == "DV":
                    return V("V", f"(VMatVec {v.coq} {b.coq})")
        raise Unsupported("call " + s)


TW = V("C", "tw")
NONE = P(None)

# name of the generated definition, method, configuration, arguments
TARGETS = [
    ("nsi_degree", "nsi_degree", False, {}),
    ("nsi_degree_directed", "nsi_degree", True, {}),
    ("nsi_degree_tw", "nsi_degree", False, {"typical_weight": TW}),
    ("nsi_indegree", "nsi_indegree", True, {}),
    ("nsi_outdegree", "nsi_outdegree", True, {}),
    ("nsi_instrength", "nsi_indegree", True, {"key": P(("key", "a"))}),
    ("nsi_outstrength", "nsi_outdegree", True, {"key": P(("key", "a"))}),
    ("nsi_strength", "nsi_degree", False, {"key": P(("key", "a"))}),
    ("nsi_strength_directed", "nsi_degree", True, {"key": P(("key", "a"))}),
    ("nsi_bildegree", "nsi_bildegree", True, {}),
    ("nsi_average_neighbors_degree", "nsi_average_neighbors_degree", False,
     {}),
    ("nsi_max_neighbors_degree", "nsi_max_neighbors_degree", False, {}),
    ("nsi_local_clustering", "nsi_local_clustering", False, {}),
    ("nsi_local_clustering_tw", "nsi_local_clustering", False,
     {"typical_weight": TW}),
    ("nsi_global_clustering", "nsi_global_clustering", False, {}),
    ("nsi_transitivity", "nsi_transitivity", False, {}),
    ("nsi_local_soffer_clustering", "nsi_local_soffer_clustering", False, {}),
    ("nsi_twinness", "nsi_twinness", False, {}),
    ("nsi_average_path_length", "nsi_average_path_length", False, {}),
    ("nsi_closeness", "nsi_closeness", False, {}),
    ("nsi_harmonic_closeness", "nsi_harmonic_closeness", False, {}),
    ("nsi_exponential_closeness", "nsi_exponential_closeness", False, {}),
    ("nsi_global_efficiency", "nsi_global_efficiency", False, {}),
]
# these are written with the distance matrix: parameter B = search bound of
# the model's reachability (true distances for B >= N)
DISTANCE = {"nsi_average_path_length", "nsi_closeness",
            "nsi_harmonic_closeness", "nsi_exponential_closeness",
            "nsi_global_efficiency"}
for _m in ("cycle", "mid", "in", "out"):
    _n = f"nsi_local_{_m}motif_clustering"
    TARGETS.append((_n, _n, True, {}))
    TARGETS.append((_n + "_tw", _n, True, {"typical_weight": TW}))
    TARGETS.append((_n + "_key", _n, True, {"key": P(("key", "a"))}))

COQTYPE = {"M": "mexp", "D": "mexp", "V": "vexp", "S": "sexp"}


def generate(repo):
    tree = ast.parse(open(os.path.join(repo, PY)).read())
    cls = [n for n in tree.body if isinstance(n, ast.ClassDef)
           and n.name == "Network"][0]
    # total_node_weight is the plain sum of the node weights
    setter = [n for n in cls.body if isinstance(n, ast.FunctionDef)
              and n.name == "node_weights" and len(n.args.args) == 2]
    if len(setter) != 1 or "self.total_node_weight = w.sum()" not in [
            u(s) for s in setter[0].body] or "self._node_weights = w" not in [
            u(s) for s in setter[0].body]:
        raise Unsupported("node_weights setter")
    out = ["(* GENERATED by translate/py_nsi_terms.py *)",
           "From Coq Require Import QArith Qcanon.",
           "From PV.Model Require Import NsiLang Measures MatAlg.",
           "Open Scope Qc_scope.", ""]
    for name, meth, directed, kwargs in TARGETS:
        it = Interp(cls, {"directed": directed})
        try:
            v = it.call_method(meth, [], dict(kwargs))
        except Unsupported as ex:
            raise Unsupported(f"{name}: {ex}") from None
        if v.kind not in COQTYPE:
            raise Unsupported(f"{name}: result {v}")
        params = ""
        if "typical_weight" in kwargs:
            params += " (tw : Qc)"
        if "key" in kwargs:
            params += " (a : nat)"
        if name in DISTANCE:
            params += " (B : nat)"
        out.append(f"Definition gen_{name}{params} : {COQTYPE[v.kind]} :=\n"
                   f"  {v.coq}.")
    return "\n".join(out) + "\n"


if __name__ == "__main__":
    print(generate("/repo"))
