"""Regenerate coq/Gen/FileAttrs.v: which vertex-attribute name save() writes
the node weights under, which name each Load / FromIGraph looks up, whether
the loader reads the file through Network._read_graph, and the alias repairs
_read_graph performs.  Fail-closed (Python ast)."""
import ast
import os


class Unsupported(Exception):
    pass


FILES = {
    "Network": "src/pyunicorn/core/network.py",
    "SpatialNetwork": "src/pyunicorn/core/spatial_network.py",
    "GeoNetwork": "src/pyunicorn/core/geo_network.py",
    "ClimateNetwork": "src/pyunicorn/climate/climate_network.py",
}


def _cls(tree, name):
    for n in tree.body:
        if isinstance(n, ast.ClassDef) and n.name == name:
            return n
    raise Unsupported(f"class {name} not found")


def _fn(cls, name):
    for n in cls.body:
        if isinstance(n, ast.FunctionDef) and n.name == name:
            return n
    return None


def _strs(node):
    return [n.value for n in ast.walk(node)
            if isinstance(n, ast.Constant) and isinstance(n.value, str)]


def _calls(fn):
    for n in ast.walk(fn):
        if isinstance(n, ast.Call):
            f = n.func
            if isinstance(f, ast.Attribute):
                yield f.attr, n
            elif isinstance(f, ast.Name):
                yield f.id, n


def _written(save):
    names = []
    for attr, call in _calls(save):
        if attr == "set_attribute_values":
            if not call.args or not isinstance(call.args[0], ast.Constant):
                raise Unsupported("save: attribute name is not a literal")
            names.append(call.args[0].value)
    for n in ast.walk(save):            # graph.vs["name"] = ...
        if isinstance(n, ast.Assign):
            for t in n.targets:
                if (isinstance(t, ast.Subscript)
                        and isinstance(t.value, ast.Attribute)
                        and t.value.attr == "vs"
                        and isinstance(t.slice, ast.Constant)):
                    names.append(t.slice.value)
    if len(set(names)) != 1:
        raise Unsupported(f"save writes node weights under {names}")
    return names[0]


def _looked_up(fn, what):
    """the literal tested against graph.vs.attribute_names() and the one read"""
    tested, read = [], []
    for n in ast.walk(fn):
        if (isinstance(n, ast.Compare) and len(n.ops) == 1
                and isinstance(n.ops[0], ast.In)
                and isinstance(n.left, ast.Constant)
                and isinstance(n.left.value, str)):
            tested.append(n.left.value)
    for attr, call in _calls(fn):
        if attr == "get_attribute_values":
            if not call.args or not isinstance(call.args[0], ast.Constant):
                raise Unsupported(f"{what}: attribute name is not a literal")
            read.append(call.args[0].value)
    if len(set(tested)) != 1 or set(tested) != set(read):
        raise Unsupported(f"{what}: tests {tested} but reads {read}")
    return read[0]


def _aliases(fn):
    """if "<alias>" in names and "<name>" not in names:
           graph.vs["<name>"] = graph.vs["<alias>"]; del graph.vs["<alias>"]"""
    out = []
    for n in ast.walk(fn):
        if not isinstance(n, ast.If):
            continue
        t = n.test
        if not (isinstance(t, ast.BoolOp) and isinstance(t.op, ast.And)
                and len(t.values) == 2):
            raise Unsupported("_read_graph: unrecognised condition")
        a, b = t.values
        ok = (isinstance(a, ast.Compare) and isinstance(a.ops[0], ast.In)
              and isinstance(b, ast.Compare)
              and isinstance(b.ops[0], ast.NotIn)
              and isinstance(a.left, ast.Constant)
              and isinstance(b.left, ast.Constant))
        if not ok:
            raise Unsupported("_read_graph: unrecognised condition")
        alias, name = a.left.value, b.left.value
        asg = [s for s in n.body if isinstance(s, ast.Assign)]
        if (len(asg) != 1 or not isinstance(asg[0].targets[0], ast.Subscript)
                or asg[0].targets[0].slice.value != name
                or not isinstance(asg[0].value, ast.Subscript)
                or asg[0].value.slice.value != alias or n.orelse):
            raise Unsupported("_read_graph: unrecognised repair")
        out.append((alias, name))
    return out


def _reader(fn, what):
    """True if the file is read by _read_graph, False if by igraph directly"""
    via = [a for a, _ in _calls(fn) if a in ("_read_graph", "Read")]
    if via == ["_read_graph"]:
        return True
    if via == ["Read"]:
        return False
    raise Unsupported(f"{what}: reads the file by {via}")


def s(x):
    if '"' in x:
        raise Unsupported("quote in attribute name")
    return '"' + x + '"'


def generate(repo):
    trees = {k: ast.parse(open(os.path.join(repo, p)).read())
             for k, p in FILES.items()}
    net = _cls(trees["Network"], "Network")
    save = _fn(net, "save")
    if save is None:
        raise Unsupported("Network.save not found")
    written = _written(save)
    for k in ("SpatialNetwork", "GeoNetwork", "ClimateNetwork"):
        sv = _fn(_cls(trees[k], k), "save")
        if sv is not None:
            # must delegate the network file to the parent's save
            if not any(a == "save" for a, _ in _calls(sv)):
                raise Unsupported(f"{k}.save does not delegate")
            if "set_attribute_values" in [a for a, _ in _calls(sv)]:
                raise Unsupported(f"{k}.save writes attributes itself")
    from_ig = _fn(net, "FromIGraph")
    rg = _fn(net, "_read_graph")
    aliases = _aliases(rg) if rg is not None else []
    if rg is not None and _reader(rg, "_read_graph") is not False:
        raise Unsupported("_read_graph does not call igraph's reader")
    loaders = []
    # Network.Load = reader + FromIGraph
    ld = _fn(net, "Load")
    if not any(a == "FromIGraph" for a, _ in _calls(ld)):
        raise Unsupported("Network.Load does not go through FromIGraph")
    loaders.append(("Network", _reader(ld, "Network.Load"),
                    _looked_up(from_ig, "FromIGraph")))
    for k in ("SpatialNetwork", "GeoNetwork", "ClimateNetwork"):
        ld = _fn(_cls(trees[k], k), "Load")
        if ld is None:
            raise Unsupported(f"{k}.Load not found")
        loaders.append((k, _reader(ld, k + ".Load"),
                        _looked_up(ld, k + ".Load")))
    out = ["(* GENERATED by translate/py_file_attrs.py *)",
           "From Coq Require Import String List.", "Import ListNotations.",
           "Open Scope string_scope.", "",
           f"Definition gen_written : string := {s(written)}.",
           "Definition gen_aliases : list (string * string) := ["
           + "; ".join(f"({s(a)}, {s(b)})" for a, b in aliases) + "].",
           "Definition gen_loaders : list (string * (bool * string)) := ["
           + "; ".join(f"({s(k)}, ({'true' if r else 'false'}, {s(n)}))"
                       for k, r, n in loaders) + "].", ""]
    return "\n".join(out)


if __name__ == "__main__":
    print(generate("/repo"))
