"""Regenerate coq/Gen/MpiLoops.v from core/network.py: the skeleton of the
`if mpi.available:` branch of every method that distributes work (chunk
arithmetic, nesting of submit_call, ids, retrieval order, reassembly kind),
and the shape of the multiprocessing split in _nsi_betweenness.  Fail-closed."""
import ast
import os


class Unsupported(Exception):
    pass


SRC = "src/pyunicorn/core/network.py"

CANON = {
    "max_parts": "max(1, int(np.ceil(min((mpi.size - 1) * 10.0, 0.1 * N))))",
    "step": "int(np.ceil(1.0 * N / (1.0 * max_parts)))",
    "parts": "int(np.ceil(1.0 * N / (1.0 * step)))",
}


def find_mpi_branch(fn):
    out = []
    for node in ast.walk(fn):
        if isinstance(node, ast.If) and ast.unparse(node.test) == \
                "mpi.available":
            out.append(node)
    return out


def contains_call(node, name):
    for n in ast.walk(node):
        if isinstance(n, ast.Call) and ast.unparse(n.func) == name:
            return n
    return None


def analyse(fn):
    branches = find_mpi_branch(fn)
    if len(branches) != 1:
        raise Unsupported(f"{fn.name}: {len(branches)} mpi.available branches")
    br = branches[0]
    body = br.body
    assigns = {}
    loops = []
    for st in body:
        if isinstance(st, ast.Assign) and len(st.targets) == 1 and \
                isinstance(st.targets[0], ast.Name):
            assigns.setdefault(st.targets[0].id, ast.unparse(st.value))
        elif isinstance(st, ast.For):
            loops.append(st)
    arith = all(assigns.get(k) == v for k, v in CANON.items())
    if len(loops) != 2:
        raise Unsupported(f"{fn.name}: {len(loops)} loops in the MPI branch")
    sub, ret = loops
    if contains_call(sub, "mpi.submit_call") is None or \
            contains_call(ret, "mpi.get_result") is None:
        raise Unsupported(f"{fn.name}: submit / retrieve loops not found")
    var_s, var_r = ast.unparse(sub.target), ast.unparse(ret.target)
    same_range = (ast.unparse(sub.iter) == "range(parts)"
                  and ast.unparse(ret.iter) == "range(parts)")
    # chunk bounds inside the submit loop
    inner = {}
    for st in sub.body:
        if isinstance(st, ast.Assign) and isinstance(st.targets[0], ast.Name):
            inner[st.targets[0].id] = ast.unparse(st.value)
    bounds_ok = (inner.get("start_i") == f"{var_s} * step"
                 and inner.get("end_i") == f"min(({var_s} + 1) * step, N)")
    # is submit_call a direct statement of the loop body (not nested under a
    # condition)?  the only `if` allowed before it is the dead `break`
    unconditional = False
    for st in sub.body:
        if isinstance(st, ast.Expr) and isinstance(st.value, ast.Call) and \
                ast.unparse(st.value.func) == "mpi.submit_call":
            unconditional = True
    for st in sub.body:
        if isinstance(st, ast.If) and contains_call(st, "mpi.submit_call"):
            unconditional = False
        if isinstance(st, ast.If) and any(isinstance(x, ast.Break)
                                          for x in ast.walk(st)):
            if ast.unparse(st.test) != "start_i >= end_i":
                raise Unsupported(f"{fn.name}: break condition "
                                  + ast.unparse(st.test))
    call = contains_call(sub, "mpi.submit_call")
    kw = {k.arg: ast.unparse(k.value) for k in call.keywords}
    id_ok = kw.get("id") == var_s
    get = contains_call(ret, "mpi.get_result")
    id_ok = id_ok and [ast.unparse(a) for a in get.args] == [var_r]
    # chunk arguments: rows start_i:end_i and the bounds are what is shipped
    args_src = ast.unparse(call.args[1]) if len(call.args) > 1 else ""
    ships_bounds = "start_i" in args_src and "end_i" in args_src
    # reassembly
    kind = None
    for st in ast.walk(ret):
        if isinstance(st, ast.Assign) and ast.unparse(st.targets[0]) == \
                "component_betweenness[start_i:end_i]":
            kind = "Slice"
        if isinstance(st, ast.AugAssign) and ast.unparse(st.target) == \
                "component_betweenness" and isinstance(st.op, ast.Add):
            kind = "Sum"
    if kind is None:
        raise Unsupported(f"{fn.name}: reassembly not recognised")
    return dict(name=fn.name, arith=arith and bounds_ok and ships_bounds,
                uncond=unconditional, id_ok=id_ok, same_range=same_range,
                kind=kind)


def generate(repo):
    src = open(os.path.join(repo, SRC)).read()
    tree = ast.parse(src)
    fns = {}
    for node in ast.walk(tree):
        if isinstance(node, ast.FunctionDef):
            fns[node.name] = node
    rows = []
    for name in sorted(fns):
        fn = fns[name]
        if contains_call(fn, "mpi.submit_call") is not None:
            rows.append(analyse(fn))
    if not rows:
        raise Unsupported("no distributed method found")
    # multiprocessing split in _nsi_betweenness
    nb = fns.get("_nsi_betweenness")
    if nb is None:
        raise Unsupported("_nsi_betweenness not found")
    nsrc = ast.unparse(nb)
    pool_ok = ("batches = np.array_split(targets, n_workers)" in nsrc
               and "betw_w = np.sum(pool.map(worker, batches), axis=0)" in nsrc
               and "betw_w = worker(targets)" in nsrc)
    b = lambda x: "true" if x else "false"     # noqa: E731
    out = ["(* GENERATED by translate/py_mpi_loops.py from " + SRC + " *)",
           "From Coq Require Import List String.",
           "From PV.Model Require Import MpiMaster.",
           "Import ListNotations.", "Open Scope string_scope.", "",
           "Definition gen_master_loops : list master_loop := ["]
    out.append(";\n".join(
        f'  {{| ml_name := "{r["name"]}"; ml_arith_canonical := {b(r["arith"])};'
        f' ml_submit_unconditional := {b(r["uncond"])};'
        f' ml_id_is_index := {b(r["id_ok"])}; ml_same_range := '
        f'{b(r["same_range"])}; ml_reassembly := {r["kind"]} |}}'
        for r in rows))
    out.append("].")
    out.append(f"Definition gen_pool_split_is_array_split_sum : bool := "
               f"{b(pool_ok)}.")
    return "\n".join(out) + "\n"


if __name__ == "__main__":
    print(generate("/repo"))
