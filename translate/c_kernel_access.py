"""Regenerate coq/Gen/KernelAccess.v:

 * the Cython compiler directives of setup.py and every override in the four
   .pyx files (header comments, decorators, with-blocks);
 * every raw pointer handed to C (`<T*> cnp.PyArray_DATA(a)`): byte width of
   the buffer's declared element type, of the cast, of the parameter in the
   `cdef extern` declaration and in the C definition, and whether the buffer
   is declared C-contiguous;
 * for the C routines that address their arrays by index expressions
   (current-flow betweenness, Spearman correlation) one range obligation per
   access: forall loop variables in their ranges, 0 <= index < extent, with
   the extents the wrappers guarantee.  The obligations are proved in the
   generated file by ONE fixed tactic; if one is false the file does not
   compile.

Pointer-walking routines (mutual information, surrogate tests) are not
resolved here (trusted base: covered by the sanitizer runs only).
Fail-closed."""
import ast
import os
import re

import c_pointer_walk as pw


class Unsupported(Exception):
    pass


PKGS = ["core", "climate", "funcnet", "timeseries"]
C_WIDTH = {"float": 4, "double": 8, "int": 4, "long": 8, "signed char": 1,
           "char": 1, "short": 2, "unsigned int": 4, "bint": 4}


def _typedef_widths(repo):
    pxd = open(os.path.join(
        repo, "src/pyunicorn/core/_ext/types.pxd")).read()
    base = {}
    for np_t, name in re.findall(r"^ctypedef cnp\.(\w+)_t (\w+)_t", pxd,
                                 flags=re.M):
        bits = int(re.search(r"(\d+)$", np_t).group(1))
        base[name + "_t"] = bits // 8
    changed = True
    while changed:
        changed = False
        for src, name in re.findall(r"^ctypedef (\w+_t) (\w+_t)", pxd,
                                    flags=re.M):
            if src in base and name not in base:
                base[name] = base[src]
                changed = True
    return base


def _width(t, td):
    t = t.strip()
    if t in td:
        return td[t]
    if t in C_WIDTH:
        return C_WIDTH[t]
    raise Unsupported("element type " + t)


def _strip_c(src):
    src = re.sub(r"//[^\n]*", "", src)
    src = re.sub(r"/\*.*?\*/", "", src, flags=re.S)
    return src.replace("\\\n", " ")


def _c_functions(src):
    out = {}
    for m in re.finditer(r"^(?:static\s+)?(?:double|void|int|float)\s+(\w+)"
                         r"\s*\(([^)]*)\)\s*\{", src, flags=re.M):
        depth, k = 1, m.end()
        while depth:
            depth += (src[k] == "{") - (src[k] == "}")
            k += 1
        params = []
        for p in m.group(2).split(","):
            p = re.sub(r"\s+", " ", p.strip())
            mm = re.match(r"(.+?)\s*(\*?)\s*(\w+)$", p)
            if not mm:
                raise Unsupported("C parameter " + p)
            params.append((mm.group(3), mm.group(1).strip(),
                           bool(mm.group(2))))
        out[m.group(1)] = (params, src[m.end():k - 1])
    return out


def _directives(repo):
    setup = open(os.path.join(repo, "setup.py")).read()
    m = re.search(r"compiler_directives\s*=\s*(\{.*?\})", setup, flags=re.S) \
        or re.search(r"cy_args\s*=\s*(\{.*?\})\s*\n", setup, flags=re.S)
    if not m:
        raise Unsupported("compiler directives in setup.py")
    txt = m.group(1)
    d = {}
    for k, v in re.findall(r"['\"](\w+)['\"]\s*:\s*(True|False|\d+)", txt):
        d[k] = v
    if "boundscheck" not in d or "wraparound" not in d:
        # directives may sit one level deeper
        mm = re.search(r"['\"]compiler_directives['\"]\s*:\s*(\{.*?\})", setup,
                       flags=re.S)
        if not mm:
            raise Unsupported("boundscheck / wraparound not set in setup.py")
        for k, v in re.findall(r"['\"](\w+)['\"]\s*:\s*(True|False|\d+)",
                               mm.group(1)):
            d[k] = v
    overrides = []
    for pkg in PKGS:
        p = os.path.join(repo, f"src/pyunicorn/{pkg}/_ext/numerics.pyx")
        src = open(p).read()
        for m in re.finditer(r"^#\s*cython\s*:\s*(.+)$", src, flags=re.M):
            for k, v in re.findall(r"(\w+)\s*=\s*(\w+)", m.group(1)):
                if k in ("boundscheck", "wraparound", "initializedcheck",
                         "nonecheck", "cdivision", "overflowcheck"):
                    overrides.append(f"{pkg}:header:{k}={v}")
        for m in re.finditer(r"(?:@|with\s+)cython\.(\w+)\((\w+)\)", src):
            if m.group(1) in ("boundscheck", "wraparound",
                              "initializedcheck", "nonecheck", "cdivision",
                              "overflowcheck"):
                # name of the next def
                nxt = re.search(r"def (\w+)\(", src[m.end():])
                overrides.append(f"{pkg}:{nxt.group(1) if nxt else '?'}:"
                                 f"{m.group(1)}={m.group(2)}")
    return d, overrides


def _no_raw_pointers(repo):
    """outside the `cdef extern` block no .pyx file declares a pointer,
    takes an address or calls an allocator: every other array access goes
    through a typed buffer or a Python object"""
    for pkg in PKGS:
        src = open(os.path.join(
            repo, f"src/pyunicorn/{pkg}/_ext/numerics.pyx")).read()
        src = re.sub(r"cdef extern from \"src_numerics\.c\":\n((?:(?:[ \t]+.*)"
                     r"?\n)+)", "", src)
        src = re.sub(r"#[^\n]*", "", src)
        src = re.sub(r"<\s*\w+\s*\*\s*>\s*cnp\.PyArray_DATA\(\w+\)", "PTR", src)
        if re.search(r"\b(malloc|calloc|realloc|free|memcpy|memset|alloca)\s*"
                     r"\(", src):
            return False
        if re.search(r"\b(?:int|long|float|double|char|void|\w+_t)\s*\*+\s*"
                     r"\w+", src):
            return False
        if re.search(r"&\s*\w+\s*\[", src):
            return False
    return True


def _pointers(repo, td):
    rows = []
    for pkg in PKGS:
        pyx = open(os.path.join(
            repo, f"src/pyunicorn/{pkg}/_ext/numerics.pyx")).read()
        cpath = os.path.join(repo, f"src/pyunicorn/{pkg}/_ext/src_numerics.c")
        cfun = _c_functions(_strip_c(open(cpath).read())) \
            if os.path.exists(cpath) else {}
        extern = {}
        m = re.search(r"cdef extern from \"src_numerics\.c\":\n((?:(?:[ \t]+.*)"
                      r"?\n)+)", pyx)
        if m:
            blk = re.sub(r"\s+", " ", m.group(1))
            for fm in re.finditer(r"(?:void|double|int|float) (\w+)\s*\("
                                  r"([^)]*)\)", blk):
                ps = []
                for p in fm.group(2).split(","):
                    mm = re.match(r"\s*(.+?)\s*(\*?)\s*(\w+)\s*$", p)
                    ps.append((mm.group(3), mm.group(1).strip(),
                               bool(mm.group(2))))
                extern[fm.group(1)] = ps
        for dm in re.finditer(r"^def (\w+)\((.*?)\):\n(.*?)(?=^def |^cdef "
                              r"|\Z)", pyx, flags=re.S | re.M):
            name, sig, body = dm.groups()
            if "PyArray_DATA" not in body:
                continue
            decl = {}
            for t, nd, mode, a in re.findall(
                    r"ndarray\[(\w+), ndim=(\d)(, mode='c')?\]\s+(\w+)",
                    sig + body):
                decl[a] = (t, bool(mode))
            calls = re.findall(r"(\w+)\(\s*((?:[^()]|\([^()]*\))*PyArray_DATA"
                               r"(?:[^()]|\([^()]*\))*)\)", body, flags=re.S)
            for cname, args in calls:
                if cname not in extern:
                    raise Unsupported(f"{pkg}.{name}: call of undeclared "
                                      f"{cname}")
                parts = [a.strip() for a in re.split(
                    r",\s*(?![^()]*\))", re.sub(r"\s+", " ", args))]
                if len(parts) != len(extern[cname]):
                    raise Unsupported(f"{pkg}.{name}: {cname} called with "
                                      f"{len(parts)} arguments")
                if cname not in cfun or len(cfun[cname][0]) != len(parts):
                    raise Unsupported(f"{pkg}: C definition of {cname}")
                for pos, a in enumerate(parts):
                    mm = re.match(r"<\s*(\w+)\s*\*\s*>\s*cnp\.PyArray_DATA\("
                                  r"(\w+)\)$", a)
                    if not mm:
                        if "PyArray_DATA" in a:
                            raise Unsupported("pointer argument " + a)
                        continue
                    cast, arr = mm.groups()
                    if arr not in decl:
                        raise Unsupported(f"{pkg}.{name}: buffer type of "
                                          f"{arr}")
                    ext_p, c_p = extern[cname][pos], cfun[cname][0][pos]
                    if not (ext_p[2] and c_p[2]):
                        raise Unsupported(f"{cname}: parameter {pos} is not a "
                                          "pointer")
                    rows.append((f"{pkg}.{name}", arr, _width(decl[arr][0],
                                                              td),
                                 _width(cast, td), _width(ext_p[1], td),
                                 _width(c_p[1], td), decl[arr][1]))
    return rows


# ---- index obligations --------------------------------------------------

FOR_RE = re.compile(r"for\s*\(\s*(?:int\s+)?(\w+)\s*=\s*(\w+)\s*;\s*\1\s*<\s*"
                    r"(\w+)\s*;\s*\1\s*\+\+\s*\)\s*\{")


def _accesses(body, arrays):
    """[(array, index expr, [(var, lo, hi)])] with the loop nest of each"""
    out = []
    stack = []          # (var, lo, hi, depth at which the loop body opened)
    depth = 0
    k = 0
    while k < len(body):
        m = FOR_RE.match(body, k)
        if m:
            depth += 1
            stack.append((m.group(1), m.group(2), m.group(3), depth))
            k = m.end()
            continue
        c = body[k]
        if c == "{":
            depth += 1
        elif c == "}":
            if stack and stack[-1][3] == depth:
                stack.pop()
            depth -= 1
        else:
            m = re.match(r"(\w+)\s*\[", body[k:])
            if m and m.group(1) in arrays and (k == 0 or not (
                    body[k - 1].isalnum() or body[k - 1] == "_")):
                j = k + m.end()
                d, start = 1, j
                while d:
                    d += (body[j] == "[") - (body[j] == "]")
                    j += 1
                out.append((m.group(1), body[start:j - 1].strip(),
                            [(v, lo, hi) for v, lo, hi, _ in stack]))
                k = j
                continue
        k += 1
    return out


def _zexpr(e, names):
    t = ast.parse(e, mode="eval").body

    def tr(n):
        if isinstance(n, ast.Name):
            if n.id not in names:
                raise Unsupported("name in index: " + n.id)
            return n.id
        if isinstance(n, ast.Constant) and isinstance(n.value, int):
            return str(n.value)
        if isinstance(n, ast.BinOp) and isinstance(n.op, (ast.Add, ast.Sub,
                                                          ast.Mult)):
            op = {ast.Add: "+", ast.Sub: "-", ast.Mult: "*"}[type(n.op)]
            return f"({tr(n.left)} {op} {tr(n.right)})"
        raise Unsupported("index expression " + e)
    return tr(t)


def _obligations(repo):
    obs = []
    # (package, C function, {array: extent}, extra range hypotheses,
    #  check that justifies them)
    specs = [
        ("core", "_vertex_current_flow_betweenness_fast",
         {"admittance": "N * N", "R": "N * N"}, ["0 <= i < N"], "vcfb"),
        ("core", "_edge_current_flow_betweenness_fast",
         {"admittance": "N * N", "R": "N * N", "ECFB": "N * N"}, [], "ecfb"),
        ("climate", "_spearman_corr",
         {"final_mask": "m * tmax", "time_series_ranked": "m * tmax",
          "spearman_rho": "m * m", "rankedi": "tmax", "rankedj": "tmax",
          "normalizedi": "tmax", "normalizedj": "tmax"}, [], "spearman"),
    ]
    for pkg, fname, extents, hyps, tag in specs:
        src = _strip_c(open(os.path.join(
            repo, f"src/pyunicorn/{pkg}/_ext/src_numerics.c")).read())
        funs = _c_functions(src)
        if fname not in funs:
            raise Unsupported("C function " + fname)
        params, body = funs[fname]
        ints = [p[0] for p in params if not p[2]]
        _justify(repo, tag)
        if tag == "vcfb" and not _vcfb_guard(repo):
            hyps = []            # nothing bounds i: the obligation is false
        if tag == "spearman":
            # the four scratch arrays hold T = (unsigned) tmax doubles
            if not re.search(r"unsigned int T = \(unsigned int\) tmax;", body) \
                    or len(re.findall(r"ALLOCA\(T \* sizeof\(double\)\)",
                                      body)) != 4:
                raise Unsupported("scratch arrays of _spearman_corr")
        acc = _accesses(body, set(extents))
        if not acc:
            raise Unsupported("no accesses found in " + fname)
        for k, (arr, idx, loops) in enumerate(acc):
            names = set(ints) | {v for v, _, _ in loops}
            binders = sorted(names)
            rng = [f"{_zexpr(lo, names)} <= {v} < {_zexpr(hi, names)}"
                   for v, lo, hi in loops]
            pre = " -> ".join(rng + hyps)
            stmt = (f"forall {' '.join(binders)} : Z, "
                    + (pre + " -> " if pre else "")
                    + f"0 <= {_zexpr(idx, names)} < {extents[arr]}")
            obs.append((f"{fname.strip('_')}_{arr}_{k}", stmt))
    return obs


WALK_SPECS = [
    # package, C function, extents (rows, columns), symbol arrays
    ("timeseries", "_test_pearson_correlation_fast",
     {"original_data": ("N", "n_time"), "surrogates": ("N", "n_time"),
      "correlation": ("N", "N")}, {}),
    ("timeseries", "_test_mutual_information_fast",
     {"original_data": ("N", "n_time"), "surrogates": ("N", "n_time"),
      "symbolic_original": ("N", "n_time"),
      "symbolic_surrogates": ("N", "n_time"),
      "hist_original": ("N", "n_bins"), "hist_surrogates": ("N", "n_bins"),
      "hist2d": ("n_bins", "n_bins"), "mi": ("N", "N")},
     {"symbolic_original": "n_bins", "symbolic_surrogates": "n_bins"}),
    ("climate", "_mutual_information",
     {"anomaly": ("N", "n_samples"), "symbolic": ("N", "n_samples"),
      "hist": ("N", "n_bins"), "hist2d": ("n_bins", "n_bins"),
      "mi": ("N", "N")}, {"symbolic": "n_bins"}),
]


def _show_offset(off, rows, cols):
    """print an affine offset as  row * cols + col  when it has that shape"""
    monos = dict(off)
    for k, v in list(monos.items()):
        if len(k) == 2 and cols in k and v == 1:
            x = k[0] if k[1] == cols else k[1]
            if k == (cols, cols):
                x = cols
            rest = {m: c for m, c in monos.items() if m != k}
            if not rest:
                return f"{x} * {cols} + 0"
            if len(rest) == 1:
                (m, c), = rest.items()
                if len(m) == 1 and c == 1:
                    return f"{x} * {cols} + {m[0]}"
    return pw.ashow(off)


def _walk_obligations(repo):
    obs, facts = [], {"guarded": True, "rescaled": True}
    for pkg, fname, extents, symarr in WALK_SPECS:
        src = _strip_c(open(os.path.join(
            repo, f"src/pyunicorn/{pkg}/_ext/src_numerics.c")).read())
        funs = _c_functions(src)
        if fname not in funs:
            raise Unsupported("C function " + fname)
        params, body = funs[fname]
        try:
            it = pw.analyse(body, params, {}, symarr, [])
        except pw.Unsupported as e:
            raise Unsupported(f"{fname}: {e}")
        seen = set()
        k = 0
        for base, off, hyps, kind, syms in it.obligations:
            if base not in extents:
                raise Unsupported(f"{fname}: access to undeclared {base}")
            rows, cols = extents[base]
            text = _show_offset(off, rows, cols)
            used = [h for h in hyps]
            key = (base, text, tuple(used))
            if key in seen:
                continue
            seen.add(key)
            names = sorted(set(re.findall(r"[A-Za-z_]\w*", " ".join(
                used + [text, rows, cols]))))
            stmt = (f"forall {' '.join(names)} : Z, "
                    + "".join(h + " -> " for h in used)
                    + f"0 <= {text} < {rows} * {cols}")
            obs.append((f"{fname.strip('_')}_{base}_{k}", stmt))
            k += 1
        # every write into a symbol array is the guarded assignment
        if symarr:
            good = pw.symbolising_writes(body)
            if len(it.writes_sym) != 2 * len(good) or not good:
                facts["guarded"] = False
            n_resc = len(re.findall(
                r"rescaled\s*=\s*scaling\s*\*\s*\(\s*\*\w+\s*-\s*range_min\s*"
                r"\)\s*;", body))
            n_any = len(re.findall(r"rescaled\s*=", body))
            if n_resc != n_any or n_resc != len(good):
                facts["rescaled"] = False
    # wrappers: the extents above, the data range and the bin count
    ts_pyx = open(os.path.join(
        repo, "src/pyunicorn/timeseries/_ext/numerics.pyx")).read()
    ts_py = open(os.path.join(
        repo, "src/pyunicorn/timeseries/surrogates.py")).read()
    cl_pyx = open(os.path.join(
        repo, "src/pyunicorn/climate/_ext/numerics.pyx")).read()
    cl_py = open(os.path.join(
        repo, "src/pyunicorn/climate/mutual_info.py")).read()
    flat = lambda t: re.sub(r"\s+", " ", t)
    shapes = all(x in flat(ts_pyx) for x in (
        "correlation = np.zeros( (N, N), dtype=FIELD)",
        "symbolic_original = \\ np.empty((N, n_time), dtype=NODE)",
        "symbolic_surrogates = \\ np.empty((N, n_time), dtype=NODE)",
        "hist_original = \\ np.zeros((N, n_bins), dtype=NODE)",
        "hist_surrogates = \\ np.zeros((N, n_bins), dtype=NODE)",
        "hist2d = \\ np.zeros((n_bins, n_bins), dtype=NODE)",
        "mi = np.zeros((N, N), dtype=FIELD)"))
    shapes = shapes and all(x in flat(cl_pyx) for x in (
        "symbolic = np.zeros( (N, n_samples), dtype=INT64TYPE)",
        "hist = np.zeros( (N, n_bins), dtype=INT64TYPE)",
        "hist2d = np.zeros( (n_bins, n_bins), dtype=INT64TYPE)",
        "mi = np.zeros( (N, N), dtype=FIELD)"))
    shapes = shapes and len(re.findall(
        r"\(N, n_time\) = original_data\.shape\s*if surrogates\.shape != "
        r"original_data\.shape:\s*raise ValueError", ts_py)) == 2
    shapes = shapes and bool(re.search(
        r"\(N, n_samples\) = anomaly\.shape", cl_py)) and bool(re.search(
            r"mutual_information\(\s*to_cy\(anomaly, FIELD\), n_samples, N, "
            r"n_bins, scaling, range_min\)", cl_py))
    rng = ("range_min = np.min((original_data.min(), surrogates.min()))"
           in flat(ts_pyx)
           and "range_max = np.max((original_data.max(), surrogates.max()))"
           in flat(ts_pyx)
           and "scaling = 1. / (range_max - range_min)" in flat(ts_pyx)
           and "range_min = float(anomaly.min())" in flat(cl_py)
           and "range_max = float(anomaly.max())" in flat(cl_py)
           and "scaling = 1./(range_max - range_min)" in flat(cl_py))
    nb = (len(re.findall(r"if n_bins < 1:\s*raise ValueError", ts_py)) >= 1
          and len(re.findall(r"if n_bins < 1:\s*raise ValueError", cl_py))
          >= 1)
    facts.update(shapes=shapes, range=rng, nbins=nb)
    return obs, facts


def _vcfb_guard(repo):
    src = open(os.path.join(
        repo, "src/pyunicorn/core/resistive_network.py")).read()
    m = re.search(r"def vertex_current_flow_betweenness\(self, i\):(.*?)"
                  r"\n    def ", src, flags=re.S)
    body = re.sub(r'""".*?"""', "", m.group(1), flags=re.S)
    g = re.search(r"if not 0 <= i < self\.N:\s*raise \w+", body)
    c = re.search(r"_vertex_current_flow_betweenness\(\s*self\.N,", body)
    return bool(g and c and g.start() < c.start())


def _justify(repo, tag):
    """the extents assumed above are what the wrappers allocate / pass"""
    if tag in ("vcfb", "ecfb"):
        pyx = open(os.path.join(
            repo, "src/pyunicorn/core/_ext/numerics.pyx")).read()
        py = open(os.path.join(
            repo, "src/pyunicorn/core/resistive_network.py")).read()
        ok = re.search(r"ECFB = \\\s*np\.zeros\(\(N, N\), dtype=FIELD\)", pyx)
        ok = ok and len(re.findall(
            r"self\.N, Is, It,\s*to_cy\(self\.get_admittance\(\), FIELD\), "
            r"to_cy\(self\.get_R\(\), FIELD\)", py)) == 2
        if not ok:
            raise Unsupported("current-flow wrappers do not pass N x N arrays")
    if tag == "spearman":
        pyx = open(os.path.join(
            repo, "src/pyunicorn/climate/_ext/numerics.pyx")).read()
        py = open(os.path.join(
            repo, "src/pyunicorn/climate/rainfall.py")).read()
        ok = re.search(r"spearman_rho = np\.zeros\(\s*\(m, m\), dtype=FIELD\)",
                       pyx)
        ok = ok and re.search(
            r"m, tmax = anomaly\.shape\s*return spearman_corr\(\s*m, tmax, "
            r"to_cy\(final_mask, MASK\), to_cy\(time_series_ranked, FIELD\)\)",
            py)
        ok = ok and re.search(
            r"rank_time_series = anomaly\.argsort\(axis=1\)\.argsort\(axis=1\)"
            r" \+ 1\.0", py)
        if not ok:
            raise Unsupported("Spearman wrapper does not pass m x tmax arrays")


def generate(repo):
    td = _typedef_widths(repo)
    d, overrides = _directives(repo)
    rows = _pointers(repo, td)
    obs = _obligations(repo)
    wobs, wfacts = _walk_obligations(repo)
    n_index = len(obs)
    obs = obs + wobs

    def b(x):
        return "true" if x in (True, "True") else "false"
    out = ["(* GENERATED by translate/c_kernel_access.py *)",
           "From Coq Require Import ZArith List Bool String Lia.",
           "From PV.Proofs Require Import KernelAccess.",
           "Import ListNotations.", "Open Scope string_scope.", "",
           f"Definition gen_boundscheck : bool := {b(d.get('boundscheck'))}.",
           f"Definition gen_wraparound : bool := {b(d.get('wraparound'))}.",
           "Definition gen_overrides : list string := ["
           + "; ".join(f'"{o}"' for o in overrides) + "].",
           "Definition gen_no_raw_pointers_in_pyx : bool := "
           + b(_no_raw_pointers(repo)) + ".", "",
           "(* (wrapper, array, bytes per element: buffer, cast, extern "
           "declaration, C definition; declared C-contiguous) *)",
           "Definition gen_pointers : list (string * (string * (nat * (nat * "
           "(nat * (nat * bool)))))) := ["]
    out.append(";\n".join(
        f'  ("{w}", ("{a}", ({x}%nat, ({y}%nat, ({z}%nat, ({u}%nat, {b(m)}))))))'
        for w, a, x, y, z, u, m in rows))
    out += ["].", "", "Open Scope Z_scope."]
    for name, stmt in obs:
        out.append(f"Definition ob_{name} : Prop := {stmt}.")
    out.append("Definition gen_all_accesses_in_range : Prop :=\n  "
               + " /\\\n  ".join("ob_" + n for n, _ in obs) + ".")
    out.append("Lemma gen_all_accesses_in_range_proof : "
               "gen_all_accesses_in_range.")
    out.append("Proof. unfold gen_all_accesses_in_range. "
               "repeat (apply conj; [kernel_access_tac|]). "
               "kernel_access_tac. Qed.")
    out.append(f"Definition gen_access_count : nat := {n_index}%nat.")
    out.append(f"Definition gen_walk_access_count : nat := {len(wobs)}%nat.")
    for k in ("guarded", "rescaled", "shapes", "range", "nbins"):
        out.append(f"Definition gen_walk_{k} : bool := {b(wfacts[k])}.")
    return "\n".join(out) + "\n"


if __name__ == "__main__":
    print(generate("/repo"))
