"""C19 — distributed computation returns the serial result."""
import math
import sys
import warnings

import numpy as np

import graphs

TRANSLATORS = [("py_mpi_loops", "MpiLoops")]
MODELLED = [
    "Network.newman_betweenness / nsi_newman_betweenness / "
    "nsi_arenas_betweenness: `if mpi.available:` branches (chunk arithmetic, "
    "submit / retrieve loops, reassembly)",
    "utils/mpi.py: submit_call / get_result (per-worker FIFO protocol)",
    "Network._nsi_betweenness: multiprocessing split of the targets",
]

HEADER = """From Coq Require Import List Bool Arith.
From PV.Model Require Import MpiMaster.
Import ListNotations.
Fixpoint eqb_pairs (a b : list (nat * nat)) : bool :=
  match a, b with
  | [], [] => true
  | (x, y) :: a', (u, v) :: b' => Nat.eqb x u && Nat.eqb y v && eqb_pairs a' b'
  | _, _ => false
  end.
Definition check_chunks (c : nat * nat * list (nat * nat)) : bool :=
  let '(N, mp, bounds) := c in eqb_pairs (chunk_bounds N mp) bounds.
"""


def theorems(ctx):
    ctx.modelled += MODELLED
    ctx.generate(TRANSLATORS)
    ctx.theorems()
    if ctx.tier == "thorough":
        ctx.coqchk()


class MPIException(Exception):
    pass


class FakeMPI:
    """utils/mpi.py's master-side protocol with a scheduler the harness
    controls: `pick(id)` chooses the worker; calls run lazily when their
    result is fetched; results travel per-worker FIFO."""

    def __init__(self, n_workers, rng, mode="random"):
        self.available = True
        self.size = n_workers + 1
        self.rank = 0
        self.am_master, self.am_slave = True, False
        self.rng, self.mode = rng, mode
        self.assigned, self.slave_queue = {}, [[] for _ in range(self.size)]
        self.calls = {}
        self.log = []
        self.total_time_est = np.zeros(self.size)
        self.total_time_est[0] = np.inf

    def submit_call(self, name_to_call, args=(), kwargs={},
                    module="__main__", time_est=1, id=None, slave=None):
        if id is None:
            id = self.rng.random()
        if id in self.assigned:
            raise MPIException(f"id {id} already in queue!")
        if slave is None or slave < 1 or slave >= self.size:
            if self.mode == "random":
                slave = self.rng.randint(1, self.size - 1)
            elif self.mode == "one":
                slave = 1
            else:                       # the library's own rule
                slave = int(np.argmin(self.total_time_est))
        self.total_time_est[slave] += time_est
        self.slave_queue[slave].append(id)
        self.assigned[id] = slave
        self.calls[id] = (name_to_call, args, kwargs, module)
        self.log.append(("submit", id, slave, args))
        return id

    def get_result(self, id):
        source = self.assigned[id]          # KeyError if never submitted
        if self.slave_queue[source][0] != id:
            raise MPIException(f"get_result({id}) called before "
                               f"get_result({self.slave_queue[source][0]})!")
        name, args, kwargs, module = self.calls.pop(id)
        fn = eval(name, sys.modules[module].__dict__)
        result = fn(*args, **kwargs)
        self.slave_queue[source].remove(id)
        self.assigned.pop(id)
        self.log.append(("get", id, source))
        return result


def components_graph(rng, sizes):
    n = sum(sizes)
    A = np.zeros((n, n), dtype=int)
    off = 0
    for s in sizes:
        while True:
            B = graphs.random_graph(rng, s, min(1.0, 3.0 / s + 0.2 * rng.random()),
                                    False)
            if s == 1 or graphs.connected(B):
                break
        A[off:off + s, off:off + s] = B
        off += s
    p = list(range(n))
    rng.shuffle(p)
    return A[np.ix_(p, p)]


def gen_cases(ctx):
    rng = ctx.rng
    out = []
    for _ in range(ctx.n(10, 60)):
        k = rng.choice([1, 1, 2, 3])
        sizes = [rng.choice([1, 2, 5, 11, 12, 17, 23, 26, 31]) for _ in range(k)]
        if sum(sizes) < 2:
            sizes.append(12)
        A = components_graph(rng, sizes)
        w = np.array(graphs.weights(rng, len(A)))
        out.append((A, w, sizes))
    if ctx.scale > 1 or ctx.tier == "thorough":
        # components so large that the worker bound (size-1)*10, not 0.1*N,
        # decides the number of chunks
        for s in (105, 113, 230):
            A = components_graph(rng, [s])
            out.append((A, np.array(graphs.weights(rng, s)), [s]))
    return out


MEASURES = [
    ("newman_betweenness", lambda net: net.newman_betweenness()),
    ("nsi_newman_betweenness", lambda net: net.nsi_newman_betweenness()),
    ("nsi_newman_betweenness(add_local_ends)",
     lambda net: net.nsi_newman_betweenness(add_local_ends=True)),
    ("nsi_arenas_betweenness", lambda net: net.nsi_arenas_betweenness()),
    ("nsi_arenas_betweenness(twinness)",
     lambda net: net.nsi_arenas_betweenness(stopping_mode="twinness")),
]


def same(a, b, rtol=1e-9):
    a, b = np.asarray(a, float), np.asarray(b, float)
    return a.shape == b.shape and bool(
        np.all(np.abs(a - b) <= rtol * (1 + np.abs(b))))


def run_case(ctx, A, w, sizes, chunk_terms=None):
    import pyunicorn.core.network as netmod
    from pyunicorn.core.network import Network
    real = netmod.mpi
    rng = ctx.rng
    key = {"A": A.tolist(), "w": w.tolist()}
    n = len(A)
    multi = any(s > 10 for s in sizes)
    ctx.count(key, nontrivial=multi)
    ctx.stat("components=%d" % len(sizes))
    ctx.stat("max_component>10=%s" % multi)
    with warnings.catch_warnings():
        warnings.simplefilter("ignore")
        for mname, call in MEASURES:
            try:
                netmod.mpi = real
                assert not real.available
                serial = call(Network(adjacency=A, node_weights=w,
                                      silence_level=3))
            except Exception:
                ctx.stat("serial_undefined_" + mname)
                continue
            finally:
                netmod.mpi = real
            for silence in ([0, 1, 2, 3] if ctx.tier == "thorough"
                            else [rng.choice([0, 1]), rng.choice([2, 3])]):
                workers = rng.choice([1, 2, 3, n + 1]) if n < 100 \
                    else rng.choice([1, 2])
                mode = rng.choice(["random", "argmin", "one"])
                fake = FakeMPI(workers, rng, mode)
                ctx.stat("workers=%s" % (workers if workers < 4 else "N+1"))
                ctx.stat("silence=%d" % silence)
                ctx.evaluations += 1
                try:
                    netmod.mpi = fake
                    got = call(Network(adjacency=A, node_weights=w,
                                       silence_level=silence))
                except BaseException as e:
                    ctx.violation(
                        f"Network.{mname}", "raises when distributed",
                        dict(key, workers=workers, silence_level=silence,
                             scheduler=mode, err=f"{type(e).__name__}: {e}"),
                        {"kind": "exception"})
                    continue
                finally:
                    netmod.mpi = real
                if not same(got, serial):
                    ctx.violation(
                        f"Network.{mname}",
                        "distributed result differs from the serial result",
                        dict(key, workers=workers, silence_level=silence,
                             scheduler=mode, got=np.asarray(got).tolist(),
                             serial=np.asarray(serial).tolist()), {})
                # chunk bounds the master shipped, per component, for the
                # comparison with the model inside Coq
                if chunk_terms is not None:
                    cur, lastN = [], None
                    for ev in fake.log:
                        if ev[0] != "submit":
                            continue
                        args = ev[3]
                        ints = [a for a in args if isinstance(
                            a, (int, np.integer)) and not isinstance(a, bool)]
                        if mname.startswith("nsi_arenas"):
                            N_, s_, e_ = ints[0], ints[1], ints[2]
                        else:
                            N_, s_, e_ = ints[0], ints[1], ints[2]
                        if ev[1] == 0 and cur:
                            chunk_terms.append((lastN, workers, cur))
                            cur = []
                        cur.append((int(s_), int(e_)))
                        lastN = int(N_)
                    if cur:
                        chunk_terms.append((lastN, workers, cur))
    ctx.sample({"n": n, "component_sizes": sizes})


def kernel_partitions(ctx, A, w):
    """chunk kernels called directly on random contiguous partitions"""
    from pyunicorn.core._ext.numerics import \
        _mpi_newman_betweenness, _mpi_nsi_newman_betweenness, \
        _nsi_betweenness
    from pyunicorn.core._ext.types import ADJ, DFIELD, MASK, DWEIGHT, NODE, \
        DEGREE, to_cy
    from pyunicorn.core.network import Network
    rng = ctx.rng
    n = len(A)
    if not graphs.connected(A) or n < 3:
        return
    key = {"A": A.tolist(), "w": w.tolist()}
    V = np.array([[rng.randint(-8, 8) / 4.0 for _ in range(n)]
                  for _ in range(n)])
    cuts = sorted(set([0, n] + [rng.randint(1, n - 1)
                                for _ in range(rng.randint(1, 3))]))
    full, _, _ = _mpi_newman_betweenness(to_cy(A, ADJ), to_cy(V, DFIELD),
                                         n, 0, n)
    parts = np.zeros(n)
    for s, e in zip(cuts, cuts[1:]):
        r, s2, e2 = _mpi_newman_betweenness(to_cy(A[s:e, :], ADJ),
                                            to_cy(V, DFIELD), n, s, e)
        parts[s2:e2] = r
    ctx.evaluations += 1
    if not same(parts, full):
        ctx.violation("_mpi_newman_betweenness",
                      "chunked kernel differs from the full-range kernel",
                      dict(key, cuts=cuts, V=V.tolist(),
                           got=parts.tolist(), full=np.asarray(full).tolist()),
                      {})
    nae = (1 - A - np.identity(n)).astype(MASK)
    wv = to_cy(w, DWEIGHT)
    full, _, _ = _mpi_nsi_newman_betweenness(
        to_cy(A, ADJ), to_cy(V, DFIELD), n, wv, nae, 0, n)
    parts = np.zeros(n)
    for s, e in zip(cuts, cuts[1:]):
        r, s2, e2 = _mpi_nsi_newman_betweenness(
            to_cy(A[s:e, :], ADJ), to_cy(V, DFIELD), n, wv, nae[s:e, :], s, e)
        parts[s2:e2] = r
    if not same(parts, full):
        ctx.violation("_mpi_nsi_newman_betweenness",
                      "chunked kernel differs from the full-range kernel",
                      dict(key, cuts=cuts, V=V.tolist()), {})
    # the multiprocessing split: array_split of the targets + sum
    net = Network(adjacency=A, node_weights=w, silence_level=3)
    one = net.nsi_betweenness()
    from pyunicorn.core.network import nz_coords
    k = to_cy(net.outdegree(), DEGREE)
    links = nz_coords(net.sp_A)
    fn = to_cy(np.array(links)[:, 1], NODE)
    src = np.ones(n, dtype=MASK)
    tot = np.zeros(n)
    for batch in np.array_split(np.arange(n, dtype=NODE),
                                rng.randint(1, min(n, 5))):
        tot = tot + _nsi_betweenness(n, wv, k, fn, src, to_cy(batch, NODE))
    if not same(tot / w, one):
        ctx.violation("_nsi_betweenness",
                      "sum over target batches differs from one call",
                      dict(key), {})


def correspondence(ctx):
    cases = gen_cases(ctx)
    ctx._cases = cases
    chunks = []
    for A, w, sizes in cases:
        run_case(ctx, A, w, sizes, chunk_terms=chunks)
    terms, meta = [], []
    seen = set()
    for N_, workers, bounds in chunks:
        mp = max(1, int(math.ceil(min(workers * 10.0, 0.1 * N_))))
        k = (N_, mp, tuple(bounds))
        if k in seen:
            continue
        seen.add(k)
        bl = "[" + "; ".join(f"({s}, {e})" for s, e in bounds) + "]"
        terms.append(f"({N_}, {mp}, {bl})")
        meta.append(k)
    # plus the arithmetic alone over a grid of (N, workers)
    for N_ in list(range(1, 60)) + [99, 100, 101, 105, 230, 1000, 1001]:
        for workers in (1, 2, 3, 7):
            mp = max(1, int(math.ceil(min(workers * 10.0, 0.1 * N_))))
            step = int(math.ceil(1.0 * N_ / (1.0 * mp)))
            parts = int(math.ceil(1.0 * N_ / (1.0 * step)))
            bounds = [(i * step, min((i + 1) * step, N_))
                      for i in range(parts)]
            bl = "[" + "; ".join(f"({s}, {e})" for s, e in bounds) + "]"
            terms.append(f"({N_}, {mp}, {bl})")
            meta.append((N_, mp, tuple(bounds)))
    fails = ctx.coq_failing("c19_chunks", HEADER, terms, "check_chunks",
                            chunk=400)
    for i in fails or []:
        ctx.corr("chunk bounds shipped by the master != model", meta[i], None)
    ctx.traces += len(terms)
    ctx.stats["c_chunk_bound_cases"] = len(terms)


def search(ctx):
    ctx.stats["rule"] = (
        "graphs: 1-3 connected components of sizes in {1,2,5,11,12,17,23,26,"
        "31} (several chunks need a component > 10 nodes), shuffled labels, "
        "dyadic weights; the library's mpi module replaced by a stand-in with "
        "1,2,3 or N+1 workers and random / argmin / single-worker assignment; "
        "silence levels 0..3; chunk kernels on random contiguous partitions; "
        "target batches for the multiprocessing split; non-trivial = some "
        "component is cut into more than one chunk")
    cases = getattr(ctx, "_cases", None)
    if cases is None or ctx.scale > 1:
        cases = gen_cases(ctx)
        for A, w, sizes in cases:
            run_case(ctx, A, w, sizes)
    for A, w, sizes in cases:
        for _ in range(2):
            s = ctx.rng.choice([5, 9, 14])
            B = components_graph(ctx.rng, [s])
            kernel_partitions(ctx, B, np.array(graphs.weights(ctx.rng, s)))
    # multiprocessing on: the target set is split over cpu_count() workers,
    # so a lost remainder shows only with more targets than workers and a
    # target count that the worker count does not divide
    from multiprocessing import cpu_count
    from pyunicorn.core.network import Network
    ncpu = cpu_count()
    sizes = [2 * ncpu + 3]
    if ctx.tier == "thorough" or ctx.scale > 1:
        sizes += [9, ncpu + 1, 3 * ncpu - 1]
    for n in sizes:
        A = components_graph(ctx.rng, [n])
        w = np.array(graphs.weights(ctx.rng, n))
        net = Network(adjacency=A, node_weights=w, silence_level=3)
        ctx.evaluations += 1
        ctx.stat("multiprocessing split")
        a = net.nsi_betweenness()
        b = net.nsi_betweenness(parallelize=True)
        if not same(a, b):
            ctx.violation("Network.nsi_betweenness(parallelize=True)",
                          "differs from the serial result",
                          {"A": A.tolist(), "w": w.tolist(),
                           "parallelize": True, "cpus": ncpu}, {})
            break


def replay(ctx, rep):
    c = rep["case"]
    A = np.array(c["A"])
    w = np.array(c["w"])
    if c.get("parallelize"):
        from pyunicorn.core.network import Network
        net = Network(adjacency=A, node_weights=w, silence_level=3)
        if not same(net.nsi_betweenness(),
                    net.nsi_betweenness(parallelize=True)):
            ctx.violation("Network.nsi_betweenness(parallelize=True)",
                          "differs from the serial result", c, {})
    elif "cuts" in c or rep["where"].startswith("_"):
        kernel_partitions(ctx, A, w)
    else:
        run_case(ctx, A, w, [len(A)])
