"""Graph generators and Coq literals shared by C02, C03, C04, C11."""
import itertools

import numpy as np

from common import qlit, blit, listlit


def all_graphs(n, directed=False):
    pairs = [(i, j) for i in range(n) for j in range(n)
             if (i != j if directed else j < i)]
    for bits in itertools.product([0, 1], repeat=len(pairs)):
        A = np.zeros((n, n), dtype=int)
        for (i, j), b in zip(pairs, bits):
            A[i, j] = b
            if not directed:
                A[j, i] = b
        yield A


def random_graph(rng, n, p, directed=False):
    A = np.zeros((n, n), dtype=int)
    for i in range(n):
        for j in range(n):
            if i == j or (not directed and j > i):
                continue
            if rng.random() < p:
                A[i, j] = 1
                if not directed:
                    A[j, i] = 1
    return A


def family(rng, n):
    kind = rng.choice(["path", "star", "clique", "bipartite", "union",
                       "isolated", "cycle"])
    A = np.zeros((n, n), dtype=int)
    if kind == "path":
        for i in range(n - 1):
            A[i, i + 1] = A[i + 1, i] = 1
    elif kind == "cycle":
        for i in range(n):
            A[i, (i + 1) % n] = A[(i + 1) % n, i] = 1 if n > 2 else 0
        if n == 2:
            A[0, 1] = A[1, 0] = 1
    elif kind == "star":
        for i in range(1, n):
            A[0, i] = A[i, 0] = 1
    elif kind == "clique":
        A[:] = 1
        np.fill_diagonal(A, 0)
    elif kind == "bipartite":
        h = max(1, n // 2)
        A[:h, h:] = 1
        A[h:, :h] = 1
    elif kind == "union":
        h = max(1, n // 2)
        A[:h, :h] = 1
        A[h:, h:] = 1
        np.fill_diagonal(A, 0)
    elif kind == "isolated":
        B = random_graph(rng, n - 1, 0.6) if n > 1 else np.zeros((0, 0), int)
        A[:n - 1, :n - 1] = B
    return A, kind


def weights(rng, n):
    return [rng.randint(1, 16) / 8.0 for _ in range(n)]


def attr_matrix(rng, A, symmetric=True, cubes=False, signed=False):
    """link attribute values on the links of A (signed: also negative values,
    e.g. correlations used as link weights)"""
    n = len(A)
    W = np.zeros((n, n))
    for i in range(n):
        for j in range(n):
            if A[i, j] and (not symmetric or j <= i or not A[j, i]):
                k = rng.randint(1, 4)
                if signed and rng.random() < 0.5:
                    k = -k
                W[i, j] = (k ** 3 / 8.0) if cubes else k / 4.0
                if symmetric and A[j, i]:
                    W[j, i] = W[i, j]
    return W


def connected(A):
    n = len(A)
    if n == 0:
        return True
    U = ((A + A.T) > 0)
    seen, stack = {0}, [0]
    while stack:
        u = stack.pop()
        for v in range(n):
            if U[u, v] and v not in seen:
                seen.add(v)
                stack.append(v)
    return len(seen) == n


# ---- Coq literals --------------------------------------------------------

def mat_bool(A):
    return listlit([listlit([blit(bool(v)) for v in row]) for row in A])


def vec_q(w):
    return listlit([qlit(float(v)) for v in w])


def mat_q(W):
    return listlit([vec_q(row) for row in W])


def raw_lit(A, w, attrs=(), groups=()):
    """Coq term `raw_of A w attrs groups`."""
    n = len(A)
    gl = listlit([listlit([blit(i in g) for i in range(n)]) for g in groups])
    al = listlit([mat_q(W) for W in attrs])
    return f"(raw_of {mat_bool(A)} {vec_q(w)} {al} {gl})"


def canon(x):
    """Python value -> nested lists of floats for JSON / comparison."""
    a = np.asarray(x, dtype=float)
    return a.tolist()
