"""Catalogue of n.s.i. measures: Coq term, kind, implementation call.
Shared by C02 (splitting), C04 (relabelling) and C11 (groups)."""
import numpy as np

TW = 2.0          # typical weight used for the corrected variants
TWQ = "(Q2Qc (2#1)%Q)"


def B_of(n):
    return n + 2        # search bound of the distance terms (>= N of the split copy)


# name -> (kind, coq term builder(n, directed), impl(net), applies(directed))
# kind: node | pair | global
def catalogue():
    cat = {}

    def add(name, kind, term, call, when=lambda d: True, connected_only=False):
        cat[name] = dict(kind=kind, term=term, call=call, when=when,
                         connected_only=connected_only)
    und = lambda d: not d           # noqa: E731
    dirg = lambda d: True           # noqa: E731
    add("nsi_degree", "node", lambda n, d: f"(nsi_degree {str(d).lower()})",
        lambda net: net.nsi_degree())
    add("nsi_degree_tw", "node",
        lambda n, d: f"(correct {TWQ} (nsi_degree {str(d).lower()}))",
        lambda net: net.nsi_degree(typical_weight=TW))
    add("nsi_indegree", "node", lambda n, d: "nsi_indegree",
        lambda net: net.nsi_indegree())
    add("nsi_outdegree", "node", lambda n, d: "nsi_outdegree",
        lambda net: net.nsi_outdegree())
    add("nsi_degree_key", "node",
        lambda n, d: f"(nsi_strength {str(d).lower()} 0)",
        lambda net: net.nsi_degree(key="lw"))
    add("nsi_indegree_key", "node", lambda n, d: "(nsi_instrength 0)",
        lambda net: net.nsi_indegree(key="lw"))
    add("nsi_outdegree_key", "node", lambda n, d: "(nsi_outstrength 0)",
        lambda net: net.nsi_outdegree(key="lw"))
    add("nsi_bildegree", "node", lambda n, d: "nsi_bildegree",
        lambda net: net.nsi_bildegree())
    add("nsi_bildegree_tw", "node",
        lambda n, d: f"(correct {TWQ} nsi_bildegree)",
        lambda net: net.nsi_bildegree(typical_weight=TW))
    add("nsi_average_neighbors_degree", "node",
        lambda n, d: "nsi_average_neighbors_degree",
        lambda net: net.nsi_average_neighbors_degree(), und)
    add("nsi_max_neighbors_degree", "node",
        lambda n, d: "nsi_max_neighbors_degree",
        lambda net: net.nsi_max_neighbors_degree(), und)
    add("nsi_local_clustering", "node", lambda n, d: "nsi_local_clustering",
        lambda net: net.nsi_local_clustering(), und)
    add("nsi_local_clustering_tw", "node",
        lambda n, d: f"(nsi_local_clustering_corrected {TWQ})",
        lambda net: net.nsi_local_clustering(typical_weight=TW), und)
    add("nsi_global_clustering", "global", lambda n, d: "nsi_global_clustering",
        lambda net: net.nsi_global_clustering(), und)
    add("nsi_transitivity", "global", lambda n, d: "nsi_transitivity",
        lambda net: net.nsi_transitivity(), und)
    add("nsi_local_soffer_clustering", "node",
        lambda n, d: "nsi_local_soffer_clustering",
        lambda net: net.nsi_local_soffer_clustering(), und)
    add("nsi_twinness", "pair", lambda n, d: "nsi_twinness",
        lambda net: net.nsi_twinness(), und)
    for m in ("cycle", "mid", "in", "out"):
        add(f"nsi_local_{m}motif_clustering", "node",
            lambda n, d, m=m: f"nsi_local_{m}motif_clustering",
            lambda net, m=m: getattr(net, f"nsi_local_{m}motif_clustering")())
        add(f"nsi_local_{m}motif_clustering_key", "node",
            lambda n, d, m=m: f"(nsi_local_{m}motif_clustering_key 1)",
            lambda net, m=m: getattr(
                net, f"nsi_local_{m}motif_clustering")(key="cube"))
        add(f"nsi_local_{m}motif_clustering_tw", "node",
            lambda n, d, m=m: f"(nsi_local_{m}motif_clustering_corrected {TWQ})",
            lambda net, m=m: getattr(
                net, f"nsi_local_{m}motif_clustering")(typical_weight=TW))
    add("nsi_average_path_length", "global",
        lambda n, d: f"(nsi_average_path_length {B_of(n)})",
        lambda net: net.nsi_average_path_length())
    add("nsi_closeness", "node", lambda n, d: f"(nsi_closeness {B_of(n)})",
        lambda net: net.nsi_closeness())
    add("nsi_harmonic_closeness", "node",
        lambda n, d: f"(nsi_harmonic_closeness {B_of(n)})",
        lambda net: net.nsi_harmonic_closeness())
    add("nsi_exponential_closeness", "node",
        lambda n, d: f"(nsi_exponential_closeness {B_of(n)})",
        lambda net: net.nsi_exponential_closeness())
    add("nsi_global_efficiency", "global",
        lambda n, d: f"(nsi_global_efficiency {B_of(n)})",
        lambda net: net.nsi_global_efficiency())
    return cat


# measures without a Coq term: checked directly on the implementation only
def extra_catalogue():
    cat = {}

    def add(name, kind, call, when=lambda d: True, connected_only=False):
        cat[name] = dict(kind=kind, call=call, when=when,
                         connected_only=connected_only)
    und = lambda d: not d           # noqa: E731
    add("nsi_betweenness", "node", lambda net: net.nsi_betweenness(), und)
    add("nsi_arenas_betweenness", "node",
        lambda net: net.nsi_arenas_betweenness(), und, connected_only=True)
    add("nsi_newman_betweenness", "node",
        lambda net: net.nsi_newman_betweenness(), und, connected_only=True)
    add("nsi_spreading", "node", lambda net: net.nsi_spreading(), und)
    add("nsi_eigenvector_centrality", "node",
        lambda net: net.nsi_eigenvector_centrality(), und, connected_only=True)
    add("nsi_laplacian_rowsum", "node",
        lambda net: (net.nsi_laplacian() @ np.ones(net.N)), und)
    return cat


# InteractingNetworks: (kind: nodes1 | global, coq term, impl(net, l1, l2))
def cross_catalogue():
    cat = {}

    def add(name, kind, term, call, connected_only=False, symmetric=False):
        cat[name] = dict(kind=kind, term=term, call=call,
                         connected_only=connected_only)
    add("nsi_cross_degree", "nodes1", lambda n: "nsi_cross_degree",
        lambda net, a, b: net.nsi_cross_degree(a, b))
    add("nsi_cross_mean_degree", "global", lambda n: "nsi_cross_mean_degree",
        lambda net, a, b: net.nsi_cross_mean_degree(a, b))
    add("nsi_cross_edge_density", "global", lambda n: "nsi_cross_edge_density",
        lambda net, a, b: net.nsi_cross_edge_density(a, b))
    add("nsi_cross_local_clustering", "nodes1",
        lambda n: "nsi_cross_local_clustering",
        lambda net, a, b: net.nsi_cross_local_clustering(a, b))
    add("nsi_cross_global_clustering", "global",
        lambda n: "nsi_cross_global_clustering",
        lambda net, a, b: net.nsi_cross_global_clustering(a, b))
    add("nsi_cross_transitivity", "global", lambda n: "nsi_cross_transitivity",
        lambda net, a, b: net.nsi_cross_transitivity(a, b))
    add("nsi_cross_closeness_centrality", "nodes1",
        lambda n: f"(nsi_cross_closeness_centrality {B_of(n)})",
        lambda net, a, b: net.nsi_cross_closeness_centrality(a, b),
        connected_only=True)
    add("nsi_cross_average_path_length", "global",
        lambda n: f"(nsi_cross_average_path_length {B_of(n)})",
        lambda net, a, b: net.nsi_cross_average_path_length(a, b),
        connected_only=True)
    return cat


def build_net(A, w, directed, attrs=None, cls=None):
    from pyunicorn.core.network import Network
    cls = cls or Network
    net = cls(adjacency=np.array(A), directed=directed,
              node_weights=np.array(w, dtype=float), silence_level=3)
    for name, W in (attrs or {}).items():
        net.set_link_attribute(name, np.array(W))
    return net
