"""Per-property manifest texts (MANIFEST.json is generated from this)."""

HOOKS = {
    "guard": "PYUNICORN_VERIF",
    "enable": "no source hooks are needed: checks import /repo/src directly, "
              "load Cython extensions rebuilt from the current sources "
              "(cache keyed by a hash of the _ext sources) and instrument "
              "pyunicorn.core.cache from the harness process",
    "baseline_off_cmd": "cd /repo && /venv/bin/python -m pytest -ra -q -p "
                        "no:cacheprovider --timeout=900 "
                        "--continue-on-collection-errors",
    "source_commits": [],
    "add_only": True,
}

NOTES = ("Every check = T (Coq theorems incl. those over coq/Gen files "
         "regenerated from /repo) + C (model vs implementation, evaluated "
         "inside coqc by vm_compute) + P (the property relation on the "
         "implementation, failing-input search). See DESIGN.md.")

NOT_APPLICABLE = {}

CHECKS = {
 "C08": {
  "text": "Theorems (all sizes, all matrices, all masks): the _line_dist "
          "state machine emits exactly the lines of a cut-at-white-points "
          "specification for every scan geometry; vertical / white / diagonal "
          "histograms are the counts of those lines over rows / sub-diagonals; "
          "black+white lines account for all n*n points; sequential = matrix "
          "mode whenever the kernel's comparison agrees with exact '<', refuted "
          "with a replayable witness while the source compares in binary32. "
          "The loop body, epilogue, geometry functions, wrapper flag table and "
          "C types are regenerated from numerics.pyx on every run and proved "
          "equal to the model; model and implementation are then compared on "
          "all symmetric matrices up to 4x4/5x5 and random series. Scalar RQA "
          "measures: rational model compared to 1e-9 (entropies: direct check "
          "only).",
  "design_ref": "DESIGN.md section 5, C08",
  "note": "trusted: translator pyx_linedist.py (pattern-matches the loop "
          "skeleton, fail-closed), binary32 rounding model Base/F32.v "
          "(validated bit-for-bit against numpy.float32 each run), numpy; "
          "log-based entropies are not modelled in Coq",
  "technique": "Coq proof of kernel refinement + regenerated-source "
               "equivalence lemmas + vm_compute correspondence",
 },
 "C02": {
  "text": "Theorems (all graphs, weights, nodes, proportions, directed or not): "
          "every term of a deep-embedded expression language (sums weighted by "
          "node weights, max over nodes, A+ entries, link attributes, bounded "
          "reachability, group membership, +,-,*,/,min,max) has the same value "
          "on every weighted pullback of the graph; splitted_copy as the code "
          "builds it (adjacency blocks, weights, attribute blocks, twin joins "
          "v's groups) is such a pullback along orig; pullbacks compose "
          "(iterated splits). 41 n.s.i. measures of Network / "
          "InteractingNetworks are defined as terms and proved closed, so "
          "global / per-node / pairwise invariance follows for each. The terms "
          "and the split model are compared with the implementation inside "
          "Coq on exhaustive small graphs and random graphs. Betweenness "
          "family, spreading, eigenvector centrality: no term, direct "
          "split-vs-original comparison on the implementation only (partial). "
          "Tie to the source by translation: translate/py_nsi_terms.py (an "
          "abstract interpreter over the Python ast of core/network.py that "
          "resolves `*` the way scipy.sparse / numpy do for the operand types) "
          "regenerates on every run the expression each of 37 n.s.i. measure "
          "configurations computes (32 algebraic, 5 distance-based), as a "
          "term of a sparse-matrix algebra (Model/MatAlg.v); "
          "Proofs/MatAlgGen.v proves each one denotes its catalogue term "
          "(incl. the uncorrected clustering formula for symmetric loop-free "
          "A) and hence is itself invariant under node splitting with "
          "positive weights and 0 < p < 1; Proofs/DistFn.v proves the "
          "translator's reading of entrywise functions of the distance "
          "matrix (1/D, 2**-D, D with inf overwritten) sound on reflexive "
          "graphs.",
  "design_ref": "DESIGN.md section 5, C02; section 10.2",
  "note": "trusted: for the cross/internal and keyed-cube-root "
          "measures, and for path_lengths() = bounded reachability, that each measure term is the code's formula is "
          "established by correspondence (vm_compute vs implementation, "
          "rtol 1e-9), not by proof; the algebraic measures of Network are "
          "tied by the translator py_nsi_terms.py (trusted: its typing of "
          "`*`, .diagonal(), .sum(), np.repeat, np.maximum; x/0 = 0 stands "
          "for nan/inf); true graph distance = bounded "
          "reachability for bound >= N is validated by correspondence; "
          "igraph distances; float evaluation",
  "technique": "Coq proof: pullback theorem by structural induction + "
               "split_is_pullback + regenerated source expressions denote the "
               "terms; vm_compute correspondence of measure terms",
 },
 "C04": {
  "text": "Theorems (all graphs, weights, attributes, groups, all "
          "permutations given as lists): renumbering as permuted_copy performs "
          "it (sp_A[idx][:, idx], node_weights[idx]) is a weighted pullback "
          "along idx, hence every term of the measure language is invariant "
          "(global) / permuted (per node, per pair) - this covers the 41 "
          "measure terms of C02 and, at unit weights, their unweighted "
          "relatives; unique-pair loops with a symmetric summand do not depend "
          "on the order of the node list (covers the four cross-clustering / "
          "transitivity kernels). The permute model is compared with "
          "permuted_copy inside Coq. All other measures (every public query "
          "of Network found by reflection, InteractingNetworks node-list "
          "methods, ResNetwork measures) are checked directly on the "
          "implementation against rebuilt renumbered objects (partial: no "
          "theorem for igraph-backed, spectral, resistive measures). The "
          "expressions core/network.py computes for its algebraic n.s.i. "
          "measures, regenerated on every run (Gen/NsiTerms.v), are proved to "
          "be permuted with the nodes (per node / per pair) or unchanged "
          "(global).",
  "design_ref": "DESIGN.md section 5, C04; section 10.2",
  "note": "trusted: measure terms = code by correspondence (C02); "
          "independence of the removed row/column in Newman betweenness and "
          "of eigenvector normalisation is checked numerically only",
  "technique": "Coq proof: permute_is_pullback + pullback theorem + "
               "pair_loop_order_free; direct renumbering check on the "
               "implementation",
 },
 "C01": {
  "text": "Theorem (all histories of queries with any argument pattern, "
          "mutations and evictions = any LRU/maxsize policy): a cached method "
          "returns the value for the CURRENT fields provided every mutator in "
          "the history is adequate for it (each field it reads that the "
          "mutator may change is in its key, or the mutator strictly increases "
          "a counter in its key; no counter is ever reset); repeated queries "
          "are equal. The key fields (resolved __cache_state__ through the real "
          "MRO + decorator attrs), read fields (transitive, with constant "
          "propagation of None/True/False arguments) and mutators (writes, "
          "bumps, resets via re-run constructors, and one implicit mutator "
          "per constructor-configuration attribute a cached method reads and "
          "a user may assign directly) of all 28 Cached classes are "
          "regenerated from the source on every run; the boolean adequacy "
          "decision is proved sound and evaluated on them by vm_compute; "
          "every rejected (class, method, mutator) triple must be in a short "
          "justified list. Correspondence: lru_cache statistics and counter "
          "movements of the running objects vs the tables. Search: random "
          "mutator histories on 9 classes, every query compared with two "
          "fresh twins, query order shuffled (13 families incl. "
          "JointRecurrencePlot with identical series, sequential-RQA plots, "
          "Surrogates around a normalisation, ResNetwork topology changes).",
  "design_ref": "DESIGN.md section 5, C01; section 10.2",
  "note": "trusted: translator py_cache_facts.py (static over-approximation "
          "of reads/writes; in-place edits through aliases other than "
          "self.attr / loop variables over self.attr are not seen); hash "
          "collisions of state tuples; hand-rolled caches outside "
          "Cached.method (ResNetwork) are covered by the search only; what a "
          "method computes is abstract (any f with the frame property)",
  "technique": "Coq proof of cache coherence by invariant over histories + "
               "vm_compute adequacy decision on tables regenerated from the "
               "source + fresh-twin differential search",
 },
 "C19": {
  "text": "Theorems (all N >= 1, all max_parts >= 1, all worker counts, all "
          "schedulers): the chunk arithmetic step=ceil(N/max_parts), "
          "parts=ceil(N/step) yields non-empty contiguous chunks covering "
          "[0,N) exactly (so the float expression for max_parts cannot matter "
          "and the break is dead); slice reassembly and sum reassembly over "
          "these chunks equal the serial vector / sum; submitting ids 0..p-1 "
          "to arbitrary workers and retrieving them in that order never "
          "raises and returns each call's own result under per-worker FIFO "
          "delivery (and fails out of order). The skeleton of the three "
          "master loops (canonical arithmetic, unconditional submit_call, "
          "id = index, same range, reassembly kind) and the pool split are "
          "regenerated from network.py on every run and must satisfy "
          "loop_ok. Chunk bounds actually shipped by the running master are "
          "compared with the model inside Coq. Search: the four measures "
          "with the mpi module replaced in-process by a scheduler-controlled "
          "stand-in vs the serial result, chunk kernels on random partitions.",
  "design_ref": "DESIGN.md section 5, C19",
  "note": "trusted: the stand-in implements utils/mpi.py's master-side "
          "protocol (it is not mpi4py); that a chunk kernel's per-row result "
          "does not depend on the chunk it runs in is checked on random "
          "partitions, not proved; multiprocessing pool only in the thorough "
          "tier; rtol 1e-9 for summation order",
  "technique": "Coq proofs (nia chunk arithmetic, chain induction, protocol "
               "invariant) + regenerated loop skeletons + differential runs "
               "under a controlled scheduler",
 },
 "C14": {
  "text": "Theorems (all series, all lengths, any comparison function): the "
          "early-exit while loops of the three kernels compute exactly 'every "
          "intermediate sample passes the test' (natural, horizontal, "
          "missing-value variants); a missing sample blocks every pair across "
          "it and is isolated; adjacency is symmetric; in exact arithmetic "
          "the natural test is 'strictly below the chord', which is invariant "
          "under positive affine maps of values and of times, reads the same "
          "from either end of the chord, and on the time-reversed series is "
          "the test between the mirrored indices; retarded + advanced degree = "
          "degree. The model (comparisons in binary32 like the kernels) is "
          "compared with the implementation's adjacency inside Coq; the "
          "implementation is compared with a rational-arithmetic brute force "
          "and put through the affine / reversal relations. The three kernels (loop ranges, scan start, scan "
          "condition expression by expression, link test, trivial links, "
          "element type of the slopes) are regenerated from numerics.pyx on "
          "every run and proved equal to the model.",
  "design_ref": "DESIGN.md section 5, C14",
  "note": "trusted: kernels transcribed by hand (loop shape tied by "
          "correspondence only); binary32 rounding model Base/F32.v; that "
          "binary32 slopes order like the rationals on the generated data is "
          "checked by the brute-force comparison, not proved; clustering / "
          "closeness / betweenness variants: mirrored-series check only",
  "technique": "Coq proof (loop = forall by induction on fuel; lra/ring "
               "geometry over Q) + vm_compute correspondence + rational "
               "brute force",
 },
 "C07": {
  "text": "Theorems (all series, dimensions, metrics, thresholds, masks): the "
          "recurrence bit is exactly 'distance below threshold, and neither "
          "state missing when missing-value handling is on'; a NaN distance "
          "is never recurrent; the plot is symmetric with unit diagonal for a "
          "positive threshold; the embedding has the stated entries and "
          "length; the rate->threshold rule selects an order statistic of "
          "the sorted distances so that at most floor(rate*(len-1)) distances "
          "are strictly below it (insertion sort proved a sorted permutation); "
          "joint plots with lag of either sign read only inside both plots "
          "and have n-|lag| states, are symmetric, reduce to the product at "
          "lag 0; inter-system matrices are the four stated blocks; a "
          "recurrence network is R without its diagonal. Distance kernels "
          "(NaN semantics per metric, Euclidean through squares), embedding, "
          "quantile, joint, inter-system and network constructions are "
          "compared with the implementation inside Coq. Local rates, adaptive "
          "neighbourhoods (default and shuffled order), cross plots of unequal "
          "lengths and applicability of every RQA method: direct checks only. The three distance kernels and their cross-recurrence "
          "twins (loop ranges, cells, per-dimension update over NaN-able "
          "samples, root) are regenerated from numerics.pyx on every run and "
          "proved equal to the model's state distances.",
  "design_ref": "DESIGN.md section 5, C07",
  "note": "trusted: kernels transcribed by hand; float rounding of "
          "int(rate*(len-1)) avoided by dyadic rates; sqrt monotone; the "
          "adaptive-neighbourhood kernel has no Coq model (partial)",
  "technique": "Coq proofs (order statistics via StronglySorted/Permutation, "
               "index arithmetic) + vm_compute correspondence of 7 "
               "constructions + direct checks",
 },
 "C09": {
  "text": "Theorems (all similarity matrices, thresholds, sizes, setter "
          "sequences): a pair is linked iff the nodes are distinct and the "
          "(damped) similarity is strictly above the threshold; raising the "
          "threshold only removes links; symmetric similarity gives a "
          "symmetric network without loops; damping by a weight in [0,1] only "
          "removes links; with the N diagonal entries equal to the maximum, at "
          "most N*N-1-rank-N off-diagonal entries exceed the threshold chosen "
          "for a requested density and rank+1 > (1-rho)(N*N-N), i.e. the "
          "realised density never exceeds the request (order statistics on a "
          "proved-sorted permutation); the adjacency stays the thresholding of "
          "the current similarity after every setter sequence. Adjacency and "
          "density->threshold are compared with the implementation inside "
          "Coq on matrices with many ties; direct checks of n_links / "
          "link_density / threshold() consistency, tie shortfall, subclasses. The thresholding statements (strict comparison, zeroed "
          "diagonal), the index into the sorted similarities (translated into "
          "Gallina and proved equal to the model's), the damping of non-local "
          "networks and the setters are regenerated from climate_network.py "
          "on every run.",
  "design_ref": "DESIGN.md section 5, C09",
  "note": "trusted: the tanh distance weight is taken from the "
          "implementation's own float expression (the model receives the "
          "damped matrix); float32 storage of |S| (generated values are "
          "exact); the bound on the shortfall by ties is checked, not proved",
  "technique": "Coq proofs (order statistics, lra) + vm_compute "
               "correspondence + direct consistency checks over setter "
               "sequences",
 },
 "C16": {
  "text": "Theorems (all event lists, lags, windows): exchanging the two "
          "sequences exchanges the two directed synchronisation strengths; "
          "a common time shift changes nothing (any lag, any taumax); with an "
          "unbounded window any positive rescaling of time changes nothing; "
          "the double-count correction never removes more than the counted "
          "coincidences (strengths are non-negative); every coincidence count "
          "of the four ECA rates is at most its denominator (rates in [0,1] "
          "when defined). The vectorised ES counting and the static ECA are "
          "modelled on integer time stamps and compared with the "
          "implementation inside Coq by exact integer counts. Matrix assembly "
          "under the six symmetrisations, the three window types of the "
          "instance method, exchange of variables, and value / quantile event "
          "extraction: independent Python references only (partial); ES <= 1 "
          "is checked, not proved. The statements of event_synchronization (distance and "
          "delay arrays, the two coincidence conditions as Gallina, the "
          "double-count loops, counts and norm) are regenerated from "
          "event_series.py on every run and proved equal to the model's.",
  "design_ref": "DESIGN.md section 5, C16",
  "note": "trusted: integer time stamps (float comparisons are exact on "
          "them); counts recovered from the float outputs by multiplying with "
          "the known denominators; int16 event indices (T > 32767) not "
          "exercised",
  "technique": "Coq proofs (double-sum swap, equivariance lemma, nia) + "
               "vm_compute correspondence of integer counts + reference "
               "implementations",
 },
 "C13": {
  "text": "Theorems (all records, cycle lengths incl. those not dividing the "
          "record, all windows): along one axis a sample is exposed iff the "
          "bounds coincide or its coordinate lies in the closed interval; the "
          "windowed observable has exactly as many rows / columns as the time "
          "/ space masks keep; the global window restores the original view; "
          "the anomalies of every phase sum to zero; anomaly + phase mean = "
          "observable sample by sample; anomaly keeps the shape; "
          "phase_indices lists only indices inside the record of the right "
          "phase. Window selection (the code's documented space rule), "
          "anomalies, phase means and phase indices are compared with the "
          "implementation inside Coq; sequences of window changes and both "
          "settings of the `anomalies` flag are checked directly against a "
          "brute-force selection. The window conditions of Data.set_window (when the full "
          "range is taken, the temporal and spatial mask conditions, the "
          "slicing) and the climatology statements of climate_data.py are "
          "regenerated on every run; the masks are proved equal to the model's "
          "(spatial mask under the documented either-pair-of-bounds rule).",
  "design_ref": "DESIGN.md section 5, C13",
  "note": "trusted: float32 storage of grid coordinates (generated values "
          "are exact); float means compared to 1e-9; the per-axis reading of "
          "the window rule is evaluated by the direct check (the model "
          "carries both readings)",
  "technique": "Coq proofs (mask/pick lemmas, field over Q) + vm_compute "
               "correspondence + brute-force window selection",
 },
 "C17": {
  "text": "Theorems (all matrices, all picks, all distance matrices and "
          "tolerances): swapping the end points of two entries keeps every "
          "row sum and every column sum and touches only four cells; hence "
          "one attempt of the cross-link rewiring kernel either retries or "
          "keeps the cross degree of every node of both groups, and one "
          "attempt of the geographical rewiring kernels (models I-III) keeps "
          "the network undirected, loop-free and every degree (so the link "
          "count). The kernels are modelled step by step as functions of the "
          "random picks and compared with the implementation run on the SAME "
          "picks (numpy.random replaced by a recorded stream) inside Coq. "
          "With the library's own random numbers: degrees, cross degrees, "
          "internal blocks, link-length drift, degree pairs (model III), "
          "prescribed link counts (cross-link setting, Barabasi-Albert, "
          "Erdos-Renyi), degree bounds (Configuration), simplicity. The cross-link rewiring kernel (draws, rejection "
          "condition as Gallina, cleared and set cells, update of the link "
          "list) is regenerated from numerics.pyx on every run; a step of the "
          "model is a retry exactly when the generated condition holds.",
  "design_ref": "DESIGN.md section 5, C17",
  "note": "trusted: that the picked edge-list entries are links of the "
          "current matrix is a hypothesis of the step theorems (maintained by "
          "the kernels' edge-list bookkeeping; validated by the same-picks "
          "correspondence); igraph generators / rewire; kernels that never "
          "return because no admissible move exists are run in a forked "
          "child and counted as 'operation not defined'",
  "technique": "Coq proofs (counting via integer sums, case analysis) + "
               "same-random-stream correspondence + invariant checks over "
               "seeds",
 },
 "C11": {
  "text": "Theorems (all graphs, all node lists): a sub-block taken with two "
          "node lists has entry (a,b) = M(list1[a], list2[b]) in the order of "
          "the lists; the unique-pairs loops of the cross-clustering kernels "
          "equal half the full double sum minus the diagonal for symmetric "
          "summands; the connected triples counted by the transitivity kernel "
          "are exactly k(k-1)/2 pairs of cross neighbours (the norm of the "
          "local clustering); cross degree, local cross clustering and cross "
          "transitivity do not depend on the order of either list on "
          "undirected networks. The two kernels are compared with the "
          "implementation inside Coq on exhaustive small graphs and all "
          "bipartitions. 31 cross_* / internal_* methods (incl. link-attribute "
          "and weighted-path variants with zero-length links, directed "
          "degrees) are compared with NumPy definitions on sub-blocks; "
          "compiled vs '_sparse' twins; argument-order symmetry; "
          "whole-network limit. The n.s.i. cross measures are C02's terms. With both groups equal to the whole node set the "
          "cross degree, the triangle count and the cross local clustering "
          "are the degree, the linked neighbour pairs and the local "
          "clustering of Model/GraphDefs.v (which the C03 check compares with "
          "the library inside Coq). The two unweighted kernels (loop nest over unique pairs, "
          "counting conditions, quotient) are regenerated from numerics.pyx "
          "on every run and proved to count what the model counts; the two "
          "n.s.i. kernels and the A + Id their callers pass are matched "
          "statement by statement (fail-closed), proved to compute exactly "
          "the terms nsi_cross_transitivity / nsi_cross_local_clustering of "
          "Model/Measures.v (symmetric reflexive A+, duplicate-free lists), "
          "and their whole-node-set limits are checked on the implementation "
          "with random node weights.",
  "design_ref": "DESIGN.md section 5, C11",
  "note": "trusted: igraph path lengths (the sub-block relation is checked "
          "on them, not their values); most methods have no Coq model "
          "(definitions evaluated in NumPy only: partial)",
  "technique": "Coq proofs (pair-loop algebra over Qc, permutation "
               "invariance) + vm_compute correspondence of the kernels + "
               "NumPy sub-block definitions",
 },
 "C03": {
  "text": "What is logic is proved: the two's-complement wrap model and its "
          "identity on in-range values; for the element widths regenerated "
          "from types.py / types.pxd (which must agree) int16 holds every "
          "degree below 32768; the cliquishness normalisation d(d-1)(d-2)"
          "[(d-3)] fits int32 exactly up to degree 216 and wraps at 217 "
          "(negative at 221); for the CURRENT source the normalisation is "
          "evaluated in double and is exact for every degree (otherwise the "
          "theorem carries the degree-217 witness); with unit node weights "
          "the n.s.i. degree term equals degree + 1; for the textbook "
          "definitions of Model/GraphDefs.v: handshake lemma (degrees add up "
          "to twice the links), local clustering and transitivity lie in "
          "[0,1], the shortest-path distance is attained and minimal, paths "
          "concatenate. The cliquishness kernels and those definitions "
          "(degree, links, local / global clustering, transitivity, average "
          "neighbours degree, path lengths) are compared with the library "
          "inside Coq on exhaustive small graphs. Everything else is "
          "translation validation of the library calls: 26 measures against "
          "direct NumPy / BFS / brute-force definitions on exhaustive small "
          "graphs, random graphs, families and a degree-224 hub; spectral "
          "measures by their defining equations on connected graphs "
          "(partial: no Coq statement for igraph-backed measures).",
  "design_ref": "DESIGN.md section 5, C03",
  "note": "trusted: the definitions are written in Python (NumPy, BFS, "
          "itertools) and are the oracle for most measures; igraph; ARPACK; "
          "closeness follows igraph's reachable-nodes convention",
  "technique": "Coq proofs over regenerated width constants (vm_compute "
               "sweep lifted by forallb, wrap lemma) + definition-vs-"
               "implementation differential check",
 },
 "C05": {
  "text": "Theorems (all sizes): a network rebuilt from the edge list it "
          "reports is the same adjacency (directed or not, edgeless "
          "included); repeated / reversed pairs of an edge list add nothing; "
          "undirected results are symmetric; mean weight * N = total weight; "
          "link density * N(N-1) = number of non-zeros and is 0 for a single "
          "node. Files: the vertex-attribute name save() writes, the name each "
          "of the four Load methods looks up, whether it reads through "
          "Network._read_graph and the alias repairs are regenerated from the "
          "source on every run; with igraph's GML key rule (letters and digits "
          "only, 'igraph' prefix) every loader is proved to find the node "
          "weights in each of graphml / graphmlz / pickle / gml; clean "
          "attribute names survive every format; the GML rule is idempotent. "
          "Correspondence: set_edge_list / FromIGraph / edge-list round trip "
          "and GML keys against igraph, inside Coq. Search: 11 constructor "
          "paths, copy, igraph, link attributes, save+Load of Network, "
          "SpatialNetwork, GeoNetwork, ClimateNetwork in all four formats, "
          "GeoNetwork weight types.",
  "design_ref": "DESIGN.md section 5, C05",
  "note": "trusted: translator py_file_attrs.py (ast, fail-closed); the GML "
          "key rule is igraph's, modelled for ASCII names and validated "
          "against the installed igraph each run; file contents themselves "
          "(igraph writers/readers, pickle, numpy dump/load) are exercised by "
          "the search layer, not modelled",
  "technique": "Coq proofs (edge-list algebra; attribute-name facts "
               "regenerated from the source, decided by vm_compute and lifted "
               "by forallb_forall) + vm_compute correspondence + "
               "constructor-path differential check",
 },
 "C12": {
  "text": "Theorems (all N, all dimensions, all inputs): the angular and the "
          "Euclidean kernel AS WRITTEN IN THE CURRENT numerics.pyx (loop "
          "ranges, written cells, expression with one binary32 rounding per "
          "operation, clamp — regenerated each run) leave in every cell (a,b) "
          "the value of the pair (max a b, min a b): hence exact symmetry; the "
          "cosine handed to arccos is in [-1,1]; the squared self distance is "
          "exactly 0 in any dimension; the caller passes cos/sin of lat/lon in "
          "the kernel's parameter order and N_dim = number of rows. "
          "Rectangular grids enumerate exactly the Cartesian product with the "
          "index formula (2-D) and have product size (any dimension); argmin "
          "returns the first index of a minimum; area weighted connectivity * "
          "total weight = n.s.i. degree - own weight. Accuracy, cosine domain: "
          "the rounding model has relative error at most 2^-24 per operation "
          "for every rational (proved for Base/F32), hence for trigonometric "
          "inputs in [-1,1] the cosine handed to arccos is within 16 * 2^-24 "
          "of the exact great-circle expression on the same inputs, and "
          "clamping never moves it away from a value in [-1,1]; the "
          "accumulated sum of squares of the Euclidean kernel is within "
          "(d + 4) * 2^-23 relative of the exact sum in d dimensions. "
          "Correspondence inside "
          "Coq: the kernel's cosine matrix bit-for-bit; Euclidean roots "
          "bracket the model's rounded sum of squares; rect grids up to 4-D; "
          "argmin. Search: float64 closed forms (atan2 form) on poles, "
          "antimeridian, coincident, nearly coincident and antipodal pairs; "
          "2^-10 absolute and 40u/sin(angle) bounds, range, triangle "
          "inequality, lookups, RegularGrid, weights. The angle-domain error "
          "bounds (after arccos, and the error of numpy's sin / cos of the "
          "coordinates) and the triangle inequality are checked numerically "
          "only (partial: no Coq statement about arccos).",
  "design_ref": "DESIGN.md section 5, C12",
  "note": "trusted: translator pyx_grid.py (ast over the two kernels and "
          "their callers, fail-closed); binary32 model Base/F32.v (normal "
          "range); powf(x, 0.5) is a parameter of the model; numpy "
          "sin/cos/arccos/meshgrid/argmin",
  "technique": "Coq proofs over kernels regenerated from the source "
               "(triangular-fill theorem, clamp, exact-zero lemma) + "
               "bit-exact vm_compute correspondence + closed-form search",
 },
 "C18": {
  "text": "Theorems (every n, every network with symmetric non-negative "
          "conductances, every pseudo-inverse R with R L = L R = I - J/n; "
          "'connected' = every node reachable from every node along links of "
          "non-zero conductance): effective resistance R_aa - R_ab - R_ba + "
          "R_bb is symmetric and zero on the diagonal; it equals the "
          "potential drop of ANY solution of Kirchhoff's equations for a unit "
          "current (hence does not depend on which pseudo-inverse was "
          "computed) and the dissipated energy 1/2 sum c_ij (v_i - v_j)^2, so "
          "it is non-negative; on connected networks it vanishes only "
          "between identical nodes; maximum principle (the potential is "
          "highest at the source), from which the TRIANGLE INEQUALITY, the "
          "single-link bound c_ab * eff(a,b) <= 1 and Rayleigh's path bound "
          "(eff never exceeds the resistance of any connecting path, by "
          "induction over the path) follow; linear scaling with the "
          "resistances (Laplacian / k, pseudo-inverse * k); series and "
          "parallel laws for all non-zero symbolic resistances; Foster's "
          "theorem; a two-node instance shows the hypotheses are satisfiable. "
          "The two C current-flow routines, regenerated from src_numerics.c "
          "as Gallina sums, equal the defining sums for every N; the state "
          "machine with the update_R-resets flag read from the source answers "
          "every query after any history of updates from the current "
          "resistances (refuted with a witness when the flag is off). "
          "Correspondence inside Coq: the pinv specification on exact "
          "Fractions inverses, both C routines on the binary32 arrays they "
          "receive, histories of update / average / diameter / eff.",
  "design_ref": "DESIGN.md section 5, C18",
  "note": "trusted: translator c_resistive.py (regex skeleton + ast "
          "expressions, fail-closed); numpy.linalg.pinv is tied to the "
          "is_pinv specification only numerically (1e-8) per instance; "
          "double accumulation in C is compared at 1e-8 / 1e-6",
  "technique": "Coq proofs (sum algebra over Qc: potential-drop "
               "characterisation, Foster, scaling; C routines regenerated "
               "and proved equal to the definitions; invariant by induction "
               "over histories) + vm_compute correspondence + exact-"
               "Fractions Kirchhoff reference search",
 },
 "C10": {
  "text": "What is logic is proved: the running maximum of the cross-"
          "correlation kernel AS WRITTEN IN THE CURRENT numerics.pyx (slices "
          "multiplied, strict |c| > |max| tie rule, lag = tau_max - argmax, "
          "'all' entries stored at tau_max - tau — regenerated each run) "
          "returns a lag in [0, tau_max], a value equal to the 'all'-mode "
          "entry at that lag and of maximal absolute value over the lag "
          "function; reordering the series reorders the result; lags are "
          "stored exactly while tau_max fits the lag matrix' width read from "
          "types.py (refuted beyond: 200 -> -56 for int8, a known finding); "
          "symmetrize_by_absmax is symmetric, lag-antisymmetric and keeps the "
          "entry of larger absolute value; squared Pearson correlation is "
          "symmetric and affine invariant, the covariance sign follows "
          "sign(a c), and cov^2 <= var * var for series of any length "
          "(Cauchy-Schwarz through Lagrange's identity: |r| <= 1). "
          "Correspondence inside Coq: both kernels on the "
          "standardised binary32 arrays they receive, symmetrize. Everything "
          "numerical is translation validation against float64 references "
          "(partial: no Coq statement about log, quantile binning, QR, "
          "inverse matrices or the C histograms): lagged Pearson, Gaussian "
          "MI, binned MI, Gaussian information transfer (ity / mit, both lag "
          "modes), climate similarity classes, surrogate test matrices, "
          "compiled vs pure-Python at lag 0. knn estimators are not compared "
          "(random tie-breaking noise inside).",
  "design_ref": "DESIGN.md section 5, C10",
  "note": "trusted: translator pyx_coupling.py (ast, fail-closed); numpy / "
          "scipy references; tolerances 2e-6 (correlations), 1e-4 relative "
          "(information measures); windows with (nearly) constant or "
          "collinear series are skipped as undefined",
  "technique": "Coq proofs over kernels regenerated from the source "
               "(running-maximum invariant, wrap lemma, symmetrisation, "
               "Pearson algebra over Qc) + vm_compute correspondence + "
               "reference-statistic differential check",
 },
 "C15": {
  "text": "Theorems: for ANY rank vector that is a permutation of 0..n-1 the "
          "AAFT / refined-AAFT 'true amplitudes' row is a permutation of the "
          "data row; multiplying the memoised spectrum by unit phases keeps "
          "every squared amplitude after any number of calls on one object; "
          "the twin lists built by the kernel's search loop contain exactly "
          "the states separated by more than min_dist with identical "
          "recurrence rows and more than one neighbour, and twins come in "
          "pairs; for every stream of random numbers in [0,1) and every "
          "length a twin walk visits only original states and every step "
          "goes to the successor of the current state or of one of its twins "
          "(or restarts inside the series when that successor is past the "
          "end). The four twin kernels and their callers are matched "
          "statement by statement against the model on every run (the "
          "translator fails closed). Hypotheses kept explicit: argsort of "
          "argsort is a permutation (checked per instance), rfft / irfft "
          "round trip (numerical, search layer). Correspondence inside Coq: "
          "twin lists of Surrogates and RecurrencePlot, twin walks replayed "
          "with the recorded stream of random numbers.",
  "design_ref": "DESIGN.md section 5, C15",
  "note": "trusted: translator pyx_twins.py (statement-level comparison "
          "with the modelled kernels, fail-closed); Python's random module "
          "is replaced by a recording stream inside the harness process; "
          "numpy FFT; amplitude spectra compared at 1e-8",
  "technique": "Coq proofs (permutation of rank remapping, modulus of "
               "complex products by induction over calls, membership "
               "characterisation of the twin search, invariants of the twin "
               "walk by induction over steps for all oracle streams) + "
               "vm_compute correspondence + exact multiset / spectrum search",
 },
 "C06": {
  "text": "Model: memoised values are cells of a store handed out by "
          "reference; a query reads the store, answers, and may leave an "
          "edit. Theorems: after ANY sequence of queries that leave the "
          "cells as they found them every query answers as on the untouched "
          "object, and repeating a query gives an equal value; the library's "
          "save / restore idiom is pure; an edit that is not undone is seen "
          "by a later reader (witness). Tied to the source by an alias "
          "analysis over every function of src/pyunicorn (regenerated each "
          "run): in the current tree no function leaves an in-place edit of "
          "a memoised value behind, no public function edits a caller's "
          "array without documenting it, and to_cy always copies "
          "(vm_compute over the regenerated table). Correspondence: every "
          "array handed out during the query sequences is snapshotted and "
          "re-compared after every later query (47 000 comparisons in the "
          "quick tier); an edit observed at run time that the table does not "
          "list breaks the correspondence. Search: all orders sampled on 11 "
          "object families against fresh objects, 41 caller-array scenarios, "
          "six climate classes on one shared ClimateData.",
  "design_ref": "DESIGN.md section 5, C06",
  "note": "trusted: the alias analysis py_purity_facts.py (views vs copies "
          "by syntactic rules; unknown calls are taken as non-editing; "
          "edits of object attributes are not tracked) — its misses are what "
          "the run-time snapshots are for; purity of a function is read off "
          "the table, not proved from Python semantics",
  "technique": "Coq proofs (noninterference by induction over query "
               "sequences in a store model; regenerated edit table decided "
               "by vm_compute) + run-time snapshot correspondence + "
               "fresh-object differential search",
 },
 "C20": {
  "text": "What can be decided from the sources is proved over facts "
          "regenerated on every run: the Cython directives of setup.py are "
          "boundscheck=True / wraparound=False, no header, decorator or "
          "with-block of the four .pyx files overrides them, and outside the "
          "extern declarations no .pyx file declares a pointer, takes an "
          "address or calls an allocator; in the model of such a buffer every "
          "access yields a value from inside it or an IndexError, including "
          "the loops that index before testing the bound; at each of the 24 "
          "raw-pointer hand-overs the element widths of buffer, cast, extern "
          "declaration and C definition agree; all 63 accesses of the C "
          "routines are inside the extents the wrappers pass, for all sizes: "
          "35 of the index-addressed routines (current-flow betweenness x2, "
          "Spearman correlation) and 28 of the pointer-walking ones "
          "(surrogate test matrices, histogram mutual information x2), whose "
          "induction variables and pointer offsets are resolved by an "
          "abstract interpreter and checked inductively (one fixed tactic; a "
          "false obligation does not compile); the bin number written by the "
          "guarded symbolisation is a valid column for NaN, +inf and every "
          "non-negative sample (witness of escape without the guard); the "
          "wrappers allocate those extents, take range and scaling from the "
          "data and reject n_bins < 1. Not proved (partial): the Cython-"
          "generated C, overflow of int index products, alloca stack size, "
          "uninitialised reads. Correspondence / search: an AddressSanitizer "
          "+ UBSan build of the current tree is driven through the public "
          "API over shape grids (empty, single sample, N > T, mismatching "
          "shapes, NaN / constant data, n_bins <= 0, out-of-range node "
          "indices) in child processes; a report or crash is the failing "
          "input, and a report inside a routine whose obligations are proved "
          "breaks the correspondence.",
  "design_ref": "DESIGN.md section 5, C20",
  "note": "trusted: translators c_kernel_access.py / c_pointer_walk.py "
          "(regex / brace-matching reader and recursive-descent parser of "
          "the C subset, affine abstract domain; extents justified by "
          "pattern checks of the wrappers), LP64 widths of int / long, gcc's sanitizer runtime, "
          "numpy's allocator (small blocks are cached, which can hide an "
          "overflow between two live arrays); geo-model rewiring kernels are "
          "not driven (they may not return)",
  "technique": "Coq proofs over regenerated directive / pointer-width / "
               "index-range facts (nia, vm_compute) + sanitizer-instrumented "
               "build driven over shape grids",
 },
}
