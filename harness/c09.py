"""C09 — similarity networks link exactly the pairs above the threshold."""
import warnings

import numpy as np

from common import qlit, blit, listlit

MODELLED = [
    "ClimateNetwork._calculate_threshold_adjacency / "
    "_calculate_non_local_adjacency / threshold_from_link_density / "
    "set_threshold / set_link_density / set_non_local",
]

HEADER = """From Coq Require Import QArith List Bool Arith ZArith.
From PV.Base Require Import F32.
From PV.Model Require Import Recurrence Threshold.
Import ListNotations.
Fixpoint eqlb (a b : list bool) : bool :=
  match a, b with [], [] => true | x :: a', y :: b' => Bool.eqb x y && eqlb a' b' | _, _ => false end.
Fixpoint eqmb (a b : list (list bool)) : bool :=
  match a, b with [], [] => true | x :: a', y :: b' => eqlb x y && eqmb a' b' | _, _ => false end.
(* (damped) similarity, threshold, adjacency *)
Definition check_adj (c : list (list Q) * Q * list (list bool)) : bool :=
  let '(Sm, thr, A) := c in
  let n := length Sm in eqmb (mat n n (adj (qnth2 Sm) thr)) A.
(* flat similarity, requested density, n, threshold *)
Definition check_dens (c : list Q * Q * nat * Q) : bool :=
  let '(flat, rho, n, thr) := c in Qeq_bool (threshold_of_density flat rho n) thr.
"""


TRANSLATORS = [('py_threshold_facts', 'ThresholdK')]


def theorems(ctx):
    ctx.modelled += MODELLED
    ctx.generate(TRANSLATORS)
    ctx.theorems()
    if ctx.tier == "thorough":
        ctx.coqchk()


def grid(rng, n):
    from pyunicorn.core.geo_grid import GeoGrid
    lat = np.array([float(rng.randrange(-85, 86, 5)) for _ in range(n)])
    lon = np.array([float(rng.randrange(-175, 176, 5)) for _ in range(n)])
    return GeoGrid(np.arange(4), lat, lon, silence_level=3)


def similarity(rng, n, kind):
    S = np.zeros((n, n))
    vals = [k / 16.0 for k in range(0, 16)]
    for i in range(n):
        for j in range(n):
            if j < i or kind == "asym":
                S[i, j] = rng.choice(vals)
                if kind != "asym":
                    S[j, i] = S[i, j]
    if kind in ("corr", "asym"):
        np.fill_diagonal(S, 1.0)
    elif kind == "zerodiag":
        np.fill_diagonal(S, 0.0)
    elif kind == "signed":
        S = S * np.where(np.array([[rng.random() < 0.5 for _ in range(n)]
                                   for _ in range(n)]), 1, -1)
        S = np.triu(S, 1) + np.triu(S, 1).T
        np.fill_diagonal(S, 1.0)
    return S


def gen(ctx):
    rng = ctx.rng
    out = []
    for _ in range(ctx.n(80, 600)):
        n = rng.randint(2, 9)
        kind = rng.choice(["corr", "corr", "signed", "zerodiag", "asym",
                           "undefined", "asym_undirected"])
        if kind == "asym_undirected":
            # an asymmetric similarity (a directed measure such as a
            # correlation strength) handed to an undirected network
            out.append({"S": similarity(rng, n, "asym"), "kind": kind,
                        "grid": grid(rng, n), "directed": False,
                        "ops": [rng.choice(["thr", "nl", "thr", "same"])
                                for _ in range(rng.randint(1, 5))]})
            continue
        if kind == "undefined":
            # the similarity of a constant series (a masked grid point) with
            # anything is undefined: nan entries never exceed a threshold
            S = similarity(rng, n, "corr")
            k = rng.randrange(n)
            S[k, :] = S[:, k] = np.nan
            S[k, k] = rng.choice([1.0, np.nan])
            out.append({"S": S, "kind": kind, "grid": grid(rng, n),
                        "directed": False,
                        "ops": [rng.choice(["thr", "nl", "thr"])
                                for _ in range(rng.randint(1, 5))]})
            continue
        out.append({"S": similarity(rng, n, kind), "kind": kind,
                    "grid": grid(rng, n),
                    "directed": kind == "asym",
                    "ops": [rng.choice(["thr", "dens", "nl", "thr", "dens"])
                            for _ in range(rng.randint(1, 5))]})
    return out


def damped(net, non_local=None):
    """|similarity|, damped by distance iff the network is non-local; the
    flag is the one the history of set_non_local calls implies when given"""
    S = net.similarity_measure()
    if (net.non_local() if non_local is None else non_local):
        return S * (0.5 * (np.tanh(20 * (net.grid.angular_distance() - 0.05))
                           + 1))
    return S


def ql(v):
    return qlit(float(v))


def mq(M):
    return listlit([listlit([ql(v) for v in r]) for r in M])


def bm(A):
    return listlit([listlit([blit(bool(v)) for v in r]) for r in A])


def run_case(ctx, c, terms=None):
    from pyunicorn.climate.climate_network import ClimateNetwork
    rng = ctx.rng
    S, n = c["S"], len(c["S"])
    key = {"S": S.tolist(), "kind": c["kind"], "ops": list(c["ops"])}
    ctx.count(key, nontrivial=n >= 3)
    ctx.stat("kind=" + c["kind"])
    with warnings.catch_warnings():
        warnings.simplefilter("ignore")
        thr0 = rng.randint(0, 16) / 16.0
        try:
            net = ClimateNetwork(c["grid"], S, threshold=thr0,
                                 directed=c["directed"], silence_level=3)
        except Exception as e:
            ctx.violation("ClimateNetwork", "raises", dict(
                key, err=f"{type(e).__name__}: {e}"), {"kind": "exception"})
            return
        absS = np.abs(S.astype("float32"))
        diag_max = bool(np.all(np.diag(absS)[:, None] >= absS - 0.0)
                        and np.all(np.diag(absS) == absS.max()))
        steps = [("init", thr0)] + [(o, None) for o in c["ops"]]
        prevA, prevthr, prevnl = None, None, None
        nl_flag = False           # what the set_non_local calls imply
        for op, _ in steps:
            req = None
            try:
                if op == "thr":
                    net.set_threshold(rng.randint(0, 16) / 16.0)
                elif op == "dens":
                    req = rng.randint(0, 64) / 64.0
                    net.set_link_density(req)
                elif op == "nl":
                    nl_flag = not nl_flag
                    net.set_non_local(nl_flag)
                elif op == "same":       # the current threshold once more
                    net.set_threshold(float(net.threshold()))
            except Exception as e:
                ctx.violation(f"ClimateNetwork.{op}", "raises", dict(
                    key, err=f"{type(e).__name__}: {e}"),
                    {"kind": "exception"})
                return
            ctx.stat("op=" + op)
            A = np.asarray(net.adjacency).astype(int)
            thr = float(net.threshold())
            if bool(net.non_local()) is not nl_flag:
                ctx.violation("ClimateNetwork.non_local",
                              "is not what the set_non_local calls so far "
                              "imply", dict(key, after=op, expected=nl_flag),
                              {})
                return
            W = damped(net, nl_flag)
            want = (W > thr).astype(int)
            np.fill_diagonal(want, 0)
            k2 = dict(key, after=op, threshold=thr,
                      non_local=bool(net.non_local()))
            if not np.array_equal(A, want):
                ctx.violation("ClimateNetwork.adjacency",
                              "is not (damped |similarity| > threshold) off "
                              "the diagonal", k2, {})
            nl = int(A.sum()) // (1 if c["directed"] else 2)
            if net.n_links != nl or abs(
                    net.link_density - A.sum() / float(n * (n - 1))) > 1e-12:
                ctx.violation("ClimateNetwork.n_links / link_density",
                              "disagree with the adjacency",
                              dict(k2, n_links=int(net.n_links),
                                   density=float(net.link_density)), {})
            if not c["directed"] and c["kind"] != "asym_undirected" \
                    and not np.array_equal(A, A.T):
                ctx.violation("ClimateNetwork.adjacency",
                              "asymmetric for a symmetric similarity", k2, {})
            if req is not None and not net.non_local():
                realised = A.sum() / float(n * (n - 1))
                flat = np.sort(absS.flatten())
                ties = int((absS[~np.eye(n, dtype=bool)] == thr).sum())
                if realised > req + 1e-12:
                    ctx.violation(
                        "ClimateNetwork.set_link_density",
                        "realised density exceeds the request",
                        dict(k2, requested=req, realised=float(realised)),
                        {"diagonal_is_maximum": diag_max})
                elif (req - realised) * n * (n - 1) > ties + 1 + 1e-9 \
                        and diag_max:
                    ctx.violation(
                        "ClimateNetwork.set_link_density",
                        "misses the request by more than the tied pairs",
                        dict(k2, requested=req, realised=float(realised),
                             ties=ties), {})
                if terms is not None:
                    terms["dens"].append(
                        f"({listlit([ql(v) for v in absS.flatten()])}, "
                        f"{ql(req)}, {n}%nat, {ql(thr)})")
                    terms["dens_meta"].append(k2)
            if prevA is not None and op == "thr" and prevnl == net.non_local():
                if thr >= prevthr and np.any(A > prevA):
                    ctx.violation("ClimateNetwork.set_threshold",
                                  "raising the threshold added a link", k2, {})
            prevA, prevthr, prevnl = A, thr, net.non_local()
            if terms is not None and not np.isnan(W).any():
                terms["adj"].append(f"({mq(W)}, {ql(thr)}, {bm(A)})")
                terms["adj_meta"].append(k2)
    ctx.sample({"n": n, "kind": c["kind"], "ops": c["ops"]})


def subclasses(ctx):
    """classes that derive the similarity from data enter through their own
    similarity_measure()"""
    from pyunicorn.climate.climate_data import ClimateData
    from pyunicorn.climate.tsonis import TsonisClimateNetwork
    from pyunicorn.climate.spearman import SpearmanClimateNetwork
    from pyunicorn.climate.mutual_info import MutualInfoClimateNetwork
    rng = ctx.rng
    with warnings.catch_warnings():
        warnings.simplefilter("ignore")
        for _ in range(ctx.n(6, 40)):
            n, T = rng.randint(3, 6), 24
            obs = np.array([[rng.randint(-8, 8) / 4.0 for _ in range(n)]
                            for _ in range(T)]) + \
                np.sin(np.arange(T))[:, None] * np.arange(1, n + 1)[None, :]
            g = grid(rng, n)
            from pyunicorn.core.geo_grid import GeoGrid
            lat, lon = np.array(g.lat_sequence(), float), \
                np.array(g.lon_sequence(), float)
            # some neighbours a few degrees apart: inside the range where the
            # non-local damping matters
            for k in range(1, n):
                if rng.random() < 0.5:
                    lat[k] = np.clip(lat[k - 1] + rng.choice([-2, 1, 3]),
                                     -88, 88)
                    lon[k] = lon[k - 1] + rng.choice([-3, 0, 2])
            g = GeoGrid(np.arange(T), lat, lon, silence_level=3)
            # MutualInfoClimateNetwork cannot be constructed at all on this
            # tree: mutual_information() opens its dump file in text mode and
            # pickles into it (TypeError), see DESIGN.md "other observations"
            for cls in (TsonisClimateNetwork, SpearmanClimateNetwork):
                data = ClimateData(obs.copy(), g, time_cycle=12,
                                   silence_level=3)
                try:
                    net = cls(data, threshold=0.3, winter_only=False,
                              silence_level=3)
                    state = {"nl": False}

                    def flip():
                        state["nl"] = not state["nl"]
                        net.set_non_local(state["nl"])
                    ops = [lambda: net.set_threshold(rng.randint(1, 9) / 10.),
                           lambda: net.set_link_density(
                               rng.randint(1, 9) / 10.),
                           flip,
                           lambda: net.set_winter_only(
                               not net.winter_only())]
                    for _ in range(4):
                        rng.choice(ops)()
                        A = np.asarray(net.adjacency).astype(int)
                        if bool(net.non_local()) is not state["nl"]:
                            ctx.violation(
                                f"{cls.__name__}.non_local",
                                "is not what the set_non_local calls so far "
                                "imply", {"obs": obs.tolist(),
                                          "lat": g.lat_sequence().tolist(),
                                          "lon": g.lon_sequence().tolist(),
                                          "expected": state["nl"]}, {})
                            break
                        W = damped(net, state["nl"])
                        want = (W > net.threshold()).astype(int)
                        np.fill_diagonal(want, 0)
                        ctx.evaluations += 1
                        if not np.array_equal(A, want):
                            ctx.violation(
                                f"{cls.__name__}.adjacency",
                                "is not (damped |similarity| > threshold)",
                                {"obs": obs.tolist(),
                                 "threshold": float(net.threshold()),
                                 "non_local": bool(net.non_local())}, {})
                            break
                except Exception as e:
                    ctx.violation(cls.__name__, "raises",
                                  {"obs": obs.tolist(),
                                   "err": f"{type(e).__name__}: {e}"},
                                  {"kind": "exception"})


def correspondence(ctx):
    cases = gen(ctx)
    terms = {"adj": [], "adj_meta": [], "dens": [], "dens_meta": []}
    st = ctx.rng.getstate()
    for c in cases:
        run_case(ctx, c, terms)
    ctx._done = True
    for k, fn in (("adj", "check_adj"), ("dens", "check_dens")):
        fails = ctx.coq_failing("c09_" + k, HEADER, terms[k], fn, chunk=200)
        for i in fails or []:
            ctx.corr(f"threshold model != implementation ({k})",
                     terms[k + "_meta"][i], None)
        ctx.traces += len(terms[k])
        ctx.stats["c_" + k] = len(terms[k])


def search(ctx):
    ctx.stats["rule"] = (
        "similarity matrices n=2..9 with values k/16 (many ties): correlation-"
        "like (unit diagonal), signed, zero diagonal, asymmetric/directed; "
        "random geographic grids; sequences of 1-5 set_threshold / "
        "set_link_density / set_non_local calls with every state checked; "
        "data-derived subclasses (Tsonis, Spearman, MutualInfo) with "
        "set_winter_only; non-trivial = at least 3 nodes; distinct by hash of "
        "(matrix, kind, operations)")
    if not getattr(ctx, "_done", False) or ctx.scale > 1:
        for c in gen(ctx):
            run_case(ctx, c)
    subclasses(ctx)


def replay(ctx, rep):
    c = rep["case"]
    if "S" in c:
        S = np.array(c["S"])
        run_case(ctx, {"S": S, "kind": c.get("kind", "replay"),
                       "grid": grid(ctx.rng, len(S)),
                       "directed": c.get("kind") == "asym",
                       "ops": c.get("ops", ["thr", "dens", "nl"])})
    else:
        subclasses(ctx)
