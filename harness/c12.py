"""C12 — grid distances equal closed-form geometry and are metrics."""
import itertools
import math
import warnings

import numpy as np

import graphs
from common import qlit, listlit

TRANSLATORS = [("pyx_grid", "GridK")]
MODELLED = [
    "core/_ext/numerics.pyx: _calculate_angular_distance, "
    "_calculate_euclidean_distance (loop ranges, cells, expression with a "
    "binary32 rounding per operation, clamp) — regenerated",
    "core/geo_grid.py: argument order of the angular kernel call, cos/sin "
    "sequences; core/grid.py: euclidean_distance caller — regenerated",
    "Grid.coord_sequence_from_rect_grid (meshgrid + flatten('F')), argmin of "
    "node_number, GeoNetwork.(in/out)area_weighted_connectivity",
]

HEADER = """From Coq Require Import ZArith QArith List Bool Arith.
From PV.Model Require Import Grid.
Import ListNotations.
Definition check_argmin (c : list Q * nat) : bool := Nat.eqb (argmin (fst c)) (snd c).
"""
U = 2.0 ** -24
TOL_ABS = 2.0 ** -10


def theorems(ctx):
    ctx.modelled += MODELLED
    ctx.generate(TRANSLATORS)
    ctx.theorems()
    if ctx.tier == "thorough":
        ctx.coqchk()


def ql(v):
    return listlit([qlit(float(x)) for x in v])


def qm(M):
    return listlit([ql(r) for r in M])


# --------------------------------------------------------------------------
# coordinate generators
# --------------------------------------------------------------------------

def coords(rng, n, kind=None):
    """(lat, lon) float32 arrays with poles, antimeridian, coincident and
    antipodal pairs mixed in"""
    kind = kind or rng.choice(["random", "special", "grid", "cluster",
                               "antipodal"])
    lat = np.array([rng.uniform(-90, 90) for _ in range(n)])
    lon = np.array([rng.uniform(-180, 180) for _ in range(n)])
    if kind in ("special", "antipodal"):
        for k in range(0, n - 1, 2):
            c = rng.random()
            if c < 0.4 or kind == "antipodal":        # antipodal pair
                if rng.random() < 0.5:
                    lat[k] = float(rng.choice([4, 12, 38, 86, 0, 45, 60, 90,
                                               rng.randint(-89, 89)]))
                lat[k + 1] = -lat[k]
                lon[k + 1] = lon[k] + 180 if lon[k] <= 0 else lon[k] - 180
            elif c < 0.6:                              # coincident
                lat[k + 1], lon[k + 1] = lat[k], lon[k]
            elif c < 0.7:
                lat[k], lat[k + 1] = 90.0, -90.0
            elif c < 0.8:                              # antimeridian
                lon[k], lon[k + 1] = 180.0, -180.0
                lat[k + 1] = lat[k]
            elif c < 0.9:                              # very close
                lat[k + 1] = lat[k] + rng.uniform(-1e-3, 1e-3)
                lon[k + 1] = lon[k] + rng.uniform(-1e-3, 1e-3)
    elif kind == "grid":
        lat = np.array([float(rng.randrange(-90, 91, 5)) for _ in range(n)])
        lon = np.array([float(rng.randrange(-180, 181, 5)) for _ in range(n)])
    elif kind == "cluster":
        lat = lat[0] * 0.9 + np.array([rng.uniform(-0.5, 0.5)
                                       for _ in range(n)])
        lon = lon[0] * 0.9 + np.array([rng.uniform(-0.5, 0.5)
                                       for _ in range(n)])
    lat = np.clip(lat, -90, 90)
    return lat.astype(np.float32), lon.astype(np.float32), kind


def exact_angle(lat, lon):
    """float64 closed form (atan2 form, accurate at 0 and pi) from the
    coordinates the grid stores"""
    la = np.radians(lat.astype(np.float64))[:, None]
    lo = np.radians(lon.astype(np.float64))[:, None]
    lb, lob = la.T, lo.T
    dl = lob - lo
    num = np.hypot(np.cos(lb) * np.sin(dl),
                   np.cos(la) * np.sin(lb)
                   - np.sin(la) * np.cos(lb) * np.cos(dl))
    den = np.sin(la) * np.sin(lb) + np.cos(la) * np.cos(lb) * np.cos(dl)
    return np.arctan2(num, den)


# --------------------------------------------------------------------------
# angular distance
# --------------------------------------------------------------------------

def check_angular(ctx, lat, lon, kind, terms=None):
    from pyunicorn.core.geo_grid import GeoGrid
    from pyunicorn.core._ext.numerics import _calculate_angular_distance
    from pyunicorn.core._ext.types import to_cy, FIELD
    n = len(lat)
    key = {"lat": [float(x) for x in lat], "lon": [float(x) for x in lon]}
    ctx.count(key, nontrivial=n >= 2)
    ctx.stat("angular:" + kind)
    ctx.sample({"n": n, "coords": kind, "lat": key["lat"][:4],
                "lon": key["lon"][:4]})
    g = GeoGrid(np.arange(2), lat, lon, silence_level=3)
    where = "GeoGrid.angular_distance"
    try:
        D32 = g.angular_distance()
    except Exception as e:
        ctx.violation(where, "raises", dict(key, err=f"{type(e).__name__}: "
                                            f"{e}"), {"kind": "exception"})
        return
    D = np.asarray(D32, dtype=np.float64)
    E = exact_angle(g.lat_sequence(), g.lon_sequence())
    bad = []
    if D.shape != (n, n) or not np.all(np.isfinite(D)):
        bad.append("not a finite n x n matrix (nan = cosine left outside "
                   "[-1,1])")
    else:
        err = np.abs(D - E)
        if not np.array_equal(D, D.T):
            bad.append("not exactly symmetric")
        if D.min() < 0 or D.max() > float(np.float32(np.pi)):
            bad.append("outside [0, pi]")
        if err.max() >= TOL_ABS:
            i, j = np.unravel_index(err.argmax(), err.shape)
            bad.append(f"absolute error {err.max():.3g} >= 2^-10 at "
                       f"({i},{j}): {D[i, j]!r} vs {E[i, j]!r}")
        s = np.sin(E)
        m = s > 0.05
        if m.any() and (err[m] * s[m]).max() > 40 * U:
            k = (err * s * m).argmax()
            i, j = np.unravel_index(k, err.shape)
            bad.append(f"error {err[i, j]:.3g} at angle {E[i, j]:.4f} exceeds "
                       f"40u/sin (relative accuracy lost away from 0 and pi)")
        if np.abs(np.diag(D)).max() >= TOL_ABS:
            bad.append("self distance not ~0")
        # triangle inequality up to the error
        # D[a,c] <= D[a,b] + D[b,c]: index [a,b,c]
        tri = (D[:, None, :] - D[:, :, None] - D[None, :, :])
        if tri.max() > 3 * TOL_ABS:
            bad.append("triangle inequality violated beyond the error")
    if bad:
        ctx.violation(where, "; ".join(bad), key, {"coords": kind})
    # library result = arccos of the kernel's matrix; kernel bit-exact vs model
    cl, sl = to_cy(g.cos_lat(), FIELD), to_cy(g.sin_lat(), FIELD)
    cn, sn = to_cy(g.cos_lon(), FIELD), to_cy(g.sin_lon(), FIELD)
    out = np.zeros((n, n), dtype=FIELD)
    _calculate_angular_distance(cl, sl, cn, sn, out, n)
    with np.errstate(invalid="ignore"):
        if not np.array_equal(np.arccos(out), D32, equal_nan=True):
            ctx.violation(where, "is not arccos of the kernel's cosine matrix",
                          key, {"coords": kind})
    # the trigonometric sequences belong to the node's own coordinates
    la64 = np.radians(g.lat_sequence().astype(np.float64))
    lo64 = np.radians(g.lon_sequence().astype(np.float64))
    for nm, ref in (("cos_lat", np.cos(la64)), ("sin_lat", np.sin(la64)),
                    ("cos_lon", np.cos(lo64)), ("sin_lon", np.sin(lo64))):
        if np.abs(getattr(g, nm)() - ref).max() > 12 * U:
            ctx.violation("GeoGrid." + nm, "differs from the closed form",
                          key, {})
    if terms is not None and n <= 8 and np.all(np.isfinite(out)):
        terms["ang"].append(f"({ql(cl)}, {ql(sl)}, {ql(cn)}, {ql(sn)}, "
                            f"{qm(out)})")
        terms["ang_meta"].append(key)


# --------------------------------------------------------------------------
# Euclidean distance
# --------------------------------------------------------------------------

def check_euclid(ctx, X, terms=None):
    from pyunicorn.core.grid import Grid
    X = np.asarray(X, dtype=np.float32)
    d, n = X.shape
    key = {"space": [[float(v) for v in r] for r in X]}
    ctx.count(key, nontrivial=n >= 2)
    ctx.stat("euclid:dim=%d" % d)
    where = "Grid.euclidean_distance"
    try:
        g = Grid(np.arange(2), X, silence_level=3)
        D32 = g.euclidean_distance()
    except Exception as e:
        ctx.violation(where, "raises", dict(key, err=f"{type(e).__name__}: "
                                            f"{e}"), {"kind": "exception",
                                                      "dim": d})
        return
    D = np.asarray(D32, dtype=np.float64)
    X64 = X.astype(np.float64)
    E = np.sqrt(((X64[:, :, None] - X64[:, None, :]) ** 2).sum(axis=0))
    bad = []
    if D.shape != (n, n) or not np.all(np.isfinite(D)):
        bad.append("not a finite n x n matrix")
    else:
        if not np.array_equal(D, D.T):
            bad.append("not exactly symmetric")
        if np.any(np.diag(D) != 0):
            bad.append("self distance not exactly 0")
        rel = (d + 4) * U
        if np.any(np.abs(D - E) > rel * E + 1e-37):
            i, j = np.unravel_index(np.abs(D - E).argmax(), D.shape)
            bad.append(f"differs from the closed form at ({i},{j}): "
                       f"{D[i, j]!r} vs {E[i, j]!r}")
        tri = D[:, None, :] - D[:, :, None] - D[None, :, :]
        if tri.max() > 4 * rel * max(D.max(), 1e-30):
            bad.append("triangle inequality violated beyond the error")
        if not np.array_equal(g.distance(), D32):
            bad.append("distance() is not euclidean_distance()")
    if bad:
        ctx.violation(where, "; ".join(bad), key, {"dim": d})
    if terms is not None and n <= 7 and not bad:
        rows = []
        for a in range(n):
            r = []
            for b in range(n):
                v = np.float32(D32[a, b])
                lo = np.nextafter(v, np.float32(-np.inf)) if v > 0 else v
                hi = np.nextafter(v, np.float32(np.inf))
                r.append(f"({qlit(float(lo))}, {qlit(float(hi))})")
            rows.append(listlit(r))
        terms["euc"].append(f"({qm(X)}, {listlit(rows)})")
        terms["euc_meta"].append(key)


# --------------------------------------------------------------------------
# rectangular grids, node lookup, weights
# --------------------------------------------------------------------------

def check_rect(ctx, axes, terms=None):
    from pyunicorn.core.grid import Grid
    from pyunicorn.core.geo_grid import GeoGrid
    key = {"axes": [[float(v) for v in a] for a in axes]}
    ctx.evaluations += 1
    ctx.stat("rect:dim=%d" % len(axes))
    where = "Grid.coord_sequence_from_rect_grid"
    try:
        seqs = Grid.coord_sequence_from_rect_grid(
            [np.array(a, dtype=float) for a in axes])
    except Exception as e:
        ctx.violation(where, "raises", dict(key, err=str(e)),
                      {"kind": "exception"})
        return
    pts = sorted(zip(*[list(map(float, s)) for s in seqs]))
    want = sorted(itertools.product(*[list(map(float, a)) for a in axes]))
    if pts != want:
        ctx.violation(where, "does not enumerate the Cartesian product of "
                      "the axes", key, {"dim": len(axes)})
    if len(axes) == 2:
        la, lo = GeoGrid.coord_sequence_from_rect_grid(
            np.array(axes[0], float), np.array(axes[1], float))
        if sorted(zip(map(float, la), map(float, lo))) != want:
            ctx.violation("GeoGrid.coord_sequence_from_rect_grid",
                          "does not enumerate lat x lon", key, {})
        g = GeoGrid.RegularGrid(np.arange(2), (np.array(axes[0], float),
                                               np.array(axes[1], float)),
                                silence_level=3)
        got = sorted(zip(map(float, g.lat_sequence()),
                         map(float, g.lon_sequence())))
        w32 = sorted((float(np.float32(a)), float(np.float32(b)))
                     for a, b in want)
        if got != w32 or g.N != len(want):
            ctx.violation("GeoGrid.RegularGrid", "nodes are not lat x lon",
                          key, {})
    g = Grid.RegularGrid(np.arange(2), [np.array(a, float) for a in axes],
                         silence_level=3)
    got = sorted(zip(*[list(map(float, g.sequence(k)))
                       for k in range(len(axes))]))
    w32 = sorted(tuple(float(np.float32(v)) for v in p) for p in want)
    if got != w32 or g.N != len(want):
        ctx.violation("Grid.RegularGrid", "nodes are not the product of the "
                      "axes", key, {"dim": len(axes)})
    if terms is not None:
        terms["rect"].append(f"({qm(axes)}, {qm(seqs)})")
        terms["rect_meta"].append(key)


def check_lookup(ctx, terms=None):
    from pyunicorn.core.grid import Grid
    from pyunicorn.core.geo_grid import GeoGrid
    rng = ctx.rng
    n = rng.randint(1, 12)
    d = rng.randint(1, 4)
    X = np.array([[rng.choice([rng.uniform(-50, 50),
                               float(rng.randint(-3, 3))])
                   for _ in range(n)] for _ in range(d)], dtype=np.float32)
    g = Grid(np.arange(2), X, silence_level=3)
    for _ in range(4):
        ctx.evaluations += 1
        ctx.stat("lookup:euclid")
        x = [rng.choice([rng.uniform(-60, 60), float(rng.randint(-3, 3))])
             for _ in range(d)]
        key = {"space": X.astype(float).tolist(), "x": x}
        try:
            k = int(g.node_number(tuple(x) if d > 1 else x))
        except Exception as e:
            ctx.violation("Grid.node_number", "raises", dict(key, err=str(e)),
                          {"kind": "exception", "dim": d})
            continue
        dist = np.sqrt(((X.astype(float).T - np.array(x)) ** 2).sum(axis=1))
        if not (0 <= k < n) or dist[k] > dist.min() * (1 + 1e-12) + 1e-300:
            ctx.violation("Grid.node_number", "does not return a node at "
                          "minimal distance", dict(key, got=k), {"dim": d})
        elif terms is not None:
            terms["argmin"].append(f"({ql(dist)}, {k}%nat)")
            terms["argmin_meta"].append(key)
    lat, lon, kind = coords(rng, n)
    gg = GeoGrid(np.arange(2), lat, lon, silence_level=3)
    for _ in range(4):
        ctx.evaluations += 1
        ctx.stat("lookup:geo")
        c = rng.random()
        if c < 0.3 and n:
            k0 = rng.randrange(n)
            la, lo = float(lat[k0]), float(lon[k0])
        else:
            la, lo = rng.uniform(-90, 90), rng.uniform(-180, 180)
        key = {"lat": lat.astype(float).tolist(),
               "lon": lon.astype(float).tolist(), "query": [la, lo]}
        try:
            k = int(gg.node_number(la, lo))
        except Exception as e:
            ctx.violation("GeoGrid.node_number", "raises",
                          dict(key, err=str(e)), {"kind": "exception"})
            continue
        E = exact_angle(np.append(lat.astype(float), la),
                        np.append(lon.astype(float), lo))[-1, :-1]
        if not (0 <= k < n) or E[k] > E.min() + 2 * TOL_ABS:
            ctx.violation("GeoGrid.node_number", "does not return a node at "
                          "minimal angular distance", dict(key, got=k), {})


def check_weights(ctx):
    from pyunicorn.core.geo_grid import GeoGrid
    from pyunicorn.core.geo_network import GeoNetwork
    rng = ctx.rng
    n = rng.randint(2, 9)
    lat, lon, _ = coords(rng, n, "random")
    lat = np.clip(lat, -85, 85)
    directed = rng.random() < 0.4
    A = graphs.random_graph(rng, n, rng.random(), directed=directed)
    key = {"lat": lat.astype(float).tolist(), "A": A.tolist(),
           "directed": directed}
    ctx.evaluations += 1
    ctx.stat("weights")
    g = GeoGrid(np.arange(2), lat, lon, silence_level=3)
    # the area-weighted measures use cos(latitude) whatever weights the
    # network carries for its n.s.i. measures
    nwt = rng.choice(["surface", "surface", "irrigation", None])
    net = GeoNetwork(g, adjacency=A, directed=directed,
                     node_weight_type=nwt, silence_level=3)
    key["node_weight_type"] = nwt
    if rng.random() < 0.3:
        net.node_weights = np.array(graphs.weights(rng, n))
        key["node_weights_assigned"] = True
        nwt = "assigned"
    w = np.cos(np.radians(lat.astype(np.float64)))
    if nwt == "surface" and \
            np.abs(np.asarray(net.node_weights, float) - w).max() > 1e-6:
        ctx.violation("GeoNetwork.node_weights", "is not the cosine of each "
                      "node's own latitude", key, {})
    W = w.sum()
    refs = {"inarea_weighted_connectivity": w @ A / W,
            "outarea_weighted_connectivity": A @ w / W}
    refs["area_weighted_connectivity"] = (
        refs["inarea_weighted_connectivity"]
        + refs["outarea_weighted_connectivity"] if directed
        else refs["inarea_weighted_connectivity"])
    for nm, ref in refs.items():
        try:
            got = np.asarray(getattr(net, nm)(), float)
        except Exception as e:
            ctx.violation("GeoNetwork." + nm, "raises", dict(key, err=str(e)),
                          {"kind": "exception"})
            continue
        if got.shape != ref.shape or np.abs(got - ref).max() > 1e-5:
            ctx.violation("GeoNetwork." + nm, "is not the cos-lat weighted "
                          "neighbourhood over the total weight", key,
                          {"directed": directed})


CONSUMERS = ["total_link_distance", "intotal_link_distance",
             "outtotal_link_distance", "connectivity_weighted_distance",
             "inconnectivity_weighted_distance",
             "outconnectivity_weighted_distance",
             "local_geographical_clustering", "average_link_distance",
             "inaverage_link_distance", "outaverage_link_distance",
             "max_link_distance", "distance",
             "average_distance_weighted_path_length",
             "distance_weighted_closeness",
             "area_weighted_connectivity",
             "average_neighbor_area_weighted_connectivity"]


def check_after_consumers(ctx):
    """The grid's distance matrices are what every geographic measure reads:
    they must still equal the closed form after each of those measures has
    run (a measure that edits the matrix it was handed makes every later
    distance wrong)."""
    from pyunicorn.core.geo_grid import GeoGrid
    from pyunicorn.core.geo_network import GeoNetwork
    rng = ctx.rng
    n = rng.randint(2, 9)
    lat, lon, kind = coords(rng, n, rng.choice(["random", "coincident",
                                                "antimeridian"]))
    n = len(lat)
    lat = np.clip(lat, -85, 85)
    directed = rng.random() < 0.3
    A = graphs.random_graph(rng, n, 0.2 + 0.8 * rng.random(),
                            directed=directed)
    key = {"lat": lat.astype(float).tolist(),
           "lon": lon.astype(float).tolist(), "A": A.tolist(),
           "directed": directed}
    ctx.evaluations += 1
    ctx.stat("distances after consumers")
    with warnings.catch_warnings():
        warnings.simplefilter("ignore")
        g = GeoGrid(np.arange(2), lat, lon, silence_level=3)
        net = GeoNetwork(g, adjacency=A, directed=directed,
                         node_weight_type="surface", silence_level=3)
        E = exact_angle(g.lat_sequence(), g.lon_sequence())
        names = CONSUMERS[:]
        rng.shuffle(names)
        for nm in names:
            try:
                with np.errstate(all="ignore"):
                    getattr(net, nm)()
            except Exception:
                ctx.stat("consumer undefined here")
                continue
            D = np.asarray(g.angular_distance(), float)
            if not np.all(np.isfinite(D)) or np.abs(D - E).max() >= TOL_ABS \
                    or np.abs(np.diag(D)).max() >= TOL_ABS:
                ctx.violation("GeoGrid.angular_distance",
                              "no longer the closed form after GeoNetwork."
                              + nm + "()", dict(key, after=nm),
                              {"history": True})
                return


# --------------------------------------------------------------------------

def run_all(ctx, terms=None):
    rng = ctx.rng
    fixed = [
        (np.array([4, -4, 12, -12, 38, -38, 86, -86], np.float32),
         np.array([10, -170, 50, -130, 100, -80, 0, 180], np.float32),
         "antipodal"),
        (np.array([0, 0, 90, -90, 45], np.float32),
         np.array([0, 180, 0, 0, -180], np.float32), "special"),
        (np.array([10.0], np.float32), np.array([20.0], np.float32),
         "special"),
    ]
    for lat, lon, kind in fixed:
        check_angular(ctx, lat, lon, kind, terms)
    for _ in range(ctx.n(40, 400)):
        n = rng.randint(1, 8) if rng.random() < 0.6 else rng.randint(9, 40)
        lat, lon, kind = coords(rng, n)
        check_angular(ctx, lat, lon, kind, terms)
    for _ in range(ctx.n(40, 300)):
        d = rng.randint(1, 5)
        n = rng.randint(1, 7) if rng.random() < 0.6 else rng.randint(8, 30)
        X = [[rng.choice([rng.uniform(-100, 100), float(rng.randint(-2, 2)),
                          rng.uniform(-1e-3, 1e-3)]) for _ in range(n)]
             for _ in range(d)]
        if n >= 2 and rng.random() < 0.3:
            for r in X:
                r[1] = r[0]
        check_euclid(ctx, X, terms)
    for _ in range(ctx.n(15, 100)):
        d = rng.randint(1, 4)
        axes = [sorted({float(rng.randint(-20, 20)) for _ in
                        range(rng.randint(1, 4))}) for _ in range(d)]
        check_rect(ctx, axes, terms)
    for _ in range(ctx.n(15, 120)):
        check_lookup(ctx, terms)
    for _ in range(ctx.n(15, 120)):
        check_weights(ctx)
    for _ in range(ctx.n(15, 120)):
        check_after_consumers(ctx)


def correspondence(ctx):
    terms = {k: [] for k in ("ang", "ang_meta", "euc", "euc_meta", "rect",
                             "rect_meta", "argmin", "argmin_meta")}
    with warnings.catch_warnings():
        warnings.simplefilter("ignore")
        run_all(ctx, terms)
    ctx._done = True
    for k, fn, chunk in (("ang", "check_ang", 40), ("euc", "check_euc", 40),
                         ("rect", "check_rect", 100),
                         ("argmin", "check_argmin", 200)):
        fails = ctx.coq_failing("c12_" + k, HEADER, terms[k], fn, chunk=chunk)
        for i in fails or []:
            ctx.corr(f"grid model != implementation ({k})",
                     terms[k + "_meta"][i], None)
        ctx.traces += len(terms[k])
        ctx.stats["c_" + k] = len(terms[k])


def search(ctx):
    ctx.stats["rule"] = (
        "coordinate sets: random, poles, antimeridian, coincident, nearly "
        "coincident and antipodal pairs (incl. lat +-4, 12, 38, 86), 5-degree "
        "grids, tight clusters, n = 1..40; Euclidean grids of dimension 1..5 "
        "with duplicated and tiny coordinates; rectangular grids of dimension "
        "1..4; lookups at node positions and random points; weights / AWC on "
        "random directed and undirected graphs. Closed forms in float64 from "
        "the stored float32 coordinates (atan2 form for angles). Tolerances: "
        "2^-10 absolute and 40u/sin(angle) for angles, (dim+4)u relative for "
        "Euclidean distances. Non-trivial = at least 2 nodes.")
    if not getattr(ctx, "_done", False) or ctx.scale > 1:
        with warnings.catch_warnings():
            warnings.simplefilter("ignore")
            run_all(ctx)


def replay(ctx, rep):
    c = rep["case"]
    with warnings.catch_warnings():
        warnings.simplefilter("ignore")
        if "space" in c and "x" not in c:
            check_euclid(ctx, np.array(c["space"]))
        elif "lat" in c and "A" not in c and "query" not in c:
            check_angular(ctx, np.array(c["lat"], np.float32),
                          np.array(c["lon"], np.float32), "replay")
        elif "axes" in c:
            check_rect(ctx, c["axes"])
        else:
            run_all(ctx)
