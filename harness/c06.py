"""C06 — queries are pure: no interference, inputs are never modified."""
import copy
import random as pyrandom
import warnings

import numpy as np

import c01
import graphs

TRANSLATORS = [("py_purity_facts", "PurityFacts")]
MODELLED = [
    "core/cache.py: memoised values are handed out by reference",
    "every function of src/pyunicorn/**/*.py: in-place edits of memoised "
    "values and of parameters (alias analysis, regenerated)",
]

#  queries whose value is random by design (compared for purity of OTHER
#  queries, never for equality with themselves)
RANDOM_Q = ("surrogate", "rewire", "shuffle", "bootstrap", "resample",
            "twin", "random")


def theorems(ctx):
    ctx.modelled += MODELLED
    ctx.generate(TRANSLATORS)
    ctx.theorems()
    if ctx.tier == "thorough":
        ctx.coqchk()


class SurrogatesAdapter:
    name = "Surrogates"

    def make(self, rng):
        g = np.random.default_rng(rng.randrange(2 ** 32))
        return {"X": g.standard_normal((rng.randint(1, 3),
                                        rng.choice([16, 21, 30])))}

    def build(self, spec):
        from pyunicorn.timeseries.surrogates import Surrogates
        return Surrogates(spec["X"].copy(), silence_level=3)

    def queries(self, obj):
        return [("original_data_fft", lambda o: o.original_data_fft()),
                ("original_data", lambda o: o.original_data),
                ("white_noise_surrogates",
                 lambda o: o.white_noise_surrogates()),
                ("correlated_noise_surrogates",
                 lambda o: o.correlated_noise_surrogates()),
                ("AAFT_surrogates", lambda o: o.AAFT_surrogates()),
                ("refined_AAFT_surrogates",
                 lambda o: o.refined_AAFT_surrogates(2)),
                # (twin_surrogates stores the embedding it computes on the
                #  object by design; embedding / twins are therefore state,
                #  not queries)
                ("twin_surrogates", lambda o: o.twin_surrogates(2, 1, .5, 3))]


class InteractingAdapter(c01.NetAdapter):
    """InteractingNetworks: the node-list measures (cross / internal, plain
    and n.s.i.) next to the whole-network measures they share memoised
    arrays with (path lengths, adjacency); sparse graphs so that unconnected
    pairs and isolated nodes occur."""
    name = "InteractingNetworks"
    BASE = ["path_lengths", "average_path_length", "nsi_average_path_length",
            "global_efficiency", "nsi_global_efficiency", "closeness",
            "nsi_closeness", "nsi_harmonic_closeness", "diameter", "degree",
            "nsi_degree", "local_clustering", "betweenness"]

    def cls(self):
        from pyunicorn.core.interacting_networks import InteractingNetworks
        return InteractingNetworks

    def make(self, rng):
        spec = super().make(rng)
        n = len(spec["A"])
        if rng.random() < 0.6:
            spec["A"] = graphs.random_graph(rng, n, 0.1 + 0.25 * rng.random(),
                                            spec["directed"])
            spec["attrs"] = {}
        nodes = list(range(n))
        rng.shuffle(nodes)
        k = rng.randint(1, n - 1)
        spec["l1"] = sorted(nodes[:k])
        spec["l2"] = sorted(nodes[k:k + rng.randint(1, n - k)])
        return spec

    def queries(self, obj):
        import c04
        listq = c04.interacting_queries()
        taken = {n for n, _ in listq}     # some names are redefined with lists
        qs = [(n, (lambda o, n=n: getattr(o, n)())) for n in self.BASE
              if hasattr(obj, n) and n not in taken]
        for name, arity in listq:
            if "betweenness" in name and "nsi" in name:
                continue
            if arity == 2:
                qs.append((name, lambda o, name=name: getattr(o, name)(
                    list(o._verif_lists[0]), list(o._verif_lists[1]))))
            else:
                qs.append((name, lambda o, name=name: getattr(o, name)(
                    list(o._verif_lists[0]))))
        qs += [("adjacency", lambda o: o.adjacency),
               ("node_weights", lambda o: o.node_weights)]
        return qs

    def build(self, spec):
        net = super().build(spec)
        net._verif_lists = (spec["l1"], spec["l2"])
        return net


class CouplingAdapter:
    name = "CouplingAnalysis"

    def make(self, rng):
        g = np.random.default_rng(rng.randrange(2 ** 32))
        return {"D": g.standard_normal((rng.choice([20, 30]),
                                        rng.randint(2, 4))) + 3.0}

    def build(self, spec):
        from pyunicorn.funcnet import CouplingAnalysis
        return CouplingAnalysis(spec["D"].copy(), silence_level=3)

    def queries(self, obj):
        return [("data", lambda o: o.data),
                ("cross_correlation(max)",
                 lambda o: o.cross_correlation(2, "max")),
                ("cross_correlation(all)",
                 lambda o: o.cross_correlation(2, "all")),
                ("mutual_information(gauss)",
                 lambda o: o.mutual_information(1, estimator="gauss")),
                ("mutual_information(binning)",
                 lambda o: o.mutual_information(1, estimator="binning",
                                                bins=3)),
                ("information_transfer(gauss)",
                 lambda o: o.information_transfer(1, estimator="gauss")),
                ("symmetrize",
                 lambda o: o.symmetrize_by_absmax(
                     *[np.array(m) for m in o.cross_correlation(2, "max")]))]


EXTRA = ("inv_correlation_distance", "correlation")


def is_random(name):
    return any(k in name.lower() for k in RANDOM_Q)


# --------------------------------------------------------------------------
# A. ordered pairs (and longer sequences) of queries on one object
# --------------------------------------------------------------------------

def check_sequences(ctx, ad):
    rng = ctx.rng
    spec = ad.make(rng)
    keyed = []
    if isinstance(spec.get("attrs"), dict) and "lw" in spec["attrs"] \
            and rng.random() < 0.7:
        # zero-length links between distinct nodes
        W = np.array(spec["attrs"]["lw"], float)
        if rng.random() < 0.5:
            W = W * 4            # integer lengths: distances hit N, N - 1, ...
        idx = [(i, j) for i in range(len(W)) for j in range(i) if W[i, j]]
        for i, j in idx:
            if rng.random() < 0.4:
                W[i, j] = 0.0
                if not spec.get("directed"):
                    W[j, i] = 0.0
        spec["attrs"]["lw"] = W
    if isinstance(spec.get("attrs"), dict) and "lw" in spec["attrs"]:
        keyed = [("global_efficiency(lw)",
                  lambda o: o.global_efficiency("lw")),
                 ("average_path_length(lw)",
                  lambda o: o.average_path_length("lw")),
                 ("path_lengths(lw) again", lambda o: o.path_lengths("lw"))]
    with warnings.catch_warnings():
        warnings.simplefilter("ignore")
        probe = ad.build(spec)
        allq = list(ad.queries(probe)) + keyed
        allq += [(n, (lambda o, n=n: getattr(o, n)())) for n in EXTRA
                 if hasattr(probe, n) and n not in dict(allq)]
        qs = [(n, c) for n, c in allq if not is_random(n)]
        rnd = [(n, c) for n, c in allq if is_random(n)]
        #  fresh answers: one new object per query
        fresh = {}
        for name, call in qs:
            o = ad.build(spec)
            try:
                fresh[name] = ("ok", copy.deepcopy(call(o)))
            except Exception as e:
                fresh[name] = ("err", type(e).__name__)
        ctx.count({"adapter": ad.name, "spec": _spec_key(spec)},
                  nontrivial=True)
        ctx.stat("sequences:" + ad.name)
        ctx.sample({"adapter": ad.name, "queries": len(qs),
                    "spec_keys": sorted(spec)})
        ctx.stats["queries:" + ad.name] = len(qs)
        obj = ad.build(spec)
        order = list(qs) + rnd                  # random ones run, unchecked
        rng.shuffle(order)
        order = order + order[: max(3, len(order) // 3)]    # repeats too
        fresh.update({n: None for n, _ in rnd})
        done = []
        handed = []          # (query, the array object handed out, snapshot)
        for name, call in order:
            try:
                got = ("ok", call(obj))
            except Exception as e:
                got = ("err", type(e).__name__)
            # every array handed out earlier must still hold what it held
            for hn, ref, snap in handed:
                ctx.traces += 1
                if ref.shape != snap.shape or not np.array_equal(
                        ref, snap, equal_nan=True):
                    ctx.runtime_edits.add((ad.name, name, hn))
                    ctx.violation(
                        f"{ad.name}.{name}",
                        f"edits in place the array handed out by {hn}()",
                        {"adapter": ad.name, "spec": _spec_key(spec),
                         "query": name, "victim": hn},
                        {"kind": "in-place edit", "adapter": ad.name})
                    return
            if got[0] == "ok" and isinstance(got[1], np.ndarray) \
                    and got[1].dtype != object and not any(
                        r is got[1] for _, r, _ in handed):
                handed.append((name, got[1], got[1].copy()))
            want = fresh[name]
            if want is None:
                done.append(name)
                continue
            same = got[0] == want[0] and (got[0] == "err"
                                          or c01.equal(got[1], want[1]))
            if not same:
                culprit = _culprit(ad, spec, qs + rnd, done, name, call,
                                   want)
                ctx.violation(
                    f"{ad.name}.{name}",
                    "returns a different value after "
                    + (f"{culprit}()" if culprit else "earlier queries")
                    + " on the same object",
                    {"adapter": ad.name, "spec": _spec_key(spec),
                     "after": culprit or [d for d in done][-8:],
                     "query": name},
                    {"after": culprit or "sequence", "adapter": ad.name})
                return
            done.append(name)


def _culprit(ad, spec, qs, done, name, call, want):
    """the single earlier query after which `name` already differs"""
    table = dict(qs)
    for p in dict.fromkeys(done):
        if p not in table:
            continue
        o = ad.build(spec)
        try:
            table[p](o)
            got = ("ok", call(o))
        except Exception as e:
            got = ("err", type(e).__name__)
        if not (got[0] == want[0] and (got[0] == "err"
                                       or c01.equal(got[1], want[1]))):
            return p
    return None


def _spec_key(spec):
    out = {}
    for k, v in spec.items():
        if isinstance(v, np.ndarray):
            out[k] = v.tolist()
        elif isinstance(v, dict):
            out[k] = {a: (b.tolist() if isinstance(b, np.ndarray) else str(b))
                      for a, b in v.items()}
        elif isinstance(v, (int, float, str, bool, list)) or v is None:
            out[k] = v
        else:
            out[k] = str(type(v).__name__)
    return out


# --------------------------------------------------------------------------
# B. caller-owned arrays and shared data objects
# --------------------------------------------------------------------------

def _grid(n, T=10):
    from pyunicorn.core.geo_grid import GeoGrid
    return GeoGrid(np.arange(T), np.linspace(-60, 60, n),
                   np.linspace(10, 150, n), silence_level=3)


def scenarios(rng):
    """(label, {name: array}, callable(arrays) running constructor + queries,
    documented-in-place names)"""
    from pyunicorn.core.network import Network
    from pyunicorn.core.geo_network import GeoNetwork
    from pyunicorn.core.geo_grid import GeoGrid
    from pyunicorn.core.data import Data
    from pyunicorn.core.resistive_network import ResNetwork
    from pyunicorn.core.interacting_networks import InteractingNetworks
    from pyunicorn.climate.climate_network import ClimateNetwork
    from pyunicorn.climate.rainfall import RainfallClimateNetwork
    from pyunicorn.timeseries import RecurrencePlot, RecurrenceNetwork, \
        JointRecurrencePlot, CrossRecurrencePlot, VisibilityGraph
    from pyunicorn.timeseries.surrogates import Surrogates
    from pyunicorn.funcnet import CouplingAnalysis
    g = np.random.default_rng(rng.randrange(2 ** 32))
    n = rng.randint(4, 7)
    A = graphs.random_graph(rng, n, 0.5)
    A[0, 1] = A[1, 0] = 1
    w = np.array(graphs.weights(rng, n), float)
    x = np.sin(np.arange(40) * 0.4) + 0.2 * g.standard_normal(40)
    y = np.cos(np.arange(40) * 0.3) + 0.2 * g.standard_normal(40)
    X = g.standard_normal((3, 32)) + 2.0
    D = g.standard_normal((30, 3)) + 5.0
    sim = np.abs(np.corrcoef(g.standard_normal((n, 20))))
    R = np.where(A > 0, 1.0 + g.integers(1, 8, size=A.shape), 0.0)
    R = np.triu(R, 1) + np.triu(R, 1).T
    out = []

    def net_queries(a):
        o = Network(adjacency=a["A"], node_weights=a["w"], silence_level=3)
        for q in ("degree", "path_lengths", "global_efficiency", "closeness",
                  "average_path_length", "nsi_degree", "betweenness",
                  "local_clustering", "nsi_closeness", "laplacian"):
            getattr(o, q)()
        o.set_link_attribute("lw", a["W"])
        o.path_lengths("lw")
        o.closeness("lw")
    Wt = graphs.attr_matrix(rng, A, symmetric=True)
    out.append(("Network(adjacency, node_weights, link attribute)",
                {"A": A.copy(), "w": w.copy(), "W": np.array(Wt, float)},
                net_queries, ()))
    el = np.array([(i, j) for i in range(n) for j in range(i) if A[i, j]])
    out.append(("Network(edge_list)", {"el": el.copy()},
                lambda a: Network(edge_list=a["el"], n_nodes=n,
                                  silence_level=3).degree(), ()))
    out.append(("GeoNetwork(grid, adjacency)", {"A": A.copy()},
                lambda a: [q() for q in (
                    lambda o=GeoNetwork(_grid(n), adjacency=a["A"],
                                        node_weight_type="surface",
                                        silence_level=3):
                    (o.area_weighted_connectivity(),
                     o.average_link_distance(),
                     o.link_distance_distribution(3)),)], ()))
    out.append(("ClimateNetwork(grid, similarity)", {"sim": sim.copy()},
                lambda a: [f() for f in (lambda o=ClimateNetwork(
                    _grid(n), a["sim"], threshold=0.3, silence_level=3): (
                        o.correlation_distance(), o.inv_correlation_distance(),
                        o.correlation_distance(),
                        o.local_distance_weighted_vulnerability()
                        if hasattr(o, "local_distance_weighted_vulnerability")
                        else None),)], ()))
    out.append(("ResNetwork(resistances).update_resistances",
                {"R": R.copy(), "R2": (R * 3).copy()},
                lambda a: [f() for f in (lambda o=ResNetwork(
                    a["R"], silence_level=3): (
                        o.effective_resistance(0, 1),
                        o.average_effective_resistance(),
                        o.update_resistances(a["R2"]),
                        o.vertex_current_flow_betweenness(0),
                        o.edge_current_flow_betweenness()),)], ()))
    for cls, nm in ((RecurrencePlot, "RecurrencePlot"),
                    (RecurrenceNetwork, "RecurrenceNetwork")):
        out.append((nm + "(series)", {"x": x.copy()},
                    lambda a, cls=cls: [f() for f in (lambda o=cls(
                        a["x"], threshold=0.3, dim=2, tau=1,
                        silence_level=3): (
                            o.recurrence_matrix(), o.rqa_summary(),
                            o.diagline_dist(), o.resample_diagline_dist(20),
                            o.diagline_dist(), o.vertline_dist(),
                            o.resample_vertline_dist(20),
                            o.distance_matrix("supremum")),)], ()))
    out.append(("JointRecurrencePlot / CrossRecurrencePlot(x, y)",
                {"x": x.copy(), "y": y.copy()},
                lambda a: (JointRecurrencePlot(
                    a["x"], a["y"], threshold=(0.3, 0.3), dim=(2, 2),
                    tau=(1, 1), silence_level=3).recurrence_matrix(),
                    CrossRecurrencePlot(a["x"], a["y"], threshold=0.3, dim=2,
                                        tau=1, silence_level=3)
                    .recurrence_matrix()), ()))
    out.append(("VisibilityGraph(series, timings)",
                {"x": x.copy(), "t": np.arange(40.0)},
                lambda a: [f() for f in (lambda o=VisibilityGraph(
                    a["x"], timings=a["t"], silence_level=3): (
                        o.visibility_relations(), o.retarded_local_clustering(),
                        o.degree()),)], ()))

    def surr(a):
        s = Surrogates(a["X"], silence_level=3)
        s.white_noise_surrogates()
        s.correlated_noise_surrogates()
        s.AAFT_surrogates()
        s.refined_AAFT_surrogates(2)
        s.twin_surrogates(2, 1, 0.5, 3)
    out.append(("Surrogates(original_data) and all surrogate methods",
                {"X": X.copy()}, surr, ()))
    xn = (X - X.mean(axis=1, keepdims=True)) / X.std(axis=1, keepdims=True)
    out.append(("Surrogates.test_pearson_correlation / test_mutual_information",
                {"o": xn.copy(), "s": xn[::-1].copy()},
                lambda a: (Surrogates(a["o"], silence_level=3)
                           .test_pearson_correlation(a["o"], a["s"]),
                           Surrogates(a["o"], silence_level=3)
                           .test_mutual_information(a["o"], a["s"], 8)), ()))

    def coup(a):
        c = CouplingAnalysis(a["D"], silence_level=3)
        c.cross_correlation(2, "max")
        c.cross_correlation(2, "all")
        c.mutual_information(1, estimator="gauss")
        c.mutual_information(1, estimator="binning", bins=3)
        c.information_transfer(1, estimator="gauss")
    out.append(("CouplingAnalysis(data) and its estimators", {"D": D.copy()},
                coup, ()))
    out.append(("InteractingNetworks(adjacency) cross measures",
                {"A": A.copy()},
                lambda a: [f() for f in (lambda o=InteractingNetworks(
                    a["A"], silence_level=3): (
                        o.cross_average_path_length([0, 1], [2, 3]),
                        o.path_lengths(), o.cross_closeness([0, 1], [2, 3]),
                        o.internal_average_path_length([0, 1, 2])),)], ()))
    ts = g.standard_normal((12, 3)) + 3
    out.append(("Data.normalize_time_series_array (documented in place)",
                {"ts": ts.copy()},
                lambda a: Data.normalize_time_series_array(a["ts"]), ("ts",)))
    out.append(("Data.rescale(array, 'int16')", {"arr": ts.copy()},
                lambda a: Data.rescale(a["arr"], "int16"), ()))
    out.append(("GeoNetwork.latlon2cartesian(lat, lon)",
                {"lat": np.array([10., 20., 30.]),
                 "lon": np.array([5., 15., 25.])},
                lambda a: GeoNetwork.latlon2cartesian(a["lat"], a["lon"]), ()))
    gg = GeoGrid(np.arange(3), np.array([0., 5., 10., 15.]),
                 np.array([2.5, 5., 350., 355.]), silence_level=3)
    out.append(("GeoGrid.region_indices(region)",
                {"region": np.array([-12., -1., -12., 12., 12., 12., 12.,
                                     -1.])},
                lambda a: gg.region_indices(a["region"]), ()))
    out.append(("RecurrencePlot.rejection_sampling(dist, M)",
                {"dist": np.array([4., 3., 2., 1.])},
                lambda a: RecurrencePlot.rejection_sampling(a["dist"], 10),
                ()))
    rain = np.abs(g.standard_normal((3, 12))) * (g.random((3, 12)) > 0.3)
    out.append(("RainfallClimateNetwork.calculate_top_events(rainfall, q)",
                {"rain": rain.copy()},
                lambda a: RainfallClimateNetwork.calculate_top_events(
                    a["rain"], [0, 1]), ()))
    return out


def dtype_variants(rng):
    """constructors given arrays that already have the element type the
    library converts to (no conversion copy is needed then)"""
    from pyunicorn.timeseries import RecurrencePlot, RecurrenceNetwork, \
        VisibilityGraph
    from pyunicorn.timeseries.surrogates import Surrogates
    from pyunicorn.core.network import Network
    from pyunicorn.funcnet import CouplingAnalysis
    g = np.random.default_rng(rng.randrange(2 ** 32))
    x = 3 + np.sin(np.arange(50) * 0.4) + 0.2 * g.standard_normal(50)
    out = []
    for dt in (np.float32, np.float64):
        for shape in ((-1,), (-1, 1)):
            xs = np.ascontiguousarray(x.astype(dt).reshape(shape))
            for cls in (RecurrencePlot, RecurrenceNetwork):
                out.append((f"{cls.__name__}({np.dtype(dt).name} series "
                            f"{len(shape)}-D, normalize=True)",
                            {"x": xs.copy()},
                            lambda a, cls=cls: cls(
                                a["x"], threshold=0.3, normalize=True,
                                silence_level=3).recurrence_matrix(), ()))
        X = np.ascontiguousarray((g.standard_normal((2, 24)) + 2).astype(dt))
        out.append((f"Surrogates({np.dtype(dt).name}).normalize_original_data",
                    {"X": X.copy()},
                    lambda a: (lambda s_: (s_.normalize_original_data(),
                                           s_.correlated_noise_surrogates(),
                                           s_.twin_surrogates(2, 1, .5, 3)))(
                        Surrogates(a["X"], silence_level=3)), ()))
        D = np.ascontiguousarray((g.standard_normal((24, 3)) + 4).astype(dt))
        out.append((f"CouplingAnalysis({np.dtype(dt).name} data)",
                    {"D": D.copy()},
                    lambda a: CouplingAnalysis(a["D"], silence_level=3)
                    .cross_correlation(1, "max"), ()))
    n = 5
    A = graphs.random_graph(rng, n, 0.6)
    for dt in (np.int8, np.int16, np.int32, np.int64, np.float64):
        out.append((f"Network({np.dtype(dt).name} adjacency)",
                    {"A": np.ascontiguousarray(A.astype(dt))},
                    lambda a: [f() for f in (lambda o=Network(
                        adjacency=a["A"], silence_level=3): (
                            o.degree(), o.path_lengths(),
                            o.global_efficiency(), o.local_clustering()),)],
                    ()))
    return out


def check_callers(ctx):
    rng = ctx.rng
    for label, arrays, run, allowed in scenarios(rng) + dtype_variants(rng):
        ctx.evaluations += 1
        ctx.stat("caller arrays")
        before = {k: v.copy() for k, v in arrays.items()}
        st = pyrandom.getstate()
        try:
            with warnings.catch_warnings():
                warnings.simplefilter("ignore")
                run(arrays)
        except Exception as e:
            # an exception is not an impurity; the arrays are still compared
            ctx.stat("scenario raised: " + label[:40] + ": "
                     + type(e).__name__)
        finally:
            pyrandom.setstate(st)
        changed = [k for k in arrays if k not in allowed and not (
            arrays[k].shape == before[k].shape
            and np.array_equal(arrays[k], before[k], equal_nan=True))]
        if changed:
            ctx.violation(label, "alters the caller's array(s): "
                          + ", ".join(changed),
                          {"arrays": {k: v.tolist() for k, v in before.items()},
                           "changed": changed}, {"kind": "caller array"})


def check_shared_data(ctx):
    """climate networks built from ONE ClimateData object"""
    from pyunicorn.climate.climate_data import ClimateData
    from pyunicorn.climate.tsonis import TsonisClimateNetwork
    from pyunicorn.climate.spearman import SpearmanClimateNetwork
    from pyunicorn.climate.partial_correlation import \
        PartialCorrelationClimateNetwork
    from pyunicorn.climate.mutual_info import MutualInfoClimateNetwork
    from pyunicorn.climate.havlin import HavlinClimateNetwork
    from pyunicorn.climate.hilbert import HilbertClimateNetwork
    rng = ctx.rng
    g = np.random.default_rng(rng.randrange(2 ** 32))
    n, T = rng.randint(3, 5), 36
    obs = g.standard_normal((T, n)) * (1 + np.arange(n)) + 10 * np.arange(n)
    grid = _grid(n, T)

    def data():
        return ClimateData(obs.copy(), grid, time_cycle=12, silence_level=3)
    classes = [("Tsonis", lambda d: TsonisClimateNetwork(
                    d, threshold=0.3, silence_level=3)),
               ("Spearman", lambda d: SpearmanClimateNetwork(
                   d, threshold=0.3, silence_level=3)),
               ("PartialCorrelation",
                lambda d: PartialCorrelationClimateNetwork(
                    d, threshold=0.3, silence_level=3)),
               ("MutualInfo", lambda d: MutualInfoClimateNetwork(
                   d, threshold=0.3, silence_level=3)),
               ("Havlin", lambda d: HavlinClimateNetwork(
                   d, max_delay=3, threshold=0.3, silence_level=3)),
               ("Hilbert", lambda d: HilbertClimateNetwork(
                   d, threshold=0.3, silence_level=3))]
    with warnings.catch_warnings():
        warnings.simplefilter("ignore")
        ref = data()
        anom0 = np.asarray(ref.anomaly(), float).copy()
        obs0 = np.asarray(ref.observable(), float).copy()
        fresh = {}
        for nm, mk in classes:
            try:
                fresh[nm] = np.asarray(mk(data()).similarity_measure(),
                                       float).copy()
            except Exception as e:
                fresh[nm] = e
        order = list(classes)
        rng.shuffle(order)
        shared = data()
        done = []
        for nm, mk in order:
            ctx.evaluations += 1
            ctx.stat("shared ClimateData")
            key = {"observable": obs.tolist(), "built_before": list(done),
                   "class": nm}
            try:
                net = mk(shared)
                got = np.asarray(net.similarity_measure(), float)
            except Exception as e:
                if not isinstance(fresh[nm], Exception):
                    ctx.violation(nm + "ClimateNetwork(shared ClimateData)",
                                  "raises only on the shared object",
                                  dict(key, err=str(e)), {"kind": "exception"})
                done.append(nm)
                continue
            if isinstance(fresh[nm], Exception):
                done.append(nm)
                continue
            if not c01.equal(got, fresh[nm], rtol=1e-6):
                ctx.violation(nm + "ClimateNetwork(shared ClimateData)",
                              "differs from the network built from a fresh "
                              "data object, after " + ", ".join(done),
                              key, {"after": done[-1] if done else None})
            a1 = np.asarray(shared.anomaly(), float)
            o1 = np.asarray(shared.observable(), float)
            if not (np.array_equal(a1, anom0) and np.array_equal(o1, obs0)):
                ctx.violation(nm + "ClimateNetwork(shared ClimateData)",
                              "alters the anomaly / observable of the shared "
                              "data object", key,
                              {"kind": "shared data", "class": nm})
                shared = data()
            done.append(nm)


def run_all(ctx):
    for AdC in [a for a in c01.ADAPTERS if a.name != "Surrogates"] + [
            SurrogatesAdapter, CouplingAdapter, InteractingAdapter]:
        for _ in range(ctx.n(2, 8)):
            check_sequences(ctx, AdC())
    for _ in range(ctx.n(2, 10)):
        check_callers(ctx)
    for _ in range(ctx.n(3, 15)):
        check_shared_data(ctx)


def correspondence(ctx):
    """the alias analysis' table against the running code: whenever the run
    observes a query editing an array that was handed out earlier, the table
    must list an unrestored edit of a memoised value in a function of that
    name (otherwise the analysis, on which the theorems rest, missed it)"""
    import sys
    import os
    sys.path.insert(0, os.path.join(os.path.dirname(__file__), "..",
                                    "translate"))
    import py_purity_facts
    ctx.runtime_edits = set()
    with warnings.catch_warnings():
        warnings.simplefilter("ignore")
        run_all(ctx)
    ctx._done = True
    rows, _ = py_purity_facts.analyse("/repo")
    dirty = {q.rsplit(".", 1)[1] for q, rs in rows.items()
             for (kind, name), line, restored in rs
             if kind == "cached" and not restored}
    ctx.stats["table_dirty_functions"] = sorted(dirty)
    for adname, query, victim in sorted(ctx.runtime_edits):
        base = query.split("(")[0]
        if base not in dirty:
            ctx.corr("alias analysis misses an in-place edit observed at run "
                     "time", {"adapter": adname, "query": query,
                              "victim": victim}, None)


def search(ctx):
    ctx.stats["rule"] = (
        "A: for each of 11 object families (Surrogates, CouplingAnalysis and "
        "the 9 of the C01 harness: Network, "
        "GeoNetwork, ClimateNetwork, TsonisClimateNetwork, RecurrencePlot, "
        "RecurrenceNetwork, JointRecurrenceNetwork, ResNetwork, ClimateData) "
        "all public no-argument queries plus keyed variants are run in a "
        "random order on ONE object, a third of them twice; every answer "
        "must equal the answer of a fresh object; the culprit predecessor is "
        "isolated by pairwise replays; link attributes with zero-length links. "
        "B: 22 constructor / query / static-helper scenarios plus 19 variants "
        "whose arrays already have the element type the library converts to "
        "(float32 / float64 series, int8..int64 adjacency): "
        "constructor / query / static-"
        "helper scenarios with caller-owned arrays compared bit-for-bit "
        "before and after. C: six climate network classes built in random "
        "order from ONE ClimateData object against networks built from "
        "fresh data; anomaly / observable of the shared object compared "
        "bit-for-bit. Queries random by design are executed but not compared "
        "with themselves.")
    if not hasattr(ctx, "runtime_edits"):
        ctx.runtime_edits = set()
    if not getattr(ctx, "_done", False) or ctx.scale > 1:
        with warnings.catch_warnings():
            warnings.simplefilter("ignore")
            run_all(ctx)


def replay(ctx, rep):
    ctx.runtime_edits = set()
    with warnings.catch_warnings():
        warnings.simplefilter("ignore")
        run_all(ctx)
