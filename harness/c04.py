"""C04 — measures do not depend on node numbering."""
import inspect
import itertools
import warnings

import numpy as np

import catalog
import graphs
import nsi
from common import listlit

MODELLED = ["Network.permuted_copy",
            "all measure terms of Model/Measures.v (see C02)",
            "unique-pair loops of _cross_transitivity, _cross_local_clustering,"
            " _nsi_cross_transitivity, _nsi_cross_local_clustering"]

HEADER = """From Coq Require Import QArith Qcanon List Bool Arith.
From PV.Base Require Import Sums.
From PV.Model Require Import NsiLang Split Measures GraphCheck.
Import ListNotations.
"""


TRANSLATORS = [('py_nsi_terms', 'NsiTerms')]


def theorems(ctx):
    ctx.modelled += MODELLED
    ctx.generate(TRANSLATORS)
    ctx.theorems()
    if ctx.tier == "thorough":
        ctx.coqchk()


def gen_graphs(ctx):
    rng = ctx.rng
    out = []
    for n in (2, 3):
        for A in graphs.all_graphs(n, False):
            out.append((A, graphs.weights(rng, n), False))
    for A in graphs.all_graphs(2, True):
        out.append((A, graphs.weights(rng, 2), True))
    if ctx.tier == "thorough":
        for A in graphs.all_graphs(4, False):
            out.append((A, graphs.weights(rng, 4), False))
        for A in graphs.all_graphs(3, True):
            out.append((A, graphs.weights(rng, 3), True))
    for _ in range(ctx.n(25, 200)):
        n = rng.randint(4, 9)
        d = rng.random() < 0.35
        out.append((graphs.random_graph(rng, n, rng.random(), d),
                    graphs.weights(rng, n), d))
    for _ in range(ctx.n(8, 40)):
        n = rng.randint(3, 8)
        A, _ = graphs.family(rng, n)
        out.append((A, graphs.weights(rng, n), False))
    return out


def perms(ctx, n):
    if n <= (4 if ctx.tier == "thorough" else 3):
        return [list(p) for p in itertools.permutations(range(n))]
    out = []
    for _ in range(2 if ctx.tier == "quick" else 4):
        p = list(range(n))
        ctx.rng.shuffle(p)
        out.append(p)
    return out


def correspondence(ctx):
    terms, meta = [], []
    gs = gen_graphs(ctx)
    ctx._graphs = gs
    for A, w, directed in gs:
        n = len(A)
        net = nsi.build_net(A, w, directed)
        p = list(range(n))
        ctx.rng.shuffle(p)
        pc = net.permuted_copy(p)
        A2 = (pc.adjacency != 0).astype(int)
        terms.append(
            f"({graphs.raw_lit(A, w)}, "
            f"{listlit([str(i) + '%nat' for i in p])}, "
            f"{graphs.mat_bool(A2)}, {graphs.vec_q(pc.node_weights)})")
        meta.append((np.asarray(A).tolist(), list(w), directed, p))
    fails = ctx.coq_failing("c04_perm", HEADER, terms, "check_permute",
                            chunk=200)
    for i in fails or []:
        ctx.corr("permute model != Network.permuted_copy", meta[i], None)
    ctx.traces += len(terms)
    ctx.stats["c_permuted_copy"] = len(terms)


# --------------------------------------------------------------------------

def same(a, b, rtol=1e-7):
    a, b = np.asarray(a, float), np.asarray(b, float)
    if a.shape != b.shape:
        return False
    with np.errstate(invalid="ignore"):
        return bool(np.all((np.abs(a - b) <= rtol * (1 + np.abs(b)))
                           | (np.isnan(a) & np.isnan(b)) | (a == b)))


def relation(kind, before, after, idx):
    """new node i is old node idx[i]"""
    b = catalog.to_array(before)
    a = catalog.to_array(after)
    if kind == "node":
        return same(a, b[idx])
    if kind == "pair":
        return same(a, b[np.ix_(idx, idx)])
    return same(a, b)


SPECTRAL = {"eigenvector_centrality", "nsi_eigenvector_centrality", "pagerank",
            "msf_synchronizability", "newman_betweenness",
            "nsi_newman_betweenness", "arenas_betweenness",
            "nsi_arenas_betweenness", "spreading", "nsi_spreading"}
DEGENERATE = {"eigenvector_centrality", "nsi_eigenvector_centrality"}
SKIP = {"sp_Aplus", "sp_diag_w", "sp_diag_w_inv", "sp_diag_sqrt_w",
        "sp_nsi_diag_k", "sp_nsi_diag_k_inv", "distance_based_measures"}


def network_queries():
    from pyunicorn.core.network import Network
    qs = [(n, c) for n, c in catalog.public_queries(Network) if n not in SKIP]
    tw = nsi.TW
    extra = [
        ("degree(key)", lambda o: o.degree(key="lw")),
        ("indegree(key)", lambda o: o.indegree(key="lw")),
        ("outdegree(key)", lambda o: o.outdegree(key="lw")),
        ("nsi_degree(key)", lambda o: o.nsi_degree(key="lw")),
        ("nsi_degree(tw)", lambda o: o.nsi_degree(typical_weight=tw)),
        ("nsi_local_clustering(tw)",
         lambda o: o.nsi_local_clustering(typical_weight=tw)),
        ("local_cliquishness(3)", lambda o: o.local_cliquishness(3)),
        ("local_cliquishness(4)", lambda o: o.local_cliquishness(4)),
        ("local_cliquishness(5)", lambda o: o.local_cliquishness(5)),
        ("higher_order_transitivity(3)",
         lambda o: o.higher_order_transitivity(3)),
        ("higher_order_transitivity(4)",
         lambda o: o.higher_order_transitivity(4)),
        ("path_lengths(lw)", lambda o: o.path_lengths("lw")),
        ("closeness(lw)", lambda o: o.closeness("lw")),
        ("average_path_length(lw)", lambda o: o.average_path_length("lw")),
        ("local_cyclemotif_clustering(key)",
         lambda o: o.local_cyclemotif_clustering(key="lw")),
        ("weighted_local_clustering", lambda o: o.weighted_local_clustering()),
        ("link_attribute", lambda o: o.link_attribute("lw")),
        ("laplacian(lw)", lambda o: o.laplacian(link_attribute="lw")),
    ]
    return qs + extra


def check_network(ctx, A, w, directed, plist):
    n = len(A)
    A = np.asarray(A)
    W = graphs.attr_matrix(ctx.rng, A, symmetric=not directed)
    has_links = A.sum() > 0
    attrs = {"lw": W} if has_links else None
    net = nsi.build_net(A, w, directed, attrs)
    conn = graphs.connected(A)
    key = {"A": A.tolist(), "w": list(w), "directed": directed}
    ctx.count(key, nontrivial=bool(has_links))
    ctx.stat("n=%d" % n)
    ctx.stat("directed=%s" % directed)
    qs = network_queries()
    base = {}
    with warnings.catch_warnings():
        warnings.simplefilter("ignore")
        for name, call in qs:
            if name in SPECTRAL and directed:
                continue     # spectral / random-walk measures: undirected only
            if name in DEGENERATE and not conn:
                continue     # leading eigenvector not unique on several components
            if ("key" in name or "lw" in name or name == "link_attribute"
                    or name == "weighted_local_clustering") and not has_links:
                continue
            try:
                v = call(net)
                k = catalog.shape_kind(v, n)
                if k in ("none",):
                    continue
                if name.endswith(("_distribution", "_cdf", "_histogram")):
                    k = "other"      # histograms: invariant as a whole
                base[name] = (call, v, k)
            except Exception:
                ctx.stat("undefined_on_base")
        for p in plist:
            idx = np.array(p)
            pattrs = {"lw": W[np.ix_(idx, idx)]} if has_links else None
            # permuted_copy itself: adjacency and node weights renumbered
            try:
                pc = net.permuted_copy(list(p))
                Apc = np.asarray(pc.adjacency).astype(int)
                ok = np.array_equal(Apc, (A[np.ix_(idx, idx)] != 0).astype(
                    int)) and np.allclose(np.asarray(pc.node_weights, float),
                                          np.asarray(w, float)[idx]) \
                    and bool(pc.directed) == bool(directed)
                if not ok:
                    ctx.violation("Network.permuted_copy",
                                  "adjacency / node weights are not those of "
                                  "the renumbered network",
                                  dict(key, perm=p, got=Apc.tolist()),
                                  {"directed": directed})
            except Exception as e:
                ctx.violation("Network.permuted_copy", "raises",
                              dict(key, perm=p,
                                   err=f"{type(e).__name__}: {e}"),
                              {"kind": "exception"})
            pnet = nsi.build_net(A[np.ix_(idx, idx)],
                                 np.asarray(w)[idx], directed, pattrs)
            for name, (call, v, k) in base.items():
                try:
                    pv = call(pnet)
                except Exception as e:
                    ctx.violation(f"Network.{name}",
                                  "raises after renumbering",
                                  dict(key, perm=p,
                                       err=f"{type(e).__name__}: {e}"),
                                  {"kind": "exception"})
                    continue
                if k == "other":
                    try:
                        ok = same(np.asarray(pv, float), np.asarray(v, float))
                    except (TypeError, ValueError):
                        ok = True
                else:
                    ok = relation(k, v, pv, idx)
                if not ok:
                    ctx.violation(
                        f"Network.{name}", "depends on node numbering",
                        dict(key, perm=p,
                             before=catalog.to_array(v).tolist(),
                             after=catalog.to_array(pv).tolist()),
                        {"connected": conn, "directed": directed})
    ctx.sample(key)


def interacting_queries():
    from pyunicorn.core.interacting_networks import InteractingNetworks
    out = []
    for name in sorted(dir(InteractingNetworks)):
        if name.startswith("_") or name[0].isupper():
            continue
        if name.startswith(("set_", "randomly", "Random")):
            continue
        attr = getattr(InteractingNetworks, name)
        if not callable(attr):
            continue
        fn = getattr(attr, "__wrapped__", attr)
        try:
            params = list(inspect.signature(fn).parameters.values())[1:]
        except (TypeError, ValueError):
            continue
        req = [p.name for p in params if p.default is inspect._empty]
        if req == ["node_list1", "node_list2"]:
            out.append((name, 2))
        elif req == ["node_list"]:
            out.append((name, 1))
    return out


def check_interacting(ctx, A, w, plist):
    from pyunicorn.core.interacting_networks import InteractingNetworks
    A = np.asarray(A)
    n = len(A)
    if n < 2:
        return
    net = nsi.build_net(A, w, False, cls=InteractingNetworks)
    order = list(range(n))
    ctx.rng.shuffle(order)
    k1 = ctx.rng.randint(1, n - 1)
    l1, l2 = order[:k1], order[k1:]
    key = {"A": A.tolist(), "w": list(w), "l1": l1, "l2": l2}
    qs = interacting_queries()
    with warnings.catch_warnings():
        warnings.simplefilter("ignore")
        for p in plist[:2]:
            idx = np.array(p)
            inv = np.argsort(idx)          # old node -> new index
            pnet = nsi.build_net(A[np.ix_(idx, idx)], np.asarray(w)[idx],
                                 False, cls=InteractingNetworks)
            m1, m2 = [int(inv[x]) for x in l1], [int(inv[x]) for x in l2]
            for name, arity in qs:
                try:
                    b = getattr(net, name)(*([l1, l2][:arity]))
                except Exception:
                    ctx.stat("undefined_on_base")
                    continue
                try:
                    a = getattr(pnet, name)(*([m1, m2][:arity]))
                except Exception as e:
                    ctx.violation(f"InteractingNetworks.{name}",
                                  "raises after renumbering",
                                  dict(key, perm=p,
                                       err=f"{type(e).__name__}: {e}"),
                                  {"kind": "exception"})
                    continue
                try:
                    bb, aa = catalog.to_array(b), catalog.to_array(a)
                except (TypeError, ValueError):
                    continue
                if bb.shape == (n, n):
                    ok = same(aa, bb[np.ix_(idx, idx)])
                elif bb.shape == (n,):       # one value per node of the network
                    ok = same(aa, bb[idx])
                else:
                    ok = same(aa, bb)    # lists keep their order
                if not ok:
                    ctx.violation(
                        f"InteractingNetworks.{name}",
                        "depends on node numbering",
                        dict(key, perm=p, before=bb.tolist(),
                             after=aa.tolist()), {})
            # reordering a node list permutes per-node results only
            r1 = list(l1)
            ctx.rng.shuffle(r1)
            for name, arity in qs:
                try:
                    b = catalog.to_array(
                        getattr(net, name)(*([l1, l2][:arity])))
                    a = catalog.to_array(
                        getattr(net, name)(*([r1, l2][:arity])))
                except Exception:
                    continue
                if b.ndim == 0:
                    ok = same(a, b)
                elif b.ndim == 1 and len(b) == len(l1):
                    pos = [l1.index(x) for x in r1]
                    ok = same(a, b[pos])
                else:
                    continue
                if not ok:
                    ctx.violation(
                        f"InteractingNetworks.{name}",
                        "depends on the order of node_list1",
                        dict(key, reordered=r1, before=b.tolist(),
                             after=a.tolist()), {})


def check_resistive(ctx, A, w, plist):
    from pyunicorn.core.resistive_network import ResNetwork
    A = np.asarray(A)
    n = len(A)
    if n < 3 or not graphs.connected(A) or A.sum() == 0:
        return
    R = np.zeros((n, n))
    asym = ctx.rng.random() < 0.5     # direction-dependent resistances
    for i in range(n):
        for j in range(i):
            if A[i, j]:
                R[i, j] = R[j, i] = ctx.rng.randint(1, 16) / 2.0
                if asym:
                    R[j, i] = ctx.rng.randint(1, 16) / 2.0
    ctx.stat("resistive_asymmetric=%s" % asym)
    key = {"A": A.tolist(), "R": R.tolist()}

    def build(Rm, Am):
        return ResNetwork(Rm, adjacency=Am, silence_level=3)
    with warnings.catch_warnings():
        warnings.simplefilter("ignore")
        net = build(R, A)
        for p in plist[:2]:
            idx = np.array(p)
            pnet = build(R[np.ix_(idx, idx)], A[np.ix_(idx, idx)])
            checks = [
                ("effective_resistance_matrix",
                 lambda o: np.array([[o.effective_resistance(i, j)
                                      for j in range(n)] for i in range(n)]),
                 "pair"),
                ("average_effective_resistance",
                 lambda o: o.average_effective_resistance(), "global"),
                ("diameter_effective_resistance",
                 lambda o: o.diameter_effective_resistance(), "global"),
                ("effective_resistance_closeness_centrality",
                 lambda o: np.array(
                     [o.effective_resistance_closeness_centrality(i)
                      for i in range(n)]), "node"),
                ("vertex_current_flow_betweenness",
                 lambda o: np.array([o.vertex_current_flow_betweenness(i)
                                     for i in range(n)]), "node"),
                ("edge_current_flow_betweenness",
                 lambda o: o.edge_current_flow_betweenness(), "pair"),
                ("admittive_degree", lambda o: o.admittive_degree(), "node"),
                ("average_neighbors_admittive_degree",
                 lambda o: o.average_neighbors_admittive_degree(), "node"),
                ("local_admittive_clustering",
                 lambda o: o.local_admittive_clustering(), "node"),
                ("global_admittive_clustering",
                 lambda o: o.global_admittive_clustering(), "global"),
            ]
            for name, call, kind in checks:
                try:
                    b = call(net)
                except Exception:
                    ctx.stat("undefined_on_base")
                    continue
                try:
                    a = call(pnet)
                except Exception as e:
                    ctx.violation(f"ResNetwork.{name}",
                                  "raises after renumbering",
                                  dict(key, perm=p,
                                       err=f"{type(e).__name__}: {e}"),
                                  {"kind": "exception"})
                    continue
                if not relation(kind, b, a, idx) and \
                        not relation(kind, b, a, idx) and \
                        not same(catalog.to_array(a),
                                 catalog.to_array(b)[idx]
                                 if kind == "node" else catalog.to_array(b)
                                 if kind == "global" else
                                 catalog.to_array(b)[np.ix_(idx, idx)],
                                 rtol=1e-4):
                    ctx.violation(f"ResNetwork.{name}",
                                  "depends on node numbering",
                                  dict(key, perm=p,
                                       before=catalog.to_array(b).tolist(),
                                       after=catalog.to_array(a).tolist()),
                                  {})


def search(ctx):
    ctx.stats["rule"] = (
        "graphs: all undirected on 2-3 (quick) / 2-4 (thorough) nodes, all "
        "directed on 2 / 3, random G(n,p) n=4..9, families; all n! "
        "permutations for n<=3 (quick) / 4 (thorough), 2-4 random beyond; "
        "every public query of Network by reflection + keyed / typical-weight "
        "variants, every InteractingNetworks method taking node lists, "
        "ResNetwork measures on connected graphs; non-trivial = at least one "
        "link; distinct by hash of (A, w, directed)")
    gs = getattr(ctx, "_graphs", None)
    if gs is None or ctx.scale > 1:
        gs = gen_graphs(ctx)
    for A, w, directed in gs:
        pl = perms(ctx, len(A))
        check_network(ctx, A, w, directed, pl)
        if not directed:
            check_interacting(ctx, A, w, pl)
            if ctx.rng.random() < 0.5:
                check_resistive(ctx, A, w, pl)


def replay(ctx, rep):
    c = rep["case"]
    A = np.array(c["A"])
    n = len(A)
    pl = [c["perm"]] if "perm" in c else perms(ctx, n)
    if "R" in c:
        check_resistive(ctx, A, [1.0] * n, pl)
    elif "l1" in c:
        check_interacting(ctx, A, c["w"], pl)
    else:
        check_network(ctx, A, c["w"], c.get("directed", False), pl)
