"""C07 — recurrence matrices are exactly the thresholded distance matrices."""
import math
import warnings

import numpy as np

from common import qlit, blit, listlit

MODELLED = [
    "timeseries/_ext/numerics.pyx: _{manhattan,euclidean,supremum}_distance_"
    "matrix_{rp,crp}, _embed_time_series",
    "RecurrencePlot.set_fixed_threshold / set_fixed_recurrence_rate / "
    "threshold_from_recurrence_rate / embed_time_series / recurrence_matrix",
    "CrossRecurrencePlot.set_fixed_threshold, JointRecurrencePlot."
    "set_fixed_threshold (lag of either sign), "
    "InterSystemRecurrenceNetwork.inter_system_recurrence_matrix, "
    "RecurrenceNetwork adjacency",
]

HEADER = """From Coq Require Import QArith List Bool Arith ZArith.
From PV.Base Require Import F32.
From PV.Model Require Import Recurrence.
Import ListNotations.
Fixpoint eqlb (a b : list bool) : bool :=
  match a, b with [], [] => true | x :: a', y :: b' => Bool.eqb x y && eqlb a' b' | _, _ => false end.
Fixpoint eqmb (a b : list (list bool)) : bool :=
  match a, b with [], [] => true | x :: a', y :: b' => eqlb x y && eqmb a' b' | _, _ => false end.
Definition mnth (M : list (list bool)) i j := nth j (nth i M []) false.
(* metric, embedded states, eps, missing_values flag, mask, expected R *)
Definition check_rp (c : metric * list (list val) * Q * bool * list bool * list (list bool)) : bool :=
  let '(m, E, eps, mvf, ms, R) := c in
  let n := length E in
  eqmb (mat n n (rp_matrix m E eps mvf (fun i => nth i ms false))) R.
Definition check_crp (c : metric * list (list val) * list (list val) * Q * list (list bool)) : bool :=
  let '(m, X, Y, eps, R) := c in
  eqmb (mat (length X) (length Y) (crp_matrix m X Y eps)) R.
Definition check_embed (c : list val * nat * nat * list (list val)) : bool :=
  let '(x, dim, tau, E) := c in
  let eqv (a b : val) := match a, b with Some p, Some q => Qeq_bool p q | None, None => true | _, _ => false end in
  let fix eql (a b : list val) := match a, b with [], [] => true | x :: a', y :: b' => eqv x y && eql a' b' | _, _ => false end in
  let fix eqm (a b : list (list val)) := match a, b with [], [] => true | x :: a', y :: b' => eql x y && eqm a' b' | _, _ => false end in
  eqm (embed x dim tau) E.
(* sorted-distance quantile: distances (squared for euclidean), rate, threshold *)
Definition check_rate (c : list Q * Q * Q) : bool :=
  let '(ds, rr, thr) := c in Qeq_bool (threshold_of_rate ds rr) thr.
(* joint plot: n, lag, Rx, Ry, JR *)
Definition check_joint (c : nat * Z * list (list bool) * list (list bool) * list (list bool)) : bool :=
  let '(n, lag, Rx, Ry, JR) := c in
  let s := joint_size n lag in
  eqmb (mat s s (joint n lag (mnth Rx) (mnth Ry))) JR.
Definition check_isrm (c : nat * nat * list (list bool) * list (list bool) * list (list bool) * list (list bool)) : bool :=
  let '(nx, ny, Rx, Ry, Cxy, A) := c in
  eqmb (mat (nx + ny) (nx + ny) (network_of (isrm nx ny (mnth Rx) (mnth Ry) (mnth Cxy)))) A.
Definition check_net (c : list (list bool) * list (list bool)) : bool :=
  let '(R, A) := c in eqmb (mat (length R) (length R) (network_of (mnth R))) A.
"""

METRICS = {"manhattan": "Manhattan", "euclidean": "Euclidean",
           "supremum": "Supremum"}


TRANSLATORS = [('pyx_recurrence', 'RecurrenceK')]


def theorems(ctx):
    ctx.modelled += MODELLED
    ctx.generate(TRANSLATORS)
    ctx.theorems()
    if ctx.tier == "thorough":
        ctx.coqchk()


def vl(v):
    return "None" if (isinstance(v, float) and math.isnan(v)) \
        else f"(Some {qlit(float(v))})"


def vrows(E):
    return listlit([listlit([vl(v) for v in row]) for row in E])


def bm(R):
    return listlit([listlit([blit(bool(v)) for v in row]) for row in R])


def series(rng, n, dim, nan=False):
    x = np.array([[float(rng.randint(-5, 5)) for _ in range(dim)]
                  for _ in range(n)])
    if nan:
        for _ in range(rng.randint(1, max(1, n // 4))):
            x[rng.randrange(n), rng.randrange(dim)] = np.nan
    return x


def gen(ctx):
    rng = ctx.rng
    out = []
    for _ in range(ctx.n(120, 900)):
        n = rng.choice([1, 2, 3, 4, 5, 6, 8, 10, 12])
        dim = rng.choice([1, 1, 2, 3])
        nan = rng.random() < 0.25
        out.append({"x": series(rng, n, dim, nan), "nan": nan,
                    "metric": rng.choice(list(METRICS)),
                    "thr": rng.choice([0.5, 1.0, 1.5, 2.0, 2.5, 3.0, 4.5]),
                    "mv": nan and rng.random() < 0.6})
    return out


def rp(x, **kw):
    from pyunicorn.timeseries.recurrence_plot import RecurrencePlot
    with warnings.catch_warnings():
        warnings.simplefilter("ignore")
        return RecurrencePlot(x, silence_level=3, **kw)


def correspondence(ctx):
    from pyunicorn.timeseries.recurrence_plot import RecurrencePlot
    from pyunicorn.timeseries.cross_recurrence_plot import CrossRecurrencePlot
    from pyunicorn.timeseries.joint_recurrence_plot import JointRecurrencePlot
    from pyunicorn.timeseries.recurrence_network import RecurrenceNetwork
    from pyunicorn.timeseries.inter_system_recurrence_network import \
        InterSystemRecurrenceNetwork
    rng = ctx.rng
    cases = gen(ctx)
    ctx._cases = cases
    T = {k: [] for k in ("rp", "crp", "embed", "rate", "joint", "isrm", "net")}
    M = {k: [] for k in T}
    for c in cases:
        x, m = c["x"], c["metric"]
        try:
            p = rp(x, metric=m, threshold=c["thr"], missing_values=c["mv"])
        except Exception as e:
            ctx.corr("RecurrencePlot raises", _k(c), f"{type(e).__name__}: {e}")
            continue
        R = p.recurrence_matrix()
        ms = ([bool(b) for b in p.missing_value_indices] if c["mv"]
              else [False] * len(x))
        T["rp"].append(f"({METRICS[m]}, {vrows(x)}, {qlit(c['thr'])}, "
                       f"{blit(c['mv'])}, {listlit([blit(b) for b in ms])}, "
                       f"{bm(R)})")
        M["rp"].append(_k(c))
    with warnings.catch_warnings():
        warnings.simplefilter("ignore")
        for _ in range(ctx.n(60, 400)):
            m = rng.choice(list(METRICS))
            dim = rng.choice([1, 2])
            nx, ny = rng.randint(1, 8), rng.randint(1, 8)
            x, y = series(rng, nx, dim), series(rng, ny, dim)
            thr = rng.choice([0.5, 1.5, 2.5, 3.5])
            try:
                cr = CrossRecurrencePlot(x, y, metric=m, threshold=thr,
                                         silence_level=3)
                R = cr.recurrence_matrix()
                T["crp"].append(f"({METRICS[m]}, {vrows(x)}, {vrows(y)}, "
                                f"{qlit(thr)}, {bm(R)})")
                M["crp"].append({"x": x.tolist(), "y": y.tolist(),
                                 "metric": m, "thr": thr})
            except Exception as e:
                ctx.corr("CrossRecurrencePlot raises",
                         {"x": x.tolist(), "y": y.tolist()},
                         f"{type(e).__name__}: {e}")
        for _ in range(ctx.n(40, 300)):
            n = rng.randint(2, 14)
            dim, tau = rng.randint(1, 3), rng.randint(1, 3)
            if n - (dim - 1) * tau < 1:
                continue
            x = series(rng, n, 1)
            E = RecurrencePlot.embed_time_series(x, dim, tau)
            T["embed"].append(
                f"({listlit([vl(v) for v in x[:, 0]])}, {dim}%nat, {tau}%nat, "
                f"{vrows(np.asarray(E, float))})")
            M["embed"].append({"x": x.tolist(), "dim": dim, "tau": tau})
        for _ in range(ctx.n(60, 400)):
            n = rng.randint(2, 9)
            m = rng.choice(list(METRICS))
            x = series(rng, n, rng.choice([1, 2]))
            rr = rng.randint(0, 64) / 64.0
            p = rp(x, metric=m, recurrence_rate=rr)
            D = p.distance_matrix(m)
            thr = RecurrencePlot.threshold_from_recurrence_rate(D, rr)
            ds = (np.round(D ** 2) if m == "euclidean" else D).flatten()
            thr_s = round(float(thr) ** 2) if m == "euclidean" else float(thr)
            T["rate"].append(f"({listlit([qlit(float(v)) for v in ds])}, "
                             f"{qlit(rr)}, {qlit(float(thr_s))})")
            M["rate"].append({"x": x.tolist(), "metric": m, "rr": rr})
        for _ in range(ctx.n(60, 400)):
            n = rng.randint(2, 10)
            lag = rng.randint(-min(3, n - 1), min(3, n - 1))
            x, y = series(rng, n, 1), series(rng, n, 1)
            tx, ty = rng.choice([0.5, 1.5, 2.5]), rng.choice([0.5, 1.5, 2.5])
            try:
                j = JointRecurrencePlot(x, y, metric=("supremum", "supremum"),
                                        threshold=(tx, ty), lag=lag,
                                        silence_level=3)
            except Exception as e:
                ctx.corr("JointRecurrencePlot raises",
                         {"x": x.tolist(), "y": y.tolist(), "lag": lag},
                         f"{type(e).__name__}: {e}")
                continue
            Rx = rp(x, metric="supremum", threshold=tx).recurrence_matrix()
            Ry = rp(y, metric="supremum", threshold=ty).recurrence_matrix()
            lz = str(lag) if lag >= 0 else f"({lag})"
            T["joint"].append(f"({n}%nat, {lz}%Z, {bm(Rx)}, {bm(Ry)}, "
                              f"{bm(j.recurrence_matrix())})")
            M["joint"].append({"x": x.tolist(), "y": y.tolist(), "lag": lag,
                               "thr": [tx, ty]})
        for _ in range(ctx.n(40, 300)):
            nx, ny = rng.randint(1, 6), rng.randint(1, 6)
            x, y = series(rng, nx, 1), series(rng, ny, 1)
            th = [rng.choice([0.5, 1.5, 2.5]) for _ in range(3)]
            try:
                g = InterSystemRecurrenceNetwork(x, y, metric="supremum",
                                                 threshold=tuple(th),
                                                 silence_level=3)
            except Exception as e:
                ctx.corr("InterSystemRecurrenceNetwork raises",
                         {"x": x.tolist(), "y": y.tolist()},
                         f"{type(e).__name__}: {e}")
                continue
            T["isrm"].append(
                f"({nx}%nat, {ny}%nat, {bm(g.rp_x.recurrence_matrix())}, "
                f"{bm(g.rp_y.recurrence_matrix())}, "
                f"{bm(g.crp_xy.recurrence_matrix())}, {bm(g.adjacency)})")
            M["isrm"].append({"x": x.tolist(), "y": y.tolist(), "thr": th})
        for _ in range(ctx.n(40, 300)):
            n = rng.randint(2, 9)
            x = series(rng, n, rng.choice([1, 2]))
            thr = rng.choice([0.5, 1.5, 2.5])
            g = RecurrenceNetwork(x, metric="supremum", threshold=thr,
                                  silence_level=3)
            T["net"].append(f"({bm(g.recurrence_matrix())}, "
                            f"{bm(g.adjacency)})")
            M["net"].append({"x": x.tolist(), "thr": thr})
    for k, fn in (("rp", "check_rp"), ("crp", "check_crp"),
                  ("embed", "check_embed"), ("rate", "check_rate"),
                  ("joint", "check_joint"), ("isrm", "check_isrm"),
                  ("net", "check_net")):
        fails = ctx.coq_failing("c07_" + k, HEADER, T[k], fn, chunk=150)
        for i in fails or []:
            ctx.corr(f"recurrence model != implementation ({k})", M[k][i],
                     None)
        ctx.traces += len(T[k])
        ctx.stats["c_" + k] = len(T[k])


def _k(c):
    return {"x": c["x"].tolist(), "metric": c["metric"], "thr": c["thr"],
            "mv": c["mv"]}


# --------------------------------------------------------------------------
# P
# --------------------------------------------------------------------------

def ref_dist(x, y, m):
    d = np.abs(x[:, None, :] - y[None, :, :])
    if m == "manhattan":
        return d.sum(axis=2)
    if m == "euclidean":
        return np.sqrt((d ** 2).sum(axis=2))
    return d.max(axis=2)        # NaN propagates


def check_rp_case(ctx, c):
    key = _k(c)
    x, m, thr = c["x"], c["metric"], c["thr"]
    n = len(x)
    ctx.count(key, nontrivial=n >= 2)
    ctx.stat("metric=" + m)
    ctx.stat("nan=%s" % c["nan"])
    try:
        p = rp(x, metric=m, threshold=thr, missing_values=c["mv"])
    except Exception as e:
        ctx.violation("RecurrencePlot", "raises", dict(
            key, err=f"{type(e).__name__}: {e}"), {"kind": "exception"})
        return
    R = np.asarray(p.recurrence_matrix()).astype(int)
    x32 = x.astype(np.float32).astype(float)
    with np.errstate(invalid="ignore"):
        D = ref_dist(x32, x32, m)
        want = (D < thr).astype(int)
    if not np.array_equal(R, want):
        bad = np.argwhere(R != want)
        i, j = (int(v) for v in bad[0])
        nanrow = bool(np.isnan(x[i]).any() or np.isnan(x[j]).any())
        ctx.violation(
            "RecurrencePlot.recurrence_matrix",
            "differs from (distance < threshold)",
            dict(key, cell=[i, j], got=int(R[i, j]), want=int(want[i, j])),
            {"metric": m, "state_has_nan": nanrow, "diagonal": i == j,
             "missing_values": c["mv"]})
    # every quantification method is applicable
    if not c["nan"]:
        for name in ("recurrence_rate", "determinism", "laminarity",
                     "diagline_dist", "vertline_dist", "white_vertline_dist",
                     "average_diaglength", "trapping_time"):
            try:
                getattr(p, name)()
            except Exception as e:
                ctx.violation(f"RecurrencePlot.{name}", "not applicable",
                              dict(key, err=f"{type(e).__name__}: {e}"),
                              {"kind": "exception"})
    ctx.sample(key)


def check_variants(ctx):
    from pyunicorn.timeseries.joint_recurrence_plot import JointRecurrencePlot
    from pyunicorn.timeseries.joint_recurrence_network import \
        JointRecurrenceNetwork
    from pyunicorn.timeseries.cross_recurrence_plot import CrossRecurrencePlot
    from pyunicorn.timeseries.inter_system_recurrence_network import \
        InterSystemRecurrenceNetwork
    from pyunicorn.timeseries.recurrence_network import RecurrenceNetwork
    from pyunicorn.timeseries.recurrence_plot import RecurrencePlot
    rng = ctx.rng
    with warnings.catch_warnings():
        warnings.simplefilter("ignore")
        for _ in range(ctx.n(60, 400)):
            n = rng.randint(3, 12)
            x = series(rng, n, rng.choice([1, 2]))
            m = rng.choice(list(METRICS))
            key = {"x": x.tolist(), "metric": m}
            ctx.evaluations += 1
            # fixed rate: realised rate never above the request
            rr = rng.randint(1, 63) / 64.0
            p = rp(x, metric=m, recurrence_rate=rr)
            real = float(np.asarray(p.recurrence_matrix()).sum()) / n ** 2
            if real > rr + 1.0 / n ** 2 + 1e-12:
                ctx.violation("RecurrencePlot(recurrence_rate)",
                              "realised rate exceeds the request",
                              dict(key, rr=rr, realised=real), {})
            # local rate: every state gets the same number of recurrences
            lrr = rng.randint(8, 56) / 64.0
            p = rp(x, metric=m, local_recurrence_rate=lrr)
            Rl = np.asarray(p.recurrence_matrix())
            D = p.distance_matrix(m)
            distinct = all(len(set(np.round(row, 9))) == n for row in D)
            if distinct and len(set(Rl.sum(axis=1).tolist())) != 1:
                ctx.violation("RecurrencePlot(local_recurrence_rate)",
                              "states have different numbers of recurrences",
                              dict(key, lrr=lrr,
                                   counts=Rl.sum(axis=1).tolist()), {})
            # adaptive neighbourhood size (with and without an order)
            k = rng.randint(1, max(1, n - 2))
            order = list(range(n))
            if rng.random() < 0.5:
                rng.shuffle(order)
            try:
                p = rp(x, metric=m, adaptive_neighborhood_size=1)
                p.set_adaptive_neighborhood_size(k, order=np.array(order))
                Ra = np.asarray(p.recurrence_matrix())
                cnt = (Ra.sum(axis=1) - np.diag(Ra)).tolist()
                if min(cnt) < k or not np.array_equal(Ra, Ra.T):
                    ctx.violation(
                        "RecurrencePlot.set_adaptive_neighborhood_size",
                        "a state has fewer than the requested neighbours "
                        "or the matrix is asymmetric",
                        dict(key, k=k, order=order, counts=cnt), {})
            except IndexError:
                ctx.stat("adaptive_indexerror")
                ctx.violation(
                    "RecurrencePlot.set_adaptive_neighborhood_size",
                    "raises IndexError for a feasible neighbourhood size",
                    dict(key, k=k, order=order), {"kind": "IndexError"})
            # joint plots, both signs of lag, all RQA methods applicable
            y = series(rng, n, 1)
            x1 = series(rng, n, 1)
            lag = rng.randint(-min(3, n - 2), min(3, n - 2))
            tx, ty = rng.choice([0.5, 1.5, 2.5]), rng.choice([0.5, 1.5, 2.5])
            keyj = {"x": x1.tolist(), "y": y.tolist(), "lag": lag,
                    "thr": [tx, ty]}
            try:
                j = JointRecurrencePlot(x1, y, threshold=(tx, ty), lag=lag,
                                        silence_level=3)
                JR = np.asarray(j.recurrence_matrix()).astype(int)
                Rx = np.asarray(rp(x1, metric="supremum", threshold=tx)
                                .recurrence_matrix()).astype(int)
                Ry = np.asarray(rp(y, metric="supremum", threshold=ty)
                                .recurrence_matrix()).astype(int)
                L = abs(lag)
                s = n - L
                if lag >= 0:
                    want = Rx[:s, :s] * Ry[L:, L:]
                else:
                    want = Ry[:s, :s] * Rx[L:, L:]
                if not np.array_equal(JR, want):
                    ctx.violation("JointRecurrencePlot.recurrence_matrix",
                                  "is not the product of the shifted plots",
                                  keyj, {"lag_sign": int(np.sign(lag))})
                if j.N != JR.shape[0]:
                    ctx.violation("JointRecurrencePlot.N",
                                  "differs from the size of the joint matrix",
                                  dict(keyj, N=int(j.N), size=JR.shape[0]),
                                  {})
                rrj = j.recurrence_rate()
                if abs(rrj - JR.sum() / float(s * s)) > 1e-12:
                    ctx.violation("JointRecurrencePlot.recurrence_rate",
                                  "is not the fraction of recurrence points",
                                  dict(keyj, got=float(rrj)), {})
                for name in ("diagline_dist", "vertline_dist", "determinism",
                             "laminarity"):
                    getattr(j, name)()
                g = JointRecurrenceNetwork(x1, y, threshold=(tx, ty), lag=lag,
                                           silence_level=3)
                A = np.asarray(g.adjacency).astype(int)
                wantA = want.copy()
                np.fill_diagonal(wantA, 0)
                if not np.array_equal(A, wantA):
                    ctx.violation("JointRecurrenceNetwork.adjacency",
                                  "is not the joint matrix without diagonal",
                                  keyj, {})
                g.set_fixed_threshold((ty, tx))
                A2 = np.asarray(g.adjacency).astype(int)
                Rx2 = np.asarray(rp(x1, metric="supremum", threshold=ty)
                                 .recurrence_matrix()).astype(int)
                Ry2 = np.asarray(rp(y, metric="supremum", threshold=tx)
                                 .recurrence_matrix()).astype(int)
                w2 = (Rx2[:s, :s] * Ry2[L:, L:]) if lag >= 0 \
                    else (Ry2[:s, :s] * Rx2[L:, L:])
                np.fill_diagonal(w2, 0)
                if not np.array_equal(A2, w2):
                    ctx.violation(
                        "JointRecurrenceNetwork.set_fixed_threshold",
                        "adjacency is not the new joint matrix without "
                        "diagonal", keyj, {})
            except Exception as e:
                ctx.violation("JointRecurrencePlot / Network",
                              "raises", dict(
                                  keyj, err=f"{type(e).__name__}: {e}"),
                              {"kind": "exception"})
            # cross plots of unequal lengths
            ny = rng.randint(1, 9)
            y2 = series(rng, ny, x.shape[1])
            cr = CrossRecurrencePlot(x, y2, metric=m, threshold=1.5,
                                     silence_level=3)
            CR = np.asarray(cr.recurrence_matrix()).astype(int)
            with np.errstate(invalid="ignore"):
                wantC = (ref_dist(x, y2, m) < 1.5).astype(int)
            if not np.array_equal(CR, wantC):
                ctx.violation("CrossRecurrencePlot.recurrence_matrix",
                              "differs from (distance < threshold)",
                              dict(key, y=y2.tolist()), {})
            # data of large magnitude (counts, time stamps): the distances
            # are sums of exactly representable binary64 terms; a kernel that
            # narrows a term rounds it
            xb = np.array([[float(rng.randrange(-2 ** 27, 2 ** 27) | 1)
                            for _ in range(x.shape[1])]
                           for _ in range(rng.randint(2, 6))])
            yb = np.array([[float(rng.randrange(-2 ** 27, 2 ** 27) & ~1)
                            for _ in range(x.shape[1])]
                           for _ in range(rng.randint(2, 6))])
            crb = CrossRecurrencePlot(xb, yb, metric=m, threshold=1.0,
                                      silence_level=3)
            Db = np.asarray(crb.distance_matrix(m), float)
            # (the classes may store the series in single precision: the
            # reference is computed from the states the object holds)
            wantD = ref_dist(np.asarray(crb.x_embedded, float),
                             np.asarray(crb.y_embedded, float), m)
            if not np.allclose(Db, wantD, rtol=4e-16 * xb.shape[1], atol=0):
                ctx.violation("CrossRecurrencePlot.distance_matrix",
                              "is not the " + m + " distance in binary64 "
                              "(relative error %.2g)" % float(
                                  (np.abs(Db - wantD)
                                   / np.maximum(wantD, 1)).max()),
                              {"x": xb.tolist(), "y": yb.tolist(),
                               "metric": m}, {"large": True})
            rpb = RecurrencePlot(xb, metric=m, threshold=1.0,
                                 silence_level=3)
            Db = np.asarray(rpb.distance_matrix(m), float)
            eb = np.asarray(rpb.embedding, float)
            wantD = ref_dist(eb, eb, m)
            if not np.allclose(Db, wantD, rtol=4e-16 * xb.shape[1], atol=0):
                ctx.violation("RecurrencePlot.distance_matrix",
                              "is not the " + m + " distance in binary64",
                              {"x": xb.tolist(), "metric": m},
                              {"large": True})
            # inter-system network with and without embedding
            xs, ys = series(rng, rng.randint(4, 9), 1), \
                series(rng, rng.randint(4, 9), 1)
            for emb in (None, (2, (1, 1))):
                kw = {} if emb is None else {"dim": emb[0], "tau": emb[1]}
                try:
                    g = InterSystemRecurrenceNetwork(
                        xs, ys, metric="supremum", threshold=(1.5, 1.5, 1.5),
                        silence_level=3, **kw)
                    A = np.asarray(g.adjacency).astype(int)
                    nx_ = g.rp_x.recurrence_matrix().shape[0]
                    ny_ = g.rp_y.recurrence_matrix().shape[0]
                    W = np.zeros((nx_ + ny_, nx_ + ny_), int)
                    W[:nx_, :nx_] = g.rp_x.recurrence_matrix()
                    W[nx_:, nx_:] = g.rp_y.recurrence_matrix()
                    W[:nx_, nx_:] = g.crp_xy.recurrence_matrix()
                    W[nx_:, :nx_] = g.crp_xy.recurrence_matrix().T
                    np.fill_diagonal(W, 0)
                    if not np.array_equal(A, W):
                        ctx.violation("InterSystemRecurrenceNetwork.adjacency",
                                      "is not the block matrix of the plots",
                                      {"x": xs.tolist(), "y": ys.tolist(),
                                       "embedding": emb is not None}, {})
                except Exception as e:
                    ctx.violation(
                        "InterSystemRecurrenceNetwork", "raises",
                        {"x": xs.tolist(), "y": ys.tolist(),
                         "embedding": emb is not None,
                         "err": f"{type(e).__name__}: {e}"},
                        {"kind": "exception"})
            # threshold in units of the standard deviation of the SERIES,
            # with a delay embedding (the embedded array repeats the middle
            # samples: its standard deviation is a different number)
            ns = rng.randint(12, 30)
            xs1 = np.cumsum([rng.choice([-1.0, 0.5, 1.0, 2.0])
                             for _ in range(ns)])
            ed, et = rng.choice([2, 3]), rng.choice([1, 2, 3])
            ts = rng.choice([0.25, 0.5, 1.0])
            try:
                rs = RecurrencePlot(xs1, metric=m, threshold_std=ts, dim=ed,
                                    tau=et, silence_level=3)
                emb = np.asarray(rs.embedding, float)
                Dd = ref_dist(emb, emb, m)
                thr_s = ts * float(np.asarray(rs.time_series,
                                              float).std())
                if np.all(np.abs(Dd - thr_s) > 1e-5 * (1 + thr_s)):
                    wantR = (Dd < thr_s).astype(int)
                    gotR = np.asarray(rs.recurrence_matrix()).astype(int)
                    if not np.array_equal(gotR, wantR):
                        ctx.violation(
                            "RecurrencePlot(threshold_std, dim, tau)",
                            "R is not (distance < threshold_std * standard "
                            "deviation of the series)",
                            {"x": xs1.tolist(), "metric": m, "dim": ed,
                             "tau": et, "threshold_std": ts},
                            {"embedding": True})
                else:
                    ctx.stat("threshold_std: distance on the threshold")
            except Exception as e:
                ctx.violation("RecurrencePlot(threshold_std, dim, tau)",
                              "raises", {"x": xs1.tolist(), "err":
                                         f"{type(e).__name__}: {e}"},
                              {"kind": "exception"})
            # recurrence network of a series with missing samples: R of the
            # plot, the states holding a missing value removed, no self-loops
            xn = x.copy()
            for r in rng.sample(range(n), rng.randint(1, max(1, n // 4))):
                xn[r, rng.randrange(xn.shape[1])] = np.nan
            try:
                gm = RecurrenceNetwork(xn, metric=m, threshold=1.5,
                                       missing_values=True, silence_level=3)
                pm = RecurrencePlot(xn, metric=m, threshold=1.5,
                                    missing_values=True, silence_level=3)
                keep = ~np.isnan(np.asarray(pm.embedding, float)).any(axis=1)
                Rm = np.asarray(pm.recurrence_matrix()).astype(int)
                wantA = Rm[np.ix_(keep, keep)].copy()
                np.fill_diagonal(wantA, 0)
                gotA = np.asarray(gm.adjacency).astype(int)
                if gotA.shape != wantA.shape or not np.array_equal(gotA,
                                                                  wantA):
                    ctx.violation("RecurrenceNetwork.adjacency",
                                  "with missing values is not R restricted "
                                  "to the complete states, without diagonal",
                                  dict(key, x=[[None if np.isnan(v) else
                                                float(v) for v in r]
                                               for r in xn]),
                                  {"missing_values": True})
            except Exception as e:
                ctx.violation("RecurrenceNetwork(missing_values=True)",
                              "raises", dict(key, err=f"{type(e).__name__}: "
                                             f"{e}"), {"kind": "exception"})
            # recurrence network = R without diagonal
            g = RecurrenceNetwork(x, metric=m, threshold=1.5, silence_level=3)
            Rn = np.asarray(g.recurrence_matrix()).astype(int)
            np.fill_diagonal(Rn, 0)
            if not np.array_equal(Rn, np.asarray(g.adjacency).astype(int)):
                ctx.violation("RecurrenceNetwork.adjacency",
                              "is not R without its diagonal", key, {})


def search(ctx):
    ctx.stats["rule"] = (
        "series: integer values, n in 1..12, dimension 1..3, the three "
        "metrics, thresholds on and off lattice values, NaN samples with and "
        "without missing-value handling; fixed / local rates, adaptive "
        "neighbourhoods with default and shuffled order, cross plots of "
        "unequal lengths, joint plots with lags -3..3, inter-system networks "
        "with and without embedding; non-trivial = at least 2 states; "
        "distinct by hash of (series, metric, threshold, flags)")
    cases = getattr(ctx, "_cases", None)
    if cases is None or ctx.scale > 1:
        cases = gen(ctx)
    for c in cases:
        check_rp_case(ctx, c)
    check_variants(ctx)


def replay(ctx, rep):
    c = rep["case"]
    if "metric" in c and "thr" in c and "x" in c and "y" not in c:
        x = np.array(c["x"], dtype=float)
        check_rp_case(ctx, {"x": x, "metric": c["metric"], "thr": c["thr"],
                            "mv": c.get("mv", False),
                            "nan": bool(np.isnan(x).any())})
    else:
        check_variants(ctx)
