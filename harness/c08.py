"""C08 — RQA line statistics are exact run-length counts of the matrix."""
import itertools
import math

import numpy as np

from common import qlit, blit, listlit

TRANSLATORS = [("pyx_linedist", "LineDistGen")]
EPS = 1e-8

MODELLED = [
    "timeseries/_ext/numerics.pyx:_line_dist (+ 9 wrappers, i2J_*/ij2I_*, "
    "metric_supremum)",
    "RecurrencePlot.vertline_dist / diagline_dist / white_vertline_dist",
    "RecurrencePlot.determinism / laminarity / average_diaglength / "
    "average_vertlength / average_white_vertlength / max_*length / "
    "recurrence_rate (sequential mode)",
]


def theorems(ctx):
    ctx.modelled += MODELLED
    ctx.generate(TRANSLATORS)
    ctx.theorems()
    if ctx.tier == "thorough":
        ctx.coqchk()


# --------------------------------------------------------------------------
# case generation
# --------------------------------------------------------------------------

def crafted_series(R):
    """Series whose supremum-metric RP at threshold 1.5 is the symmetric 0/1
    matrix R with unit diagonal (dimension = n)."""
    n = len(R)
    x = np.zeros((n, n))
    for i in range(n):
        for l in range(n):
            x[i, l] = 2.0 if l == i else (1.0 if R[i][l] else 0.0)
    return x


def sym_matrices(n):
    pairs = [(i, j) for i in range(n) for j in range(i)]
    for bits in itertools.product([0, 1], repeat=len(pairs)):
        R = [[1 if i == j else 0 for j in range(n)] for i in range(n)]
        for (i, j), b in zip(pairs, bits):
            R[i][j] = R[j][i] = b
        yield R


def random_case(rng, nmax):
    n = rng.choice([1, 2, 3, 4, 5, 6, 7, 8, 10, 12, nmax])
    n = min(n, nmax)
    dim = rng.choice([1, 1, 2, 3])
    kind = rng.choice(["int", "int", "dyadic", "plateau", "near32"])
    if kind == "int":
        x = [[float(rng.randint(0, 4)) for _ in range(dim)] for _ in range(n)]
        thr = rng.choice([0.5, 1.0, 1.5, 2.0, 2.5, 3.0])
    elif kind == "dyadic":
        x = [[rng.randint(-16, 16) / 8.0 for _ in range(dim)]
             for _ in range(n)]
        thr = rng.randint(1, 24) / 8.0
    elif kind == "plateau":
        x, v = [], 0.0
        for _ in range(n):
            if rng.random() < 0.4:
                v = float(rng.randint(0, 3))
            x.append([v] * dim)
        thr = rng.choice([0.5, 1.0, 1.5])
    else:
        # distances that sit next to the threshold on the binary32 grid
        base = rng.choice([1.0, 2.0, 0.5, 3.0])
        x = [[rng.choice([0.0, base, base - base * 2.0 ** -rng.randint(25, 30),
                          2.0 ** -rng.randint(25, 30)])
              for _ in range(dim)] for _ in range(n)]
        thr = rng.choice([base, base * (1 + 2.0 ** -rng.randint(24, 29))])
    mv = rng.random() < 0.35
    if mv and n > 1:
        for _ in range(rng.randint(1, max(1, n // 4))):
            x[rng.randrange(n)][rng.randrange(dim)] = float("nan")
    # a scalar series with a delay embedding: the state dimension is that
    # of the embedding, not of the series
    embed = None
    if dim == 1 and n >= 6 and rng.random() < 0.5:
        embed = [rng.choice([2, 3]), rng.choice([1, 2])]
        if n - (embed[0] - 1) * embed[1] < 2:
            embed = None
    return {"x": x, "thr": thr, "mv": mv, "kind": kind, "embed": embed,
            "lmin": rng.randint(1, 4), "vmin": rng.randint(1, 4),
            "wmin": rng.randint(1, 4)}


def gen_cases(ctx):
    cases = []
    top = 5 if ctx.tier == "thorough" else 4
    for n in range(1, top + 1):
        for R in sym_matrices(n):
            cases.append({"x": crafted_series(R).tolist(), "thr": 1.5,
                          "mv": False, "kind": f"all-sym-{n}", "lmin": 2,
                          "vmin": 2, "wmin": 1})
    nrand = ctx.n(150, 1500)
    for _ in range(nrand):
        cases.append(random_case(ctx.rng, 25 if ctx.tier == "quick" else 60))
    return cases


# --------------------------------------------------------------------------
# implementation
# --------------------------------------------------------------------------

def run_impl(case):
    from pyunicorn.timeseries import RecurrencePlot
    x = np.array(case["x"], dtype=float)
    out = {}
    for sparse in (False, True):
        kw = {}
        if case.get("embed"):
            kw = {"dim": case["embed"][0], "tau": case["embed"][1]}
        rp = RecurrencePlot(x, threshold=case["thr"], metric="supremum",
                            silence_level=3, sparse_rqa=sparse,
                            missing_values=case["mv"], **kw)
        r = {"vert": rp.vertline_dist().tolist(),
             "diag": rp.diagline_dist().tolist()}
        lm, vm, wm = case["lmin"], case["vmin"], case["wmin"]
        r["DET"] = float(rp.determinism(lm))
        r["L"] = float(rp.average_diaglength(lm))
        r["LAM"] = float(rp.laminarity(vm))
        r["TT"] = float(rp.average_vertlength(vm))
        r["Lmax"] = int(rp.max_diaglength())
        r["Vmax"] = int(rp.max_vertlength())
        r["ENTR"] = float(rp.diag_entropy(lm))
        r["VENTR"] = float(rp.vert_entropy(vm))
        sm = rp.rqa_summary(lm, vm)
        r["summary"] = [float(sm["RR"]), float(sm["DET"]), float(sm["L"]),
                        float(sm["LAM"])]
        r["TT_alias"] = float(rp.trapping_time(vm))
        if not sparse:
            r["white"] = rp.white_vertline_dist().tolist()
            r["Wmax"] = int(rp.max_white_vertlength())
            r["MRT"] = float(rp.average_white_vertlength(wm))
            r["WENTR"] = float(rp.white_vert_entropy(wm))
            r["MRT_alias"] = float(rp.mean_recurrence_time(wm))
            r["R"] = rp.recurrence_matrix().astype(int).tolist()
            r["E"] = np.asarray(rp.embedding, dtype=float).tolist()
            r["M"] = ([bool(b) for b in rp.missing_value_indices]
                      if case["mv"] else [False] * len(rp.embedding))
            r["RR"] = float(rp.recurrence_rate())
        else:
            r["RR"] = float(rp.recurrence_rate())
        out["seq" if sparse else "mat"] = r
    return out


# --------------------------------------------------------------------------
# C: model inside Coq vs implementation
# --------------------------------------------------------------------------

HEADER = """From Coq Require Import List Bool Arith QArith Qabs.
From PV.Base Require Import F32.
From PV.Model Require Import LineDist.
From PV.Gen Require Import LineDistGen.
Import ListNotations.
Fixpoint eqln (a b : list nat) : bool :=
  match a, b with
  | [], [] => true
  | x :: a', y :: b' => Nat.eqb x y && eqln a' b'
  | _, _ => false
  end.
Definition close (m x : Q) : bool :=
  Qle_bool (Qabs (m - x)) ((1 # 1000000000) * (1 + Qabs m))%Q.
Definition eps : Q := (1 # 100000000)%Q.
(* matrix mode: R, M, mv, (vert, diag, white), (lmin, vmin, wmin),
   (DET, L, LAM, TT, MRT), (Lmax, Vmax, Wmax) *)
Definition check_mat (c : list (list bool) * list bool * bool *
    (list nat * list nat * list nat) * (nat * nat * nat) *
    (Q * Q * Q * Q * Q) * (nat * nat * nat) * (Q * Q * Q)) : bool :=
  let '(R, M, mv, (v, d, w), (lmin, vmin, wmin), (det, l, lam, ttm, mrt),
        (lmax, vmax, wmax), (sdet, sl, slam)) := c in
  let '(mv_, md, mw) := all_dists R M mv in
  eqln mv_ v && eqln md d && eqln mw w &&
  close (ratio_measure eps lmin md) det && close (avg_measure eps lmin md) l &&
  close (ratio_measure eps vmin mv_) lam && close (avg_measure eps vmin mv_) ttm &&
  close (avg_measure eps wmin mw) mrt &&
  close (ratio_measure eps lmin md) sdet && close (avg_measure eps lmin md) sl &&
  close (ratio_measure eps vmin mv_) slam &&
  Nat.eqb (max_len md) lmax && Nat.eqb (max_len mv_) vmax &&
  Nat.eqb (max_len mw) wmax.
(* sequential mode: E, eps, M, mv, (vert, diag), rr *)
Definition check_seq (c : list (list Q) * Q * list bool * bool *
    (list nat * list nat) * Q) : bool :=
  let '(E, thr, M, mv, (v, d), rr) := c in
  let '(mv_, md) := seq_dists (seq_cmp gen_seq_rounds) E thr M mv in
  eqln mv_ v && eqln md d && close (rr_from_vert (length E) mv_) rr.
Definition check_r32 (c : Q * Q) : bool := Qeq_bool (round32 (fst c)) (snd c).
"""


def nl(xs):
    return listlit([str(int(v)) for v in xs])


def mat_term(case, r):
    m = r["mat"]
    R = listlit([listlit([blit(v) for v in row]) for row in m["R"]])
    M = listlit([blit(v) for v in m["M"]])
    return (f"({R}, {M}, {blit(case['mv'])}, "
            f"({nl(m['vert'])}, {nl(m['diag'])}, {nl(m['white'])}), "
            f"({case['lmin']}, {case['vmin']}, {case['wmin']}), "
            f"({qlit(m['DET'])}, {qlit(m['L'])}, {qlit(m['LAM'])}, "
            f"{qlit(m['TT'])}, {qlit(m['MRT'])}), "
            f"({m['Lmax']}, {m['Vmax']}, {m['Wmax']}), "
            f"({qlit(m['summary'][1])}, {qlit(m['summary'][2])}, "
            f"{qlit(m['summary'][3])}))")


def seq_term(case, r):
    m, s = r["mat"], r["seq"]
    E = listlit([listlit([qlit(0.0 if math.isnan(v) else v) for v in row])
                 for row in m["E"]])
    M = listlit([blit(v) for v in m["M"]])
    return (f"({E}, {qlit(case['thr'])}, {M}, {blit(case['mv'])}, "
            f"({nl(s['vert'])}, {nl(s['diag'])}), {qlit(s['RR'])})")


def has_unmasked_nan(case, r):
    """NaN in the embedding without missing-value handling: outside the
    sequential model (C07 covers NaN semantics of the distance kernels)."""
    return (not case["mv"]) and any(
        math.isnan(v) for row in r["mat"]["E"] for v in row)


def correspondence(ctx):
    cases = gen_cases(ctx)
    results = []
    for c in cases:
        try:
            results.append(run_impl(c))
        except Exception as e:
            results.append({"error": f"{type(e).__name__}: {e}"})
    ctx._c08 = (cases, results)
    ok = [(c, r) for c, r in zip(cases, results) if "error" not in r]
    for c, r in zip(cases, results):
        if "error" in r:
            ctx.corr("RecurrencePlot raises", _strip(c), r["error"])
    mterms = [mat_term(c, r) for c, r in ok]
    fails = ctx.coq_failing("c08_mat", HEADER, mterms, "check_mat", chunk=120)
    for i in fails or []:
        ctx.corr("matrix-mode histograms / measures differ from the model",
                 _strip(ok[i][0]), {k: v for k, v in ok[i][1]["mat"].items()
                                    if k not in ("R", "E")})
    sq = [(c, r) for c, r in ok if not has_unmasked_nan(c, r)]
    sterms = [seq_term(c, r) for c, r in sq]
    fails = ctx.coq_failing("c08_seq", HEADER, sterms, "check_seq", chunk=150)
    for i in fails or []:
        ctx.corr("sequential-mode histograms differ from the model",
                 _strip(sq[i][0]), sq[i][1]["seq"])
    # rounding model vs numpy.float32, bit for bit
    vals = []
    for _ in range(ctx.n(300, 3000)):
        e = ctx.rng.randint(-40, 40)
        v = ctx.rng.choice([-1, 1]) * ctx.rng.random() * 2.0 ** e
        if ctx.rng.random() < 0.3:      # ties and near-ties
            m = ctx.rng.randrange(2 ** 23, 2 ** 24)
            v = (m + ctx.rng.choice([0.5, 0.5 + 2.0 ** -20, 0.5 - 2.0 ** -20,
                                     0.25])) * 2.0 ** (e - 23)
        vals.append(v)
    rterms = [f"({qlit(v)}, {qlit(float(np.float32(v)))})" for v in vals]
    fails = ctx.coq_failing("c08_r32", HEADER, rterms, "check_r32", chunk=1000)
    for i in fails or []:
        ctx.corr("round32 differs from numpy.float32", vals[i], None)
    ctx.traces += len(mterms) + len(sterms) + len(rterms)
    ctx.stats["c_matrix_cases"] = len(mterms)
    ctx.stats["c_sequential_cases"] = len(sterms)
    ctx.stats["c_round32_cases"] = len(rterms)


def _strip(c):
    d = {k: c[k] for k in ("x", "thr", "mv", "lmin", "vmin", "wmin")}
    d["embed"] = c.get("embed")
    return d


# --------------------------------------------------------------------------
# P: the property relation evaluated directly on the implementation
# --------------------------------------------------------------------------

def recount(lines, n):
    """lines: iterable of lists over {'B','W','M'}; independent recount."""
    h = [0] * n
    for line in lines:
        s = "".join(line)
        for piece in s.split("W"):
            if piece and "M" not in piece:
                h[len(piece) - 1] += 1
    return h


def cells(R, M, mv, black):
    n = len(R)

    def cell(a, b):
        if mv and (M[a] or M[b]):
            return "M"
        return "B" if (R[a][b] == 1) == black else "W"
    rows = [[cell(i, j) for j in range(n)] for i in range(n)]
    diags = [[cell(off + j, j) for j in range(n - off)]
             for off in range(1, n)]
    return rows, diags


def formulas(h, lmin, n):
    ar = list(range(1, n + 1))
    part = sum(a * b for a, b in zip(ar[lmin - 1:], h[lmin - 1:]))
    full = sum(a * b for a, b in zip(ar, h))
    cnt = sum(h[lmin - 1:])
    nz = [v for v in h[lmin - 1:] if v != 0]
    tot = sum(nz) + EPS
    ent = -sum((v / tot) * math.log(v / tot) for v in nz)
    mx = max([i + 1 for i, v in enumerate(h) if v != 0], default=0)
    return part / (full + EPS), part / (cnt + EPS), ent, mx


def check_case(ctx, c, r):
    key = _strip(c)
    if "error" in r:
        ctx.violation("RecurrencePlot RQA raises", r["error"], key,
                      {"kind": "exception"})
        return
    m, s = r["mat"], r["seq"]
    n = len(m["R"])
    R, mv = m["R"], c["mv"]
    # states holding a missing value in ANY coordinate, from the stored
    # embedding (not from the object's own mask)
    M = [bool(mv and any(math.isnan(v) for v in row)) for row in m["E"]]
    if mv and M != list(m["M"]):
        ctx.violation("missing_value_indices",
                      "is not the set of states with a missing coordinate",
                      dict(key, got=list(m["M"]), want=M),
                      {"missing_values": True})
    rows, diags = cells(R, M, mv, True)
    wrows, _ = cells(R, [False] * n, False, False)
    exp_v, exp_d = recount(rows, n), [2 * v for v in recount(diags, n)]
    exp_w = recount(wrows, n)
    nontrivial = any(exp_v) and n > 1
    ctx.count(key, nontrivial)
    if m["vert"] != exp_v:
        ctx.violation("vertline_dist != run-length count", "matrix mode",
                      dict(key, got=m["vert"], want=exp_v))
    if m["diag"] != exp_d:
        ctx.violation("diagline_dist != run-length count", "matrix mode",
                      dict(key, got=m["diag"], want=exp_d))
    if m["white"] != exp_w:
        ctx.violation("white_vertline_dist != run-length count", "matrix mode",
                      dict(key, got=m["white"], want=exp_w))
    # accounting (no missing values)
    if not mv:
        blk = sum(sum(row) for row in R)
        tb = sum((i + 1) * v for i, v in enumerate(m["vert"]))
        tw = sum((i + 1) * v for i, v in enumerate(m["white"]))
        if tb != blk or tb + tw != n * n:
            ctx.violation("accounting", "black/white totals",
                          dict(key, black=blk, tb=tb, tw=tw))
        symm = all(R[i][j] == R[j][i] for i in range(n) for j in range(n))
        td = sum((i + 1) * v for i, v in enumerate(m["diag"]))
        if symm and td + sum(R[i][i] for i in range(n)) != blk:
            ctx.violation("accounting", "diagonal totals",
                          dict(key, black=blk, td=td))
    # sequential mode == matrix mode
    if not has_unmasked_nan(c, r):
        if s["vert"] != m["vert"] or s["diag"] != m["diag"]:
            # is it exactly the binary32 comparison? (known finding class)
            E = np.array(m["E"], dtype=float)
            with np.errstate(invalid="ignore"):
                D = np.abs(E[:, None, :] - E[None, :, :])
                D = np.where(np.isnan(D), -np.inf, D).max(axis=2)
            R32 = (D.astype(np.float32) < np.float32(c["thr"])).astype(int)
            r32, d32 = cells(R32.tolist(), M, mv, True)
            f32 = (recount(r32, n) == s["vert"]
                   and [2 * v for v in recount(d32, n)] == s["diag"])
            ctx.violation(
                "sparse_rqa histograms != matrix-mode histograms",
                "sequential mode differs",
                dict(key, seq=[s["vert"], s["diag"]],
                     mat=[m["vert"], m["diag"]]),
                {"cause": "binary32-comparison" if f32 else "other"})
    # scalar measures = stated functions of the histograms
    for tag, h, lm, names in (
            ("diag", m["diag"], c["lmin"], ("DET", "L", "ENTR", "Lmax")),
            ("vert", m["vert"], c["vmin"], ("LAM", "TT", "VENTR", "Vmax")),
            ("white", m["white"], c["wmin"], (None, "MRT", "WENTR", "Wmax"))):
        want = formulas(h, lm, n)
        for nm, wv in zip(names, want):
            if nm is None:
                continue
            gv = m[nm]
            if not (abs(gv - wv) <= 1e-9 * (1 + abs(wv))):
                ctx.violation(f"{nm} != stated function of the histogram",
                              tag, dict(key, got=gv, want=wv))
    # rqa_summary and the alias methods report the same numbers
    for mode, rr in (("mat", m), ("seq", s)):
        if has_unmasked_nan(c, r) and mode == "seq":
            continue
        dd = formulas(rr["diag"], c["lmin"], n)
        vv = formulas(rr["vert"], c["vmin"], n)
        want = [rr["RR"], dd[0], dd[1], vv[0]]
        for nm, gv, wv in zip(("RR", "DET", "L", "LAM"), rr["summary"], want):
            if not (abs(gv - wv) <= 1e-9 * (1 + abs(wv))):
                ctx.violation("rqa_summary != scalar RQA definitions",
                              f"{mode} {nm}", dict(key, got=gv, want=wv))
        if not abs(rr["TT_alias"] - vv[1]) <= 1e-9 * (1 + abs(vv[1])):
            ctx.violation("trapping_time != average vertical line length",
                          mode, dict(key, got=rr["TT_alias"], want=vv[1]))
    if not mv:
        blk = sum(sum(row) for row in R)
        if abs(m["RR"] - blk / n ** 2) > 1e-12:
            ctx.violation("recurrence_rate != black / n^2", "matrix mode",
                          dict(key, got=m["RR"], want=blk / n ** 2))
    ww = formulas(m["white"], c["wmin"], n)
    if not abs(m["MRT_alias"] - ww[1]) <= 1e-9 * (1 + abs(ww[1])):
        ctx.violation("mean_recurrence_time != average white line length",
                      "matrix mode", dict(key, got=m["MRT_alias"], want=ww[1]))
    ctx.stat("n=%d" % min(n, 13) if n < 13 else "n>=13")
    ctx.stat("kind=" + c["kind"].split("-")[0])
    ctx.stat("missing_values=" + str(mv))
    ctx.sample(key)


def search(ctx):
    ctx.stats["rule"] = (
        "cases: every symmetric 0/1 matrix with unit diagonal up to 4x4 "
        "(quick) / 5x5 (thorough) reached through crafted series, plus random "
        "integer / dyadic / plateau / near-binary32-threshold series with and "
        "without NaN; non-trivial = n > 1 and at least one vertical line; "
        "distinct by hash of (series, threshold, flags, minima)")
    if ctx.scale == 1 and hasattr(ctx, "_c08"):
        cases, results = ctx._c08
    else:
        cases = gen_cases(ctx)
        results = []
        for c in cases:
            try:
                results.append(run_impl(c))
            except Exception as e:
                results.append({"error": f"{type(e).__name__}: {e}"})
    for c, r in zip(cases, results):
        check_case(ctx, c, r)


def replay(ctx, rep):
    c = rep["case"]
    c = {k: c[k] for k in ("x", "thr", "mv", "lmin", "vmin", "wmin")}
    c["kind"] = "replay"
    try:
        r = run_impl(c)
    except Exception as e:
        r = {"error": f"{type(e).__name__}: {e}"}
    check_case(ctx, c, r)
