"""C02 — node-splitting invariance of all n.s.i. measures."""
import math

import numpy as np

import graphs
import nsi
from common import qlit, listlit

MODELLED = [
    "Network.splitted_copy", "Network.sp_Aplus / sp_diag_w",
    "Network.nsi_degree / nsi_indegree / nsi_outdegree / nsi_bildegree "
    "(plain, keyed, typical_weight)",
    "Network.nsi_average_neighbors_degree / nsi_max_neighbors_degree",
    "Network.nsi_local_clustering (both branches) / nsi_global_clustering / "
    "nsi_transitivity / nsi_local_soffer_clustering / nsi_twinness",
    "Network.nsi_local_{cycle,mid,in,out}motif_clustering (plain, keyed, "
    "typical_weight) incl. _motif_clustering_helper",
    "Network.nsi_average_path_length / nsi_closeness / nsi_harmonic_closeness "
    "/ nsi_exponential_closeness / nsi_global_efficiency (distances = bounded "
    "reachability over A+)",
    "InteractingNetworks.nsi_cross_degree / nsi_cross_mean_degree / "
    "nsi_internal_degree / nsi_cross_edge_density / nsi_cross_local_clustering "
    "/ nsi_cross_global_clustering / nsi_cross_transitivity / "
    "nsi_cross_closeness_centrality / nsi_cross_average_path_length "
    "(+ kernels _nsi_cross_transitivity, _nsi_cross_local_clustering)",
]

HEADER = """From Coq Require Import QArith Qcanon List Bool Arith.
From PV.Base Require Import Sums.
From PV.Model Require Import NsiLang Split Measures GraphCheck.
Import ListNotations.
"""


TRANSLATORS = [('py_nsi_terms', 'NsiTerms')]


def theorems(ctx):
    ctx.modelled += MODELLED
    ctx.generate(TRANSLATORS)
    ctx.theorems()
    if ctx.tier == "thorough":
        ctx.coqchk()


# --------------------------------------------------------------------------

def gen_graphs(ctx):
    """(A, w, directed, tag)"""
    rng = ctx.rng
    out = []
    nmax_ex = 4 if ctx.tier == "thorough" else 3
    for n in range(2, nmax_ex + 1):   # N = 1 cannot be constructed (C05)
        for A in graphs.all_graphs(n, False):
            out.append((A, graphs.weights(rng, n), False, f"all-und-{n}"))
    for n in range(2, (3 if ctx.tier == "thorough" else 2) + 1):
        for A in graphs.all_graphs(n, True):
            out.append((A, graphs.weights(rng, n), True, f"all-dir-{n}"))
    for _ in range(ctx.n(20, 150)):
        n = rng.randint(4, 7)
        d = rng.random() < 0.4
        A = graphs.random_graph(rng, n, rng.random(), d)
        out.append((A, graphs.weights(rng, n), d, "random"))
    for _ in range(ctx.n(8, 40)):
        n = rng.randint(2, 7)
        A, kind = graphs.family(rng, n)
        out.append((A, graphs.weights(rng, n), False, kind))
    return out


def finite(x):
    a = np.asarray(x, dtype=float)
    return bool(np.all(np.isfinite(a)))


def attrs_for(rng, A, directed):
    return {"lw": graphs.attr_matrix(rng, A, symmetric=not directed),
            "cube": graphs.attr_matrix(rng, A, symmetric=not directed,
                                       cubes=True)}


def correspondence(ctx):
    cat = nsi.catalogue()
    ccat = nsi.cross_catalogue()
    node_terms, pair_terms, glob_terms, nodes_terms, split_terms = \
        [], [], [], [], []
    meta = {"node": [], "pair": [], "global": [], "nodes1": [], "split": []}
    gs = gen_graphs(ctx)
    ctx._graphs = gs
    from pyunicorn.core.interacting_networks import InteractingNetworks
    for A, w, directed, tag in gs:
        n = len(A)
        at = attrs_for(ctx.rng, A, directed)
        net = nsi.build_net(A, w, directed, at)
        # the model's attribute 1 is the cube root of "cube"
        has_links = int(np.asarray(A).sum()) > 0
        if has_links:
            cube_root = np.cbrt(net.link_attribute("cube"))
            raw = graphs.raw_lit(A, w, [net.link_attribute("lw"), cube_root])
        else:       # igraph keeps no edge attribute on an edgeless graph
            raw = graphs.raw_lit(A, w, [])
        conn = graphs.connected(A)
        for name, m in cat.items():
            if not m["when"](directed):
                continue
            if name.endswith("_key") and not has_links:
                continue
            try:
                val = m["call"](net)
            except (NotImplementedError, AssertionError):
                continue
            except Exception as e:
                ctx.corr(f"Network.{name} raises", _g(A, w, directed),
                         f"{type(e).__name__}: {e}")
                continue
            if not finite(val):
                ctx.stat("skipped_nonfinite_" + name)
                continue
            term = m["term"](n, directed)
            if m["kind"] == "node":
                node_terms.append(f"({raw}, {term}, {graphs.vec_q(val)})")
                meta["node"].append((name, A, w, directed, val))
            elif m["kind"] == "pair":
                pair_terms.append(f"({raw}, {term}, {graphs.mat_q(val)})")
                meta["pair"].append((name, A, w, directed, val))
            else:
                glob_terms.append(f"({raw}, {term}, {qlit(float(val))})")
                meta["global"].append((name, A, w, directed, val))
        # splitted_copy itself
        if n >= 1 and has_links:
            v = ctx.rng.randrange(n)
            p = ctx.rng.choice([0.125, 0.25, 0.5, 0.75])
            sp = net.splitted_copy(node=v, proportion=p)
            A2 = (sp.adjacency != 0).astype(int)
            split_terms.append(
                f"({raw}, {v}%nat, {qlit(p)}, {graphs.mat_bool(A2)}, "
                f"{graphs.vec_q(sp.node_weights)}, "
                f"{listlit([graphs.mat_q(sp.link_attribute('lw'))])})")
            meta["split"].append((A, w, directed, v, p))
        # interacting networks: random ordered pair of disjoint groups
        if not directed and n >= 2:
            perm = list(range(n))
            ctx.rng.shuffle(perm)
            k1 = ctx.rng.randint(1, n - 1)
            k2 = ctx.rng.randint(1, n - k1)
            l1, l2 = perm[:k1], perm[k1:k1 + k2]
            inet = nsi.build_net(A, w, False, cls=InteractingNetworks)
            rawg = graphs.raw_lit(A, w, [], [l1, l2])
            for name, m in ccat.items():
                if m["connected_only"] and not conn:
                    continue
                try:
                    val = m["call"](inet, l1, l2)
                except ZeroDivisionError:
                    ctx.stat("undefined_0_over_0_" + name)
                    continue
                except Exception as e:
                    ctx.corr(f"InteractingNetworks.{name} raises",
                             _g(A, w, False, l1, l2),
                             f"{type(e).__name__}: {e}")
                    continue
                if not finite(val):
                    ctx.stat("skipped_nonfinite_" + name)
                    continue
                term = m["term"](n)
                if m["kind"] == "nodes1":
                    nodes_terms.append(
                        f"({rawg}, {term}, "
                        f"{listlit([str(i) + '%nat' for i in l1])}, "
                        f"{graphs.vec_q(val)})")
                    meta["nodes1"].append((name, A, w, l1, l2, val))
                else:
                    glob_terms.append(f"({rawg}, {term}, {qlit(float(val))})")
                    meta["global"].append((name, A, w, (l1, l2), val))
    for kind, terms, fn in (("node", node_terms, "check_node"),
                            ("pair", pair_terms, "check_pair"),
                            ("global", glob_terms, "check_global"),
                            ("nodes1", nodes_terms, "check_nodes_of"),
                            ("split", split_terms, "check_split")):
        fails = ctx.coq_failing("c02_" + kind, HEADER, terms, fn, chunk=150)
        for i in fails or []:
            mm = meta[kind][i]
            ctx.corr(f"model term != implementation ({kind})",
                     _short(mm), None)
        ctx.traces += len(terms)
        ctx.stats["c_" + kind] = len(terms)


def _g(A, w, directed, l1=None, l2=None):
    d = {"A": np.asarray(A).tolist(), "w": list(w), "directed": directed}
    if l1 is not None:
        d["l1"], d["l2"] = list(l1), list(l2)
    return d


def _short(mm):
    out = []
    for x in mm:
        if isinstance(x, np.ndarray):
            out.append(x.tolist())
        else:
            out.append(x)
    return out


# --------------------------------------------------------------------------
# P: measure(net) vs measure(net.splitted_copy(v, p)) on the implementation
# --------------------------------------------------------------------------

def same(a, b, rtol=1e-8):
    a, b = np.asarray(a, float), np.asarray(b, float)
    if a.shape != b.shape:
        return False
    with np.errstate(invalid="ignore"):          # inf - inf
        return bool(np.all((np.abs(a - b) <= rtol * (1 + np.abs(b)))
                           | (np.isnan(a) & np.isnan(b))
                           | ((a == b))))


def compare_split(kind, before, after, n, v):
    """property relation: global equal; per node equal on untouched nodes and
    both twins carry v's value; pairwise equal on all pairs mapped by orig."""
    orig = list(range(n)) + [v]
    if kind == "global":
        return same(after, before)
    if kind == "node":
        b = np.asarray(before, float)
        return same(after, b[orig])
    if kind == "pair":
        b = np.asarray(before, float)
        return same(after, b[np.ix_(orig, orig)])
    raise ValueError(kind)


def check_graph(ctx, A, w, directed, tag, vs=None, ps=(0.25, 0.5)):
    from pyunicorn.core.interacting_networks import InteractingNetworks
    n = len(A)
    cat = dict(nsi.catalogue())
    cat.update(nsi.extra_catalogue())
    at = attrs_for(ctx.rng, A, directed)
    net = nsi.build_net(A, w, directed, at)
    conn = graphs.connected(A)
    key = _g(A, w, directed)
    ctx.count(key, nontrivial=n >= 2 and A.sum() > 0)
    ctx.stat("n=%d" % n)
    ctx.stat("directed=%s" % directed)
    ctx.stat("connected=%s" % conn)
    vlist = vs if vs is not None else range(n)
    for v in vlist:
        for p in ps:
            s1 = net.splitted_copy(node=v, proportion=p)
            v2 = ctx.rng.randrange(n + 1)
            s2 = s1.splitted_copy(node=v2, proportion=0.5)   # iterated
            for name, m in cat.items():
                if not m["when"](directed):
                    continue
                if m.get("connected_only") and not conn:
                    continue
                if name.endswith("_key") and not A.sum():
                    continue     # no link, no link attribute
                try:
                    b = m["call"](net)
                except Exception:
                    ctx.stat("undefined_on_base_" + name)
                    continue
                try:
                    a1 = m["call"](s1)
                    a2 = m["call"](s2)
                except Exception as e:
                    ctx.violation(f"Network.{name}", "raises on a split copy",
                                  dict(key, v=v, p=p,
                                       err=f"{type(e).__name__}: {e}"),
                                  {"kind": "exception"})
                    continue
                if not compare_split(m["kind"], b, a1, n, v):
                    ctx.violation(f"Network.{name}",
                                  "value changes under node splitting",
                                  dict(key, v=v, p=p,
                                       before=np.asarray(b).tolist(),
                                       after=np.asarray(a1).tolist()),
                                  {"connected": conn})
                elif not compare_split(m["kind"], a1, a2, n + 1, v2):
                    ctx.violation(f"Network.{name}",
                                  "value changes under a second split",
                                  dict(key, v=v, p=p, v2=v2),
                                  {"connected": conn})
    # two-group variants: the twin joins v's group
    if not directed and n >= 2:
        ccat = nsi.cross_catalogue()
        perm = list(range(n))
        ctx.rng.shuffle(perm)
        k1 = ctx.rng.randint(1, n - 1)
        l1, l2 = perm[:k1], perm[k1:]
        inet = nsi.build_net(A, w, False, cls=InteractingNetworks)
        D = inet.path_lengths()
        cross_conn = bool(np.all(np.isfinite(D[np.ix_(l1, l2)])))
        int_conn = bool(np.all(np.isfinite(D[np.ix_(l1, l1)])))
        for v in vlist:
            p = ps[0]
            sp = inet.splitted_copy(node=v, proportion=p)
            snet = nsi.build_net((sp.adjacency != 0).astype(int),
                                 sp.node_weights, False,
                                 cls=InteractingNetworks)
            m1 = l1 + [n] if v in l1 else list(l1)
            m2 = l2 + [n] if v in l2 else list(l2)
            calls = {k: (m["kind"], m["call"]) for k, m in ccat.items()}
            calls["nsi_internal_degree"] = (
                "nodes1", lambda net, a, b: net.nsi_internal_degree(a))
            calls["nsi_internal_local_clustering"] = (
                "nodes1", lambda net, a, b: net.nsi_internal_local_clustering(a))
            calls["nsi_internal_closeness_centrality"] = (
                "nodes1",
                lambda net, a, b: net.nsi_internal_closeness_centrality(a))
            for name, (kind, call) in calls.items():
                try:
                    b = call(inet, l1, l2)
                except Exception:
                    ctx.stat("undefined_on_base_" + name)
                    continue
                try:
                    a = call(snet, m1, m2)
                except Exception as e:
                    ctx.violation(f"InteractingNetworks.{name}", "raises",
                                  dict(key, l1=l1, l2=l2, v=v,
                                       err=f"{type(e).__name__}: {e}"),
                                  {"kind": "exception"})
                    continue
                if kind == "global":
                    ok = same(a, b)
                else:
                    bb = np.asarray(b, float)
                    idx = list(range(len(l1))) + (
                        [l1.index(v)] if v in l1 else [])
                    ok = same(a, bb[idx])
                if not ok:
                    unconn = (not int_conn) if "internal" in name \
                        else (not cross_conn)
                    ctx.violation(
                        f"InteractingNetworks.{name}",
                        "value changes under node splitting",
                        dict(key, l1=l1, l2=l2, v=v, p=p,
                             before=np.asarray(b).tolist(),
                             after=np.asarray(a).tolist()),
                        {"unconnected_pairs": unconn})
    ctx.sample(key)


def search(ctx):
    ctx.stats["rule"] = (
        "graphs: all labelled undirected graphs on <=3 (quick) / <=4 "
        "(thorough) nodes, all directed on <=2 / <=3, random G(n,p) n=4..7 "
        "both kinds, structured families; dyadic weights k/8; every node "
        "split with p in {1/4,1/2}, followed by a second random split; "
        "non-trivial = at least 2 nodes and one link; distinct by hash of "
        "(A, w, directed)")
    gs = getattr(ctx, "_graphs", None)
    if gs is None or ctx.scale > 1:
        gs = gen_graphs(ctx)
    for A, w, directed, tag in gs:
        n = len(A)
        vs = None if n <= 4 else [ctx.rng.randrange(n) for _ in range(2)]
        check_graph(ctx, A, w, directed, tag, vs=vs)


def replay(ctx, rep):
    c = rep["case"]
    A = np.array(c["A"])
    check_graph(ctx, A, c["w"], c["directed"], "replay")
