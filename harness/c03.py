"""C03 — network measures equal their published definitions."""
import itertools
import math
import warnings

import numpy as np

import graphs
from common import qlit, blit, listlit

TRANSLATORS = [("types_widths", "Widths")]
MODELLED = [
    "textbook definitions of degree, number of links, local / global "
    "clustering, transitivity, average neighbours degree and shortest path "
    "lengths (Model/GraphDefs.v)",
    "core/_ext/types.py + types.pxd (element widths), to_cy casts",
    "core/_ext/numerics.pyx: _local_cliquishness_4thorder / _5thorder",
    "unit-weight relation nsi_degree = degree + 1",
]

HEADER = """From Coq Require Import ZArith QArith Qabs List Bool Arith.
From PV.Model Require Import Defs.
Import ListNotations.
Definition close (m x : Q) : bool := Qle_bool (Qabs (m - x)) (1 # 1000000000)%Q.
Fixpoint all2 {A B} (f : A -> B -> bool) (l : list A) (l' : list B) : bool :=
  match l, l' with [], [] => true | a :: l, b :: l' => f a b && all2 f l l' | _, _ => false end.
Definition check_cliq (c : list (list bool) * nat * list Q) : bool :=
  let '(A, order, xs) := c in
  let n := length A in
  all2 close (map (cliquishness n (mfun A) order) (seq 0 n)) xs.
"""


HEADER2 = """From Coq Require Import ZArith QArith List Bool Arith.
From PV.Model Require Import GraphDefs.
Import ListNotations.
"""


def theorems(ctx):
    ctx.modelled += MODELLED
    ctx.generate(TRANSLATORS)
    ctx.theorems()
    if ctx.tier == "thorough":
        ctx.coqchk()


def gen(ctx):
    rng = ctx.rng
    gs = []
    top = 5 if ctx.tier == "thorough" else 4
    for n in range(2, top + 1):
        allg = list(graphs.all_graphs(n, False))
        if n == 5:
            allg = rng.sample(allg, 300)
        for A in allg:
            gs.append((A, False, f"all-und-{n}"))
    for n in range(2, (4 if ctx.tier == "thorough" else 3) + 1):
        allg = list(graphs.all_graphs(n, True))
        if n == 4:
            allg = rng.sample(allg, 300)
        for A in allg:
            gs.append((A, True, f"all-dir-{n}"))
    for _ in range(ctx.n(30, 250)):
        n = rng.randint(6, 14)
        d = rng.random() < 0.3
        gs.append((graphs.random_graph(rng, n, rng.random(), d), d, "random"))
    for _ in range(ctx.n(12, 60)):
        n = rng.randint(4, 10)
        A, kind = graphs.family(rng, n)
        gs.append((A, False, kind))
    return gs


def bm(A):
    return listlit([listlit([blit(bool(v)) for v in r]) for r in A])


def correspondence(ctx):
    from pyunicorn.core.network import Network
    gs = gen(ctx)
    ctx._gs = gs
    terms, meta = [], []
    with warnings.catch_warnings():
        warnings.simplefilter("ignore")
        for A, d, tag in gs:
            if d or len(A) > 9:
                continue
            net = Network(adjacency=A, silence_level=3)
            for order in (4, 5):
                val = net.local_cliquishness(order)
                terms.append(f"({bm(A)}, {order}%nat, "
                             f"{listlit([qlit(float(v)) for v in val])})")
                meta.append({"A": np.asarray(A).tolist(), "order": order})
    fails = ctx.coq_failing("c03_cliq", HEADER, terms, "check_cliq", chunk=200)
    for i in fails or []:
        ctx.corr("cliquishness model != implementation", meta[i], None)
    ctx.traces += len(terms)
    ctx.stats["c_cliquishness"] = len(terms)
    # the textbook definitions of Model/GraphDefs.v, evaluated inside Coq
    terms, meta = [], []
    with warnings.catch_warnings():
        warnings.simplefilter("ignore")
        for A, d, tag in gs:
            if d or len(A) > 7:
                continue
            net = Network(adjacency=A, silence_level=3)
            try:
                pl = np.asarray(net.path_lengths(), float)
                row = lambda v: listlit([qlit(float(x)) for x in v])
                terms.append(
                    "(" + ", ".join([
                        bm(A),
                        listlit([f"{int(x)}%nat" for x in net.degree()]),
                        f"{int(net.n_links)}%nat",
                        row(net.local_clustering()),
                        qlit(float(net.global_clustering())),
                        # 0/0 (no connected triple): the library reports
                        # NaN, the model 0 by convention
                        qlit(float(np.nan_to_num(net.transitivity()))),
                        row(net.average_neighbors_degree()),
                        listlit([listlit([f"({-1 if np.isinf(x) else int(x)})%Z"
                                          for x in r]) for r in pl])]) + ")")
                meta.append({"A": np.asarray(A).tolist()})
            except Exception as e:
                ctx.corr("basic measure raises", {"A": np.asarray(A).tolist(),
                                                  "err": str(e)}, None)
    fails = ctx.coq_failing("c03_basic", HEADER2, terms, "check_basic",
                            chunk=100)
    for i in fails or []:
        ctx.corr("textbook definition (degree, links, clustering, "
                 "transitivity, neighbour degree, path lengths) != "
                 "implementation", meta[i], None)
    ctx.traces += len(terms)
    ctx.stats["c_basic_measures"] = len(terms)


# --------------------------------------------------------------------------
# definitions
# --------------------------------------------------------------------------

def bfs_dist(A):
    n = len(A)
    D = np.full((n, n), np.inf)
    for s in range(n):
        D[s, s] = 0
        frontier, d = [s], 0
        while frontier:
            d += 1
            nxt = []
            for u in frontier:
                for v in range(n):
                    if A[u, v] and D[s, v] == np.inf:
                        D[s, v] = d
                        nxt.append(v)
            frontier = nxt
    return D


def n_shortest(A, D):
    """sigma[s, t] = number of shortest paths"""
    n = len(A)
    S = np.zeros((n, n))
    for s in range(n):
        order = np.argsort(D[s])
        S[s, s] = 1
        for v in order:
            if not np.isfinite(D[s, v]) or v == s:
                continue
            S[s, v] = sum(S[s, u] for u in range(n)
                          if A[u, v] and D[s, u] + 1 == D[s, v])
    return S


def betweenness_def(A, D, S, directed, sources=None, targets=None):
    n = len(A)
    B = np.zeros(n)
    srcs = range(n) if sources is None else sources
    tgts = range(n) if targets is None else targets
    for s in srcs:
        for t in tgts:
            if s == t or not np.isfinite(D[s, t]):
                continue
            for v in range(n):
                if v in (s, t):
                    continue
                if D[s, v] + D[v, t] == D[s, t]:
                    B[v] += S[s, v] * S[v, t] / S[s, t]
    return B


def cliques_through(A, i, order):
    nb = [j for j in range(len(A)) if A[i, j]]
    k = order - 1
    c = 0
    for sub in itertools.combinations(nb, k):
        if all(A[a, b] for a, b in itertools.combinations(sub, 2)):
            c += 1
    d = len(nb)
    if d < k:
        return 0.0
    return c / math.comb(d, k)


def definitions(A, directed):
    n = len(A)
    A = np.asarray(A)
    U = ((A + A.T) > 0).astype(int)
    out = {}
    kin, kout = A.sum(axis=0), A.sum(axis=1)
    out["indegree"], out["outdegree"] = kin, kout
    out["degree"] = kin + kout if directed else kout
    out["bildegree"] = (A * A.T).sum(axis=1)
    out["laplacian"] = np.diag(kout if directed else out["degree"]) - A
    if not directed:
        k = out["degree"]
        # clustering: triangles / pairs of neighbours
        tri = np.diag(A @ A @ A) / 2.0
        pairs = k * (k - 1) / 2.0
        lc = np.where(pairs > 0, tri / np.where(pairs > 0, pairs, 1), 0.0)
        out["local_clustering"] = lc
        out["global_clustering"] = lc.mean()
        out["transitivity"] = (tri.sum() / pairs.sum()) if pairs.sum() else \
            float("nan")
        for order in (3, 4, 5):
            out[f"local_cliquishness({order})"] = np.array(
                [cliques_through(A, i, order) for i in range(n)])
        C = A @ A
        kk = k[:, None] + k[None, :]
        with np.errstate(invalid="ignore", divide="ignore"):
            out["matching_index"] = C / (kk - C)
        with np.errstate(invalid="ignore", divide="ignore"):
            out["average_neighbors_degree"] = np.where(
                k > 0, (A @ k) / np.where(k > 0, k, 1), 0.0)
        out["max_neighbors_degree"] = (A * k[None, :]).max(axis=1)
        m = A.sum() / 2.0
        if m > 0:
            e = [(i, j) for i in range(n) for j in range(n) if A[i, j]]
            x = np.array([k[i] for i, j in e], float)
            y = np.array([k[j] for i, j in e], float)
            if x.std() > 0:
                out["assortativity"] = float(np.corrcoef(x, y)[0, 1])
        # coreness by peeling
        core = np.zeros(n, int)
        alive = np.ones(n, bool)
        kcur = 0
        deg = k.copy()
        while alive.any():
            kcur = max(kcur, deg[alive].min())
            changed = True
            while changed:
                changed = False
                for v in range(n):
                    if alive[v] and deg[v] <= kcur:
                        alive[v] = False
                        core[v] = kcur
                        for u in range(n):
                            if A[v, u] and alive[u]:
                                deg[u] -= 1
                        changed = True
        out["coreness"] = core
    else:
        # motif clusterings: number of motif instances / candidate pairs
        Af = A.astype(float)
        bil = out["bildegree"]
        with np.errstate(invalid="ignore", divide="ignore"):
            T = kin * kout - bil
            out["local_cyclemotif_clustering"] = np.where(
                T > 0, np.diag(Af @ Af @ Af) / np.where(T > 0, T, 1), 0.0)
            out["local_midmotif_clustering"] = np.where(
                T > 0, np.diag(Af @ Af.T @ Af) / np.where(T > 0, T, 1), 0.0)
            Ti = kin * (kin - 1)
            out["local_inmotif_clustering"] = np.where(
                Ti > 0, np.diag(Af.T @ Af @ Af) / np.where(Ti > 0, Ti, 1), 0.0)
            To = kout * (kout - 1)
            out["local_outmotif_clustering"] = np.where(
                To > 0, np.diag(Af @ Af @ Af.T) / np.where(To > 0, To, 1), 0.0)
    D = bfs_dist(A)
    out["path_lengths"] = D
    off = ~np.eye(n, dtype=bool)
    fin = np.isfinite(D) & off
    if fin.any():
        out["average_path_length"] = D[fin].sum() / fin.sum()
    with np.errstate(divide="ignore"):
        inv = np.where(off, 1.0 / np.where(off, D, 1), 0.0)
    out["global_efficiency"] = inv.sum() / float(n * (n - 1))
    # vulnerability: relative drop of the efficiency when the node is removed
    # (efficiency of the remaining n - 1 nodes, isolated nodes included)
    E = out["global_efficiency"]
    if n >= 3 and E > 0:
        V = np.zeros(n)
        for i in range(n):
            keep = [k for k in range(n) if k != i]
            Di = bfs_dist(A[np.ix_(keep, keep)])
            offi = ~np.eye(n - 1, dtype=bool)
            with np.errstate(divide="ignore"):
                invi = np.where(offi, 1.0 / np.where(offi, Di, 1), 0.0)
            V[i] = (E - invi.sum() / float((n - 1) * (n - 2))) / E
        out["local_vulnerability"] = V
    if not directed:
        # closeness over the reachable nodes (igraph's definition)
        cl = np.full(n, np.nan)
        for i in range(n):
            r = np.isfinite(D[i]) & (np.arange(n) != i)
            if r.any():
                cl[i] = r.sum() / D[i][r].sum()
        out["closeness"] = cl
        S = n_shortest(A, D)
        B = betweenness_def(A, D, S, False) / 2.0
        out["betweenness"] = B
        comp_diam = D[np.isfinite(D)].max()
        out["diameter"] = comp_diam
    return out


IMPL = {
    "indegree": lambda n: n.indegree(), "outdegree": lambda n: n.outdegree(),
    "degree": lambda n: n.degree(), "bildegree": lambda n: n.bildegree(),
    "laplacian": lambda n: n.laplacian(),
    "local_clustering": lambda n: n.local_clustering(),
    "global_clustering": lambda n: n.global_clustering(),
    "transitivity": lambda n: n.transitivity(),
    "local_cliquishness(3)": lambda n: n.local_cliquishness(3),
    "local_cliquishness(4)": lambda n: n.local_cliquishness(4),
    "local_cliquishness(5)": lambda n: n.local_cliquishness(5),
    "matching_index": lambda n: n.matching_index(),
    "average_neighbors_degree": lambda n: n.average_neighbors_degree(),
    "max_neighbors_degree": lambda n: n.max_neighbors_degree(),
    "assortativity": lambda n: n.assortativity(),
    "coreness": lambda n: n.coreness(),
    "local_cyclemotif_clustering":
        lambda n: n.local_cyclemotif_clustering(),
    "local_midmotif_clustering": lambda n: n.local_midmotif_clustering(),
    "local_inmotif_clustering": lambda n: n.local_inmotif_clustering(),
    "local_outmotif_clustering": lambda n: n.local_outmotif_clustering(),
    "path_lengths": lambda n: n.path_lengths(),
    "average_path_length": lambda n: n.average_path_length(),
    "global_efficiency": lambda n: n.global_efficiency(),
    "local_vulnerability": lambda n: n.local_vulnerability(),
    "closeness": lambda n: n.closeness(),
    "betweenness": lambda n: n.betweenness(),
    "diameter": lambda n: n.diameter(),
}


def same(a, b, rtol=1e-9):
    a, b = np.asarray(a, float), np.asarray(b, float)
    if a.shape != b.shape:
        return False
    with np.errstate(invalid="ignore"):
        return bool(np.all((np.abs(a - b) <= rtol * (1 + np.abs(b)))
                           | (np.isnan(a) & np.isnan(b)) | (a == b)))


def check_graph(ctx, A, directed, tag):
    from pyunicorn.core.network import Network
    A = np.asarray(A)
    n = len(A)
    key = {"A": A.tolist(), "directed": directed}
    ctx.count(key, nontrivial=A.sum() > 0)
    ctx.stat("kind=" + tag.split("-")[0])
    ctx.stat("directed=%s" % directed)
    isolated = bool(((A + A.T).sum(axis=1) == 0).any())
    conn = graphs.connected(A)
    with warnings.catch_warnings():
        warnings.simplefilter("ignore")
        net = Network(adjacency=A, directed=directed, silence_level=3)
        want = definitions(A, directed)
        for name, w in want.items():
            if isinstance(w, float) and math.isnan(w):
                continue
            try:
                got = IMPL[name](net)
            except Exception as e:
                ctx.violation(f"Network.{name}", "raises",
                              dict(key, err=f"{type(e).__name__}: {e}"),
                              {"kind": "exception", "isolated_nodes": isolated,
                               "directed": directed})
                continue
            if hasattr(got, "toarray"):
                got = got.toarray()
            if name == "closeness":      # NaN of isolated nodes: abs(nan)
                got = np.asarray(got, float)
            if not same(got, w):
                ctx.violation(
                    f"Network.{name}", "differs from its definition",
                    dict(key, got=np.asarray(got, float).tolist(),
                         want=np.asarray(w, float).tolist()),
                    {"isolated_nodes": isolated, "directed": directed,
                     "connected": conn})
        # unit-weight relations of n.s.i. measures
        if not directed:
            rel = [("nsi_degree", net.nsi_degree(), want["degree"] + 1)]
            k = want["degree"]
            if (k > 1).all():
                lc = want["local_clustering"]
                # corrected clustering at typical weight 1 = plain clustering
                rel.append(("nsi_local_clustering(typical_weight=1)",
                            net.nsi_local_clustering(typical_weight=1.0), lc))
            for nm, g, w in rel:
                if not same(g, w):
                    ctx.violation(f"Network.{nm}",
                                  "violates its unit-weight relation",
                                  dict(key, got=np.asarray(g).tolist(),
                                       want=np.asarray(w).tolist()), {})
        # shortest-path betweenness restricted to source / target sets (the
        # library's own BFS kernel, not igraph): pair-dependency definition
        if not directed and n >= 2:
            D = np.asarray(want["path_lengths"], float)
            S = n_shortest(A, D)
            picks = [(list(range(n)), list(range(n)))]
            for _ in range(2):
                picks.append((sorted(ctx.rng.sample(range(n),
                                                    ctx.rng.randint(1, n))),
                              sorted(ctx.rng.sample(range(n),
                                                    ctx.rng.randint(1, n)))))
            for src, tgt in picks:
                ref = betweenness_def(A, D, S, False, src, tgt)
                try:
                    got = np.asarray(net.interregional_betweenness(
                        sources=list(src), targets=list(tgt)), float)
                except Exception as e:
                    ctx.violation("Network.interregional_betweenness",
                                  "raises", dict(key, sources=src,
                                                 targets=tgt, err=str(e)),
                                  {"kind": "exception"})
                    break
                if not same(got, ref):
                    ctx.violation("Network.interregional_betweenness",
                                  "differs from its definition",
                                  dict(key, sources=src, targets=tgt,
                                       got=got.tolist(), want=ref.tolist()),
                                  {"connected": conn})
                    break
        # spectral measures on connected undirected graphs: defining residuals
        if not directed and conn and n >= 3:
            Af = A.astype(float)
            ec = np.asarray(net.eigenvector_centrality(), float)
            lam = np.linalg.eigvalsh(Af).max()
            if np.linalg.norm(Af @ ec - lam * ec) > 1e-5 * max(1, lam) or \
                    ec.min() < -1e-9 or abs(ec.max() - 1) > 1e-9:
                ctx.violation("Network.eigenvector_centrality",
                              "is not the normalised Perron vector",
                              dict(key, got=ec.tolist(), lam=float(lam)), {})
            L = np.diag(A.sum(axis=1)) - A
            ev = np.sort(np.linalg.eigvalsh(L.astype(float)))
            if ev[1] > 1e-9:
                r = net.msf_synchronizability()
                if not same(r, ev[-1] / ev[1], 1e-6):
                    ctx.violation("Network.msf_synchronizability",
                                  "is not lambda_max / lambda_2",
                                  dict(key, got=float(r),
                                       want=float(ev[-1] / ev[1])), {})
            pr = np.asarray(net.pagerank(), float)
            dmp = 0.85
            P = (Af / Af.sum(axis=1, keepdims=True)).T
            res = np.linalg.norm(pr - ((1 - dmp) / n + dmp * P @ pr))
            if res > 1e-6 or abs(pr.sum() - 1) > 1e-6:
                ctx.violation("Network.pagerank",
                              "does not satisfy the PageRank equation",
                              dict(key, residual=float(res)), {})
            # random-walk betweenness from an independent pseudo-inverse
            Lp = np.linalg.pinv(L.astype(float))
            nb = np.zeros(n)
            for i in range(n):
                tot = 0.0
                for s in range(n):
                    for t in range(s):
                        if i in (s, t):
                            continue
                        cur = 0.0
                        for j in range(n):
                            if A[i, j]:
                                cur += abs((Lp[i, s] - Lp[i, t])
                                           - (Lp[j, s] - Lp[j, t]))
                        tot += 0.5 * cur
                nb[i] = tot
            nb = (nb + (n - 1)) * 2.0 / (n - 1) if False else nb
            got = np.asarray(net.newman_betweenness(), float)
            # documented relation: raw current-flow count + 2(N-1), / (N-1)
            want_nb = (nb * 2 + 2 * (n - 1)) / (n - 1.0)
            if not same(got, want_nb, 1e-6):
                ctx.violation("Network.newman_betweenness",
                              "differs from the random-walk definition",
                              dict(key, got=got.tolist(),
                                   want=want_nb.tolist()), {})
        # several components: random-walk betweenness is defined component
        # by component (each analysed as a network of its own; the reference
        # for connected networks is the check above)
        if not directed and not conn and n >= 3:
            U = A > 0
            comp, seen = [], set()
            for r in range(n):
                if r in seen:
                    continue
                cur, stack = {r}, [r]
                while stack:
                    u = stack.pop()
                    for v in range(n):
                        if U[u, v] and v not in cur:
                            cur.add(v)
                            stack.append(v)
                seen |= cur
                comp.append(sorted(cur))
            want_nb = np.zeros(n)
            for c in comp:
                if len(c) >= 2:
                    sub = Network(adjacency=A[np.ix_(c, c)], silence_level=3)
                    want_nb[c] = np.asarray(sub.newman_betweenness(), float)
            try:
                got = np.asarray(net.newman_betweenness(), float)
                if not same(got, want_nb, 1e-6):
                    ctx.violation("Network.newman_betweenness",
                                  "differs from the betweenness of each "
                                  "component analysed on its own",
                                  dict(key, got=got.tolist(),
                                       want=want_nb.tolist(),
                                       components=comp), {"connected": False})
            except Exception as e:
                ctx.violation("Network.newman_betweenness", "raises",
                              dict(key, err=f"{type(e).__name__}: {e}"),
                              {"kind": "exception", "connected": False})
    ctx.sample({"n": n, "directed": directed, "kind": tag})


def hub_case(ctx):
    """a hub of degree >= 217 inside a 5-clique: int32 denominators"""
    from pyunicorn.core.network import Network
    n = 225
    A = np.zeros((n, n), int)
    A[0, 1:] = A[1:, 0] = 1
    for i in range(1, 6):
        for j in range(1, 6):
            if i != j:
                A[i, j] = 1
    with warnings.catch_warnings():
        warnings.simplefilter("ignore")
        net = Network(adjacency=A, silence_level=3)
        for order, cl, d in ((4, 10, 224), (5, 5, 224)):
            want = cl / math.comb(d, order - 1)
            got = float(net.local_cliquishness(order)[0])
            ctx.evaluations += 1
            if not same(got, want):
                ctx.violation(f"Network.local_cliquishness({order})",
                              "differs from its definition (hub node)",
                              {"hub_degree": d, "got": got, "want": want},
                              {"hub": True})


def search(ctx):
    ctx.stats["rule"] = (
        "graphs: all labelled undirected on 2-4 (quick) / 2-5 sampled "
        "(thorough) nodes, all directed on 2-3 / 2-4 sampled, random G(n,p) "
        "n=6..14 over the whole density range, structured families, a hub of "
        "degree 224 in a clique; 26 measures against direct NumPy / BFS / "
        "brute-force definitions, spectral measures by their defining "
        "equations on connected graphs; non-trivial = at least one link; "
        "distinct by hash of (A, directed)")
    gs = getattr(ctx, "_gs", None)
    if gs is None or ctx.scale > 1:
        gs = gen(ctx)
    for A, d, tag in gs:
        check_graph(ctx, A, d, tag)
    hub_case(ctx)


def replay(ctx, rep):
    c = rep["case"]
    if "A" in c:
        check_graph(ctx, np.array(c["A"]), c.get("directed", False), "replay")
    else:
        hub_case(ctx)
